module verif/harness

go 1.16

require (
	github.com/RoaringBitmap/roaring v0.9.4
	github.com/blevesearch/mmap-go v1.0.4
	github.com/blevesearch/vellum v1.0.7
	github.com/blugelabs/bluge_segment_api v0.2.0
	github.com/blugelabs/ice/v2 v2.0.0
	github.com/klauspost/compress v1.15.2
)

replace github.com/blugelabs/ice/v2 => /repo

replace github.com/blugelabs/bluge_segment_api => ./third_party/bluge_segment_api

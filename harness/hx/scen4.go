package hx

import (
	"fmt"
	"strings"
)

// Scenario families added after the ninth round of seeded changes.

// ChunkEdgeWalk (C05, C13): iterators on the exclusion-free path of a term that every document
// carries, in chunk modes 2-5 (chunk boundaries at known numbers): Next until the last returned
// posting is the last one of its chunk, then Advance to a posting of the next chunk that is not its
// first, then Next; and a term without any posting in chunk 0, advanced into from a fresh iterator.
func (g *Gen) ChunkEdgeWalk() *Case {
	c := &Case{Family: "chunk_edge_walk"}
	r := g.R
	cm := uint32(2 + r.Intn(4))
	n := int(cm)*4 + r.Intn(int(cm))
	var b Batch
	for d := 0; d < n; d++ {
		f := d%5 + 1
		var locs []Loc
		for k := 0; k < f; k++ {
			locs = append(locs, Loc{Pos: k + 1, Start: d + k, End_: d + k + 1})
		}
		terms := []Term{{T: []byte("t"), Freq: f, Locs: locs}}
		if d >= int(cm) { // no posting in chunk 0
			terms = append(terms, Term{T: []byte("late"), Freq: d%3 + 1, Locs: []Loc{{Pos: 1, Start: d, End_: d + 1}}})
		}
		b = append(b, Doc{idField(fmt.Sprintf("w%d", d), true), Field{N: "body", Len: f + 3, Terms: terms}})
	}
	ops := []Op{{Code: OpBuild, CM: cm, Batch: b}}
	flagSets := [][3]bool{{true, true, true}, {true, false, false}, {false, true, false}, {false, false, true}, {true, false, true}}
	k := 0
	for j := 1; j <= 3; j++ {
		for off := 1; off < int(cm); off++ {
			var ios []IterOp
			for i := 0; i < j*int(cm); i++ {
				ios = append(ios, IterOp{})
			}
			ios = append(ios, IterOp{Adv: true, D: uint64(j*int(cm) + off)}, IterOp{}, IterOp{})
			ops = append(ops, Op{Code: OpIter, Slot: 0, F: "body", T: []byte("t"), ExceptNil: true, Except: []uint64{}, Flags: flagSets[k%len(flagSets)], IterOps: ios})
			k++
			ops = append(ops, Op{Code: OpIter, Slot: 0, F: "body", T: []byte("late"), ExceptNil: true, Except: []uint64{}, Flags: flagSets[k%len(flagSets)],
				IterOps: []IterOp{{Adv: true, D: uint64(j*int(cm) + off)}, {}, {Adv: true, D: uint64((j+1)*int(cm) + off)}, {}}})
			k++
		}
	}
	c.Ops = ops
	c.tag("clean_path")
	c.tag("chunk_edge_walk")
	return c
}

// LongFieldName (C01, C04, C11): field names of 127, 128, 129 and 200 bytes; built, merged by the
// merger (whose bytes carry their own footer), reloaded; footer and loader models on every file.
func (g *Gen) LongFieldName() *Case {
	c := &Case{Family: "long_field_name"}
	r := g.R
	names := []string{strings.Repeat("n", 127), strings.Repeat("o", 128), strings.Repeat("p", 129), strings.Repeat("q", 200)}
	mk := func(prefix string, n int) Batch {
		var b Batch
		for d := 0; d < n; d++ {
			doc := Doc{idField(fmt.Sprintf("%s%d", prefix, d), true)}
			for i, nm := range names {
				if (d+i)%2 == 0 {
					doc = append(doc, Field{N: nm, Len: 2, St: i%2 == 0, DV: i == 3, Val: []byte("v" + prefix), Terms: []Term{{T: []byte("x"), Freq: 1, Locs: []Loc{{Pos: 1, Start: 0, End_: 1}}}, {T: []byte(fmt.Sprintf("y%d", d)), Freq: 1}}})
				}
			}
			b = append(b, doc)
		}
		return b
	}
	ops := []Op{{Code: OpBuild, CM: g.ChunkMode(), Batch: mk("a", 2+r.Intn(4))}, {Code: OpBuild, CM: g.ChunkMode(), Batch: mk("b", 2+r.Intn(4))},
		{Code: OpMerge, CM: 1025, Ins: []MergeIn{{Slot: 0, DropsNil: true}, {Slot: 1, Drops: []uint64{0}}}},
		{Code: OpMerge, CM: g.ChunkMode(), Ins: []MergeIn{{Slot: 2, DropsNil: true}}},
		{Code: OpReload, Slot: 2, Kind: r.Intn(2)}}
	for s := 0; s <= 4; s++ {
		ops = append(ops, Op{Code: OpFooter, Slot: s}, Op{Code: OpContainer, Slot: s})
	}
	ops = append(ops, Op{Code: OpObsAll, Slot: 2}, Op{Code: OpObsAll, Slot: 4})
	c.Ops = ops
	c.tag("merge")
	c.tag("merged")
	c.tag("loaded")
	c.tag("long_field_name")
	return c
}

// HugeFreqAssoc (C02, C17): a posting without locations whose frequency is 2^32+1 (or 2^33+1),
// alone in its term, merged flat, in both bracketings and alone: the decision to store a term in
// the dictionary itself (1-hit) depends on the frequency being exactly 1.
func (g *Gen) HugeFreqAssoc() *Case {
	c := &Case{Family: "huge_freq_assoc"}
	r := g.R
	big := []int{1<<32 + 1, 1<<33 + 1, 1 << 32}[r.Intn(3)]
	mk := func(prefix string, n int, withBig bool) Batch {
		var b Batch
		for d := 0; d < n; d++ {
			terms := []Term{{T: []byte("common"), Freq: d + 1}, {T: []byte(prefix + "only"), Freq: 1}}
			if withBig && d == 0 {
				terms = append(terms, Term{T: []byte("big"), Freq: big})
			}
			b = append(b, Doc{idField(fmt.Sprintf("%s%d", prefix, d), true), Field{N: "body", Len: 5, Terms: terms}})
		}
		return b
	}
	cm := g.ChunkMode()
	ops := []Op{{Code: OpBuild, CM: cm, Batch: mk("a", 2, false)}, {Code: OpBuild, CM: cm, Batch: mk("b", 2, true)}, {Code: OpBuild, CM: cm, Batch: mk("c", 2, false)},
		{Code: OpMerge, CM: cm, Ins: []MergeIn{{Slot: 0, DropsNil: true}, {Slot: 1, DropsNil: true}, {Slot: 2, DropsNil: true}}}, // 3 flat
		{Code: OpMerge, CM: cm, Ins: []MergeIn{{Slot: 0, DropsNil: true}, {Slot: 1, DropsNil: true}}},                              // 4 (a b)
		{Code: OpMerge, CM: cm, Ins: []MergeIn{{Slot: 4, DropsNil: true}, {Slot: 2, DropsNil: true}}},                              // 5 (a b) c
		{Code: OpMerge, CM: cm, Ins: []MergeIn{{Slot: 1, DropsNil: true}, {Slot: 2, DropsNil: true}}},                              // 6 (b c)
		{Code: OpMerge, CM: cm, Ins: []MergeIn{{Slot: 0, DropsNil: true}, {Slot: 6, DropsNil: true}}},                              // 7 a (b c)
		{Code: OpMerge, CM: cm, Ins: []MergeIn{{Slot: 1, DropsNil: true}}},                                                          // 8 [b]
		{Code: OpMerge, CM: cm, Ins: []MergeIn{{Slot: 3, DropsNil: true}}},                                                          // 9 [flat]
		{Code: OpObsAll, Slot: 3}, {Code: OpObsAll, Slot: 5}, {Code: OpObsAll, Slot: 7}, {Code: OpObsAll, Slot: 9}, {Code: OpObsAll, Slot: 8}, {Code: OpObsAll, Slot: 1}}
	c.Ops = ops
	c.Equal = [][]int{{10, 11, 12, 13}}
	c.tag("merge")
	c.tag("merged")
	c.tag("several_inputs")
	c.tag("huge_freq")
	return c
}

package hx

import (
	"bytes"
	"encoding/binary"
	"fmt"
	"hash/crc32"
	"io"
	"io/ioutil"
	"math"
	"os"
	"path/filepath"
	"runtime/debug"
	"strings"

	"github.com/RoaringBitmap/roaring"
	segment "github.com/blugelabs/bluge_segment_api"
	ice "github.com/blugelabs/ice/v2"

	refice "verif/harness/refice"
)

// Impl is one implementation of ice (the current /repo or the frozen reference).
type Impl struct {
	Name      string
	New       func(docs []segment.Document, norm func(string, int) float32, cm uint32) (segment.Segment, uint64, error)
	MergeCM   func(segs []segment.Segment, drops []*roaring.Bitmap, w io.Writer, cm uint32, closeCh chan struct{}) ([][]uint64, uint64, error)
	Merger    func(segs []segment.Segment, drops []*roaring.Bitmap, bufSize int) segment.Merger
	Load      func(data *segment.Data) (segment.Segment, error)
	PoolProbe func() bool
	// InterimPostings: the builder's in-memory postings state (verif hook; current implementation only)
	InterimPostings func(docs []segment.Document, norm func(string, int) float32) ([]string, [][]ice.VerifTermPostings, error)
}

// Op codes (must match Run.v).
const (
	OpBuild        = 1
	OpMerge        = 2
	OpReload       = 3
	OpObsAll       = 10
	OpDict         = 11
	OpIter         = 12
	OpStored       = 13
	OpDV           = 14
	OpDocsMatching = 15
	OpStats        = 16
	OpContains     = 17
	OpFooter       = 20
	OpLayout       = 21
	OpContainer    = 22
	OpInterim      = 23
)

const ErrMark = 4294967294

type MergeIn struct {
	Slot     int      `json:"slot"`
	Drops    []uint64 `json:"drops"`
	DropsNil bool     `json:"drops_nil,omitempty"`
	// Via: the deletions are given in the numbering of inputs of an earlier
	// merge and are translated through that merge's DocumentNumbers() when
	// the op runs (C17); the translated numbers replace Drops.
	Via []ViaRef `json:"via,omitempty"`
}

type ViaRef struct {
	MergeSlot int      `json:"merge_slot"`
	Input     int      `json:"input"`
	Orig      []uint64 `json:"orig"`
}

type IterOp struct {
	Adv bool   `json:"adv,omitempty"`
	D   uint64 `json:"d,omitempty"`
}

type FT struct {
	F string `json:"f"`
	T []byte `json:"t"`
}

type Op struct {
	Code  int       `json:"op"`
	CM    uint32    `json:"cm,omitempty"`
	Batch Batch     `json:"batch,omitempty"`
	Ins   []MergeIn `json:"ins,omitempty"`
	Slot  int       `json:"slot"`
	Kind  int       `json:"kind,omitempty"` // reload: 0 memory, 1 file
	F     string    `json:"f,omitempty"`
	T     []byte    `json:"t,omitempty"`
	Lo    []byte    `json:"lo,omitempty"`
	Hi    []byte    `json:"hi,omitempty"`
	Pre   []byte    `json:"pre,omitempty"`
	// iterator
	Except     []uint64 `json:"except,omitempty"`
	ExceptNil  bool     `json:"except_nil,omitempty"`
	Flags      [3]bool  `json:"flags,omitempty"`
	Replace    []uint64 `json:"replace,omitempty"`
	HasReplace bool     `json:"has_replace,omitempty"`
	PLSlot     int      `json:"pl_slot,omitempty"` // 0 fresh, k>0 reuse object k
	ItSlot     int      `json:"it_slot,omitempty"`
	IterOps    []IterOp `json:"iter_ops,omitempty"`
	// stored
	N    uint64 `json:"n,omitempty"`
	Stop int    `json:"stop,omitempty"` // 0: visit everything; k>0: visitor says false on its k-th call
	// doc values
	RdSlot int      `json:"rd_slot,omitempty"`
	Fields []string `json:"fields,omitempty"`
	Visits []uint64 `json:"visits,omitempty"`
	// docs matching
	Terms []FT `json:"terms,omitempty"`
	// footer check: the persisted bytes (filled in when the op runs)
	File []byte `json:"file,omitempty"`
	// layout: which fields have a doc-value section in the real file (filled in when the op runs)
	DVFlags []bool `json:"dv_flags,omitempty"`
	// coder scripts (units.go)
	Script     []COp    `json:"script,omitempty"`
	EnumIns    []EnumIn `json:"enum_ins,omitempty"`
	EnumScript []int    `json:"enum_script,omitempty"`
}

// Encode writes the op in the flat form parsed by Run.v (pop).
func (o *Op) Encode(w *W) {
	w.Num(uint64(o.Code))
	switch o.Code {
	case OpBuild:
		w.Num(uint64(o.CM))
		w.Batch(o.Batch)
	case OpMerge:
		w.Num(uint64(o.CM))
		w.Num(uint64(len(o.Ins)))
		for _, in := range o.Ins {
			w.Num(uint64(in.Slot))
			w.Nums(in.Drops)
		}
	case OpReload:
		w.Num(uint64(o.Slot))
		w.Num(uint64(o.Kind))
	case OpObsAll:
		w.Num(uint64(o.Slot))
	case OpDict:
		w.Num(uint64(o.Slot))
		w.Str(o.F)
		w.OptBytes(o.Lo)
		w.OptBytes(o.Hi)
		w.OptBytes(o.Pre)
	case OpIter:
		w.Num(uint64(o.Slot))
		w.Str(o.F)
		w.Bytes(o.T)
		if o.ExceptNil {
			w.Num(0)
		} else {
			w.Num(1)
			w.Nums(o.Except)
		}
		w.Bool(o.Flags[0])
		w.Bool(o.Flags[1])
		w.Bool(o.Flags[2])
		if o.HasReplace {
			w.Num(1)
			w.Nums(o.Replace)
		} else {
			w.Num(0)
		}
		w.Num(uint64(o.PLSlot))
		w.Num(uint64(o.ItSlot))
		w.Num(uint64(len(o.IterOps)))
		for _, io := range o.IterOps {
			if io.Adv {
				w.Num(1)
				w.Num(io.D)
			} else {
				w.Num(0)
			}
		}
	case OpStored:
		w.Num(uint64(o.Slot))
		w.Num(o.N)
		if o.Stop > 0 {
			w.Num(1)
			w.Num(uint64(o.Stop))
		} else {
			w.Num(0)
		}
	case OpDV:
		w.Num(uint64(o.Slot))
		w.Num(uint64(o.RdSlot))
		w.Num(uint64(len(o.Fields)))
		for _, f := range o.Fields {
			w.Str(f)
		}
		w.Nums(o.Visits)
	case OpDocsMatching:
		w.Num(uint64(o.Slot))
		w.Num(uint64(len(o.Terms)))
		for _, t := range o.Terms {
			w.Str(t.F)
			w.Bytes(t.T)
		}
	case OpStats:
		w.Num(uint64(o.Slot))
		w.Str(o.F)
	case OpContains:
		w.Num(uint64(o.Slot))
		w.Str(o.F)
		w.Bytes(o.T)
	case OpFooter:
		w.Num(uint64(o.Slot))
		w.Bytes(o.File)
	case OpInterim:
		w.Batch(o.Batch)
	case OpUnitInt, OpUnitContent, OpUnitDoc:
		encodeScript(w, o.Script)
	case OpUnitEnum:
		encodeEnum(w, o.EnumIns, o.EnumScript)
	case OpContainer:
		w.Num(uint64(o.Slot))
		w.Bytes(o.File)
	case OpLayout:
		w.Num(uint64(o.Slot))
		w.Num(uint64(len(o.DVFlags)))
		for _, b := range o.DVFlags {
			w.Bool(b)
		}
	default:
		panic("unknown op")
	}
}

func EncodeScenario(ops []Op) W {
	var w W
	w.Num(uint64(len(ops)))
	for i := range ops {
		ops[i].Encode(&w)
	}
	return w
}

// GoCheck is a check made on the Go side only (bytes, counts, CRCs) that the
// flat transcript does not carry.
type GoCheck struct {
	Prop string `json:"prop"`
	What string `json:"what"`
}

// Interp runs scenarios on one implementation.
type Interp struct {
	Impl      *Impl
	TmpDir    string
	Segs      []segment.Segment
	Bytes     [][]byte           // persisted bytes of loaded/merged segments (nil for built)
	Nums      map[int][][]uint64 // DocumentNumbers() of merged slots
	Outs      []W                // per-op outputs of the last scenario
	ndict     int
	owned     []ownedBitmap // bitmaps the scenario handed to ice (exclusions, replaced actual bitmaps)
	persisted map[segment.Segment]bool
	npersist  int
	pls       map[int]segment.PostingsList
	held      map[int]heldList // what the list in each slot answered when it was made
	its       map[int]segment.PostingsIterator
	rds       map[int]segment.DocumentValueReader
	dicts     map[string]segment.Dictionary
	files     []*os.File
	Failed    []GoCheck
	nfile     int
	Touched   map[string]int // coverage counters
}

func NewInterp(impl *Impl, tmp string) *Interp {
	return &Interp{Impl: impl, TmpDir: tmp,
		pls: map[int]segment.PostingsList{}, its: map[int]segment.PostingsIterator{},
		rds: map[int]segment.DocumentValueReader{}, dicts: map[string]segment.Dictionary{},
		Touched: map[string]int{}}
}

func (in *Interp) Close() {
	for _, f := range in.files {
		name := f.Name()
		f.Close()
		os.Remove(name)
	}
	in.files = nil
}

func (in *Interp) fail(prop, format string, a ...interface{}) {
	in.Failed = append(in.Failed, GoCheck{prop, fmt.Sprintf(format, a...)})
}

func bitmapOf(xs []uint64) *roaring.Bitmap {
	bm := roaring.New()
	for _, x := range xs {
		bm.Add(uint32(x))
	}
	return bm
}

// Persist writes a segment with Segment.WriteTo and checks the returned count.
func (in *Interp) Persist(seg segment.Segment) ([]byte, error) {
	// every other segment meets a destination that fails inside the data section on its very
	// first persist; the retry below must not be affected by the failed attempt
	if in.persisted == nil {
		in.persisted = map[segment.Segment]bool{}
	}
	if !in.persisted[seg] {
		in.persisted[seg] = true
		in.npersist++
		if in.npersist%2 == 0 {
			seg.WriteTo(&failAt{k: []int{0, 1, 9}[in.npersist/2%3]}, nil)
			in.Touched["failed_first_persist"]++
		}
	}
	var buf bytes.Buffer
	n, err := seg.WriteTo(&buf, nil)
	if err != nil {
		return nil, err
	}
	// persisting again gives the same bytes
	var again bytes.Buffer
	if _, err := seg.WriteTo(&again, nil); err != nil || !bytes.Equal(again.Bytes(), buf.Bytes()) {
		in.fail("C04", "persisting the same segment twice gives different bytes (err=%v, %d and %d bytes, first difference at %d)", err, buf.Len(), again.Len(), firstDiffBytes(buf.Bytes(), again.Bytes()))
		in.fail("C11", "persisting the same segment twice gives different bytes (err=%v, %d and %d bytes, first difference at %d)", err, buf.Len(), again.Len(), firstDiffBytes(buf.Bytes(), again.Bytes()))
		in.fail("C15", "persisting the same segment twice gives different bytes (err=%v)", err)
	}
	if n != int64(buf.Len()) {
		in.fail("C04", "WriteTo returned %d but wrote %d bytes", n, buf.Len())
		in.fail("C11", "WriteTo returned %d but wrote %d bytes", n, buf.Len())
	}
	// the returned count must be what was written also when the destination gives up
	// inside the footer: a reported success with fewer bytes written is a wrong count
	total := buf.Len()
	for _, off := range []int{total - 44, total - 17, total - 1} {
		if off < 0 {
			continue
		}
		fw := &failAt{k: off}
		n2, err2 := seg.WriteTo(fw, nil)
		if err2 == nil && int(n2) != fw.written {
			in.fail("C04", "WriteTo reported success and %d bytes although the writer accepted only %d", n2, fw.written)
			in.fail("C11", "WriteTo reported success and %d bytes although the writer accepted only %d", n2, fw.written)
			break
		}
	}
	in.Touched["persist_tail_faults"]++
	return buf.Bytes(), nil
}

func (in *Interp) LoadBytes(b []byte, kind int) (segment.Segment, error) {
	if kind == 0 {
		return in.Impl.Load(segment.NewDataBytes(b))
	}
	in.nfile++
	name := filepath.Join(in.TmpDir, fmt.Sprintf("seg-%d-%d.ice", os.Getpid(), in.nfile))
	if err := ioutil.WriteFile(name, b, 0o600); err != nil {
		return nil, err
	}
	f, err := os.Open(name)
	if err != nil {
		return nil, err
	}
	in.files = append(in.files, f)
	data, err := segment.NewDataFile(f)
	if err != nil {
		return nil, err
	}
	return in.Impl.Load(data)
}

// RunOp executes one op and returns its transcript (without the length prefix).
func (in *Interp) RunOp(o *Op) (out W) {
	defer func() {
		if r := recover(); r != nil {
			out = W{ErrMark, 2}
			in.Touched["panic"]++
			in.fail("", "panic in op %d: %v\n%s", o.Code, r, trimStack(debug.Stack()))
		}
	}()
	errOut := func(err error) W {
		in.Touched["error"]++
		in.fail("", "error in op %d: %v", o.Code, err)
		return W{ErrMark, 1}
	}
	switch o.Code {
	case OpBuild:
		seg, _, err := in.Impl.New(o.Batch.Documents(), HarnessNorm, o.CM)
		if err != nil {
			return errOut(err)
		}
		in.Segs = append(in.Segs, seg)
		in.Bytes = append(in.Bytes, nil)
		out.Num(seg.Count())
	case OpMerge:
		segs := make([]segment.Segment, len(o.Ins))
		drops := make([]*roaring.Bitmap, len(o.Ins))
		for i := range o.Ins {
			mi := &o.Ins[i]
			if len(mi.Via) > 0 {
				mi.Drops = []uint64{}
				mi.DropsNil = false
				for _, v := range mi.Via {
					tbl := in.Nums[v.MergeSlot][v.Input]
					for _, d := range v.Orig {
						if tbl[d] != math.MaxInt64 {
							mi.Drops = append(mi.Drops, tbl[d])
						}
					}
				}
				mi.Via = nil
			}
			segs[i] = in.Segs[mi.Slot]
			if !mi.DropsNil {
				drops[i] = bitmapOf(mi.Drops)
			}
		}
		var buf bytes.Buffer
		var nums [][]uint64
		var n uint64
		var err error
		if o.CM == 1025 {
			m := in.Impl.Merger(segs, drops, 1<<(uint(len(o.Ins))%7+4))
			var n64 int64
			n64, err = m.WriteTo(&buf, nil)
			n = uint64(n64)
			nums = m.DocumentNumbers()
		} else {
			nums, n, err = in.Impl.MergeCM(segs, drops, &buf, o.CM, nil)
		}
		if err != nil {
			return errOut(err)
		}
		if n != uint64(buf.Len()) {
			in.fail("C11", "merge returned %d but wrote %d bytes", n, buf.Len())
		}
		if o.CM == 1025 { // Merger.WriteTo: success must not be reported when the tail of the file is lost
			for _, off := range []int{buf.Len() - 44, buf.Len() - 1} {
				fw := &failAt{k: off}
				n2, err2 := in.Impl.Merger(segs, drops, 64).WriteTo(fw, nil)
				if err2 == nil && int(n2) != fw.written {
					in.fail("C11", "Merger.WriteTo reported success and %d bytes although the writer accepted only %d", n2, fw.written)
					break
				}
			}
		}
		b := append([]byte(nil), buf.Bytes()...)
		seg, err := in.Impl.Load(segment.NewDataBytes(b))
		if err != nil {
			return errOut(err)
		}
		in.Segs = append(in.Segs, seg)
		in.Bytes = append(in.Bytes, b)
		if in.Nums == nil {
			in.Nums = map[int][][]uint64{}
		}
		in.Nums[len(in.Segs)-1] = nums
		out.Num(uint64(len(nums)))
		for _, s := range nums {
			out.Nums(s)
		}
		out.Num(seg.Count())
	case OpReload:
		b, err := in.Persist(in.Segs[o.Slot])
		if err != nil {
			return errOut(err)
		}
		seg, err := in.LoadBytes(b, o.Kind)
		if err != nil {
			return errOut(err)
		}
		in.Segs = append(in.Segs, seg)
		in.Bytes = append(in.Bytes, b)
		out.Num(seg.Count())
	case OpObsAll:
		return in.obsAll(in.Segs[o.Slot])
	case OpDict:
		d, err := in.dict(o.Slot, o.F)
		if err != nil {
			return errOut(err)
		}
		var aut segment.Automaton
		if o.Pre != nil {
			aut = &prefixAutomaton{p: o.Pre}
		}
		// every other enumeration is interrupted after two entries by a second, complete enumeration
		// of the SAME Dictionary object (the two iterators must not share a cursor), then continued
		in.ndict++
		if in.ndict%2 == 0 {
			ents, err := dictEntriesInterleaved(d.Iterator(aut, o.Lo, o.Hi), func() error {
				_, err := dictEntries(d.Iterator(nil, nil, nil))
				return err
			})
			if err != nil {
				return errOut(err)
			}
			in.Touched["interleaved_dict_iterators"]++
			out.Append(ents)
			break
		}
		ents, err := dictEntries(d.Iterator(aut, o.Lo, o.Hi))
		if err != nil {
			return errOut(err)
		}
		out.Append(ents)
	case OpIter:
		return in.runIter(o)
	case OpStored:
		var vals W
		cnt := 0
		err := in.Segs[o.Slot].VisitStoredFields(o.N, func(field string, value []byte) bool {
			vals.Str(field)
			vals.Bytes(value)
			cnt++
			return !(o.Stop > 0 && cnt >= o.Stop)
		})
		if err != nil {
			return errOut(err)
		}
		out.Num(uint64(cnt))
		out.Append(vals)
	case OpDV:
		key := o.RdSlot
		rd := in.rds[key]
		if rd == nil || key == 0 {
			var err error
			rd, err = in.Segs[o.Slot].DocumentValueReader(o.Fields)
			if err != nil {
				return errOut(err)
			}
			if key != 0 {
				in.rds[key] = rd
			}
		}
		for _, n := range o.Visits {
			var vals W
			cnt := 0
			err := rd.VisitDocumentValues(n, func(field string, term []byte) {
				vals.Str(field)
				vals.Bytes(term)
				cnt++
			})
			if err != nil {
				return errOut(err)
			}
			out.Num(uint64(cnt))
			out.Append(vals)
		}
	case OpDocsMatching:
		terms := make([]segment.Term, len(o.Terms))
		for i := range o.Terms {
			terms[i] = fterm{o.Terms[i].F, o.Terms[i].T}
		}
		bm, err := in.Segs[o.Slot].DocsMatchingTerms(terms)
		if err != nil {
			return errOut(err)
		}
		arr := bm.ToArray()
		out.Num(uint64(len(arr)))
		for _, x := range arr {
			out.Num(uint64(x))
		}
	case OpStats:
		st, err := in.Segs[o.Slot].CollectionStats(o.F)
		if err != nil {
			return errOut(err)
		}
		out.Num(st.TotalDocumentCount())
		out.Num(st.DocumentCount())
		out.Num(st.SumTotalTermFrequency())
		// CollectionStats.Merge adds component-wise; an unknown field's (all zero) answer used as the
		// accumulator must not disturb later answers for unknown fields
		acc, err := in.Segs[o.Slot].CollectionStats("\x00no-such-field\x00")
		if err != nil {
			return errOut(err)
		}
		if acc.TotalDocumentCount() != 0 || acc.DocumentCount() != 0 || acc.SumTotalTermFrequency() != 0 {
			in.fail("C16", "statistics of an unknown field are not all zero: (%d,%d,%d)", acc.TotalDocumentCount(), acc.DocumentCount(), acc.SumTotalTermFrequency())
		}
		acc.Merge(st)
		acc.Merge(st)
		if acc.TotalDocumentCount() != 2*st.TotalDocumentCount() || acc.DocumentCount() != 2*st.DocumentCount() ||
			acc.SumTotalTermFrequency() != 2*st.SumTotalTermFrequency() {
			in.fail("C16", "CollectionStats.Merge does not add component-wise for field %q", o.F)
		}
		again, _ := in.Segs[o.Slot].CollectionStats(o.F)
		if again.TotalDocumentCount() != st.TotalDocumentCount() || again.DocumentCount() != st.DocumentCount() ||
			again.SumTotalTermFrequency() != st.SumTotalTermFrequency() {
			in.fail("C16", "asking for the statistics of field %q again gives a different answer after Merge", o.F)
		}
		in.Touched["stats_merge"]++
	case OpContains:
		d, err := in.dict(o.Slot, o.F)
		if err != nil {
			return errOut(err)
		}
		ok, err := d.Contains(o.T)
		if err != nil {
			return errOut(err)
		}
		out.Bool(ok)
	case OpFooter:
		return in.footerOp(o)
	case OpLayout:
		return in.layoutOp(o)
	case OpContainer:
		return in.containerOp(o)
	case OpUnitInt, OpUnitContent, OpUnitDoc:
		// a script on one of the chunk coders (verif hooks), compared with its model (Units.v)
		if in.Impl != Current {
			return W{ErrMark, 1}
		}
		return runUnitScript(o.Code, o.Script)
	case OpUnitEnum:
		if in.Impl != Current {
			return W{ErrMark, 1}
		}
		return runEnumScript(o.EnumIns, o.EnumScript)
	case OpInterim:
		// the builder's in-memory state after the per-document pass (verif hook),
		// compared with the statement-by-statement builder model (Builder.v)
		if in.Impl.InterimPostings == nil {
			return W{ErrMark, 1}
		}
		fields, terms, err := in.Impl.InterimPostings(o.Batch.Documents(), HarnessNorm)
		if err != nil {
			return errOut(err)
		}
		out.Num(uint64(len(fields)))
		for i, f := range fields {
			out.Str(f)
			out.Num(uint64(len(terms[i])))
			for _, t := range terms[i] {
				out.Str(t.Term)
				out.Num(uint64(len(t.Docs)))
				for k, d := range t.Docs {
					out.Num(uint64(d))
					out.Num(t.Freqs[k])
					out.Num(uint64(t.Norms[k]))
					out.Num(uint64(len(t.Locs[k])))
					for _, l := range t.Locs[k] {
						out.Num(l[0])
						out.Num(l[1])
						out.Num(l[2])
						out.Num(l[3])
					}
				}
			}
		}
		in.Touched["interim_checked"]++
	default:
		panic("unknown op")
	}
	return out
}

type fterm struct {
	f string
	t []byte
}

func (t fterm) Field() string { return t.f }
func (t fterm) Term() []byte  { return t.t }

// dict returns a (cached, reused) dictionary for (slot, field).
func (in *Interp) dict(slot int, f string) (segment.Dictionary, error) {
	key := fmt.Sprintf("%d/%s", slot, f)
	if d, ok := in.dicts[key]; ok {
		return d, nil
	}
	d, err := in.Segs[slot].Dictionary(f)
	if err != nil {
		return nil, err
	}
	in.dicts[key] = d
	return d, nil
}

// dictEntriesInterleaved is dictEntries with a call of between() after the second entry.
func dictEntriesInterleaved(it segment.DictionaryIterator, between func() error) (W, error) {
	var ents W
	n := 0
	e, err := it.Next()
	for err == nil && e != nil {
		ents.Str(e.Term())
		ents.Num(e.Count())
		n++
		if n == 2 {
			if err := between(); err != nil {
				return nil, err
			}
		}
		e, err = it.Next()
	}
	if err != nil {
		return nil, err
	}
	var out W
	out.Num(uint64(n))
	out.Append(ents)
	return out, nil
}

func dictEntries(it segment.DictionaryIterator) (W, error) {
	var ents W
	n := 0
	e, err := it.Next()
	for err == nil && e != nil {
		ents.Str(e.Term())
		ents.Num(e.Count())
		n++
		e, err = it.Next()
	}
	if err != nil {
		return nil, err
	}
	var out W
	out.Num(uint64(n))
	out.Append(ents)
	return out, nil
}

func postingOut(w *W, p segment.Posting) {
	w.Num(p.Number())
	w.Num(uint64(p.Frequency()))
	w.Num(uint64(math.Float32bits(float32(p.Norm()))))
	locs := p.Locations()
	w.Num(uint64(len(locs)))
	for _, l := range locs {
		w.Str(l.Field())
		w.Num(uint64(l.Pos()))
		w.Num(uint64(l.Start()))
		w.Num(uint64(l.End()))
	}
}

// heldList remembers the documents of a postings list that the scenario still
// holds: handing its iterator (or another list) back as prealloc for a later
// lookup must not change what this list answers.
type heldList struct {
	pl    segment.PostingsList
	count uint64
	docs  []uint64
	what  string
}

func listDocs(pl segment.PostingsList) (docs []uint64, ok bool) {
	defer func() {
		if r := recover(); r != nil {
			ok = false
		}
	}()
	it, err := pl.Iterator(false, false, false, nil)
	if err != nil {
		return nil, false
	}
	for p, err := it.Next(); p != nil || err != nil; p, err = it.Next() {
		if err != nil {
			return nil, false
		}
		docs = append(docs, p.Number())
	}
	return docs, true
}

// ownedBitmap is a bitmap of the caller's that ice was given (an exclusion, or the
// bitmap installed with ReplaceActual): ice may keep it but must never change it.
type ownedBitmap struct {
	bm   *roaring.Bitmap
	snap []byte
	what string
}

func (in *Interp) own(bm *roaring.Bitmap, what string) {
	if bm == nil {
		return
	}
	b, _ := bm.ToBytes()
	in.owned = append(in.owned, ownedBitmap{bm, b, what})
	if len(in.owned) > 12 {
		in.owned = in.owned[len(in.owned)-12:]
	}
}

func (in *Interp) checkOwned() {
	for i := range in.owned {
		b, _ := in.owned[i].bm.ToBytes()
		if !bytes.Equal(b, in.owned[i].snap) {
			in.fail("", "a bitmap of the caller's (%s) was changed by a later lookup: it held %d bytes of serialised content and now serialises differently (cardinality %d)",
				in.owned[i].what, len(in.owned[i].snap), in.owned[i].bm.GetCardinality())
			in.owned[i].snap = b
		}
	}
}

func (in *Interp) checkHeld() {
	in.checkOwned()
	for slot, h := range in.held {
		if in.pls[slot] != h.pl {
			delete(in.held, slot)
			continue
		}
		docs, ok := listDocs(h.pl)
		same := ok && h.pl.Count() == h.count && len(docs) == len(h.docs)
		for i := 0; same && i < len(docs); i++ {
			same = docs[i] == h.docs[i]
		}
		if !same {
			in.fail("", "the postings list still held in slot %d (%s) answered Count %d and %d documents when it was made and now Count %d and %d documents (ok=%v): a later lookup that reused another object changed it",
				slot, h.what, h.count, len(h.docs), h.pl.Count(), len(docs), ok)
			delete(in.held, slot)
		}
	}
}

func (in *Interp) runIter(o *Op) (out W) {
	defer in.checkHeld()
	d, err := in.dict(o.Slot, o.F)
	if err != nil {
		in.fail("", "dictionary error: %v", err)
		return W{ErrMark, 1}
	}
	var except *roaring.Bitmap
	if !o.ExceptNil {
		except = bitmapOf(o.Except)
		in.own(except, "exclusion bitmap")
	}
	var prePL segment.PostingsList
	if o.PLSlot > 0 {
		prePL = in.pls[o.PLSlot]
		if prePL != nil {
			in.Touched["reuse_pl"]++
		}
	}
	pl, err := d.PostingsList(o.T, except, prePL)
	if err != nil {
		in.fail("", "postings list error: %v", err)
		return W{ErrMark, 1}
	}
	if o.PLSlot > 0 {
		in.pls[o.PLSlot] = pl
		if in.held == nil {
			in.held = map[int]heldList{}
		}
		if docs, ok := listDocs(pl); ok {
			in.held[o.PLSlot] = heldList{pl, pl.Count(), docs, fmt.Sprintf("%s:%q of segment slot %d", o.F, o.T, o.Slot)}
		} else {
			delete(in.held, o.PLSlot)
		}
	}
	var preIt segment.PostingsIterator
	if o.ItSlot > 0 {
		preIt = in.its[o.ItSlot]
		if preIt != nil {
			in.Touched["reuse_it"]++
		}
	}
	it, err := pl.Iterator(o.Flags[0], o.Flags[1], o.Flags[2], preIt)
	if err != nil {
		in.fail("", "iterator error: %v", err)
		return W{ErrMark, 1}
	}
	if o.ItSlot > 0 {
		in.its[o.ItSlot] = it
	}
	if o.HasReplace {
		if opt, ok := it.(segment.OptimizablePostingsIterator); ok {
			// an empty/absent postings list has the shared empty iterator: nothing to replace
			if abm := opt.ActualBitmap(); abm != nil {
				rep := roaring.And(bitmapOf(o.Replace), abm) // must be a subset of the postings
				o.Replace = o.Replace[:0]
				for _, x := range rep.ToArray() {
					o.Replace = append(o.Replace, uint64(x))
				}
				opt.ReplaceActual(rep)
				in.own(rep, "bitmap installed with ReplaceActual")
				in.Touched["replace_actual"]++
			} else {
				o.HasReplace = false // 1-hit or empty list: nothing to replace
			}
		} else {
			o.HasReplace = false
		}
	}
	out.Num(pl.Count())
	if it.Count() != pl.Count() {
		in.fail("C05", "iterator Count %d differs from postings list Count %d", it.Count(), pl.Count())
	}
	for _, io := range o.IterOps {
		var p segment.Posting
		if io.Adv {
			p, err = it.Advance(io.D)
		} else {
			p, err = it.Next()
		}
		if err != nil {
			in.fail("", "iterator step error: %v", err)
			return W{ErrMark, 1}
		}
		if p == nil {
			out.Num(0)
		} else {
			out.Num(1)
			postingOut(&out, p)
		}
	}
	return out
}

func (in *Interp) obsAll(seg segment.Segment) (out W) {
	fields := seg.Fields()
	out.Num(uint64(len(fields)))
	for _, f := range fields {
		out.Str(f)
	}
	out.Num(seg.Count())
	for _, f := range fields {
		st, err := seg.CollectionStats(f)
		if err != nil {
			return W{ErrMark, 1}
		}
		out.Num(st.TotalDocumentCount())
		out.Num(st.DocumentCount())
		out.Num(st.SumTotalTermFrequency())
		d, err := seg.Dictionary(f)
		if err != nil {
			return W{ErrMark, 1}
		}
		// one enumeration for the entries, a second one for the terms
		ents, err := dictEntries(d.Iterator(nil, nil, nil))
		if err != nil {
			return W{ErrMark, 1}
		}
		out.Append(ents)
		var terms [][]byte
		it := d.Iterator(nil, nil, nil)
		e, err := it.Next()
		for err == nil && e != nil {
			terms = append(terms, []byte(e.Term()))
			e, err = it.Next()
		}
		for _, t := range terms {
			pl, err := d.PostingsList(t, nil, nil)
			if err != nil {
				return W{ErrMark, 1}
			}
			pi, err := pl.Iterator(true, true, true, nil)
			if err != nil {
				return W{ErrMark, 1}
			}
			var ps W
			n := 0
			p, err := pi.Next()
			for err == nil && p != nil {
				postingOut(&ps, p)
				n++
				p, err = pi.Next()
			}
			if err != nil {
				return W{ErrMark, 1}
			}
			out.Num(uint64(n))
			out.Append(ps)
		}
	}
	for n := uint64(0); n < seg.Count(); n++ {
		var vals W
		cnt := 0
		err := seg.VisitStoredFields(n, func(field string, value []byte) bool {
			vals.Str(field)
			vals.Bytes(value)
			cnt++
			return true
		})
		if err != nil {
			return W{ErrMark, 1}
		}
		out.Num(uint64(cnt))
		out.Append(vals)
	}
	rd, err := seg.DocumentValueReader(fields)
	if err != nil {
		return W{ErrMark, 1}
	}
	for n := uint64(0); n < seg.Count(); n++ {
		var vals W
		cnt := 0
		err := rd.VisitDocumentValues(n, func(field string, term []byte) {
			vals.Str(field)
			vals.Bytes(term)
			cnt++
		})
		if err != nil {
			return W{ErrMark, 1}
		}
		out.Num(uint64(cnt))
		out.Append(vals)
	}
	return out
}

// RunScenario runs all ops and returns the framed transcript (each op's
// output preceded by its length), as Run.v run_ops produces it.
func (in *Interp) RunScenario(ops []Op) W {
	var out W
	in.Outs = nil
	for i := range ops {
		o := in.RunOp(&ops[i])
		in.Outs = append(in.Outs, o)
		out.Num(uint64(len(o)))
		out.Append(o)
	}
	return out
}

// prefixAutomaton accepts exactly the keys that start with p.
type prefixAutomaton struct{ p []byte }

// states: 0..len(p) = number of prefix bytes matched; len(p)+1 = dead
func (a *prefixAutomaton) Start() int                 { return 0 }
func (a *prefixAutomaton) IsMatch(s int) bool         { return s == len(a.p) }
func (a *prefixAutomaton) CanMatch(s int) bool        { return s <= len(a.p) }
func (a *prefixAutomaton) WillAlwaysMatch(s int) bool { return s == len(a.p) }
func (a *prefixAutomaton) Accept(s int, b byte) int {
	if s == len(a.p) {
		return s
	}
	if s < len(a.p) && a.p[s] == b {
		return s + 1
	}
	return len(a.p) + 1
}

// trimStack keeps the frames of a panic stack that lie inside ice.
func trimStack(st []byte) string {
	var keep []string
	lines := strings.Split(string(st), "\n")
	for i := 0; i+1 < len(lines); i++ {
		if strings.Contains(lines[i], "blugelabs/ice") || strings.Contains(lines[i], "refice") {
			keep = append(keep, strings.TrimSpace(lines[i])+" "+strings.TrimSpace(lines[i+1]))
		}
	}
	if len(keep) > 6 {
		keep = keep[:6]
	}
	return strings.Join(keep, "\n")
}

type footerAPI interface {
	StoredIndexOffset() uint64
	FieldsIndexOffset() uint64
	DocValueOffset() uint64
	ChunkMode() uint32
	Version() uint32
	NumDocs() uint64
	CRC() uint32
}

// footerOp persists a segment, hands the bytes to the model (which parses the
// footer and recomputes the CRC-32 over every preceding byte) and reports what
// the loaded segment says about itself.  Go-side: the CRC is also recomputed
// with hash/crc32 and a loaded segment must re-persist to the same bytes.
func (in *Interp) footerOp(o *Op) (out W) {
	seg := in.Segs[o.Slot]
	b, err := in.Persist(seg)
	if err != nil {
		in.fail("C11", "WriteTo failed: %v", err)
		return W{ErrMark, 1}
	}
	o.File = b
	loaded, err := in.Impl.Load(segment.NewDataBytes(append([]byte(nil), b...)))
	if err != nil {
		in.fail("C11", "Load of persisted bytes failed: %v", err)
		return W{ErrMark, 1}
	}
	if len(b) < 44 {
		in.fail("C11", "file shorter than a footer: %d bytes", len(b))
		return W{ErrMark, 1}
	}
	want := crc32.ChecksumIEEE(b[:len(b)-4])
	got := binary.BigEndian.Uint32(b[len(b)-4:])
	if want != got {
		in.fail("C11", "footer CRC %08x does not cover the preceding %d bytes (crc32 = %08x)", got, len(b)-4, want)
	}
	// the file this segment was itself loaded from (the merger's own output, or an earlier persist):
	// it must end in the CRC-32 of its other bytes, and persisting the loaded segment reproduces it
	if orig := in.Bytes[o.Slot]; len(orig) >= 44 {
		if w, g := crc32.ChecksumIEEE(orig[:len(orig)-4]), binary.BigEndian.Uint32(orig[len(orig)-4:]); w != g {
			in.fail("C11", "the file the segment in slot %d was loaded from ends in CRC %08x, the CRC-32 of its preceding %d bytes is %08x", o.Slot, g, len(orig)-4, w)
		}
		if !bytes.Equal(orig, b) {
			in.fail("C11", "persisting the loaded segment in slot %d does not reproduce the file it was loaded from (%d vs %d bytes, first difference at %d)", o.Slot, len(b), len(orig), firstDiffBytes(b, orig))
		}
	}
	b2, err := in.Persist(loaded)
	if err != nil || !bytes.Equal(b, b2) {
		in.fail("C11", "persisting the loaded segment again does not reproduce the file (err=%v, %d vs %d bytes)", err, len(b), len(b2))
	}
	fa, ok := loaded.(footerAPI)
	if !ok {
		in.fail("C11", "loaded segment does not expose footer accessors")
		return W{ErrMark, 1}
	}
	if fa.CRC() != got {
		in.fail("C11", "loaded segment reports CRC %08x, file ends in %08x", fa.CRC(), got)
	}
	out.Num(uint64(len(b)))
	out.Num(loaded.Count())
	out.Num(fa.StoredIndexOffset())
	out.Num(fa.FieldsIndexOffset())
	out.Num(fa.DocValueOffset())
	out.Num(uint64(fa.ChunkMode()))
	out.Num(uint64(fa.Version()))
	out.Num(1) // the trailing CRC must cover every preceding byte (recomputed by the model)
	if seg.Count() != loaded.Count() {
		in.fail("C11", "footer document count %d differs from the segment's %d", loaded.Count(), seg.Count())
	}
	in.Touched["footer_checked"]++
	if in.Bytes[o.Slot] != nil {
		in.Touched["repersist_loaded"]++
	}
	return out
}

// layoutOp persists the segment with the implementation under test and parses
// the bytes with the structural dumper of the frozen reference copy (the pinned
// format): chunk boundaries, uncompressed chunk bytes, 1-hit decisions, stored
// blocks and offsets, doc-value headers.  The Coq model must produce the same
// layout from the scenario alone.
func (in *Interp) layoutOp(o *Op) (out W) {
	b, err := in.Persist(in.Segs[o.Slot])
	if err != nil {
		in.fail("", "WriteTo failed: %v", err)
		return W{ErrMark, 1}
	}
	l, err := refice.VerifLayout(b)
	if err != nil {
		in.fail("C10", "the pinned reference parser cannot read the file: %v", err)
		return W{ErrMark, 1}
	}
	o.DVFlags = nil
	out.Num(l.NumDocs)
	out.Num(uint64(l.ChunkMode))
	out.Num(uint64(len(l.Fields)))
	for _, f := range l.Fields {
		o.DVFlags = append(o.DVFlags, f.HasDV)
		out.Str(f.Name)
		out.Num(f.Docs)
		out.Num(f.Freqs)
		out.Num(uint64(len(f.Terms)))
		for _, t := range f.Terms {
			out.Bytes(t.Key)
			if t.OneHit {
				out.Num(1)
				out.Num(t.Doc)
				out.Num(t.Norm)
				in.Touched["layout_1hit"]++
				continue
			}
			out.Num(0)
			out.Num(uint64(len(t.Docs)))
			for _, d := range t.Docs {
				out.Num(uint64(d))
			}
			out.Num(t.ChunkSize)
			out.Num(uint64(len(t.FreqChunks)))
			nonEmpty := 0
			for _, c := range t.FreqChunks {
				out.Bytes(c)
				if len(c) > 0 {
					nonEmpty++
				}
			}
			if nonEmpty >= 2 {
				in.Touched["layout_multi_chunk_term"]++
			}
			if t.LocEncoded {
				out.Num(1)
				out.Num(uint64(len(t.LocChunks)))
				for _, c := range t.LocChunks {
					out.Bytes(c)
				}
			} else {
				out.Num(0)
			}
		}
		out.Bool(f.HasDV)
		if f.HasDV {
			out.Num(uint64(len(f.DVChunks)))
			for _, c := range f.DVChunks {
				out.Num(uint64(len(c.Header)))
				for _, h := range c.Header {
					out.Num(h[0])
					out.Num(h[1])
				}
				out.Bytes(c.Data)
			}
		}
	}
	out.Num(uint64(len(l.StoredBlocks)))
	for _, blk := range l.StoredBlocks {
		out.Bytes(blk)
	}
	if len(l.StoredBlocks) >= 2 {
		in.Touched["layout_multi_block"]++
	}
	out.Nums(l.StoredOffsets)
	out.Num(1) // the model's consistency flag: every field with doc-value entries has a doc-value section
	return out
}

// containerOp hands the real bytes of a persisted file to the byte-exact (L0)
// loader models of Container.v and reports what the pinned loader read from the
// same bytes: fields section, stored trailer and index, doc-value locations.
func (in *Interp) containerOp(o *Op) (out W) {
	b, err := in.Persist(in.Segs[o.Slot])
	if err != nil {
		in.fail("", "WriteTo failed: %v", err)
		return W{ErrMark, 1}
	}
	o.File = b
	c, err := refice.VerifContainer(b)
	if err != nil {
		in.fail("C04", "the pinned loader cannot read the file: %v", err)
		return W{ErrMark, 1}
	}
	out.Num(uint64(len(c.Names)))
	for i := range c.Names {
		out.Num(c.DictLocs[i])
		out.Str(c.Names[i])
		out.Num(c.Docs[i])
		out.Num(c.Freqs[i])
	}
	out.Nums(c.StoredChunkOffsets)
	out.Nums(c.DocOffsets)
	out.Num(uint64(len(c.DvLocs)))
	for _, l := range c.DvLocs {
		out.Num(l[0])
		out.Num(l[1])
	}
	in.Touched["container_checked"]++
	return out
}

package hx

import (
	"fmt"
	"math/rand"
	"sort"
)

// Gen produces structured, mostly valid inputs.  Every random choice comes from
// one PRNG so that a (seed, case index) pair replays exactly.
type Gen struct {
	R                                                              *rand.Rand
	bigMerges                                                      int // BigMerge cycles through its three variants
	bigBuilds, twins, reencodes, exacts, zerodocs, onehits, tinies int
	// FreeLen: now and then a field reports a length that is not the sum of its term frequencies
	// (0, 1, or more than the sum); every property but C16 quantifies over such inputs too
	FreeLen bool
}

func NewGen(seed int64) *Gen { return &Gen{R: rand.New(rand.NewSource(seed))} }

var vocabAll = [][]byte{
	[]byte(""), []byte("a"), []byte("ab"), []byte("abc"), []byte("b"), []byte("ba"),
	[]byte("cat"), []byte("dog"), []byte("zz"), {0x61, 0x00}, {0xfe, 0x01}, {0x00},
	[]byte("a\xff"), {0xff}, []byte("héllo"), []byte("abd"),
}

// number of vocabulary entries that are safe in doc-value fields (no 0xff byte)
func dvSafe(t []byte) bool {
	for _, c := range t {
		if c == 0xff {
			return false
		}
	}
	return true
}

// values whose uvarint encoding is exactly at a width boundary (1|2, 2|3, 3|4, 4|5 bytes)
var varintEdges = []int{127, 128, 129, 16383, 16384, 16385, 2097151, 2097152, 268435455, 268435456}

var fieldNames = []string{"body", "title", "tags", "cmp", "a b", "Zed", "h\xc3\xa9", "_x"}

var ChunkModes = []uint32{1, 2, 3, 4, 5, 1024, 1025}

func (g *Gen) ChunkMode() uint32 { return ChunkModes[g.R.Intn(len(ChunkModes))] }

// BatchOpts steers a batch.
type BatchOpts struct {
	NDocs     int
	NFields   int // how many of fieldNames may be used (1..len)
	NVocab    int // how many vocabulary entries may be used
	IDPrefix  string
	NoStored  bool // no stored values except _id
	SparseSt  bool // most documents have no stored field at all (not even _id)
	ForceDV   bool
	BigValues bool
	AllFields bool                 // every document carries each of the NFields fields once (identical field lists)
	Dense     bool                 // few distinct terms, every field instance has several: long postings lists
	SkipField func(doc int) string // documents for which the named field is left out
}

func (g *Gen) term(nv int, dv bool) []byte {
	for {
		t := vocabAll[g.R.Intn(nv)]
		if !dv || dvSafe(t) {
			return t
		}
	}
}

// Batch generates documents.  Field lengths equal the sum of the term
// frequencies (the precondition of C16); frequencies are >= the number of
// locations; location fields are "" or a field name used in the batch.
func (g *Gen) Batch(o BatchOpts) Batch {
	r := g.R
	if o.NFields <= 0 {
		o.NFields = 1 + r.Intn(len(fieldNames))
	}
	if o.NFields > len(fieldNames) {
		o.NFields = len(fieldNames)
	}
	if o.NVocab <= 0 {
		o.NVocab = 3 + r.Intn(len(vocabAll)-2)
	}
	if o.NVocab > len(vocabAll) {
		o.NVocab = len(vocabAll)
	}
	// per field configuration for the whole batch
	type fcfg struct{ dv, store, tv, composite bool }
	cfg := make([]fcfg, o.NFields)
	for i := range cfg {
		cfg[i] = fcfg{dv: o.ForceDV || r.Intn(2) == 0, store: !o.NoStored && r.Intn(2) == 0,
			tv: r.Intn(3) != 0, composite: fieldNames[i] == "cmp"}
	}
	idDV := r.Intn(3) == 0
	b := make(Batch, o.NDocs)
	for d := 0; d < o.NDocs; d++ {
		var doc Doc
		id := []byte(fmt.Sprintf("%s%d", o.IDPrefix, d))
		idField := Field{N: "_id", Len: 1, St: true, DV: idDV, Val: id,
			Terms: []Term{{T: id, Freq: 1}}}
		if o.SparseSt && r.Intn(8) != 0 {
			idField.St = false
		}
		if r.Intn(20) != 0 { // now and then a document without _id
			doc = append(doc, idField)
		}
		ninst := r.Intn(4)
		if o.NDocs > 300 {
			ninst = r.Intn(2) + 1
		}
		if o.AllFields {
			ninst = o.NFields
		}
		for k := 0; k < ninst; k++ {
			fi := r.Intn(o.NFields)
			if o.AllFields {
				fi = k
			}
			if o.SkipField != nil && o.SkipField(d) == fieldNames[fi] {
				continue
			}
			c := cfg[fi]
			f := Field{N: fieldNames[fi], St: c.store && r.Intn(4) != 0, DV: c.dv}
			if o.SparseSt {
				f.St = false
			}
			if f.St {
				vl := r.Intn(6)
				if o.BigValues {
					vl = r.Intn(40)
				}
				f.Val = make([]byte, vl)
				for i := range f.Val {
					f.Val[i] = byte(r.Intn(256))
				}
			}
			nterms := r.Intn(5)
			if r.Intn(10) == 0 {
				nterms = 0 // stored-only field instance
			}
			if o.Dense {
				nterms = 2 + r.Intn(3)
			}
			pos := 0
			for t := 0; t < nterms; t++ {
				tm := Term{T: g.term(o.NVocab, c.dv), Freq: 1 + r.Intn(3)}
				if r.Intn(12) == 0 {
					tm.Freq = 1 + r.Intn(300) // multi-byte varint
				}
				if r.Intn(25) == 0 {
					tm.Freq = varintEdges[r.Intn(5)] // exactly at a varint width boundary
				}
				if c.tv {
					nl := r.Intn(tm.Freq + 1)
					if nl > 4 {
						nl = 4
					}
					for l := 0; l < nl; l++ {
						pos++
						lc := Loc{Pos: pos, Start: pos * 3, End_: pos*3 + 2}
						if r.Intn(15) == 0 {
							lc.Start = 100 + r.Intn(40000) // multi-byte varint
							lc.End_ = lc.Start + 1
						}
						if r.Intn(20) == 0 { // a value exactly at a varint width boundary
							e := varintEdges[r.Intn(len(varintEdges))]
							switch r.Intn(3) {
							case 0:
								lc.Pos = e
							case 1:
								lc.Start, lc.End_ = e-1, e
							default:
								lc.End_ = e
							}
						}
						if c.composite && r.Intn(2) == 0 {
							lc.Field = fieldNames[r.Intn(o.NFields)]
						}
						tm.Locs = append(tm.Locs, lc)
					}
				}
				f.Len += tm.Freq
				f.Terms = append(f.Terms, tm)
			}
			if g.FreeLen && len(f.Terms) > 0 && r.Intn(14) == 0 {
				f.Len = []int{0, 1, f.Len + 3}[r.Intn(3)]
			}
			doc = append(doc, f)
		}
		if r.Intn(3) == 0 { // shuffle field order inside the document
			r.Shuffle(len(doc), func(i, j int) { doc[i], doc[j] = doc[j], doc[i] })
		}
		b[d] = doc
	}
	// a location may only name a field that exists in the batch
	names := map[string]bool{}
	for _, d := range b {
		for _, f := range d {
			names[f.N] = true
		}
	}
	for di := range b {
		for fi := range b[di] {
			for ti := range b[di][fi].Terms {
				for li := range b[di][fi].Terms[ti].Locs {
					l := &b[di][fi].Terms[ti].Locs[li]
					if l.Field != "" && !names[l.Field] {
						l.Field = ""
					}
				}
			}
		}
	}
	return b
}

func (g *Gen) smallSize() int {
	switch g.R.Intn(10) {
	case 0:
		return 0
	case 1:
		return 1
	case 2, 3, 4, 5, 6:
		return 2 + g.R.Intn(7)
	case 7, 8:
		return 9 + g.R.Intn(12)
	default:
		return 20 + g.R.Intn(20)
	}
}

// Drops draws a deletion set for a segment of n documents.
// kind: 0 nil, 1 empty, 2 sparse, 3 dense, 4 everything.
func (g *Gen) Drops(n int) (drops []uint64, isNil bool, kind int) {
	kind = g.R.Intn(5)
	switch kind {
	case 0:
		return nil, true, kind
	case 1:
		return []uint64{}, false, kind
	case 2:
		for i := 0; i < n; i++ {
			if g.R.Intn(5) == 0 {
				drops = append(drops, uint64(i))
			}
		}
	case 3:
		for i := 0; i < n; i++ {
			if g.R.Intn(5) != 0 {
				drops = append(drops, uint64(i))
			}
		}
	case 4:
		for i := 0; i < n; i++ {
			drops = append(drops, uint64(i))
		}
	}
	if drops == nil {
		drops = []uint64{}
	}
	return drops, false, kind
}

// BatchTerms lists the distinct (field, term) pairs of a batch, sorted.
func BatchTerms(b Batch) []FT {
	seen := map[string]bool{}
	var out []FT
	for _, d := range b {
		for _, f := range d {
			for _, t := range f.Terms {
				k := f.N + "\x00" + string(t.T)
				if !seen[k] {
					seen[k] = true
					out = append(out, FT{f.N, append([]byte(nil), t.T...)})
				}
			}
		}
	}
	sort.Slice(out, func(i, j int) bool {
		if out[i].F != out[j].F {
			return out[i].F < out[j].F
		}
		return string(out[i].T) < string(out[j].T)
	})
	return out
}

func BatchFields(b Batch) []string {
	seen := map[string]bool{"_id": true}
	out := []string{"_id"}
	for _, d := range b {
		for _, f := range d {
			if !seen[f.N] {
				seen[f.N] = true
				out = append(out, f.N)
			}
		}
	}
	sort.Strings(out[1:])
	return out
}

// IterOps draws a Next/Advance sequence with non-decreasing targets.
func (g *Gen) IterOps(maxDoc int, n int) []IterOp {
	var ops []IterOp
	cur := uint64(0)
	for i := 0; i < n; i++ {
		if g.R.Intn(2) == 0 {
			ops = append(ops, IterOp{})
		} else {
			step := uint64(g.R.Intn(4))
			switch g.R.Intn(6) {
			case 0:
				step = uint64(g.R.Intn(maxDoc + 2))
			case 1, 2:
				step = uint64(3 + g.R.Intn(9)) // across one or two small chunks
			}
			cur += step
			ops = append(ops, IterOp{Adv: true, D: cur})
		}
	}
	return ops
}

func (g *Gen) subset(n int, p int) []uint64 {
	out := []uint64{}
	for i := 0; i < n; i++ {
		if g.R.Intn(p) == 0 {
			out = append(out, uint64(i))
		}
	}
	return out
}

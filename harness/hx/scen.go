package hx

// Scenario families.  A Case is a list of ops over numbered segment slots
// (slot i = the i-th Build/Merge/Reload of the scenario).

type Case struct {
	Family string   `json:"family"`
	Seed   int64    `json:"seed"`
	Index  int      `json:"index"`
	Ops    []Op     `json:"ops"`
	Tags   []string `json:"tags"`
	// Equal lists groups of op indexes whose outputs must be identical
	// (metamorphic checks made on the Go side, e.g. all bracketings of a merge).
	Equal [][]int `json:"equal,omitempty"`
}

func (c *Case) tag(t string) {
	for _, x := range c.Tags {
		if x == t {
			return
		}
	}
	c.Tags = append(c.Tags, t)
}

// multiChunk reports whether some term of the batch has postings in two
// different chunks under the fixed chunk size cm.
func multiChunk(b Batch, cm uint32) bool {
	if cm == 0 || cm > 1024 {
		return false
	}
	first := map[string]int{}
	for d, doc := range b {
		for _, f := range doc {
			for _, t := range f.Terms {
				k := f.N + "\x00" + string(t.T)
				if d0, ok := first[k]; ok {
					if uint32(d0)/cm != uint32(d)/cm {
						return true
					}
				} else {
					first[k] = d
				}
			}
		}
	}
	return false
}

func repeatedField(b Batch) bool {
	for _, doc := range b {
		seen := map[string]bool{}
		for _, f := range doc {
			if seen[f.N] && len(f.Terms) > 0 {
				return true
			}
			seen[f.N] = true
		}
	}
	return false
}

func compositeLoc(b Batch) bool {
	for _, doc := range b {
		for _, f := range doc {
			for _, t := range f.Terms {
				for _, l := range t.Locs {
					if l.Field != "" && l.Field != f.N {
						return true
					}
				}
			}
		}
	}
	return false
}

func (c *Case) tagBatch(b Batch, cm uint32) {
	if multiChunk(b, cm) {
		c.tag("multi_chunk")
	}
	if repeatedField(b) {
		c.tag("repeated_field")
	}
	if compositeLoc(b) {
		c.tag("composite_loc")
	}
	if len(b) == 0 {
		c.tag("empty_batch")
	}
	if len(b) > 128 {
		c.tag("multi_block")
	}
	if len(b) > 1024 {
		c.tag("multi_dvchunk")
	}
}

// BuildObs: build one batch, dump everything (C01, C16).
func (g *Gen) BuildObs(big bool) *Case {
	c := &Case{Family: "build_obs"}
	n := g.smallSize()
	if big {
		n = 1030 + g.R.Intn(300)
	}
	cm := g.ChunkMode()
	if big {
		g.bigBuilds++
		cm = []uint32{1024, 1025, 5, 1025}[(g.bigBuilds-1)%4] // fixed modes above 1,024 documents leave chunks of a term empty

	}
	o := BatchOpts{NDocs: n}
	if big {
		o.NVocab = 4
		o.NFields = 2
	}
	b := g.Batch(o)
	c.Ops = []Op{{Code: OpBuild, CM: cm, Batch: b}, {Code: OpObsAll, Slot: 0}}
	if !big {
		// the builder's in-memory state against the builder model
		c.Ops = append(c.Ops, Op{Code: OpInterim, Batch: b})
	}
	c.tagBatch(b, cm)
	return c
}

// PersistLoad: build (or merge), dump, reload from memory and from a file, dump both (C04).
func (g *Gen) PersistLoad() *Case {
	c := &Case{Family: "persist_load"}
	c.Ops, _ = g.mergeTree(c, 0)
	last := g.lastSlot(c.Ops)
	c.Ops = append(c.Ops,
		Op{Code: OpObsAll, Slot: last},
		Op{Code: OpReload, Slot: last, Kind: 0},
		Op{Code: OpObsAll, Slot: last + 1},
		Op{Code: OpReload, Slot: last, Kind: 1},
		Op{Code: OpObsAll, Slot: last + 2},
		Op{Code: OpReload, Slot: last + 2, Kind: 0}, // re-persist a loaded (file-backed) segment
		Op{Code: OpObsAll, Slot: last + 3})
	return c
}

func (g *Gen) lastSlot(ops []Op) int {
	n := -1
	for _, o := range ops {
		if o.Code == OpBuild || o.Code == OpMerge || o.Code == OpReload {
			n++
		}
	}
	return n
}

// mergeTree emits builds and merges (possibly merges of merges); it returns the
// ops and the document count of each slot.  depth 0 picks a random shape.
func (g *Gen) mergeTree(c *Case, shape int) ([]Op, []int) {
	r := g.R
	var ops []Op
	var counts []int
	build := func(prefix string) int {
		n := g.smallSize()
		cm := g.ChunkMode()
		b := g.Batch(BatchOpts{NDocs: n, IDPrefix: prefix})
		ops = append(ops, Op{Code: OpBuild, CM: cm, Batch: b})
		counts = append(counts, n)
		c.tagBatch(b, cm)
		return len(counts) - 1
	}
	merge := func(slots []int) int {
		var ins []MergeIn
		total := 0
		anyDrop, anySurv := false, false
		for _, s := range slots {
			d, isNil, kind := g.Drops(counts[s])
			ins = append(ins, MergeIn{Slot: s, Drops: d, DropsNil: isNil})
			total += counts[s] - len(d)
			if len(d) > 0 {
				anyDrop = true
			}
			if counts[s]-len(d) > 0 {
				anySurv = true
			}
			if kind == 4 && counts[s] > 0 {
				c.tag("drop_all_of_one")
			}
		}
		if anyDrop && anySurv {
			c.tag("drops_and_survivors")
		}
		if total == 0 {
			c.tag("zero_survivors")
		}
		cm := g.ChunkMode()
		ops = append(ops, Op{Code: OpMerge, CM: cm, Ins: ins})
		counts = append(counts, total)
		return len(counts) - 1
	}
	if shape == 0 {
		shape = 1 + r.Intn(4)
	}
	switch shape {
	case 1: // a single build
		build("a")
	case 2: // one merge of 1..4 builds
		k := 1 + r.Intn(4)
		var s []int
		for i := 0; i < k; i++ {
			s = append(s, build(string(rune('a'+i))))
		}
		merge(s)
		c.tag("merge")
	case 3: // merge of (merge, build)
		a := build("a")
		b := build("b")
		m := merge([]int{a, b})
		d := build("c")
		merge([]int{m, d})
		c.tag("merge")
		c.tag("merge_of_merge")
	default: // merge a merged segment with itself and a build
		a := build("a")
		m := merge([]int{a})
		d := build("b")
		merge([]int{m, d, m})
		c.tag("merge")
		c.tag("merge_of_merge")
	}
	return ops, counts
}

// MergeObs: C02, C03, C16.
func (g *Gen) MergeObs() *Case {
	c := &Case{Family: "merge_obs"}
	shape := 2 + g.R.Intn(3)
	c.Ops, _ = g.mergeTree(c, shape)
	last := g.lastSlot(c.Ops)
	c.Ops = append(c.Ops, Op{Code: OpObsAll, Slot: last})
	return c
}

// subject builds the segment most read-side families work on: built, merged or reloaded.
func (g *Gen) subject(c *Case, opts BatchOpts) (ops []Op, slot int, b Batch, count int) {
	r := g.R
	cm := g.ChunkMode()
	b = g.Batch(opts)
	c.tagBatch(b, cm)
	ops = []Op{{Code: OpBuild, CM: cm, Batch: b}}
	slot, count = 0, len(b)
	switch r.Intn(4) {
	case 0:
		c.tag("built")
	case 1:
		ops = append(ops, Op{Code: OpReload, Slot: 0, Kind: r.Intn(2)})
		slot = 1
		c.tag("loaded")
	default:
		// merge with a second small batch; drop nothing from the first so that
		// the caller's knowledge of its terms stays useful, sometimes drop a few
		b2 := g.Batch(BatchOpts{NDocs: r.Intn(6), IDPrefix: "x", NFields: opts.NFields, NVocab: opts.NVocab, ForceDV: opts.ForceDV})
		cm2 := g.ChunkMode()
		ops = append(ops, Op{Code: OpBuild, CM: cm2, Batch: b2})
		var d1 []uint64
		d1nil := true
		if r.Intn(2) == 0 {
			d1 = g.subset(len(b), 4)
			d1nil = false
		}
		mcm := g.ChunkMode()
		ops = append(ops, Op{Code: OpMerge, CM: mcm, Ins: []MergeIn{
			{Slot: 0, Drops: d1, DropsNil: d1nil}, {Slot: 1, Drops: nil, DropsNil: true}}})
		if d1 == nil {
			d1 = []uint64{}
			ops[len(ops)-1].Ins[0].Drops = d1
		}
		slot = 2
		count = len(b) - len(d1) + len(b2)
		c.tag("merged")
		// survivors of b in merged numbering, followed by b2
		var nb Batch
		dm := map[uint64]bool{}
		for _, x := range d1 {
			dm[x] = true
		}
		for i := range b {
			if !dm[uint64(i)] {
				nb = append(nb, b[i])
			}
		}
		nb = append(nb, b2...)
		if multiChunk(nb, mcm) {
			c.tag("multi_chunk")
		}
		b = append(append(Batch{}, b...), b2...) // vocabulary source only
	}
	return ops, slot, b, count
}

func (g *Gen) pickFT(fts []FT) FT {
	r := g.R
	if len(fts) == 0 || r.Intn(12) == 0 {
		// unknown field or unknown term
		switch r.Intn(3) {
		case 0:
			return FT{"nosuchfield", []byte("a")}
		case 1:
			return FT{"", []byte("a")}
		default:
			return FT{"body", []byte("nosuchterm")}
		}
	}
	return fts[r.Intn(len(fts))]
}

// IterCase: postings iterators under Next/Advance, exclusions, flags and reuse (C05, C13).
func (g *Gen) IterCase(nIters int) *Case {
	c := &Case{Family: "iter"}
	r := g.R
	n := 3 + r.Intn(30)
	opts := BatchOpts{NDocs: n, NVocab: 3 + r.Intn(5), NFields: 1 + r.Intn(3)}
	dense := r.Intn(2) == 0
	if dense { // long postings lists: many skips inside and across chunks
		opts = BatchOpts{NDocs: 20 + r.Intn(30), NVocab: 3, NFields: 1, Dense: true, AllFields: true}
	}
	ops, slot, b, count := g.subject(c, opts)
	fts := BatchTerms(b)
	for i := 0; i < nIters; i++ {
		ft := g.pickFT(fts)
		o := Op{Code: OpIter, Slot: slot, F: ft.F, T: ft.T}
		switch r.Intn(5) {
		case 0, 4:
			o.ExceptNil = true
			o.Except = []uint64{}
			c.tag("clean_path")
		case 1:
			o.Except = []uint64{}
		default:
			o.Except = g.subset(count, 2+r.Intn(4))
			if len(o.Except) > 0 {
				c.tag("exclusion")
			}
		}
		o.Flags = [3]bool{r.Intn(2) == 0, r.Intn(2) == 0, r.Intn(2) == 0}
		if r.Intn(6) == 0 {
			o.HasReplace = true
			o.Replace = g.subset(count, 2) // intersected with the postings by the interpreter
		}
		if r.Intn(3) != 0 {
			o.PLSlot = 1 + r.Intn(2)
		}
		if r.Intn(3) != 0 {
			o.ItSlot = 1 + r.Intn(2)
		}
		o.IterOps = g.IterOps(count, 2+r.Intn(12))
		ops = append(ops, o)
	}
	c.Ops = ops
	return c
}

// StoredCase: stored-field visits in adversarial orders (C06).
func (g *Gen) StoredCase(big bool) *Case {
	c := &Case{Family: "stored"}
	r := g.R
	n := 1 + r.Intn(20)
	opts := BatchOpts{NDocs: n, BigValues: r.Intn(2) == 0}
	if big {
		opts.NDocs = 120 + r.Intn(300)
		opts.SparseSt = r.Intn(2) == 0
		opts.NFields = 2
		opts.NVocab = 4
	}
	ops, slot, _, count := g.subject(c, opts)
	nv := 10 + r.Intn(20)
	for i := 0; i < nv; i++ {
		var d uint64
		switch r.Intn(6) {
		case 0:
			d = uint64(count) + uint64(r.Intn(3)) // out of range
			if r.Intn(2) == 0 { // far out of range: beyond 32 and 63 bits, the largest uint64
				d = []uint64{1 << 31, 1 << 32, 1<<63 - 1, 1 << 63, 1<<63 + 5, ^uint64(0)}[r.Intn(6)]
			}
			c.tag("out_of_range")
		case 1:
			d = 0
		case 2:
			if count > 0 {
				d = uint64(count - 1)
			}
		case 3:
			if count > 128 {
				d = uint64(127 + r.Intn(3)) // block edge
				c.tag("block_edge")
			}
		default:
			if count > 0 {
				d = uint64(r.Intn(count))
			}
		}
		o := Op{Code: OpStored, Slot: slot, N: d}
		if r.Intn(4) == 0 {
			o.Stop = 1 + r.Intn(3)
			c.tag("early_stop")
		}
		ops = append(ops, o)
	}
	c.Ops = ops
	return c
}

// DVCase: doc-value readers over field subsets and visiting orders (C07).
func (g *Gen) DVCase(big bool) *Case {
	c := &Case{Family: "dv"}
	r := g.R
	n := 1 + r.Intn(25)
	opts := BatchOpts{NDocs: n, ForceDV: r.Intn(2) == 0}
	if big {
		opts.NDocs = 1030 + r.Intn(1200)
		opts.NFields = 2
		opts.NVocab = 5
		opts.NoStored = true
	}
	ops, slot, b, count := g.subject(c, opts)
	fields := BatchFields(b)
	nr := 1 + r.Intn(3)
	for k := 0; k < nr; k++ {
		var fs []string
		for _, f := range fields {
			if r.Intn(3) != 0 {
				fs = append(fs, f)
			}
		}
		if r.Intn(4) == 0 {
			fs = append(fs, "nosuchfield")
		}
		if r.Intn(6) == 0 && len(fs) > 0 {
			fs = append(fs, fs[0]) // the same field twice
		}
		r.Shuffle(len(fs), func(i, j int) { fs[i], fs[j] = fs[j], fs[i] })
		if fs == nil {
			fs = []string{}
		}
		var visits []uint64
		nv := 5 + r.Intn(20)
		if count == 0 {
			nv = 0
		}
		mode := r.Intn(4)
		for i := 0; i < nv; i++ {
			var d int
			switch mode {
			case 0:
				d = i % count
			case 1:
				d = count - 1 - (i % count)
			case 2:
				d = r.Intn(count)
			default: // bounce across the 1024 boundary when there is one
				if count > 1024 {
					if i%2 == 0 {
						d = 1020 + r.Intn(count-1020)
					} else {
						d = r.Intn(1024)
					}
					c.tag("dv_chunk_reentry")
				} else {
					d = r.Intn(count)
				}
			}
			visits = append(visits, uint64(d))
		}
		if visits == nil {
			visits = []uint64{}
		}
		ops = append(ops, Op{Code: OpDV, Slot: slot, RdSlot: 1 + k, Fields: fs, Visits: visits})
		// continue with the same reader later in the scenario
		if r.Intn(2) == 0 && len(visits) > 0 {
			ops = append(ops, Op{Code: OpDV, Slot: slot, RdSlot: 1 + k, Fields: fs, Visits: visits[:1+len(visits)/2]})
			c.tag("reader_reuse")
		}
	}
	c.Ops = ops
	return c
}

func (g *Gen) optKey(fts []FT) []byte {
	r := g.R
	if r.Intn(3) == 0 || len(fts) == 0 {
		return nil
	}
	t := fts[r.Intn(len(fts))].T
	if len(t) == 0 {
		return []byte("a")
	}
	return append([]byte(nil), t...)
}

// DictCase: dictionary enumeration with ranges and automata, Contains (C08).
func (g *Gen) DictCase() *Case {
	c := &Case{Family: "dict"}
	r := g.R
	n := 1 + r.Intn(25)
	ops, slot, b, _ := g.subject(c, BatchOpts{NDocs: n})
	fts := BatchTerms(b)
	fields := BatchFields(b)
	for i := 0; i < 6+r.Intn(6); i++ {
		f := fields[r.Intn(len(fields))]
		if r.Intn(10) == 0 {
			f = "nosuchfield"
		}
		lo, hi := g.optKey(fts), g.optKey(fts)
		if lo != nil && hi != nil && string(lo) > string(hi) {
			lo, hi = hi, lo
		}
		var pre []byte
		if r.Intn(3) == 0 {
			pre = g.optKey(fts)
			if pre != nil && len(pre) > 1 && r.Intn(2) == 0 {
				pre = pre[:1]
			}
		}
		ops = append(ops, Op{Code: OpDict, Slot: slot, F: f, Lo: lo, Hi: hi, Pre: pre})
		ft := g.pickFT(fts)
		ops = append(ops, Op{Code: OpContains, Slot: slot, F: ft.F, T: ft.T})
	}
	c.Ops = ops
	return c
}

// DocsMatchingCase: C18.
func (g *Gen) DocsMatchingCase() *Case {
	c := &Case{Family: "docsmatching"}
	r := g.R
	n := r.Intn(26)
	if n == 0 {
		c.tag("zero_documents")
	}
	ops, slot, b, _ := g.subject(c, BatchOpts{NDocs: n})
	fts := BatchTerms(b)
	for i := 0; i < 8; i++ {
		var ts []FT
		k := r.Intn(6)
		for j := 0; j < k; j++ {
			ts = append(ts, g.pickFT(fts))
		}
		if r.Intn(3) == 0 && len(ts) > 0 {
			ts = append(ts, ts[0]) // repeated entry
		}
		if ts == nil {
			ts = []FT{}
		}
		if i == 0 { // _id is known to every segment, also to one without documents
			ts = append(ts, FT{"_id", []byte("no-such-id")})
		}
		fieldsSeen := map[string]bool{}
		unknown := false
		for _, t := range ts {
			fieldsSeen[t.F] = true
			if t.F == "nosuchfield" || t.F == "" {
				unknown = true
			}
		}
		if len(fieldsSeen) >= 3 && unknown {
			c.tag("field_switch_unknown")
		}
		ops = append(ops, Op{Code: OpDocsMatching, Slot: slot, Terms: ts})
	}
	c.Ops = ops
	return c
}

// StatsCase: C16 - statistics of built, loaded and merged segments.
func (g *Gen) StatsCase() *Case {
	c := &Case{Family: "stats"}
	if g.R.Intn(6) == 0 { // fields carried by 128 and more documents (multi-byte varints in the fields section)
		n := 128 + g.R.Intn(300)
		b := g.Batch(BatchOpts{NDocs: n, NFields: 3, NVocab: 5, AllFields: g.R.Intn(2) == 0})
		c.Ops = []Op{{Code: OpBuild, CM: g.ChunkMode(), Batch: b}, {Code: OpReload, Slot: 0, Kind: g.R.Intn(2)},
			{Code: OpMerge, CM: g.ChunkMode(), Ins: []MergeIn{{Slot: 1, Drops: g.subset(n, 9)}}}, {Code: OpReload, Slot: 2, Kind: g.R.Intn(2)}}
		for s := 0; s <= 3; s++ {
			for _, f := range append([]string{"_id", "nosuchfield"}, fieldNames[:3]...) {
				c.Ops = append(c.Ops, Op{Code: OpStats, Slot: s, F: f})
			}
		}
		c.tag("merge")
		c.tag("drops_and_survivors")
		c.tag("wide_counts")
		return c
	}
	c.Ops, _ = g.mergeTree(c, 0)
	last := g.lastSlot(c.Ops)
	names := append([]string{"_id", "nosuchfield"}, fieldNames...)
	for s := 0; s <= last; s++ {
		for _, f := range names {
			c.Ops = append(c.Ops, Op{Code: OpStats, Slot: s, F: f})
		}
	}
	c.Ops = append(c.Ops, Op{Code: OpReload, Slot: last, Kind: g.R.Intn(2)})
	for _, f := range names {
		c.Ops = append(c.Ops, Op{Code: OpStats, Slot: last + 1, F: f})
	}
	return c
}

// AssocCase: C17 - the flat merge, two left bracketings (deletions applied in
// the inner merge, or translated through its DocumentNumbers and applied in
// the outer merge), a right bracketing and the single-segment merge of the
// result must all be observationally identical, statistics included.
func (g *Gen) AssocCase() *Case {
	c := &Case{Family: "assoc"}
	r := g.R
	k := 2 + r.Intn(3)
	var ops []Op
	counts := make([]int, k)
	drops := make([]MergeIn, k)
	for i := 0; i < k; i++ {
		n := g.smallSize()
		if n > 24 {
			n = 24
		}
		cm := g.ChunkMode()
		b := g.Batch(BatchOpts{NDocs: n, IDPrefix: string(rune('a' + i))})
		c.tagBatch(b, cm)
		ops = append(ops, Op{Code: OpBuild, CM: cm, Batch: b})
		counts[i] = n
		d, isNil, _ := g.Drops(n)
		drops[i] = MergeIn{Slot: i, Drops: d, DropsNil: isNil}
		if len(d) > 0 && i < k-1 && k >= 3 {
			c.tag("three_inputs_drop_nonlast")
		}
		if len(d) > 0 {
			c.tag("drops")
		}
	}
	slot := k - 1
	next := func() int { slot++; return slot }
	var obs []int
	addObs := func(s int) {
		ops = append(ops, Op{Code: OpObsAll, Slot: s})
		obs = append(obs, len(ops)-1)
	}
	cp := func(a []MergeIn) []MergeIn { return append([]MergeIn(nil), a...) }
	// flat
	ops = append(ops, Op{Code: OpMerge, CM: g.ChunkMode(), Ins: cp(drops)})
	flat := next()
	addObs(flat)
	j := 1 + r.Intn(k-1)
	// left bracketing, deletions inside
	ops = append(ops, Op{Code: OpMerge, CM: g.ChunkMode(), Ins: cp(drops[:j])})
	m1 := next()
	ops = append(ops, Op{Code: OpMerge, CM: g.ChunkMode(), Ins: append([]MergeIn{{Slot: m1, DropsNil: true}}, cp(drops[j:])...)})
	addObs(next())
	// left bracketing, deletions translated through the inner merge's table
	var nodrops []MergeIn
	var via []ViaRef
	for i := 0; i < j; i++ {
		nodrops = append(nodrops, MergeIn{Slot: i, DropsNil: true})
	}
	ops = append(ops, Op{Code: OpMerge, CM: g.ChunkMode(), Ins: nodrops})
	n1 := next()
	for i := 0; i < j; i++ {
		via = append(via, ViaRef{MergeSlot: n1, Input: i, Orig: append([]uint64{}, drops[i].Drops...)})
	}
	ops = append(ops, Op{Code: OpMerge, CM: g.ChunkMode(), Ins: append([]MergeIn{{Slot: n1, Via: via}}, cp(drops[j:])...)})
	addObs(next())
	// right bracketing
	ops = append(ops, Op{Code: OpMerge, CM: g.ChunkMode(), Ins: cp(drops[j:])})
	r1 := next()
	ops = append(ops, Op{Code: OpMerge, CM: g.ChunkMode(), Ins: append(cp(drops[:j]), MergeIn{Slot: r1, DropsNil: true})})
	addObs(next())
	// single-segment merge of the flat result
	ops = append(ops, Op{Code: OpMerge, CM: g.ChunkMode(), Ins: []MergeIn{{Slot: flat, DropsNil: true}}})
	addObs(next())
	// single-segment merge of a built segment (statistics change flavour: compared with the model only)
	ops = append(ops, Op{Code: OpMerge, CM: g.ChunkMode(), Ins: []MergeIn{{Slot: 0, DropsNil: true}}})
	ops = append(ops, Op{Code: OpObsAll, Slot: next()})
	c.Ops = ops
	c.Equal = [][]int{obs}
	return c
}

// FooterCase: C11 - persist built, merged and loaded segments; the model parses
// the real bytes and recomputes the CRC.
func (g *Gen) FooterCase() *Case {
	c := &Case{Family: "footer"}
	c.Ops, _ = g.mergeTree(c, 0)
	last := g.lastSlot(c.Ops)
	c.Ops = append(c.Ops, Op{Code: OpReload, Slot: last, Kind: g.R.Intn(2)})
	for s := 0; s <= last+1; s++ {
		c.Ops = append(c.Ops, Op{Code: OpFooter, Slot: s})
		c.Ops = append(c.Ops, Op{Code: OpContainer, Slot: s})
	}
	return c
}

// ImmutCase: C15 - dump the inputs of merges before and after the merges and
// persists took place; the dumps must be identical (and equal to the model's).
func (g *Gen) ImmutCase() *Case {
	c := &Case{Family: "immut"}
	shape := 2 + g.R.Intn(3)
	tree, _ := g.mergeTree(c, shape)
	// dump every slot right after it was created, then again after everything else happened
	var ops []Op
	firstObs := map[int]int{}
	slot := -1
	for _, o := range tree {
		ops = append(ops, o)
		slot++
		ops = append(ops, Op{Code: OpObsAll, Slot: slot})
		firstObs[slot] = len(ops) - 1
	}
	ops = append(ops, Op{Code: OpReload, Slot: slot, Kind: 1})
	for s := 0; s <= slot; s++ {
		ops = append(ops, Op{Code: OpObsAll, Slot: s})
		c.Equal = append(c.Equal, []int{firstObs[s], len(ops) - 1})
	}
	c.Ops = ops
	return c
}

// CopyPathMerge: segments with identical field lists merged without deletions
// take the stored-field byte-copy path; sizes are chosen so that the output's
// 128-document blocks end in the middle of a source block (C02, C03, C06).
func (g *Gen) CopyPathMerge() *Case {
	c := &Case{Family: "copy_path_merge"}
	r := g.R
	k := 2 + r.Intn(2)
	nf := 1 + r.Intn(3)
	var ops []Op
	var ins []MergeIn
	total := 0
	for i := 0; i < k; i++ {
		n := 40 + r.Intn(120)
		b := g.Batch(BatchOpts{NDocs: n, NFields: nf, NVocab: 5, AllFields: true, IDPrefix: string(rune('a' + i)), BigValues: r.Intn(2) == 0})
		for d := range b { // every document carries _id so that the field lists agree
			has := false
			for _, f := range b[d] {
				if f.N == "_id" {
					has = true
				}
			}
			if !has {
				b[d] = append(b[d], idField(string(rune('a'+i))+"x"+string(rune('0'+d%10)), true))
			}
		}
		ops = append(ops, Op{Code: OpBuild, CM: g.ChunkMode(), Batch: b})
		ins = append(ins, MergeIn{Slot: i, DropsNil: r.Intn(2) == 0, Drops: []uint64{}})
		total += n
	}
	ops = append(ops, Op{Code: OpMerge, CM: g.ChunkMode(), Ins: ins})
	c.tag("merge")
	c.tag("copy_path")
	if total > 128 {
		c.tag("multi_block")
		c.tag("block_edge")
	}
	ops = append(ops, Op{Code: OpObsAll, Slot: k})
	for i := 0; i < 12; i++ {
		ops = append(ops, Op{Code: OpStored, Slot: k, N: uint64(r.Intn(total))})
	}
	ops = append(ops, Op{Code: OpStored, Slot: k, N: 127}, Op{Code: OpStored, Slot: k, N: 128}, Op{Code: OpStored, Slot: k, N: uint64(total - 1)})
	c.Ops = ops
	return c
}

// BigMerge: an input segment with more than 1024 documents (several doc-value
// chunks, adaptive multi-chunk postings) merged with a small one (C02).
func (g *Gen) BigMerge() *Case {
	c := &Case{Family: "big_merge"}
	r := g.R
	n := 1030 + r.Intn(200)
	o := BatchOpts{NDocs: n, NFields: 2, NVocab: 4, ForceDV: true, NoStored: true}
	g.bigMerges++
	switch g.bigMerges % 3 {
	case 1: // dense: terms (also the empty term) with about 1024 postings each, some above, some below; deletions move them across
		n = 1400 + r.Intn(200)
		o = BatchOpts{NDocs: n, NFields: 2, NVocab: 3, ForceDV: true, NoStored: true, Dense: true, AllFields: true}
		c.tag("dense_big")
	case 2: // a whole doc-value chunk without one field
		n = 2100 + r.Intn(300)
		hole := fieldNames[r.Intn(2)]
		o = BatchOpts{NDocs: n, NFields: 2, NVocab: 4, ForceDV: true, NoStored: true, AllFields: true,
			SkipField: func(d int) string {
				if d >= 1024 && d < 2048 {
					return hole
				}
				return ""
			}}
		c.tag("dv_hole")
	}
	b := g.Batch(o)
	b2 := g.Batch(BatchOpts{NDocs: 3 + r.Intn(5), NFields: 2, NVocab: 4, ForceDV: true, IDPrefix: "x"})
	c.tagBatch(b, 1025)
	d := g.subset(n, 7)
	c.Ops = []Op{{Code: OpBuild, CM: 1025, Batch: b}, {Code: OpBuild, CM: 3, Batch: b2},
		{Code: OpMerge, CM: 1025, Ins: []MergeIn{{Slot: 0, Drops: d}, {Slot: 1, DropsNil: true}}},
		{Code: OpObsAll, Slot: 2}}
	c.tag("merge")
	c.tag("drops_and_survivors")
	c.tag("multi_chunk")
	return c
}

// DVHop: more than 2048 documents where one whole 1024-document chunk has no
// terms in a doc-value field; one reader hops chunk A, the empty chunk, chunk A (C07, C13).
func (g *Gen) DVHop() *Case {
	c := &Case{Family: "dv_hop"}
	r := g.R
	n := 2100 + r.Intn(900)
	hole := fieldNames[r.Intn(2)]
	b := g.Batch(BatchOpts{NDocs: n, NFields: 2, NVocab: 4, ForceDV: true, NoStored: true, AllFields: true,
		SkipField: func(d int) string {
			if d >= 1024 && d < 2048 {
				return hole
			}
			return ""
		}})
	ops := []Op{{Code: OpBuild, CM: 1025, Batch: b}}
	slot := 0
	if r.Intn(2) == 0 {
		ops = append(ops, Op{Code: OpReload, Slot: 0, Kind: r.Intn(2)})
		slot = 1
	}
	var visits []uint64
	for i := 0; i < 24; i++ {
		switch i % 3 {
		case 0:
			visits = append(visits, uint64(2048+r.Intn(n-2048)))
		case 1:
			visits = append(visits, uint64(1024+r.Intn(1024)))
		default:
			visits = append(visits, uint64(2048+r.Intn(n-2048)))
		}
		if r.Intn(4) == 0 {
			visits = append(visits, uint64(r.Intn(1024)))
		}
	}
	fs := BatchFields(b)
	ops = append(ops, Op{Code: OpDV, Slot: slot, RdSlot: 1, Fields: fs, Visits: visits})
	ops = append(ops, Op{Code: OpDV, Slot: slot, RdSlot: 1, Fields: fs, Visits: visits[:10]})
	c.Ops = ops
	c.tag("dv_chunk_reentry")
	c.tag("reader_reuse")
	c.tag("multi_dvchunk")
	return c
}

// LayoutCase: every segment of a random merge tree is persisted by the code under
// test and parsed by the frozen reference's structural dumper; the Coq model must
// predict the same logical layout (chunk boundaries and bytes, 1-hit decisions,
// stored blocks and offsets, doc-value headers) from the scenario alone (C10, C01, C02).
func (g *Gen) LayoutCase(big bool) *Case {
	c := &Case{Family: "layout"}
	if big {
		n := 1030 + g.R.Intn(400)
		b := g.Batch(BatchOpts{NDocs: n, NFields: 2, NVocab: 4, ForceDV: g.R.Intn(2) == 0})
		c.tagBatch(b, 1025)
		c.Ops = []Op{{Code: OpBuild, CM: 1025, Batch: b}, {Code: OpLayout, Slot: 0},
			{Code: OpMerge, CM: 1025, Ins: []MergeIn{{Slot: 0, Drops: g.subset(n, 5)}}}, {Code: OpLayout, Slot: 1}}
		c.tag("merge")
		return c
	}
	c.Ops, _ = g.mergeTree(c, 0)
	last := g.lastSlot(c.Ops)
	for s := 0; s <= last; s++ {
		c.Ops = append(c.Ops, Op{Code: OpLayout, Slot: s})
	}
	return c
}

// ChunkBoundaryMerge: a merge in the adaptive chunk mode whose terms sit around
// the 1,024-posting boundary where the number of chunks changes: a term above
// it in every document, a term that the deletions take from above to below it,
// fields whose first term is the empty term with few postings right after a
// field whose last term has many.  Writer and reader must derive the same
// chunk size from the same cardinality (C02, C05, C10).
func (g *Gen) ChunkBoundaryMerge() *Case {
	c := &Case{Family: "chunk_boundary_merge"}
	r := g.R
	n := 1300 + r.Intn(120)
	edge := 1030 + r.Intn(25)
	var b Batch
	for d := 0; d < n; d++ {
		body := Field{N: "body", DV: true}
		add := func(f *Field, t string, withLoc bool) {
			tm := Term{T: []byte(t), Freq: 1 + r.Intn(2)}
			if withLoc && r.Intn(3) == 0 {
				tm.Locs = []Loc{{Pos: 1 + r.Intn(5), Start: r.Intn(200), End_: 200 + r.Intn(9)}}
			}
			f.Len += tm.Freq
			f.Terms = append(f.Terms, tm)
		}
		add(&body, "ab", true) // every document: stays above 1,024 after the deletions
		if d < edge {
			add(&body, "a", false) // above 1,024 before, below after the deletions
		}
		if r.Intn(5) < 2 {
			add(&body, "", true)
		}
		title := Field{N: "title", DV: true}
		if r.Intn(10) < 3 {
			add(&title, "", false) // first term of the field, few hundred postings
		}
		if r.Intn(2) == 0 {
			add(&title, "zz", true)
		}
		doc := Doc{idField("k"+string(rune('a'+d%26))+string(rune('a'+(d/26)%26))+string(rune('a'+d/676)), r.Intn(4) == 0), body}
		if len(title.Terms) > 0 {
			doc = append(doc, title)
		}
		b = append(b, doc)
	}
	// the second input only has _id: it must not add terms to body or title
	b2 := Batch{{idField("x0", true)}, {idField("x1", false)}}
	drops := g.subset(n, 12)
	c.Ops = []Op{{Code: OpBuild, CM: 1025, Batch: b}, {Code: OpBuild, CM: 3, Batch: b2},
		{Code: OpMerge, CM: 1025, Ins: []MergeIn{{Slot: 0, Drops: drops}, {Slot: 1, DropsNil: true}}},
		{Code: OpObsAll, Slot: 2}, {Code: OpLayout, Slot: 2},
		{Code: OpIter, Slot: 2, F: "body", T: []byte("a"), ExceptNil: true, Except: []uint64{}, Flags: [3]bool{true, true, true},
			IterOps: []IterOp{{}, {Adv: true, D: 500}, {}, {Adv: true, D: 900}, {}, {Adv: true, D: uint64(n)}, {}}},
		{Code: OpIter, Slot: 2, F: "title", T: []byte(""), Except: g.subset(n, 9), Flags: [3]bool{true, true, false},
			IterOps: []IterOp{{}, {}, {Adv: true, D: 700}, {}}}}
	c.tag("merge")
	c.tag("drops_and_survivors")
	c.tag("multi_chunk")
	c.tag("chunk_boundary")
	return c
}

package hx

import "fmt"

// PlanCases decides which scenario families and how many cases a property check runs.
func PlanCases(prop, tier string, seed int64) (cases []*Case, rule []string) {
	g := NewGen(seed*1000003 + int64(propSalt(prop)))
	g.FreeLen = prop != "C16" // C16 quantifies over inputs whose field length is the sum of the term frequencies
	thorough := tier == "thorough"
	n := func(q, t int) int {
		if thorough {
			return 3 * t // the thorough tier: 30-45x the quick tier
		}
		return q
	}
	add := func(k int, what string, f func() *Case) {
		for i := 0; i < k; i++ {
			c := f()
			c.Seed = seed
			cases = append(cases, c)
		}
		rule = append(rule, fmt.Sprintf("%d x %s", k, what))
	}
	for _, c := range CorpusCases(prop) {
		c.Seed = seed
		cases = append(cases, c)
	}
	if len(cases) > 0 {
		rule = append(rule, fmt.Sprintf("%d corpus cases (minimal reproductions of the defects found so far) run first", len(cases)))
	}
	switch prop {
	case "C01":
		add(n(160, 2000), "build a random batch in a random chunk mode and dump every API answer", func() *Case { return g.BuildObs(false) })
		add(n(2, 24), "the same with 1030-1330 documents (adaptive multi-chunk postings)", func() *Case { return g.BuildObs(true) })
		add(n(1, 6), "2,050-2,250 documents, two doc-value fields of different sparsity (values only in the first documents / nothing in the middle chunk) written one after the other, built and merged", func() *Case { return g.SparseDVFields(false) })
		add(n(20, 300), "the byte layout the builder writes (chunks, stored blocks, doc-value chunks) compared with the model's", func() *Case { return g.LayoutCase(false) })
		add(n(25, 300), "postings looked up through reused lists and iterators (nothing the batch does not imply, also for absent terms)", func() *Case { return g.IterCase(8) })
		add(n(40, 600), "operation scripts on one chunkedIntCoder (per term: Reset, SetChunkSize with varying chunk sizes and maximal document numbers, ascending Adds, Close, Write) compared with the coder model: chunk boundaries and decompressed contents", func() *Case { return g.UnitIntCoder() })
		add(n(1, 6), "two segments with 300 fields each (field ids across the 127/128 and 255/256 boundaries, a location in every field): every dictionary opened, merged with a deletion, reloaded", func() *Case { return g.WideSegment() })
		add(n(1, 6), "520-700 documents carrying the same field twice with the same term (seen twice as often as it has documents): dump, layout, iterator", func() *Case { return g.RepeatedFieldBig() })
		add(n(2, 8), "a field whose name is the empty string: dumps, term lists that start with it, reloaded, merged", func() *Case { return g.EmptyFieldName() })
		add(n(2, 12), "field names of 127, 128, 129 and 200 bytes: built, merged by the merger, reloaded; footer (CRC-32 recomputed by the model) and loader models on every file, the merger's own bytes included", func() *Case { return g.LongFieldName() })
	case "C02":
		add(n(140, 2000), "build 1-4 batches, merge them (also merges of merges) with random deletions and dump the result", func() *Case { return g.MergeObs() })
		add(n(12, 150), "segments with identical field lists merged without deletions (stored-field byte-copy path across 128-document blocks)", func() *Case { return g.CopyPathMerge() })
		add(n(4, 40), "a 1,030-2,400 document segment merged with deletions (several doc-value chunks; dense terms whose cardinality crosses 1,024 through the deletions; an empty doc-value chunk)", func() *Case { return g.BigMerge() })
		add(n(20, 300), "the byte layout the merger writes compared with the model's", func() *Case { return g.LayoutCase(false) })
		add(n(2, 20), "merges whose term cardinalities sit around the 1,024-posting boundary of the adaptive chunk mode (above, crossing through the deletions, an empty first term after a long last term)", func() *Case { return g.ChunkBoundaryMerge() })
		add(n(8, 120), "twin segments (same shape and offsets, different term bytes, frequencies or stored values): lists, iterators, doc-value readers and the stored-field context carried from one to the other, then merged", func() *Case { return g.TwinCase() })
		add(n(4, 60), "merges through the stored-field re-encoding path (deletions, differing field lists) with more than 128 survivors: renumbering across a stored block", func() *Case { return g.ReencodeBlockMerge() })
		add(n(5, 60), "a zero-document merge output that kept its field list, reloaded and merged in every position with a segment that has fewer fields", func() *Case { return g.ZeroDocFieldsMerge() })
		add(n(1, 9), "merges with exactly 1,024 or 2,048 survivors (last doc-value and postings chunk exactly full), dumped, reloaded from memory and from a file", func() *Case { return g.ExactChunkMerge() })
		add(n(1, 6), "three segments sharing the empty term whose cardinality only the sum of all three takes above 1,024: flat, left, right bracketing and single-segment merge dumped", func() *Case { return g.BigAssoc() })
		add(n(40, 600), "operation scripts on one chunkedIntCoder (per term: Reset, SetChunkSize with varying chunk sizes and maximal document numbers, ascending Adds, Close, Write) compared with the coder model: chunk boundaries and decompressed contents", func() *Case { return g.UnitIntCoder() })
		add(n(30, 400), "operation scripts on one chunkedContentCoder reused for several fields (Reset in between, sparse fields, skipped chunks) compared with the coder model: per chunk number the header pairs and decompressed data", func() *Case { return g.UnitContentCoder() })
		add(n(8, 100), "scripts on the stored-field block coder (0-300 documents): block boundaries, sizes and decompressed blocks compared with the coder model", func() *Case { return g.UnitDocCoder() })
		add(n(40, 600), "the dictionary enumerator (k-way merge) over 1-4 real vellum FSTs (empty dictionaries, the empty term alone or with others, 1-hit values) walked with Current / GetLowIdxsAndValues / Next and compared with the enumerator model", func() *Case { return g.UnitEnumerator() })
		add(n(5, 60), "a first input with every field and a later input (no deletions) with a strict subset of them, merged in several orders and as merges of merges: stored values must keep their field", func() *Case { return g.SubsetFieldsMerge() })
		add(n(3, 12), "a term with 1,023 / 1,024 / 2,047 postings in a built input plus one 1-hit posting in a previously merged input whose document is (or is not) deleted in this merge: writer and reader must agree on the chunk size", func() *Case { return g.OneHitBoundary() })
		add(n(1, 6), "2,050-2,250 documents, two doc-value fields of different sparsity (values only in the first documents / nothing in the middle chunk) written one after the other, built and merged", func() *Case { return g.SparseDVFields(false) })
		add(n(1, 6), "1,200-1,400 documents, a doc-value field whose first 1,024-document chunk is empty, a doc-value field without any term, a merge deleting every document with a value; built, merged, reloaded from a file", func() *Case { return g.EmptyFirstDVChunk(false) })
		add(n(1, 6), "two segments with 300 fields each (field ids across the 127/128 and 255/256 boundaries, a location in every field): every dictionary opened, merged with a deletion, reloaded", func() *Case { return g.WideSegment() })
		add(n(3, 12), "a term without locations in two inputs of which only one posting survives, in the document that becomes number 0, while the last input that has the term loses all its postings for it", func() *Case { return g.LastInputDropped() })
		add(n(7, 14), "the smallest files ice writes (one document with only _id, with or without doc values or stored value, the empty term alone, no _id at all): built, merged, the merge output loaded from memory and from a file", func() *Case { return g.TinyShapes() })
		add(n(3, 12), "a posting without locations whose frequency is 2^32+1 / 2^33+1 / 2^32, alone in its term: flat merge, both bracketings, single-segment merges, full dumps", func() *Case { return g.HugeFreqAssoc() })
	case "C03":
		add(n(140, 2000), "merge with random deletion sets (nil, empty, sparse, dense, everything) and report DocumentNumbers", func() *Case { return g.MergeObs() })
		add(n(12, 150), "segments with identical field lists merged without deletions (byte-copy path across 128-document blocks): content at the reported numbers", func() *Case { return g.CopyPathMerge() })
		add(n(4, 60), "merges through the stored-field re-encoding path (deletions, differing field lists) with more than 128 survivors: renumbering across a stored block", func() *Case { return g.ReencodeBlockMerge() })
		add(n(5, 60), "a zero-document merge output that kept its field list, reloaded and merged in every position with a segment that has fewer fields", func() *Case { return g.ZeroDocFieldsMerge() })
		add(n(1, 6), "three segments sharing the empty term whose cardinality only the sum of all three takes above 1,024: flat, left, right bracketing and single-segment merge dumped", func() *Case { return g.BigAssoc() })
		add(n(5, 60), "a first input with every field and a later input (no deletions) with a strict subset of them, merged in several orders and as merges of merges: stored values must keep their field", func() *Case { return g.SubsetFieldsMerge() })
		add(n(1, 6), "two segments with 300 fields each (field ids across the 127/128 and 255/256 boundaries, a location in every field): every dictionary opened, merged with a deletion, reloaded", func() *Case { return g.WideSegment() })
	case "C04":
		add(n(30, 400), "persist every segment of a random merge tree; the byte-exact loader models (footer, fields section, stored trailer and index, doc-value locations) run on the real bytes and must read what the loader reads", func() *Case { return g.FooterCase() })
		add(n(110, 1500), "build or merge, dump, reload from memory and from a file, re-persist the loaded segment, dump each", func() *Case { return g.PersistLoad() })
		add(n(2, 12), "merges with exactly 1,024 or 2,048 survivors (last doc-value and postings chunk exactly full), dumped, reloaded from memory and from a file", func() *Case { return g.ExactChunkMerge() })
		add(n(4, 40), "a zero-document merge output that kept its field list, reloaded and merged in every position with a segment that has fewer fields", func() *Case { return g.ZeroDocFieldsMerge() })
		add(n(7, 28), "the smallest files ice writes (one document with only _id, with or without doc values or stored value, the empty term alone, no _id at all): built, merged, loaded from memory and from a file; the loader models run on the real bytes", func() *Case { return g.TinyShapes() })
		add(n(1, 6), "a merge whose term cardinalities sit around the 1,024-posting boundary of the adaptive chunk mode (an empty first term after a long last term), also reloaded", func() *Case { return g.ChunkBoundaryMerge() })
		add(n(2, 12), "field names of 127, 128, 129 and 200 bytes: built, merged by the merger, reloaded; footer (CRC-32 recomputed by the model) and loader models on every file, the merger's own bytes included", func() *Case { return g.LongFieldName() })
	case "C05":
		add(n(150, 2500), "a built/loaded/merged segment and 8 iterators with random exclusions, flags, Next/Advance sequences", func() *Case { return g.IterCase(8) })
		add(n(2, 20), "merges whose term cardinalities sit around the 1,024-posting boundary of the adaptive chunk mode (writer and reader must derive the same chunk size)", func() *Case { return g.ChunkBoundaryMerge() })
		add(n(8, 120), "twin segments (same shape and offsets, different term bytes, frequencies or stored values): lists, iterators, doc-value readers and the stored-field context carried from one to the other, then merged", func() *Case { return g.TwinCase() })
		add(n(3, 12), "a term with 1,023 / 1,024 / 2,047 postings in a built input plus one 1-hit posting in a previously merged input whose document is (or is not) deleted in this merge: writer and reader must agree on the chunk size", func() *Case { return g.OneHitBoundary() })
		add(n(3, 12), "a term without locations in two inputs of which only one posting survives, in the document that becomes number 0, while the last input that has the term loses all its postings for it", func() *Case { return g.LastInputDropped() })
		add(n(4, 40), "chunk modes 2-5, a term in every document: Next up to the last posting of a chunk, Advance to a later posting of the next chunk, Next; a term without postings in chunk 0 advanced into from a fresh iterator (exclusion-free path, every flag)", func() *Case { return g.ChunkEdgeWalk() })
	case "C13":
		add(n(150, 2500), "histories of 14 lookups reusing postings lists and iterators across terms, encodings and flags", func() *Case { return g.IterCase(14) })
		add(n(40, 600), "doc-value readers reused across visit sequences", func() *Case { return g.DVCase(false) })
		add(n(2, 30), "one doc-value reader reused across 1024-document chunks (1030-2230 documents)", func() *Case { return g.DVCase(true) })
		add(n(1, 20), "one reader hopping through an empty chunk", func() *Case { return g.DVHop() })
		add(n(40, 600), "dictionary enumeration on reused dictionaries", func() *Case { return g.DictCase() })
		add(n(12, 150), "twin segments (same shape and offsets, different term bytes, frequencies or stored values): lists, iterators, doc-value readers and the stored-field context carried from one to the other, then merged", func() *Case { return g.TwinCase() })
		add(n(1, 8), "1,200-1,400 documents, a doc-value field whose first 1,024-document chunk is empty, a doc-value field without any term, a merge deleting every document with a value; built, merged, reloaded from a file", func() *Case { return g.EmptyFirstDVChunk(false) })
		add(n(4, 40), "chunk modes 2-5, a term in every document: Next up to the last posting of a chunk, Advance to a later posting of the next chunk, Next; a term without postings in chunk 0 advanced into from a fresh iterator (exclusion-free path, every flag)", func() *Case { return g.ChunkEdgeWalk() })
	case "C06":
		add(n(130, 2000), "stored-field visits in random order with early stop and out-of-range numbers", func() *Case { return g.StoredCase(false) })
		add(n(12, 200), "the same on 120-420 documents (several 128-document blocks, short records)", func() *Case { return g.StoredCase(true) })
		add(n(12, 150), "merges through the stored-field byte-copy path whose output blocks end inside a source block", func() *Case { return g.CopyPathMerge() })
		add(n(4, 60), "merges through the stored-field re-encoding path (deletions, differing field lists) with more than 128 survivors: renumbering across a stored block", func() *Case { return g.ReencodeBlockMerge() })
		add(n(5, 60), "a zero-document merge output that kept its field list, reloaded and merged in every position with a segment that has fewer fields", func() *Case { return g.ZeroDocFieldsMerge() })
		add(n(10, 150), "scripts on the stored-field block coder (0-300 documents): block boundaries, sizes and decompressed blocks compared with the coder model", func() *Case { return g.UnitDocCoder() })
		add(n(9, 120), "twin segments (same shape and offsets, different term bytes, frequencies or stored values): lists, iterators, doc-value readers and the stored-field context carried from one to the other, then merged", func() *Case { return g.TwinCase() })
		add(n(5, 60), "a first input with every field and a later input (no deletions) with a strict subset of them, merged in several orders and as merges of merges: stored values must keep their field", func() *Case { return g.SubsetFieldsMerge() })
	case "C07":
		add(n(120, 1800), "doc-value readers over field subsets, forward/backward/random visits", func() *Case { return g.DVCase(false) })
		add(n(3, 40), "the same on 1030-2230 documents (several 1024-document chunks)", func() *Case { return g.DVCase(true) })
		add(n(2, 30), "2100-3000 documents with a whole 1024-document chunk empty in one field; one reader hops chunk A, the empty chunk, chunk A", func() *Case { return g.DVHop() })
		add(n(3, 30), "merges of 1,030-2,400 document segments (dense terms, a doc-value chunk without one field) dumped completely", func() *Case { return g.BigMerge() })
		add(n(1, 10), "2,050-2,250 documents, two doc-value fields of different sparsity (values only in the first documents / nothing in the middle chunk) written one after the other, built and merged", func() *Case { return g.SparseDVFields(false) })
		add(n(1, 9), "merges with exactly 1,024 or 2,048 survivors (last doc-value and postings chunk exactly full), dumped, reloaded from memory and from a file", func() *Case { return g.ExactChunkMerge() })
		add(n(6, 80), "twin segments (same shape and offsets, different term bytes, frequencies or stored values): lists, iterators, doc-value readers and the stored-field context carried from one to the other, then merged", func() *Case { return g.TwinCase() })
		add(n(40, 600), "operation scripts on one chunkedContentCoder reused for several fields (Reset in between, sparse fields, skipped chunks) compared with the coder model: per chunk number the header pairs and decompressed data", func() *Case { return g.UnitContentCoder() })
		add(n(1, 8), "1,200-1,400 documents, a doc-value field whose first 1,024-document chunk is empty, a doc-value field without any term, a merge deleting every document with a value; built, merged, reloaded from a file", func() *Case { return g.EmptyFirstDVChunk(false) })
	case "C08":
		add(n(150, 2500), "dictionary enumeration with key ranges and prefix automata, Contains", func() *Case { return g.DictCase() })
		add(n(25, 300), "PostingsList lookups of known, unknown-term and unknown-field entries through reused lists (an unknown term yields an empty list whatever was looked up before)", func() *Case { return g.IterCase(10) })
		add(n(1, 6), "two segments with 300 fields each (field ids across the 127/128 and 255/256 boundaries, a location in every field): every dictionary opened, merged with a deletion, reloaded", func() *Case { return g.WideSegment() })
		add(n(2, 8), "a field whose name is the empty string: dumps, term lists that start with it, reloaded, merged", func() *Case { return g.EmptyFieldName() })
	case "C16":
		add(n(120, 2000), "CollectionStats of every field of built, merged and reloaded segments", func() *Case { return g.StatsCase() })
	case "C11":
		add(n(60, 800), "persist every built, merged and reloaded segment of a random merge tree; the model parses the footer of the real bytes and recomputes the CRC-32; loaded segments are persisted again", func() *Case { return g.FooterCase() })
		add(n(2, 12), "field names of 127, 128, 129 and 200 bytes: built, merged by the merger, reloaded; footer (CRC-32 recomputed by the model) and loader models on every file, the merger's own bytes included", func() *Case { return g.LongFieldName() })
	case "C17":
		add(n(3, 30), "single-segment and two-segment merges of 1,030-2,400 document segments (dense terms above 1,024 postings with deletions, an empty doc-value chunk): the model is the flat merge", func() *Case { return g.BigMerge() })
		add(n(70, 900), "2-4 built segments with random deletions: flat merge, two left bracketings (deletions inside / translated through DocumentNumbers), right bracketing, single-segment merges; full dumps of all variants", func() *Case { return g.AssocCase() })
		add(n(1, 8), "three segments sharing the empty term whose cardinality only the sum of all three takes above 1,024: flat, left, right bracketing and single-segment merge dumped", func() *Case { return g.BigAssoc() })
		add(n(40, 600), "the dictionary enumerator (k-way merge) over 1-4 real vellum FSTs (empty dictionaries, the empty term alone or with others, 1-hit values) walked with Current / GetLowIdxsAndValues / Next and compared with the enumerator model", func() *Case { return g.UnitEnumerator() })
		add(n(5, 60), "a first input with every field and a later input (no deletions) with a strict subset of them, merged in several orders and as merges of merges: stored values must keep their field", func() *Case { return g.SubsetFieldsMerge() })
		add(n(3, 9), "a term with 1,023 / 1,024 / 2,047 postings in a built input plus one 1-hit posting in a previously merged input whose document is (or is not) deleted in this merge: writer and reader must agree on the chunk size", func() *Case { return g.OneHitBoundary() })
		add(n(3, 12), "a posting without locations whose frequency is 2^32+1 / 2^33+1 / 2^32, alone in its term: flat merge, both bracketings, single-segment merges, full dumps", func() *Case { return g.HugeFreqAssoc() })
	case "C18":
		add(n(150, 2500), "DocsMatchingTerms over mixed, repeated, unknown-field and unknown-term lists", func() *Case { return g.DocsMatchingCase() })
		add(n(1, 6), "two segments with 300 fields each (field ids across the 127/128 and 255/256 boundaries, a location in every field): every dictionary opened, merged with a deletion, reloaded", func() *Case { return g.WideSegment() })
		add(n(3, 12), "a term without locations in two inputs of which only one posting survives, in the document that becomes number 0, while the last input that has the term loses all its postings for it", func() *Case { return g.LastInputDropped() })
		add(n(2, 8), "a field whose name is the empty string: dumps, term lists that start with it, reloaded, merged", func() *Case { return g.EmptyFieldName() })
	case "C10":
		add(n(60, 800), "every segment of a random merge tree written by the current code, parsed by the frozen reference's structural dumper and compared with the layout the Coq model of the pinned format predicts", func() *Case { return g.LayoutCase(false) })
		add(n(2, 20), "the same for a 1030-1430 document segment and its merge (adaptive chunk sizes, several stored blocks and doc-value chunks)", func() *Case { return g.LayoutCase(true) })
		add(n(1, 10), "a merge whose term cardinalities sit around the 1,024-posting boundary of the adaptive chunk mode", func() *Case { return g.ChunkBoundaryMerge() })
		add(n(30, 400), "build or merge, dump, reload from memory and from a file (the model-compared part: the current code round-trips its own files)", func() *Case { return g.PersistLoad() })
		add(n(1, 8), "2,050-2,250 documents, two doc-value fields of different sparsity (values only in the first documents / nothing in the middle chunk) written one after the other, built and merged", func() *Case { return g.SparseDVFields(true) })
		add(n(30, 400), "operation scripts on one chunkedIntCoder (per term: Reset, SetChunkSize with varying chunk sizes and maximal document numbers, ascending Adds, Close, Write) compared with the coder model: chunk boundaries and decompressed contents", func() *Case { return g.UnitIntCoder() })
		add(n(30, 400), "operation scripts on one chunkedContentCoder reused for several fields (Reset in between, sparse fields, skipped chunks) compared with the coder model: per chunk number the header pairs and decompressed data", func() *Case { return g.UnitContentCoder() })
		add(n(8, 100), "scripts on the stored-field block coder (0-300 documents): block boundaries, sizes and decompressed blocks compared with the coder model", func() *Case { return g.UnitDocCoder() })
		add(n(1, 6), "1,200-1,400 documents, a doc-value field whose first 1,024-document chunk is empty, a doc-value field without any term, a merge deleting every document with a value; built, merged, reloaded from a file", func() *Case { return g.EmptyFirstDVChunk(true) })
		add(n(7, 14), "the smallest files ice writes (one document with only _id, with or without doc values or stored value, the empty term alone, no _id at all): built, merged, loaded from memory and from a file; the loader models run on the real bytes", func() *Case { return g.TinyShapes() })
	case "C12":
		add(n(20, 300), "merge and persist workloads whose complete output is compared with the model (the fault-free baseline of the fault enumeration)", func() *Case { return g.PersistLoad() })
	case "C14":
		add(n(60, 900), "build a random batch and dump it: the model is a function of the batch alone, so equality with it is independence from history", func() *Case { return g.BuildObs(false) })
		add(n(40, 600), "operation scripts on one chunkedIntCoder (per term: Reset, SetChunkSize with varying chunk sizes and maximal document numbers, ascending Adds, Close, Write) compared with the coder model: chunk boundaries and decompressed contents", func() *Case { return g.UnitIntCoder() })
	case "C15":
		add(n(40, 600), "merge trees whose inputs are dumped again after the merges took place", func() *Case { return g.ImmutCase() })
	case "C19":
		add(n(20, 300), "file-backed segments read without faults (the baseline of the fault enumeration)", func() *Case { return g.PersistLoad() })
		add(n(7, 14), "the smallest files ice writes (one document with only _id, with or without doc values or stored value, the empty term alone, no _id at all): built, merged, loaded from memory and from a file; the loader models run on the real bytes", func() *Case { return g.TinyShapes() })
	case "C09":
		add(n(20, 300), "sequential baseline: reads of built, merged and loaded segments compared with the model", func() *Case { return g.IterCase(6) })
		add(n(1, 6), "two segments with 300 fields each (field ids across the 127/128 and 255/256 boundaries, a location in every field): every dictionary opened, merged with a deletion, reloaded", func() *Case { return g.WideSegment() })
	default:
		panic("no plan for property " + prop)
	}
	return cases, rule
}

func propSalt(p string) int {
	s := 0
	for _, c := range p {
		s = s*31 + int(c)
	}
	return s
}

// NontrivialTags names the tags that make a case count as non-trivial for a property.
func NontrivialTags(prop string) map[string]bool {
	m := map[string]bool{}
	set := func(ts ...string) {
		for _, t := range ts {
			m[t] = true
		}
	}
	switch prop {
	case "C01":
		set("multi_chunk", "repeated_field", "composite_loc", "coder_reuse", "wide_field_list")
	case "C02":
		set("multi_chunk", "merge_of_merge", "drops_and_survivors", "chunk_boundary", "twin_segments", "reencode_path", "zero_doc_input_with_fields", "exact_chunk_multiple", "coder_reuse", "several_inputs", "subset_field_lists", "one_hit_input", "wide_field_list")
	case "C03":
		set("drops_and_survivors", "zero_survivors", "copy_path", "reencode_path", "zero_doc_input_with_fields", "subset_field_lists", "wide_field_list")
	case "C04":
		set("merge", "empty_batch", "zero_survivors", "multi_chunk", "exact_chunk_multiple", "tiny_file")
	case "C05":
		set("exclusion", "multi_chunk", "replace_actual", "clean_path", "reuse_across_segments", "one_hit_input")
	case "C13":
		set("reuse_pl", "reuse_it", "reader_reuse", "reuse_across_segments", "empty_first_dv_chunk")
	case "C06":
		set("block_edge", "early_stop", "multi_block", "copy_path", "reencode_path", "coder_reuse", "subset_field_lists", "twin_segments")
	case "C07":
		set("dv_chunk_reentry", "reader_reuse", "sparse_dv_fields", "exact_chunk_multiple", "twin_segments", "coder_reuse", "empty_first_dv_chunk")
	case "C08":
		set("merged", "loaded", "built")
	case "C16":
		set("merge", "drops_and_survivors", "wide_counts")
	case "C11":
		set("repersist_loaded")
	case "C10":
		set("merge", "multi_chunk", "layout_multi_chunk_term", "layout_multi_block", "layout_1hit", "sparse_dv_fields", "coder_reuse", "empty_first_dv_chunk", "tiny_file")
	case "C12", "C19":
		set("merge", "multi_chunk", "empty_batch", "zero_survivors")
	case "C14":
		set("multi_chunk", "repeated_field", "composite_loc", "coder_reuse")
	case "C15":
		set("merge")
	case "C09":
		set("merged", "loaded", "built")
	case "C17":
		set("three_inputs_drop_nonlast", "drops", "empty_term_in_all_inputs", "several_inputs", "subset_field_lists", "one_hit_input")
	case "C18":
		set("field_switch_unknown", "merged")
	}
	return m
}

// PostChecks are Go-side checks of one case that the flat transcript does not carry.
func PostChecks(prop string, c *Case, in *Interp, transcript W) []GoCheck {
	var fails []GoCheck
	for _, grp := range c.Equal {
		for _, k := range grp[1:] {
			if !eqW(in.Outs[grp[0]], in.Outs[k]) {
				fails = append(fails, GoCheck{prop, fmt.Sprintf("ops %d and %d must give identical answers but differ", grp[0], k)})
			}
		}
	}
	return fails
}

func eqW(a, b W) bool {
	if len(a) != len(b) {
		return false
	}
	for i := range a {
		if a[i] != b[i] {
			return false
		}
	}
	return true
}

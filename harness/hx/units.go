package hx

// Operation scripts on the three chunk coders of ice (verif hooks), next to
// their models (Units.v).  What is compared is what a reader of the written
// bytes finds per chunk number, with every zstd frame decompressed.

import (
	"bytes"
	"encoding/binary"
	"fmt"

	"github.com/blevesearch/vellum"
	ice "github.com/blugelabs/ice/v2"
)

const (
	OpUnitInt     = 24
	OpUnitContent = 25
	OpUnitDoc     = 26
)

const (
	CNew = iota
	CReset
	CSetChunkSize
	CAdd
	CClose
	CWrite
)

// COp is one step of a coder script.
type COp struct {
	Kind int      `json:"k"`
	A    uint64   `json:"a,omitempty"` // chunk size / document number
	B    uint64   `json:"b,omitempty"` // maximal document number
	Vals []uint64 `json:"vals,omitempty"`
	Meta []byte   `json:"meta,omitempty"`
	Data []byte   `json:"data,omitempty"`
}

func encodeScript(w *W, script []COp) {
	w.Num(uint64(len(script)))
	for _, o := range script {
		w.Num(uint64(o.Kind))
		switch o.Kind {
		case CNew, CSetChunkSize:
			w.Num(o.A)
			w.Num(o.B)
		case CAdd:
			w.Num(o.A)
			w.Nums(o.Vals)
			w.Bytes(o.Meta)
			w.Bytes(o.Data)
		}
	}
}

func unzstd(b []byte) ([]byte, error) {
	if len(b) == 0 {
		return nil, nil
	}
	return ice.ZSTDDecompress(nil, b)
}

// cutByEndOffsets returns the part of data a reader takes for each chunk number.
func cutByEndOffsets(data []byte, ends []uint64) ([][]byte, error) {
	var out [][]byte
	prev := uint64(0)
	for _, e := range ends {
		if e < prev || e > uint64(len(data)) {
			return nil, fmt.Errorf("chunk end offsets %v do not fit %d bytes of data", ends, len(data))
		}
		out = append(out, data[prev:e])
		prev = e
	}
	return out, nil
}

func runUnitScript(which int, script []COp) (out W) {
	defer func() {
		if r := recover(); r != nil {
			out = append(out, 9)
		}
	}()
	switch which {
	case OpUnitInt:
		var c *ice.VerifIntCoder
		for _, o := range script {
			if o.Kind != CNew && c == nil {
				return append(out, 8)
			}
			switch o.Kind {
			case CNew:
				c = ice.VerifNewIntCoder(o.A, o.B)
			case CReset:
				c.Reset()
			case CSetChunkSize:
				c.SetChunkSize(o.A, o.B)
			case CAdd:
				if err := c.Add(o.A, o.Vals...); err != nil {
					return append(out, ErrMark)
				}
			case CClose:
				if err := c.Close(); err != nil {
					return append(out, ErrMark)
				}
			case CWrite:
				var buf bytes.Buffer
				n, err := c.Write(&buf)
				if err != nil || n != buf.Len() {
					return append(out, ErrMark, 2)
				}
				b := buf.Bytes()
				nc, k := binary.Uvarint(b)
				if k <= 0 {
					return append(out, ErrMark, 3)
				}
				ends := make([]uint64, nc)
				for i := range ends {
					v, m := binary.Uvarint(b[k:])
					if m <= 0 {
						return append(out, ErrMark, 3)
					}
					ends[i] = v
					k += m
				}
				chunks, err := cutByEndOffsets(b[k:], ends)
				if err != nil {
					return append(out, ErrMark, 4)
				}
				out.Num(1)
				out.Num(uint64(len(chunks)))
				for _, ch := range chunks {
					plain, err := unzstd(ch)
					if err != nil {
						return append(out, ErrMark, 5)
					}
					out.Bytes(plain)
				}
				continue
			}
			out.Num(0)
		}
	case OpUnitContent:
		var c *ice.VerifContentCoder
		seen := 0 // bytes of c.Out that belong to earlier Writes
		for _, o := range script {
			if o.Kind != CNew && c == nil {
				return append(out, 8)
			}
			switch o.Kind {
			case CNew:
				c = ice.VerifNewContentCoder(o.A, o.B, len(o.Vals) > 0) // progressive write when Vals is non-empty
				seen = 0
			case CReset:
				c.Reset()
			case CSetChunkSize:
				return append(out, 8)
			case CAdd:
				if err := c.Add(o.A, o.Data); err != nil {
					return append(out, ErrMark)
				}
			case CClose:
				if err := c.Close(); err != nil {
					return append(out, ErrMark)
				}
			case CWrite:
				if _, err := c.Write(); err != nil {
					return append(out, ErrMark, 2)
				}
				b := c.Out.Bytes()[seen:]
				seen = c.Out.Len()
				if len(b) < 16 {
					return append(out, ErrMark, 3)
				}
				nc := binary.BigEndian.Uint64(b[len(b)-8:])
				ol := binary.BigEndian.Uint64(b[len(b)-16 : len(b)-8])
				if ol > uint64(len(b)-16) {
					return append(out, ErrMark, 3)
				}
				offs := b[uint64(len(b)-16)-ol : len(b)-16]
				data := b[:uint64(len(b)-16)-ol]
				ends := make([]uint64, nc)
				k := 0
				for i := range ends {
					v, m := binary.Uvarint(offs[k:])
					if m <= 0 {
						return append(out, ErrMark, 3)
					}
					ends[i] = v
					k += m
				}
				chunks, err := cutByEndOffsets(data, ends)
				if err != nil {
					return append(out, ErrMark, 4)
				}
				out.Num(1)
				out.Num(uint64(len(chunks)))
				for _, ch := range chunks {
					// a chunk: number of documents, delta coded (docNum, end offset) pairs, compressed data
					var pairs [][2]uint64
					var plain []byte
					if len(ch) > 0 {
						nd, k := binary.Uvarint(ch)
						if k <= 0 {
							return append(out, ErrMark, 5)
						}
						var dn, off uint64
						for i := uint64(0); i < nd; i++ {
							a, m := binary.Uvarint(ch[k:])
							if m <= 0 {
								return append(out, ErrMark, 5)
							}
							k += m
							b2, m := binary.Uvarint(ch[k:])
							if m <= 0 {
								return append(out, ErrMark, 5)
							}
							k += m
							dn += a
							off += b2
							pairs = append(pairs, [2]uint64{dn, off})
						}
						if plain, err = unzstd(ch[k:]); err != nil {
							return append(out, ErrMark, 6)
						}
					}
					out.Num(uint64(len(pairs)))
					for _, p := range pairs {
						out.Num(p[0])
						out.Num(p[1])
					}
					out.Bytes(plain)
				}
				continue
			}
			out.Num(0)
		}
	case OpUnitDoc:
		c := ice.VerifNewDocumentCoder(128)
		blocks := func() ([][]byte, error) {
			offs := c.Offsets()
			b := c.Out.Bytes()
			var res [][]byte
			for i := 0; i+1 < len(offs); i++ {
				if offs[i+1] > offs[i] {
					if offs[i+1] > uint64(len(b)) {
						return nil, fmt.Errorf("offsets beyond the bytes written")
					}
					plain, err := unzstd(b[offs[i]:offs[i+1]])
					if err != nil {
						return nil, err
					}
					res = append(res, plain)
				}
			}
			return res, nil
		}
		for _, o := range script {
			switch o.Kind {
			case CAdd:
				if _, err := c.Add(o.A, o.Meta, o.Data); err != nil {
					return append(out, ErrMark)
				}
				bl, err := blocks()
				if err != nil {
					return append(out, ErrMark, 4)
				}
				out.Num(0)
				out.Num(c.Size())
				out.Num(uint64(len(bl)))
			case CWrite:
				if err := c.Write(); err != nil {
					return append(out, ErrMark, 2)
				}
				bl, err := blocks()
				if err != nil {
					return append(out, ErrMark, 4)
				}
				out.Num(1)
				out.Num(uint64(len(bl)))
				for _, b := range bl {
					out.Bytes(b)
				}
			default:
				return append(out, 8)
			}
		}
	}
	return out
}

// ---- generators ----

func (g *Gen) someVals() []uint64 {
	n := 1 + g.R.Intn(4)
	v := make([]uint64, n)
	for i := range v {
		switch g.R.Intn(6) {
		case 0:
			v[i] = uint64(g.R.Intn(1 << 30))
		case 1:
			v[i] = 127 + uint64(g.R.Intn(3))
		default:
			v[i] = uint64(g.R.Intn(100))
		}
	}
	return v
}

func (g *Gen) someBytes(max int) []byte {
	b := make([]byte, g.R.Intn(max+1))
	for i := range b {
		b[i] = byte(g.R.Intn(256))
	}
	return b
}

// ascending document numbers in [0, max], possibly skipping whole chunks
func (g *Gen) ascending(max uint64, cs uint64) []uint64 {
	var out []uint64
	d := uint64(g.R.Intn(3))
	for d <= max {
		out = append(out, d)
		switch g.R.Intn(5) {
		case 0:
			d += cs * uint64(1+g.R.Intn(2)) // jump over a chunk
		case 1:
			d += 0 // the same document again (several Adds for one posting's locations)
			if g.R.Intn(2) == 0 {
				d++
			}
		default:
			d += uint64(1 + g.R.Intn(3))
		}
		if len(out) > 60 {
			break
		}
	}
	return out
}

// UnitIntCoder: the use new.go / merge.go make of one chunkedIntCoder: created
// once, then per term Reset, SetChunkSize (chunk sizes and maximal document
// numbers vary from term to term), Adds with ascending document numbers, Close,
// Write.  Now and then a step outside that discipline whose outcome is a panic
// on both sides.
func (g *Gen) UnitIntCoder() *Case {
	c := &Case{Family: "unit_intcoder"}
	r := g.R
	sizes := []uint64{1, 2, 3, 5, 8, 1024}
	cs := sizes[r.Intn(len(sizes))]
	max := uint64(r.Intn(40))
	script := []COp{{Kind: CNew, A: cs, B: max}}
	terms := 1 + r.Intn(6)
	for t := 0; t < terms; t++ {
		if t > 0 || r.Intn(2) == 0 {
			script = append(script, COp{Kind: CReset})
		}
		if r.Intn(5) != 0 {
			cs = sizes[r.Intn(len(sizes))]
			if r.Intn(3) == 0 {
				max = uint64(r.Intn(60))
				c.tag("max_changes")
			}
			script = append(script, COp{Kind: CSetChunkSize, A: cs, B: max})
		}
		for _, d := range g.ascending(max, cs) {
			script = append(script, COp{Kind: CAdd, A: d, Vals: g.someVals()})
		}
		if r.Intn(25) == 0 { // beyond the maximal document number: the chunk table is too short
			script = append(script, COp{Kind: CAdd, A: max + cs*uint64(1+r.Intn(3)), Vals: g.someVals()})
			c.tag("beyond_max")
		}
		script = append(script, COp{Kind: CClose})
		if r.Intn(30) == 0 {
			script = append(script, COp{Kind: CClose}) // a second Close always panics
			c.tag("double_close")
		}
		script = append(script, COp{Kind: CWrite})
	}
	c.Ops = []Op{{Code: OpUnitInt, Script: script}}
	c.tag("unit")
	if terms > 1 {
		c.tag("coder_reuse")
	}
	return c
}

// UnitContentCoder: one chunkedContentCoder used for several fields in a row
// (Reset in between), documents ascending with whole chunks skipped.
func (g *Gen) UnitContentCoder() *Case {
	c := &Case{Family: "unit_contentcoder"}
	r := g.R
	cs := []uint64{1, 2, 4, 7, 1024}[r.Intn(5)]
	max := uint64(r.Intn(40))
	newOp := COp{Kind: CNew, A: cs, B: max}
	if r.Intn(2) == 0 {
		newOp.Vals = []uint64{1} // progressive write
	}
	script := []COp{newOp}
	fields := 1 + r.Intn(4)
	for f := 0; f < fields; f++ {
		if f > 0 {
			script = append(script, COp{Kind: CReset})
		}
		docs := g.ascending(max, cs)
		if r.Intn(3) == 0 && len(docs) > 2 { // a field with values only in the first documents
			docs = docs[:1+r.Intn(2)]
			c.tag("sparse_field")
		}
		last := uint64(1 << 62)
		for _, d := range docs {
			if d == last {
				continue
			}
			last = d
			script = append(script, COp{Kind: CAdd, A: d, Data: g.someBytes(12)})
		}
		script = append(script, COp{Kind: CClose}, COp{Kind: CWrite})
	}
	c.Ops = []Op{{Code: OpUnitContent, Script: script}}
	c.tag("unit")
	if fields > 1 {
		c.tag("coder_reuse")
	}
	return c
}

// UnitDocCoder: the stored-field block coder with 128-document blocks.
func (g *Gen) UnitDocCoder() *Case {
	c := &Case{Family: "unit_doccoder"}
	r := g.R
	n := []int{0, 1, 5, 127, 128, 129, 200, 256, 300}[r.Intn(9)]
	var script []COp
	for d := 0; d < n; d++ {
		o := COp{Kind: CAdd, A: uint64(d), Meta: g.someBytes(6), Data: g.someBytes(9)}
		if r.Intn(40) == 0 {
			o.Data = g.someBytes(300)
		}
		script = append(script, o)
	}
	script = append(script, COp{Kind: CWrite})
	c.Ops = []Op{{Code: OpUnitDoc, Script: script}}
	c.tag("unit")
	if n > 128 {
		c.tag("multi_block")
	}
	return c
}

// ---- enumerator.go ----

const OpUnitEnum = 27

// EnumIn is one input of the k-way merge: ascending keys with their values.
type EnumIn struct {
	Keys [][]byte `json:"keys"`
	Vals []uint64 `json:"vals"`
}

func encodeEnum(w *W, ins []EnumIn, script []int) {
	w.Num(uint64(len(ins)))
	for _, in := range ins {
		w.Num(uint64(len(in.Keys)))
		for i := range in.Keys {
			w.Bytes(in.Keys[i])
			w.Num(in.Vals[i])
		}
	}
	w.Num(uint64(len(script)))
	for _, k := range script {
		w.Num(uint64(k))
	}
}

// runEnumScript builds one vellum FST per input, takes fresh iterators the way
// merge.go setupActiveForField does, and walks the real enumerator.
func runEnumScript(ins []EnumIn, script []int) (out W) {
	defer func() {
		if r := recover(); r != nil {
			out = append(out, 9)
		}
	}()
	var itrs []vellum.Iterator
	for _, in := range ins {
		var buf bytes.Buffer
		b, err := vellum.New(&buf, nil)
		if err != nil {
			return W{ErrMark, 1}
		}
		for i := range in.Keys {
			if err := b.Insert(in.Keys[i], in.Vals[i]); err != nil {
				return W{ErrMark, 2}
			}
		}
		if err := b.Close(); err != nil {
			return W{ErrMark, 3}
		}
		fst, err := vellum.Load(buf.Bytes())
		if err != nil {
			return W{ErrMark, 4}
		}
		itr, err := fst.Iterator(nil, nil)
		if err != nil && err != vellum.ErrIteratorDone {
			return W{ErrMark, 5}
		}
		if itr != nil {
			itrs = append(itrs, itr)
		}
	}
	e, err := ice.VerifNewEnumerator(itrs)
	if err == vellum.ErrIteratorDone {
		return W{1}
	}
	if err != nil {
		return W{ErrMark, 6}
	}
	out.Num(0)
	for _, k := range script {
		switch k {
		case 0:
			key, idx, val := e.Current()
			out.OptBytes(key)
			out.Num(uint64(idx))
			out.Num(val)
		case 1:
			idxs, vals := e.GetLowIdxsAndValues()
			out.Num(uint64(len(idxs)))
			for _, i := range idxs {
				out.Num(uint64(i))
			}
			out.Nums(vals)
		default:
			err := e.Next()
			if err == vellum.ErrIteratorDone {
				return append(out, 1)
			}
			if err != nil {
				return append(out, ErrMark, 7)
			}
			out.Num(0)
		}
	}
	return out
}

// UnitEnumerator: 1-4 dictionaries over a small vocabulary (the empty term
// included, alone or with others; empty dictionaries), values as merge.go sees
// them (file offsets > 0 or 1-hit encodings with the top bit set), walked with
// the merger's pattern (Current, now and then the low indexes, Next) until done.
func (g *Gen) UnitEnumerator() *Case {
	c := &Case{Family: "unit_enumerator"}
	r := g.R
	k := 1 + r.Intn(4)
	var ins []EnumIn
	total := 0
	for i := 0; i < k; i++ {
		var in EnumIn
		nv := 3 + r.Intn(len(vocabAll)-2)
		switch r.Intn(8) {
		case 0: // an empty dictionary
		case 1: // only the empty term
			in.Keys = [][]byte{{}}
			c.tag("only_empty_key")
		default:
			seen := map[string]bool{}
			for j := 0; j < 1+r.Intn(6); j++ {
				t := vocabAll[r.Intn(nv)]
				if !seen[string(t)] {
					seen[string(t)] = true
					in.Keys = append(in.Keys, t)
				}
			}
			sortBytes(in.Keys)
		}
		for range in.Keys {
			v := uint64(1 + r.Intn(100000))
			if r.Intn(4) == 0 {
				v = 1<<63 | uint64(r.Intn(1<<20))<<31 | uint64(r.Intn(1000))
			}
			in.Vals = append(in.Vals, v)
		}
		for _, key := range in.Keys {
			if len(key) == 0 {
				c.tag("empty_key")
			}
		}
		total += len(in.Keys)
		if len(in.Keys) == 0 {
			// vellum hands out no iterator for an empty FST and setupActiveForField leaves it out
			c.tag("empty_dictionary_left_out")
			continue
		}
		ins = append(ins, in)
	}
	var script []int
	for i := 0; i < total+3; i++ {
		script = append(script, 0)
		if r.Intn(3) == 0 {
			script = append(script, 1)
		}
		if r.Intn(6) == 0 {
			script = append(script, 0)
		}
		script = append(script, 2)
	}
	c.Ops = []Op{{Code: OpUnitEnum, EnumIns: ins, EnumScript: script}}
	c.tag("unit")
	if k > 1 {
		c.tag("several_inputs")
	}
	return c
}

func sortBytes(a [][]byte) {
	for i := 1; i < len(a); i++ {
		for j := i; j > 0 && bytes.Compare(a[j], a[j-1]) < 0; j-- {
			a[j], a[j-1] = a[j-1], a[j]
		}
	}
}

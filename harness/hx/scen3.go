package hx

// Scenario families added after the third round of seeded changes: boundary
// shapes (exact multiples of the 1,024-document doc-value chunk, stored blocks
// crossed by renumbering merges, term cardinalities that only the sum over the
// inputs takes across 1,024), inputs that differ only where a cache keyed by a
// file offset cannot tell them apart, and fields with different sparsity
// sharing one writer.

import "fmt"

func cloneBatch(b Batch) Batch {
	out := make(Batch, len(b))
	for d := range b {
		out[d] = make(Doc, len(b[d]))
		for f := range b[d] {
			nf := b[d][f]
			nf.Val = append([]byte(nil), nf.Val...)
			nf.Terms = make([]Term, len(b[d][f].Terms))
			for t := range b[d][f].Terms {
				nt := b[d][f].Terms[t]
				nt.T = append([]byte(nil), nt.T...)
				nt.Locs = append([]Loc(nil), nt.Locs...)
				nf.Terms[t] = nt
			}
			out[d][f] = nf
		}
	}
	return out
}

// forceStored gives every field instance a stored value.
func (g *Gen) forceStored(b Batch) {
	for d := range b {
		for f := range b[d] {
			if !b[d][f].St {
				b[d][f].St = true
				v := make([]byte, 1+g.R.Intn(5))
				for i := range v {
					v[i] = byte(g.R.Intn(256))
				}
				b[d][f].Val = v
			}
		}
	}
}

// terms of equal length exchanged between the twins: the dictionaries keep their
// keys, the postings lists change places
var twinSwap = map[string]string{"a": "b", "b": "a", "ab": "ba", "ba": "ab", "cat": "dog", "dog": "cat"}

// TwinCase: two segments with the same shape (same documents, fields, term
// lengths, offsets) and different content (flavour 2: stored values of equal length).  In flavour 0 terms of equal length
// change places in every field but _id (same dictionary keys, the doc-value
// sections start at the same offsets and hold different terms); flavour 1 differs in the term frequencies (postings blocks
// at the same offsets with different content).  Lists, iterators and the
// merger's scratch objects are carried from one segment to the other; the two
// are merged (C02, C05, C07, C13).
func (g *Gen) TwinCase() *Case {
	c := &Case{Family: "twin"}
	r := g.R
	g.twins++
	flavour := g.twins % 3
	n := 8 + r.Intn(30)
	a := g.Batch(BatchOpts{NDocs: n, NFields: 2, NVocab: 9, ForceDV: true, AllFields: true, IDPrefix: "t"})
	if flavour == 2 {
		g.forceStored(a)
	}
	b := cloneBatch(a)
	for d := range b {
		for f := range b[d] {
			fl := &b[d][f]
			if fl.N == "_id" {
				continue
			}
			if flavour == 2 { // the stored values differ (same lengths: the compressed block keeps its size and offsets)
				for i := range fl.Val {
					fl.Val[i] ^= 0x55
				}
				continue
			}
			for t := range fl.Terms {
				tm := &fl.Terms[t]
				if flavour == 0 {
					if sw, ok := twinSwap[string(tm.T)]; ok {
						tm.T = []byte(sw)
					}
				} else if flavour == 1 && tm.Freq < 100 {
					tm.Freq++
					fl.Len++
				}
			}
		}
	}
	cm := g.ChunkMode()
	ops := []Op{{Code: OpBuild, CM: cm, Batch: a}, {Code: OpBuild, CM: cm, Batch: b}}
	fts := BatchTerms(a)
	k := 0
	for i := 0; i < len(fts) && k < 6; i++ {
		if fts[i].F == "_id" {
			continue
		}
		k++
		its := []IterOp{{}, {}, {}, {Adv: true, D: uint64(n / 2)}, {}}
		fl := [3]bool{true, true, r.Intn(3) != 0}
		// the same objects first on segment 0, then on segment 1
		ops = append(ops, Op{Code: OpIter, Slot: 0, F: fts[i].F, T: fts[i].T, ExceptNil: true, Except: []uint64{}, Flags: fl, PLSlot: 1, ItSlot: 1, IterOps: its})
		ops = append(ops, Op{Code: OpIter, Slot: 1, F: fts[i].F, T: fts[i].T, ExceptNil: true, Except: []uint64{}, Flags: fl, PLSlot: 1, ItSlot: 1, IterOps: its})
	}
	fs := BatchFields(a)
	var visits []uint64
	for i := 0; i < 6; i++ {
		visits = append(visits, uint64(r.Intn(n)))
	}
	ops = append(ops, Op{Code: OpDV, Slot: 0, RdSlot: 1, Fields: fs, Visits: visits}, Op{Code: OpDV, Slot: 1, RdSlot: 2, Fields: fs, Visits: visits})
	// stored fields of the same documents, first in one twin, then in the other (one pooled visiting context)
	for _, d := range visits {
		ops = append(ops, Op{Code: OpStored, Slot: 0, N: d}, Op{Code: OpStored, Slot: 1, N: d})
	}
	// a merge with one deletion in each twin re-encodes the stored fields of both through one context
	ops = append(ops, Op{Code: OpMerge, CM: g.ChunkMode(), Ins: []MergeIn{{Slot: 0, Drops: []uint64{uint64(r.Intn(n))}}, {Slot: 1, Drops: []uint64{uint64(r.Intn(n))}}}},
		Op{Code: OpObsAll, Slot: 2})
	ops = append(ops, Op{Code: OpMerge, CM: g.ChunkMode(), Ins: []MergeIn{{Slot: 0, DropsNil: true}, {Slot: 1, DropsNil: r.Intn(2) == 0, Drops: []uint64{}}}},
		Op{Code: OpObsAll, Slot: 3})
	c.Ops = ops
	c.tag("merge")
	c.tag("twin_segments")
	c.tag("reuse_across_segments")
	return c
}

// ReencodeBlockMerge: a merge through the stored-field re-encoding path (deletions,
// or inputs with different field lists) whose output has more than 128 documents,
// so that old and new numbers differ across a stored-block boundary (C02, C03, C06).
func (g *Gen) ReencodeBlockMerge() *Case {
	c := &Case{Family: "reencode_block_merge"}
	r := g.R
	g.reencodes++
	var ops []Op
	var ins []MergeIn
	total := 0
	if g.reencodes%2 == 1 { // one segment, a few early documents deleted
		n := 150 + r.Intn(160)
		b := g.Batch(BatchOpts{NDocs: n, NFields: 2, NVocab: 5, IDPrefix: "r", BigValues: r.Intn(2) == 0})
		g.forceStored(b)
		drops := []uint64{uint64(r.Intn(100))}
		for i := 0; i < r.Intn(4); i++ {
			x := uint64(r.Intn(n))
			dup := false
			for _, y := range drops {
				dup = dup || x == y
			}
			if !dup {
				drops = append(drops, x)
			}
		}
		sortU64(drops)
		ops = append(ops, Op{Code: OpBuild, CM: g.ChunkMode(), Batch: b})
		ins = []MergeIn{{Slot: 0, Drops: drops}}
		total = n - len(drops)
		c.tag("drops_and_survivors")
	} else { // two segments of about 100 documents and a small one with another field list, no deletions
		for i := 0; i < 3; i++ {
			n := 90 + r.Intn(30)
			nf := 2
			if i == 2 {
				n, nf = 1+r.Intn(4), 3
			}
			b := g.Batch(BatchOpts{NDocs: n, NFields: nf, NVocab: 5, AllFields: true, IDPrefix: string(rune('a' + i))})
			g.forceStored(b)
			ops = append(ops, Op{Code: OpBuild, CM: g.ChunkMode(), Batch: b})
			ins = append(ins, MergeIn{Slot: i, DropsNil: r.Intn(2) == 0, Drops: []uint64{}})
			total += n
		}
		c.tag("differing_field_lists")
	}
	ops = append(ops, Op{Code: OpMerge, CM: g.ChunkMode(), Ins: ins})
	m := len(ins)
	ops = append(ops, Op{Code: OpObsAll, Slot: m})
	for _, d := range []int{126, 127, 128, 129, total - 1, total} {
		if d >= 0 {
			ops = append(ops, Op{Code: OpStored, Slot: m, N: uint64(d)})
		}
	}
	for i := 0; i < 8; i++ {
		ops = append(ops, Op{Code: OpStored, Slot: m, N: uint64(r.Intn(total))})
	}
	c.Ops = ops
	c.tag("merge")
	c.tag("reencode_path")
	c.tag("multi_block")
	c.tag("block_edge")
	return c
}

func sortU64(a []uint64) {
	for i := 1; i < len(a); i++ {
		for j := i; j > 0 && a[j] < a[j-1]; j-- {
			a[j], a[j-1] = a[j-1], a[j]
		}
	}
}

// ZeroDocFieldsMerge: a merge in which nothing survives keeps its inputs' field
// list; that zero-document segment (reloaded) is then merged, in every
// position, with a segment that has fewer fields (C02, C03, C06).
func (g *Gen) ZeroDocFieldsMerge() *Case {
	c := &Case{Family: "zero_doc_fields_merge"}
	r := g.R
	na := 2 + r.Intn(5)
	a := g.Batch(BatchOpts{NDocs: na, NFields: 3, NVocab: 5, AllFields: true, IDPrefix: "z"})
	g.forceStored(a)
	all := make([]uint64, na)
	for i := range all {
		all[i] = uint64(i)
	}
	nb := 3 + r.Intn(6)
	skip := fieldNames[r.Intn(2)]
	g.zerodocs++
	if g.zerodocs%2 == 0 {
		skip = "" // the same field list everywhere: the byte-copy path with a zero-document input in the middle
		c.tag("copy_path")
	}
	b := g.Batch(BatchOpts{NDocs: nb, NFields: 3, NVocab: 5, AllFields: true, IDPrefix: "q", SkipField: func(int) string { return skip }})
	g.forceStored(b)
	ops := []Op{
		{Code: OpBuild, CM: g.ChunkMode(), Batch: a},                                                                                              // 0
		{Code: OpMerge, CM: g.ChunkMode(), Ins: []MergeIn{{Slot: 0, Drops: all}}},                                                                 // 1: zero documents, all fields
		{Code: OpReload, Slot: 1, Kind: r.Intn(2)},                                                                                                // 2
		{Code: OpBuild, CM: g.ChunkMode(), Batch: b},                                                                                              // 3
		{Code: OpMerge, CM: g.ChunkMode(), Ins: []MergeIn{{Slot: 3, DropsNil: true}, {Slot: 2, DropsNil: true}}},                                  // 4
		{Code: OpMerge, CM: g.ChunkMode(), Ins: []MergeIn{{Slot: 2, DropsNil: true}, {Slot: 3, DropsNil: true}}},                                  // 5
		{Code: OpMerge, CM: g.ChunkMode(), Ins: []MergeIn{{Slot: 3, Drops: []uint64{}}, {Slot: 1, Drops: []uint64{}}, {Slot: 3, DropsNil: true}}}, // 6
	}
	for _, s := range []int{2, 4, 5, 6} {
		ops = append(ops, Op{Code: OpObsAll, Slot: s})
	}
	for d := 0; d < nb; d++ {
		ops = append(ops, Op{Code: OpStored, Slot: 4, N: uint64(d)})
	}
	c.Ops = ops
	c.tag("merge")
	c.tag("merge_of_merge")
	c.tag("zero_survivors")
	c.tag("zero_doc_input_with_fields")
	return c
}

// ExactChunkMerge: a merge whose number of survivors is exactly 1,024 (or 2,048):
// the last doc-value chunk and the last postings chunk are exactly full.  The
// result is dumped, reloaded from memory and from a file and dumped again (C02, C04, C07).
func (g *Gen) ExactChunkMerge() *Case {
	c := &Case{Family: "exact_chunk_merge"}
	r := g.R
	g.exacts++
	target := 1024
	if g.exacts%3 == 0 {
		target = 2048
	}
	n := target + 6 + r.Intn(60)
	n2 := 3 + r.Intn(6)
	a := g.Batch(BatchOpts{NDocs: n, NFields: 2, NVocab: 4, ForceDV: true, NoStored: true, IDPrefix: "e"})
	b := g.Batch(BatchOpts{NDocs: n2, NFields: 2, NVocab: 4, ForceDV: true, IDPrefix: "x"})
	// drop exactly n + n2 - target documents of the big segment
	perm := r.Perm(n)
	drops := make([]uint64, 0, n+n2-target)
	for _, p := range perm[:n+n2-target] {
		drops = append(drops, uint64(p))
	}
	sortU64(drops)
	c.tagBatch(a, 1025)
	c.Ops = []Op{{Code: OpBuild, CM: 1025, Batch: a}, {Code: OpBuild, CM: g.ChunkMode(), Batch: b},
		{Code: OpMerge, CM: 1025, Ins: []MergeIn{{Slot: 0, Drops: drops}, {Slot: 1, DropsNil: true}}},
		{Code: OpObsAll, Slot: 2},
		{Code: OpReload, Slot: 2, Kind: 0}, {Code: OpObsAll, Slot: 3},
		{Code: OpReload, Slot: 2, Kind: 1}, {Code: OpObsAll, Slot: 4}}
	c.tag("merge")
	c.tag("drops_and_survivors")
	c.tag("multi_chunk")
	c.tag("exact_chunk_multiple")
	return c
}

// SparseDVFields: more than 2,048 documents and two doc-value fields of
// different sparsity: the earlier one only has values in the first documents,
// the later one skips the whole middle chunk.  Both go through the builder's
// doc-value writer one after the other (C07, C10, C01), and through the merger's.
func (g *Gen) SparseDVFields(layout bool) *Case {
	c := &Case{Family: "sparse_dv_fields"}
	r := g.R
	n := 2052 + r.Intn(200)
	few := 5 + r.Intn(20)
	b := g.Batch(BatchOpts{NDocs: n, NFields: 3, NVocab: 4, ForceDV: true, NoStored: true, AllFields: true})
	// "body" (earlier in field order) keeps values only in the first few documents;
	// "title" has them there and in the last chunk, nothing in documents 1024..2047;
	// "tags" fills the whole first chunk and has nothing afterwards
	for d := few; d < n; d++ {
		var doc Doc
		for _, f := range b[d] {
			if f.N == fieldNames[0] || (f.N == fieldNames[1] && d < 2048) || (f.N == fieldNames[2] && d >= 1024) {
				continue
			}
			doc = append(doc, f)
		}
		b[d] = doc
	}
	// a small segment in front of it: in the merge every document number is shifted, so the
	// first chunk of the big input spreads over two chunks of the output
	small := g.Batch(BatchOpts{NDocs: 3 + r.Intn(12), NFields: 3, NVocab: 4, ForceDV: true, NoStored: true, IDPrefix: "s"})
	ops := []Op{{Code: OpBuild, CM: 1025, Batch: b}, {Code: OpBuild, CM: g.ChunkMode(), Batch: small}}
	fs := BatchFields(b)
	visits := []uint64{uint64(r.Intn(few)), uint64(2048 + r.Intn(n-2048)), uint64(n - 1), uint64(1024 + r.Intn(1024)), uint64(r.Intn(few)), 2048, 1023, 0}
	ops = append(ops, Op{Code: OpDV, Slot: 0, RdSlot: 1, Fields: fs, Visits: visits})
	if layout {
		ops = append(ops, Op{Code: OpLayout, Slot: 0})
	} else {
		ops = append(ops, Op{Code: OpObsAll, Slot: 0})
	}
	ops = append(ops, Op{Code: OpMerge, CM: 1025, Ins: []MergeIn{{Slot: 0, Drops: g.subset(n, 9)}}},
		Op{Code: OpMerge, CM: 1025, Ins: []MergeIn{{Slot: 1, DropsNil: true}, {Slot: 0, DropsNil: true}}})
	for _, sl := range []int{2, 3} {
		if layout {
			ops = append(ops, Op{Code: OpLayout, Slot: sl})
		} else {
			ops = append(ops, Op{Code: OpObsAll, Slot: sl})
		}
	}
	c.Ops = ops
	c.tag("multi_dvchunk")
	c.tag("dv_hole")
	c.tag("sparse_dv_fields")
	c.tag("merge")
	return c
}

// BigAssoc: three segments that all carry the empty term (and one common term)
// in the same field; no pair reaches 1,024 postings, all three do.  Flat merge,
// left and right bracketings and the single-segment merge of the result are
// dumped and must agree (C17, C02); every merge also crosses a 128-document
// stored block with renumbering (C03).
func (g *Gen) BigAssoc() *Case {
	c := &Case{Family: "big_assoc"}
	r := g.R
	sizes := []int{430 + r.Intn(80), 430 + r.Intn(80), 70 + r.Intn(80)}
	for sizes[0]+sizes[1]+sizes[2] < 1040 {
		sizes[2] += 20
	}
	var ops []Op
	drops := make([]MergeIn, 3)
	for i, n := range sizes {
		var b Batch
		for d := 0; d < n; d++ {
			tags := Field{N: "tags", DV: r.Intn(2) == 0}
			add := func(t string, loc bool) {
				tm := Term{T: []byte(t), Freq: 1 + r.Intn(2)}
				if loc && r.Intn(4) == 0 {
					tm.Locs = []Loc{{Pos: 1 + r.Intn(3), Start: r.Intn(100), End_: 100 + r.Intn(9)}}
				}
				tags.Len += tm.Freq
				tags.Terms = append(tags.Terms, tm)
			}
			add("", true)
			add("common", false)
			if r.Intn(3) == 0 {
				add(fmt.Sprintf("t%d", r.Intn(5)), true)
			}
			doc := Doc{idField(fmt.Sprintf("%c%d", 'a'+i, d), true), tags}
			if i == 2 && r.Intn(2) == 0 { // the small segment has one more field: re-encoding path everywhere
				doc = append(doc, Field{N: "extra", St: true, Val: []byte{byte(d)}, Len: 1, Terms: []Term{{T: []byte("e"), Freq: 1}}})
			}
			b = append(b, doc)
		}
		ops = append(ops, Op{Code: OpBuild, CM: 1025, Batch: b})
		drops[i] = MergeIn{Slot: i, DropsNil: true}
	}
	// a couple of deletions in the first segment only (the sum stays above 1,024)
	drops[0] = MergeIn{Slot: 0, Drops: []uint64{uint64(r.Intn(100)), uint64(200 + r.Intn(100))}}
	slot := 2
	next := func() int { slot++; return slot }
	var obs []int
	addObs := func(s int) {
		ops = append(ops, Op{Code: OpObsAll, Slot: s})
		obs = append(obs, len(ops)-1)
	}
	cp := func(a []MergeIn) []MergeIn { return append([]MergeIn(nil), a...) }
	ops = append(ops, Op{Code: OpMerge, CM: 1025, Ins: cp(drops)})
	flat := next()
	addObs(flat)
	ops = append(ops, Op{Code: OpMerge, CM: 1025, Ins: cp(drops[:2])})
	m1 := next()
	ops = append(ops, Op{Code: OpMerge, CM: 1025, Ins: []MergeIn{{Slot: m1, DropsNil: true}, drops[2]}})
	addObs(next())
	ops = append(ops, Op{Code: OpMerge, CM: 1025, Ins: cp(drops[1:])})
	r1 := next()
	ops = append(ops, Op{Code: OpMerge, CM: 1025, Ins: []MergeIn{drops[0], {Slot: r1, DropsNil: true}}})
	addObs(next())
	ops = append(ops, Op{Code: OpMerge, CM: 1025, Ins: []MergeIn{{Slot: flat, DropsNil: true}}})
	addObs(next())
	c.Ops = ops
	c.Equal = [][]int{obs}
	c.tag("merge")
	c.tag("merge_of_merge")
	c.tag("multi_chunk")
	c.tag("chunk_boundary")
	c.tag("empty_term_in_all_inputs")
	c.tag("reencode_path")
	c.tag("drops")
	c.tag("three_inputs_drop_nonlast")
	return c
}

// SubsetFieldsMerge: the first input has every field, a later input (no
// deletions) a strict subset of them: the union of the field lists is as long
// as the first input's list although the lists differ (C02, C03, C06, C17).
func (g *Gen) SubsetFieldsMerge() *Case {
	c := &Case{Family: "subset_fields_merge"}
	r := g.R
	na, nb := 3+r.Intn(8), 3+r.Intn(8)
	a := g.Batch(BatchOpts{NDocs: na, NFields: 3, NVocab: 5, AllFields: true, IDPrefix: "p"})
	skip := fieldNames[r.Intn(3)]
	b := g.Batch(BatchOpts{NDocs: nb, NFields: 3, NVocab: 5, AllFields: true, IDPrefix: "q", SkipField: func(int) string { return skip }})
	g.forceStored(a)
	g.forceStored(b)
	ops := []Op{
		{Code: OpBuild, CM: g.ChunkMode(), Batch: a},                                                                                           // 0: all fields
		{Code: OpBuild, CM: g.ChunkMode(), Batch: b},                                                                                           // 1: one field less
		{Code: OpMerge, CM: g.ChunkMode(), Ins: []MergeIn{{Slot: 0, DropsNil: true}, {Slot: 1, DropsNil: true}}},                               // 2
		{Code: OpMerge, CM: g.ChunkMode(), Ins: []MergeIn{{Slot: 0, Drops: []uint64{}}, {Slot: 1, DropsNil: true}, {Slot: 0, DropsNil: true}}}, // 3
		{Code: OpMerge, CM: g.ChunkMode(), Ins: []MergeIn{{Slot: 2, DropsNil: true}, {Slot: 1, DropsNil: true}}},                               // 4: a merged first input
		{Code: OpMerge, CM: g.ChunkMode(), Ins: []MergeIn{{Slot: 1, DropsNil: true}, {Slot: 0, DropsNil: true}}},                               // 5: the subset first
	}
	for _, s := range []int{2, 3, 4, 5} {
		ops = append(ops, Op{Code: OpObsAll, Slot: s})
	}
	for d := 0; d < na+nb; d++ {
		ops = append(ops, Op{Code: OpStored, Slot: 2, N: uint64(d)})
	}
	c.Ops = ops
	c.tag("merge")
	c.tag("merge_of_merge")
	c.tag("subset_field_lists")
	return c
}

// OneHitBoundary: a term with 1,023 (or 1,024, 2,047) postings in a built input
// and one more posting, 1-hit encoded, in a previously merged input, whose
// document is deleted in this merge (or not): the chunk size the merger derives
// must count the survivors only (C02, C05, C17).
func (g *Gen) OneHitBoundary() *Case {
	c := &Case{Family: "one_hit_boundary"}
	r := g.R
	g.onehits++
	card := []int{1023, 1024, 2047}[g.onehits%3]
	n := card + r.Intn(40)
	var a Batch
	for d := 0; d < n; d++ {
		body := Field{N: "body"}
		if d < card {
			body.Terms = append(body.Terms, Term{T: []byte("x"), Freq: 1})
			body.Len++
		}
		if r.Intn(3) == 0 {
			body.Terms = append(body.Terms, Term{T: []byte("y"), Freq: 2, Locs: []Loc{{Pos: 1, Start: 0, End_: 1}}})
			body.Len += 2
		}
		a = append(a, Doc{idField(fmt.Sprintf("a%d", d), false), body})
	}
	// the small input: "x" in exactly one document without locations (1-hit once merged)
	small := Batch{
		{idField("s0", true), Field{N: "body", Len: 1, Terms: []Term{{T: []byte("x"), Freq: 1}}}},
		{idField("s1", true), Field{N: "body", Len: 1, Terms: []Term{{T: []byte("z"), Freq: 1}}}},
	}
	drop := []uint64{0}
	if g.onehits%2 == 0 {
		drop = []uint64{1}
	}
	c.Ops = []Op{
		{Code: OpBuild, CM: 1025, Batch: a},                                                          // 0
		{Code: OpBuild, CM: 1025, Batch: small},                                                      // 1
		{Code: OpMerge, CM: 1025, Ins: []MergeIn{{Slot: 1, DropsNil: true}}},                         // 2: merged, "x" is 1-hit
		{Code: OpMerge, CM: 1025, Ins: []MergeIn{{Slot: 0, DropsNil: true}, {Slot: 2, Drops: drop}}}, // 3
		{Code: OpObsAll, Slot: 3}, {Code: OpLayout, Slot: 3},
		{Code: OpIter, Slot: 3, F: "body", T: []byte("x"), ExceptNil: true, Except: []uint64{}, Flags: [3]bool{true, true, true},
			IterOps: []IterOp{{}, {Adv: true, D: 511}, {}, {Adv: true, D: 1000}, {}, {}, {Adv: true, D: uint64(n)}, {}}},
		{Code: OpMerge, CM: 1025, Ins: []MergeIn{{Slot: 2, Drops: drop}, {Slot: 0, DropsNil: true}}}, // 4: the other order
		{Code: OpObsAll, Slot: 4},
	}
	c.tag("merge")
	c.tag("merge_of_merge")
	c.tag("multi_chunk")
	c.tag("chunk_boundary")
	c.tag("drops_and_survivors")
	c.tag("one_hit_input")
	return c
}

// EmptyFirstDVChunk: doc-value fields whose first 1,024-document chunk is
// empty (values only from document 1,100 on), a doc-value field without any
// term at all, and a merge that deletes every document with a value (C07, C10).
func (g *Gen) EmptyFirstDVChunk(layout bool) *Case {
	c := &Case{Family: "empty_first_dv_chunk"}
	r := g.R
	n := 1200 + r.Intn(200)
	var b Batch
	var withValue []uint64
	for d := 0; d < n; d++ {
		doc := Doc{idField(fmt.Sprintf("e%d", d), false)}
		if d >= 1100 && r.Intn(2) == 0 {
			doc = append(doc, Field{N: "late", DV: true, Len: 1, Terms: []Term{{T: []byte(fmt.Sprintf("v%d", d%5)), Freq: 1}}})
			withValue = append(withValue, uint64(d))
		}
		if d%7 == 0 { // indexed for doc values, but never a term
			doc = append(doc, Field{N: "none", DV: true, St: true, Val: []byte{byte(d)}})
		}
		b = append(b, doc)
	}
	fs := []string{"_id", "late", "none"}
	visits := []uint64{0, 1100, uint64(n - 1), 5, 1023, 1024, withValue[0], 7}
	ops := []Op{{Code: OpBuild, CM: 1025, Batch: b},
		{Code: OpDV, Slot: 0, RdSlot: 1, Fields: fs, Visits: visits},
		{Code: OpMerge, CM: 1025, Ins: []MergeIn{{Slot: 0, Drops: withValue}}}, // every document with a value in "late" goes
		{Code: OpDV, Slot: 1, RdSlot: 2, Fields: fs, Visits: []uint64{0, 1, 1050, uint64(n - len(withValue) - 1)}},
		{Code: OpMerge, CM: 1025, Ins: []MergeIn{{Slot: 0, Drops: g.subset(n, 9)}}},
	}
	for s := 0; s <= 2; s++ {
		if layout {
			ops = append(ops, Op{Code: OpLayout, Slot: s})
		} else {
			ops = append(ops, Op{Code: OpObsAll, Slot: s})
		}
	}
	ops = append(ops, Op{Code: OpReload, Slot: 0, Kind: 1}, Op{Code: OpDV, Slot: 3, RdSlot: 3, Fields: fs, Visits: visits})
	c.Ops = ops
	c.tag("merge")
	c.tag("multi_dvchunk")
	c.tag("dv_hole")
	c.tag("empty_first_dv_chunk")
	c.tag("sparse_dv_fields")
	return c
}

// TinyShapes: the smallest files ice can write (one document with only `_id`,
// with and without doc values or a stored value, the empty term as the only
// term, ...), persisted and read back from memory and from a file: every
// fixed look-ahead of the loaders runs closest to the end of the data there (C04, C10).
func (g *Gen) TinyShapes() *Case {
	c := &Case{Family: "tiny_shapes"}
	g.tinies++
	id := func(s string, st, dv bool) Field {
		f := idField(s, st)
		f.DV = dv
		return f
	}
	shapes := []Batch{
		{{id("a", false, true)}},
		{{id("a", true, true)}},
		{{id("a", false, false)}},
		{{id("a", true, true)}, {id("b", true, true)}, {id("c", false, true)}},
		{{id("a", false, true), Field{N: "t", Len: 1, DV: true, Terms: []Term{{T: []byte(""), Freq: 1}}}}},
		{{Field{N: "t", Len: 1, Terms: []Term{{T: []byte("x"), Freq: 1}}}}}, // no _id at all
		{{id("a", false, true), Field{N: "s", St: true, Val: []byte{}}}},
	}
	b := shapes[(g.tinies-1)%len(shapes)]
	cm := g.ChunkMode()
	ops := []Op{{Code: OpBuild, CM: cm, Batch: b}, {Code: OpObsAll, Slot: 0},
		{Code: OpReload, Slot: 0, Kind: 1}, {Code: OpObsAll, Slot: 1}, // file-backed
		{Code: OpReload, Slot: 0, Kind: 0}, {Code: OpObsAll, Slot: 2},
		{Code: OpMerge, CM: g.ChunkMode(), Ins: []MergeIn{{Slot: 1, DropsNil: true}}}, // a file-backed input
		{Code: OpReload, Slot: 3, Kind: 1}, {Code: OpObsAll, Slot: 4},
		{Code: OpFooter, Slot: 0}, {Code: OpContainer, Slot: 0}, {Code: OpFooter, Slot: 3}, {Code: OpContainer, Slot: 3}}
	c.Ops = ops
	c.tag("merge")
	c.tag("tiny_file")
	return c
}

// WideSegment: two segments with 300 fields each (field ids cross 127/128 and
// 255/256: one- and two-byte varints of the ids, caches keyed by a narrowed id),
// every field with a term that has a location; every dictionary is opened, the
// two are merged with a deletion (C01, C02, C03, C08, C18).
func (g *Gen) WideSegment() *Case {
	c := &Case{Family: "wide_segment"}
	r := g.R
	mk := func(prefix string, nd int) Batch {
		var b Batch
		for d := 0; d < nd; d++ {
			doc := Doc{idField(fmt.Sprintf("%s%d", prefix, d), d%2 == 0)}
			for f := 0; f < 300; f++ {
				if (f+d)%3 == 0 && f != 126 && f != 127 && f != 255 && f != 256 {
					continue // not every document carries every field
				}
				name := fmt.Sprintf("f%03d", f)
				tm := Term{T: []byte(fmt.Sprintf("t%d", (f+d)%4)), Freq: 1 + (f+d)%2,
					Locs: []Loc{{Pos: 1 + d, Start: f, End_: f + 1 + d}}}
				fl := Field{N: name, Len: tm.Freq, Terms: []Term{tm}, DV: f%50 == 0}
				if f%97 == 0 {
					fl.St, fl.Val = true, []byte{byte(f), byte(d)}
				}
				doc = append(doc, fl)
			}
			b = append(b, doc)
		}
		return b
	}
	na, nb := 4+r.Intn(4), 3+r.Intn(3)
	a, b := mk("a", na), mk("b", nb)
	ops := []Op{{Code: OpBuild, CM: g.ChunkMode(), Batch: a}, {Code: OpBuild, CM: g.ChunkMode(), Batch: b},
		{Code: OpObsAll, Slot: 0},
		{Code: OpMerge, CM: g.ChunkMode(), Ins: []MergeIn{{Slot: 0, Drops: []uint64{uint64(r.Intn(na))}}, {Slot: 1, DropsNil: true}}},
		{Code: OpObsAll, Slot: 2},
		{Code: OpReload, Slot: 2, Kind: r.Intn(2)}, {Code: OpObsAll, Slot: 3},
		{Code: OpDocsMatching, Slot: 3, Terms: []FT{{"f000", []byte("t0")}, {"f256", []byte("t1")}, {"f127", []byte("t3")}, {"_id", []byte("a1")}}},
		{Code: OpStats, Slot: 3, F: "f256"}, {Code: OpStats, Slot: 3, F: "f000"}}
	c.Ops = ops
	c.tag("merge")
	c.tag("drops_and_survivors")
	c.tag("wide_field_list")
	c.tag("merged")
	return c
}

// RepeatedFieldBig: 520-700 documents that each carry the same field twice,
// both instances with the same term: the term is seen twice as often as it has
// documents, which must not influence the chunking (C01).
func (g *Gen) RepeatedFieldBig() *Case {
	c := &Case{Family: "repeated_field_big"}
	r := g.R
	n := 520 + r.Intn(180)
	var b Batch
	for d := 0; d < n; d++ {
		inst := func(pos int) Field {
			f := Field{N: "body", Len: 1, Terms: []Term{{T: []byte("x"), Freq: 1, Locs: []Loc{{Pos: pos, Start: pos, End_: pos + 1}}}}}
			if r.Intn(4) == 0 {
				f.Terms = append(f.Terms, Term{T: []byte("y"), Freq: 2})
				f.Len += 2
			}
			return f
		}
		b = append(b, Doc{idField(fmt.Sprintf("r%d", d), false), inst(1), inst(2)})
	}
	c.Ops = []Op{{Code: OpBuild, CM: 1025, Batch: b}, {Code: OpObsAll, Slot: 0}, {Code: OpLayout, Slot: 0},
		{Code: OpIter, Slot: 0, F: "body", T: []byte("x"), ExceptNil: true, Except: []uint64{}, Flags: [3]bool{true, true, true},
			IterOps: []IterOp{{}, {}, {Adv: true, D: uint64(n / 2)}, {}, {Adv: true, D: uint64(n - 1)}, {}, {}}}}
	c.tagBatch(b, 1025)
	c.tag("repeated_field")
	c.tag("multi_chunk")
	return c
}

// LastInputDropped: a term without locations in two inputs; only one posting
// survives, in the document that becomes number 0, and the last input that has
// the term loses all its postings for it (the merger's 1-hit decision looks at
// what the last input contributed) (C02, C05, C18).
func (g *Gen) LastInputDropped() *Case {
	c := &Case{Family: "last_input_dropped"}
	r := g.R
	doc := func(id string, terms ...string) Doc {
		f := Field{N: "body"}
		for _, t := range terms {
			f.Terms = append(f.Terms, Term{T: []byte(t), Freq: 1})
			f.Len++
		}
		return Doc{idField(id, r.Intn(2) == 0), f}
	}
	a := Batch{doc("a0", "x", "y"), doc("a1", "y")}
	b := Batch{doc("b0", "x"), doc("b1", "z"), doc("b2", "x", "z")}
	ops := []Op{{Code: OpBuild, CM: g.ChunkMode(), Batch: a}, {Code: OpBuild, CM: g.ChunkMode(), Batch: b},
		{Code: OpMerge, CM: g.ChunkMode(), Ins: []MergeIn{{Slot: 0, Drops: []uint64{}}, {Slot: 1, Drops: []uint64{0, 2}}}}, // 2
		{Code: OpObsAll, Slot: 2},
		{Code: OpDocsMatching, Slot: 2, Terms: []FT{{"body", []byte("x")}}},
		{Code: OpDocsMatching, Slot: 2, Terms: []FT{{"body", []byte("z")}, {"body", []byte("x")}}},
		{Code: OpIter, Slot: 2, F: "body", T: []byte("x"), ExceptNil: true, Except: []uint64{}, Flags: [3]bool{true, true, true}, IterOps: []IterOp{{}, {}}},
		{Code: OpMerge, CM: g.ChunkMode(), Ins: []MergeIn{{Slot: 2, DropsNil: true}}}, // 3: merged again
		{Code: OpObsAll, Slot: 3},
		{Code: OpReload, Slot: 3, Kind: r.Intn(2)},
		{Code: OpDocsMatching, Slot: 4, Terms: []FT{{"body", []byte("x")}}},
		{Code: OpLayout, Slot: 2}}
	c.Ops = ops
	c.tag("merge")
	c.tag("merge_of_merge")
	c.tag("drops_and_survivors")
	c.tag("merged")
	c.tag("last_input_contributes_nothing")
	return c
}

// EmptyFieldName: a field whose name is the empty string, alone and next to
// others; term lists that start with it (C18, C01, C08).
func (g *Gen) EmptyFieldName() *Case {
	c := &Case{Family: "empty_field_name"}
	r := g.R
	var b Batch
	n := 3 + r.Intn(5)
	for d := 0; d < n; d++ {
		doc := Doc{idField(fmt.Sprintf("e%d", d), true)}
		if d%2 == 0 {
			doc = append(doc, Field{N: "", Len: 2, St: d%4 == 0, Val: []byte("v"), Terms: []Term{{T: []byte("mat"), Freq: 1}, {T: []byte(fmt.Sprintf("t%d", d)), Freq: 1, Locs: []Loc{{Pos: 1, Start: 0, End_: 1}}}}})
		}
		if d%3 != 1 {
			doc = append(doc, Field{N: "body", Len: 1, Terms: []Term{{T: []byte("mat"), Freq: 1}}})
		}
		b = append(b, doc)
	}
	ops := []Op{{Code: OpBuild, CM: g.ChunkMode(), Batch: b}, {Code: OpObsAll, Slot: 0},
		{Code: OpDocsMatching, Slot: 0, Terms: []FT{{"", []byte("mat")}}},
		{Code: OpDocsMatching, Slot: 0, Terms: []FT{{"", []byte("t0")}, {"", []byte("t2")}, {"body", []byte("mat")}}},
		{Code: OpDocsMatching, Slot: 0, Terms: []FT{{"body", []byte("mat")}, {"", []byte("mat")}}},
		{Code: OpReload, Slot: 0, Kind: r.Intn(2)},
		{Code: OpDocsMatching, Slot: 1, Terms: []FT{{"", []byte("mat")}, {"nosuchfield", []byte("a")}, {"", []byte("t0")}}},
		{Code: OpMerge, CM: g.ChunkMode(), Ins: []MergeIn{{Slot: 0, Drops: []uint64{1}}}},
		{Code: OpObsAll, Slot: 2},
		{Code: OpDocsMatching, Slot: 2, Terms: []FT{{"", []byte("mat")}}},
		{Code: OpStats, Slot: 2, F: ""}}
	c.Ops = ops
	c.tag("merge")
	c.tag("merged")
	c.tag("loaded")
	c.tag("empty_field_name")
	return c
}

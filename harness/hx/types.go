// Package hx is the correspondence harness: it generates scenarios, runs them
// on an implementation of ice (the current /repo or the frozen reference) and
// records the flat transcript that the Coq model must reproduce.
package hx

import (
	"math"

	segment "github.com/blugelabs/bluge_segment_api"
)

// ---- input documents (mirror of Spec.v: Loc, Term, Field, Doc, Batch) ----

type Loc struct {
	Field            string
	Pos, Start, End_ int
}

type Term struct {
	T    []byte
	Freq int
	Locs []Loc
}

type Field struct {
	N     string
	Len   int
	St    bool
	DV    bool
	Val   []byte
	Terms []Term
}

type Doc []Field
type Batch []Doc

// ---- segment.Document stubs ----

type sdoc struct{ d Doc }

func (d sdoc) Analyze() {}
func (d sdoc) EachField(vf segment.VisitField) {
	for i := range d.d {
		vf(sfield{&d.d[i]})
	}
}

type sfield struct{ f *Field }

func (f sfield) Name() string         { return f.f.N }
func (f sfield) Length() int          { return f.f.Len }
func (f sfield) Value() []byte        { return f.f.Val }
func (f sfield) Index() bool          { return true }
func (f sfield) Store() bool          { return f.f.St }
func (f sfield) IndexDocValues() bool { return f.f.DV }
func (f sfield) EachTerm(vt segment.VisitTerm) {
	for i := range f.f.Terms {
		vt(sterm{&f.f.Terms[i]})
	}
}

type sterm struct{ t *Term }

func (t sterm) Term() []byte   { return t.t.T }
func (t sterm) Frequency() int { return t.t.Freq }
func (t sterm) EachLocation(vl segment.VisitLocation) {
	for i := range t.t.Locs {
		vl(sloc{&t.t.Locs[i]})
	}
}

type sloc struct{ l *Loc }

func (l sloc) Field() string { return l.l.Field }
func (l sloc) Start() int    { return l.l.Start }
func (l sloc) End() int      { return l.l.End_ }
func (l sloc) Pos() int      { return l.l.Pos }
func (l sloc) Size() int     { return 0 }

func (b Batch) Documents() []segment.Document {
	rv := make([]segment.Document, len(b))
	for i := range b {
		rv[i] = sdoc{b[i]}
	}
	return rv
}

// HarnessNorm is the norm function used on both sides (Run.v: harness_norm).
func HarnessNorm(name string, length int) float32 {
	var s uint64
	for i := 0; i < len(name); i++ {
		s += uint64(name[i])
	}
	base := uint64(1056964608) // floats in [0.5, 0.5625)
	if length%3 == 0 {
		base = 1073741824 // floats in [2.0, 2.25): bit 30 of the pattern is set
	}
	bits := uint32(base + (uint64(length)*131+s)%1048576)
	return math.Float32frombits(bits)
}

// ---- flat wire encoding (mirror of Base.v w_* and Run.v parsers) ----

type W []uint64

func (w *W) Num(x uint64) { *w = append(*w, x) }
func (w *W) Bool(b bool) {
	if b {
		w.Num(1)
	} else {
		w.Num(0)
	}
}
func (w *W) Bytes(b []byte) {
	w.Num(uint64(len(b)))
	for _, c := range b {
		w.Num(uint64(c))
	}
}
func (w *W) Str(s string) { w.Bytes([]byte(s)) }
func (w *W) OptBytes(b []byte) {
	if b == nil {
		w.Num(0)
	} else {
		w.Num(1)
		w.Bytes(b)
	}
}
func (w *W) Nums(xs []uint64) {
	w.Num(uint64(len(xs)))
	*w = append(*w, xs...)
}
func (w *W) Append(o W) { *w = append(*w, o...) }

func (w *W) Batch(b Batch) {
	w.Num(uint64(len(b)))
	for _, d := range b {
		w.Num(uint64(len(d)))
		for _, f := range d {
			w.Str(f.N)
			w.Num(uint64(f.Len))
			w.Bool(f.St)
			w.Bool(f.DV)
			w.Bytes(f.Val)
			w.Num(uint64(len(f.Terms)))
			for _, t := range f.Terms {
				w.Bytes(t.T)
				w.Num(uint64(t.Freq))
				w.Num(uint64(len(t.Locs)))
				for _, l := range t.Locs {
					w.Str(l.Field)
					w.Num(uint64(l.Pos))
					w.Num(uint64(l.Start))
					w.Num(uint64(l.End_))
				}
			}
		}
	}
}

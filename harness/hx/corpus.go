package hx

// Corpus: minimal reproductions of every defect found so far in blugelabs/ice
// (DESIGN.md section 0, known_findings.txt).  They run first in every check of
// the property they belong to, so that a regression of a repaired defect is
// reported by its smallest known input.

func t1(s string, freq int, locs ...Loc) Term { return Term{T: []byte(s), Freq: freq, Locs: locs} }

func idField(id string, store bool) Field {
	return Field{N: "_id", Len: 1, St: store, Val: []byte(id), Terms: []Term{{T: []byte(id), Freq: 1}}}
}

func CorpusCases(prop string) []*Case {
	var out []*Case
	add := func(name string, ops []Op, equal ...[]int) {
		out = append(out, &Case{Family: "corpus:" + name, Ops: ops, Tags: []string{"corpus"}, Equal: equal})
	}
	// D1: a repeated composite field whose locations name another field
	repeated := Batch{{
		idField("a", true),
		{N: "body", Len: 2, Terms: []Term{t1("x", 2, Loc{Pos: 1, Start: 0, End_: 1})}},
		{N: "cmp", Len: 2, Terms: []Term{t1("x", 2, Loc{Field: "body", Pos: 1, Start: 0, End_: 1}, Loc{Pos: 2, Start: 2, End_: 3})}},
		{N: "cmp", Len: 3, Terms: []Term{t1("x", 3, Loc{Field: "body", Pos: 5, Start: 10, End_: 11}), t1("y", 1)}},
	}}
	// two one-document segments with frequencies > 1 (D8), a 1-hit term before a general term after merging (D5)
	s1 := Batch{{idField("a", true), {N: "body", Len: 4, DV: true, Terms: []Term{t1("aa", 1), t1("bb", 3)}}}}
	s2 := Batch{{idField("b", true), {N: "body", Len: 3, DV: true, Terms: []Term{t1("bb", 2), t1("cc", 1)}}},
		{idField("c", true), {N: "body", Len: 1, DV: true, Terms: []Term{t1("bb", 1)}}}}
	mergeOps := []Op{
		{Code: OpBuild, CM: 1025, Batch: s1}, {Code: OpBuild, CM: 2, Batch: s2},
		{Code: OpMerge, CM: 1025, Ins: []MergeIn{{Slot: 0, DropsNil: true}, {Slot: 1, Drops: []uint64{}}}},
	}
	// zero survivors (D2, D3)
	zero := []Op{
		{Code: OpBuild, CM: 1025, Batch: s1}, {Code: OpBuild, CM: 3, Batch: s2}, {Code: OpBuild, CM: 1, Batch: Batch{}},
		{Code: OpMerge, CM: 1025, Ins: []MergeIn{{Slot: 0, Drops: []uint64{0}}, {Slot: 1, Drops: []uint64{0, 1}}, {Slot: 2, DropsNil: true}}},
		{Code: OpObsAll, Slot: 3}, {Code: OpReload, Slot: 3, Kind: 0}, {Code: OpObsAll, Slot: 4},
		{Code: OpReload, Slot: 3, Kind: 1}, {Code: OpObsAll, Slot: 5}, {Code: OpFooter, Slot: 3},
		{Code: OpMerge, CM: 4, Ins: []MergeIn{{Slot: 3, DropsNil: true}, {Slot: 0, DropsNil: true}}}, {Code: OpObsAll, Slot: 6},
	}
	// D4: 256 documents without stored fields, only document 128 has a 10-byte value
	var sparse Batch
	for i := 0; i < 256; i++ {
		d := Doc{idField(string(rune('a'+i%26))+string(rune('a'+i/26)), false)}
		if i == 128 {
			d = append(d, Field{N: "body", St: true, Val: []byte("0123456789")})
		}
		sparse = append(sparse, d)
	}
	switch prop {
	case "C01", "C14":
		add("repeated-composite-field", []Op{{Code: OpBuild, CM: 1025, Batch: repeated}, {Code: OpObsAll, Slot: 0}})
	case "C02", "C16":
		add("merge-frequencies", append(append([]Op{}, mergeOps...), Op{Code: OpObsAll, Slot: 2},
			Op{Code: OpStats, Slot: 2, F: "body"}, Op{Code: OpStats, Slot: 2, F: "_id"}, Op{Code: OpStats, Slot: 2, F: "nosuchfield"}))
		add("zero-survivors", zero)
	case "C03", "C04", "C10", "C11", "C17":
		add("zero-survivors", zero)
		add("merge-frequencies", append(append([]Op{}, mergeOps...), Op{Code: OpObsAll, Slot: 2}, Op{Code: OpFooter, Slot: 2}))
	case "C06":
		add("short-record-at-block-end", []Op{{Code: OpBuild, CM: 1025, Batch: sparse},
			{Code: OpStored, Slot: 0, N: 0}, {Code: OpStored, Slot: 0, N: 255}, {Code: OpStored, Slot: 0, N: 128},
			{Code: OpStored, Slot: 0, N: 127}, {Code: OpStored, Slot: 0, N: 255}, {Code: OpStored, Slot: 0, N: 256},
			{Code: OpReload, Slot: 0, Kind: 1}, {Code: OpStored, Slot: 1, N: 0}, {Code: OpStored, Slot: 1, N: 255}})
	case "C08", "C13", "C05":
		ops := append([]Op{}, mergeOps...)
		ops = append(ops,
			Op{Code: OpDict, Slot: 2, F: "body"},
			Op{Code: OpDict, Slot: 2, F: "body", Lo: []byte("bb"), Hi: []byte("bb")},
			Op{Code: OpDict, Slot: 2, F: "body", Lo: []byte("aa"), Hi: []byte("bb")},
			Op{Code: OpDict, Slot: 2, F: "nosuchfield"},
			Op{Code: OpContains, Slot: 2, F: "body", T: []byte("aa")},
			// a 1-hit list, then a general list, then an unknown field, all through the same reused objects
			Op{Code: OpIter, Slot: 2, F: "body", T: []byte("aa"), ExceptNil: true, Except: []uint64{}, Flags: [3]bool{true, true, false}, PLSlot: 1, ItSlot: 1, IterOps: []IterOp{{}, {}}},
			Op{Code: OpIter, Slot: 2, F: "body", T: []byte("bb"), ExceptNil: true, Except: []uint64{}, Flags: [3]bool{true, true, true}, PLSlot: 1, ItSlot: 1, IterOps: []IterOp{{}, {Adv: true, D: 2}, {}, {}}},
			Op{Code: OpIter, Slot: 2, F: "nosuchfield", T: []byte("bb"), Except: []uint64{1}, Flags: [3]bool{true, false, false}, PLSlot: 1, ItSlot: 1, IterOps: []IterOp{{}, {Adv: true, D: 1}}},
			Op{Code: OpIter, Slot: 2, F: "body", T: []byte("nosuchterm"), ExceptNil: true, Except: []uint64{}, Flags: [3]bool{false, false, false}, IterOps: []IterOp{{}, {}}},
			Op{Code: OpIter, Slot: 2, F: "body", T: []byte("bb"), Except: []uint64{1}, Flags: [3]bool{false, true, false}, PLSlot: 1, ItSlot: 1, IterOps: []IterOp{{Adv: true, D: 1}, {}, {}}},
		)
		add("one-hit-then-general", ops)
	case "C18", "C09", "C19":
		ops := append([]Op{}, mergeOps...)
		ops = append(ops,
			Op{Code: OpDocsMatching, Slot: 2, Terms: []FT{{"nosuchfield", []byte("bb")}, {"body", []byte("bb")}}},
			Op{Code: OpDocsMatching, Slot: 2, Terms: []FT{{"", []byte("bb")}, {"body", []byte("aa")}, {"body", []byte("cc")}, {"body", []byte("aa")}}},
			Op{Code: OpDocsMatching, Slot: 0, Terms: []FT{{"body", []byte("bb")}, {"nosuchfield", []byte("x")}, {"_id", []byte("a")}}},
			Op{Code: OpDocsMatching, Slot: 2, Terms: []FT{}})
		add("unknown-fields", ops)
	}
	return out
}

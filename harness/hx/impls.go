package hx

import (
	ice "github.com/blugelabs/ice/v2"
	refice "verif/harness/refice"
)

// Current is the implementation under test (/repo, built with -tags verif).
var Current = &Impl{
	Name:      "current",
	New:       ice.VerifNew,
	MergeCM:   ice.VerifMerge,
	Merger:    ice.Merge,
	Load:      ice.Load,
	PoolProbe: ice.VerifPoolProbe,

	InterimPostings: ice.VerifInterimPostings,
}

// Reference is the frozen copy of the pinned snapshot (before any fix).
var Reference = &Impl{
	Name:      "reference",
	New:       refice.VerifNew,
	MergeCM:   refice.VerifMerge,
	Merger:    refice.Merge,
	Load:      refice.Load,
	PoolProbe: refice.VerifPoolProbe,
}

package hx

import (
	"bytes"
	"encoding/binary"
	"errors"
	"fmt"
	"hash/crc32"
	"io"
	"math/rand"
	"os"
	"path/filepath"
	"runtime"
	"runtime/debug"
	"strconv"
	"strings"
	"sync"
	"sync/atomic"
	"time"

	"github.com/RoaringBitmap/roaring"
	segment "github.com/blugelabs/bluge_segment_api"
)

// Special explorations are made on the Go side only (faults, schedules,
// histories of bytes): what they establish is stated per property in DESIGN.md.

type SpecialFailure struct {
	What      string      `json:"what"`
	Input     interface{} `json:"input,omitempty"`
	Signature string      `json:"signature,omitempty"`
}

type Special struct {
	Evaluations int                    `json:"evaluations"`
	Distinct    int                    `json:"distinct"`
	Nontrivial  int                    `json:"distinct_nontrivial"`
	Rule        string                 `json:"rule"`
	Failures    []SpecialFailure       `json:"failures"`
	Extra       map[string]interface{} `json:"extra"`
	Samples     []interface{}          `json:"samples"`
}

func (s *Special) failf(input interface{}, format string, a ...interface{}) {
	if len(s.Failures) < 20 {
		s.Failures = append(s.Failures, SpecialFailure{What: fmt.Sprintf(format, a...), Input: input})
	}
}

func RunSpecial(prop, tier string, seed int64, tmp string) *Special {
	thorough := tier == "thorough"
	switch prop {
	case "C10":
		return specialC10(seed, thorough, tmp)
	case "C12":
		return specialC12(seed, thorough)
	case "C14":
		return specialC14(seed, thorough)
	case "C15":
		return specialC15(seed, thorough, tmp)
	case "C19":
		return specialC19(seed, thorough)
	case "C09":
		return specialC09(seed, thorough)
	case "C06", "C07":
		return specialLarge(prop, seed, thorough)
	case "C11", "C04":
		return specialSizes(prop, seed, thorough)
	}
	return nil
}

// ---------------------------------------------------------------------------
// C11 / C04: data sections whose length is exactly a power of two (or a
// multiple of one): block-wise copying code is most likely to go wrong there.
// One incompressible stored value is tuned until the data section has exactly
// the wanted length; the segment is then persisted (built, and loaded from
// memory and from a file), and the byte count, the trailing CRC-32 and the
// identity of the re-persisted file are checked.
// ---------------------------------------------------------------------------
func specialSizes(prop string, seed int64, thorough bool) *Special {
	sp := &Special{Extra: map[string]interface{}{}}
	g := NewGen(seed*2654435 + 11)
	targets := []int{4096, 32768, 65536}
	if thorough {
		targets = []int{512, 1024, 4096, 8192, 16384, 32768, 65536, 98304, 131072, 1 << 20}
	}
	sp.Rule = fmt.Sprintf("segments whose data section (file without the 44-byte footer) is exactly %v bytes long (one incompressible stored value tuned to it), and one byte shorter and longer: persisted from the built segment and from copies loaded from memory and from a file; WriteTo's count, the trailing CRC-32 over all preceding bytes, and byte identity of every re-persisted copy; non-trivial = the exact size was reached", targets)
	hit := 0
	for _, target := range targets {
		for _, delta := range []int{0, -1, 1} {
			want := target + delta
			vlen := want - 60
			var file []byte
			var seg segment.Segment
			for try := 0; try < 12; try++ {
				val := make([]byte, vlen)
				for i := range val {
					val[i] = byte(g.R.Intn(256))
				}
				b := Batch{{idField("a", true), Field{N: "body", St: true, Val: val}}}
				var err error
				file, seg, err = buildBytes(Current, b, 1025)
				if err != nil {
					sp.failf(nil, "build failed: %v", err)
					return sp
				}
				if len(file)-44 == want {
					break
				}
				vlen += want - (len(file) - 44)
			}
			in := map[string]interface{}{"seed": seed, "data_section_bytes": want, "reached": len(file) - 44}
			sp.Evaluations++
			sp.Distinct++
			if len(file)-44 == want {
				hit++
				sp.Nontrivial++
			}
			check := func(kind string, sg segment.Segment) {
				var out bytes.Buffer
				var n int64
				var err error
				_, p := safely(func() error { n, err = sg.WriteTo(&out, nil); return nil })
				switch {
				case p != nil || err != nil:
					sp.failf(in, "%s segment: WriteTo failed: err=%v panic=%v", kind, err, p)
				case int(n) != out.Len():
					sp.failf(in, "%s segment with a data section of %d bytes: WriteTo returned %d but wrote %d bytes", kind, len(file)-44, n, out.Len())
				case !bytes.Equal(out.Bytes(), file):
					sp.failf(in, "%s segment with a data section of %d bytes: the persisted bytes differ from the first persist (first difference at %d, %d and %d bytes)", kind, len(file)-44, firstDiffBytes(out.Bytes(), file), out.Len(), len(file))
				default:
					o := out.Bytes()
					if crc32.ChecksumIEEE(o[:len(o)-4]) != binary.BigEndian.Uint32(o[len(o)-4:]) {
						sp.failf(in, "%s segment: the trailing CRC-32 does not cover the preceding bytes", kind)
					}
				}
			}
			check("built", seg)
			if l, err := Current.Load(segment.NewDataBytes(file)); err == nil {
				check("memory-loaded", l)
			} else {
				sp.failf(in, "load failed: %v", err)
			}
			if l, err := Current.Load(segment.NewDataReaderAt(&faultyReader{b: file, failFrom: -1}, len(file))); err == nil {
				check("file-loaded", l)
			} else {
				sp.failf(in, "load behind a reader failed: %v", err)
			}
		}
	}
	sp.Extra["exact_sizes_reached"] = hit
	return sp
}

// ---------------------------------------------------------------------------
// helpers
// ---------------------------------------------------------------------------

func safely(f func() error) (err error, panicked interface{}) {
	defer func() {
		if r := recover(); r != nil {
			panicked = r
		}
	}()
	return f(), nil
}

// buildBytes and mergeBytes turn a panic of the code under test into an error,
// so that an exploration reports it with the input that caused it.
func buildBytes(impl *Impl, b Batch, cm uint32) (file []byte, seg segment.Segment, err error) {
	defer func() {
		if r := recover(); r != nil {
			file, seg, err = nil, nil, fmt.Errorf("panic: %v", r)
		}
	}()
	seg, _, err = impl.New(b.Documents(), HarnessNorm, cm)
	if err != nil {
		return nil, nil, err
	}
	var buf bytes.Buffer
	_, err = seg.WriteTo(&buf, nil)
	return buf.Bytes(), seg, err
}

func mergeBytes(impl *Impl, segs []segment.Segment, drops []*roaring.Bitmap, cm uint32) (file []byte, nums [][]uint64, err error) {
	defer func() {
		if r := recover(); r != nil {
			file, nums, err = nil, nil, fmt.Errorf("panic: %v", r)
		}
	}()
	var buf bytes.Buffer
	nums, _, err = impl.MergeCM(segs, drops, &buf, cm, nil)
	return buf.Bytes(), nums, err
}

// safeDump is the full dump of section 4 of DESIGN.md taken with fresh objects
// per lookup (so that reader-side defects of the frozen reference that depend
// on object reuse cannot fire): dictionary counts come from fresh postings
// lists, stored fields of another 128-document block are read through a
// freshly loaded segment.
func safeDump(impl *Impl, file []byte) (out W, err error) {
	var pan interface{}
	err, pan = safely(func() error {
		load := func() (segment.Segment, error) {
			return impl.Load(segment.NewDataBytes(append([]byte(nil), file...)))
		}
		seg, err := load()
		if err != nil {
			return err
		}
		fields := seg.Fields()
		out.Num(uint64(len(fields)))
		for _, f := range fields {
			out.Str(f)
		}
		out.Num(seg.Count())
		for _, f := range fields {
			st, err := seg.CollectionStats(f)
			if err != nil {
				return err
			}
			out.Num(st.TotalDocumentCount())
			out.Num(st.DocumentCount())
			out.Num(st.SumTotalTermFrequency())
			d, err := seg.Dictionary(f)
			if err != nil {
				return err
			}
			var terms [][]byte
			it := d.Iterator(nil, nil, nil)
			e, err := it.Next()
			for err == nil && e != nil {
				terms = append(terms, []byte(e.Term()))
				e, err = it.Next()
			}
			if err != nil {
				return err
			}
			out.Num(uint64(len(terms)))
			for _, t := range terms {
				pl, err := d.PostingsList(t, nil, nil)
				if err != nil {
					return err
				}
				out.Bytes(t)
				out.Num(pl.Count())
				pi, err := pl.Iterator(true, true, true, nil)
				if err != nil {
					return err
				}
				var ps W
				n := 0
				p, err := pi.Next()
				for err == nil && p != nil {
					postingOut(&ps, p)
					n++
					p, err = pi.Next()
				}
				if err != nil {
					return err
				}
				out.Num(uint64(n))
				out.Append(ps)
			}
		}
		sseg := seg
		for n := uint64(0); n < seg.Count(); n++ {
			if n%128 == 0 && n > 0 {
				sseg, err = load()
				if err != nil {
					return err
				}
			}
			var vals W
			cnt := 0
			err := sseg.VisitStoredFields(n, func(field string, value []byte) bool {
				vals.Str(field)
				vals.Bytes(value)
				cnt++
				return true
			})
			if err != nil {
				return err
			}
			out.Num(uint64(cnt))
			out.Append(vals)
		}
		rd, err := seg.DocumentValueReader(fields)
		if err != nil {
			return err
		}
		for n := uint64(0); n < seg.Count(); n++ {
			var vals W
			cnt := 0
			err := rd.VisitDocumentValues(n, func(field string, term []byte) {
				vals.Str(field)
				vals.Bytes(term)
				cnt++
			})
			if err != nil {
				return err
			}
			out.Num(uint64(cnt))
			out.Append(vals)
		}
		return nil
	})
	if pan != nil {
		return nil, fmt.Errorf("panic: %v", pan)
	}
	return out, err
}

// ---------------------------------------------------------------------------
// C10: both readers on the files of both writers
// ---------------------------------------------------------------------------

type c10Input struct {
	Seed   int64    `json:"seed"`
	Index  int      `json:"index"`
	Kind   string   `json:"kind"`
	CM     uint32   `json:"chunk_mode"`
	NDocs  []int    `json:"ndocs"`
	Writer string   `json:"writer"`
	Tags   []string `json:"tags"`
}

func specialC10(seed int64, thorough bool, tmp string) *Special {
	sp := &Special{Extra: map[string]interface{}{}}
	g := NewGen(seed*7919 + 10)
	n := 70
	nbig := 2
	if thorough {
		n, nbig = 900, 16
	}
	sp.Rule = fmt.Sprintf("%d inputs (batches in chunk modes 1-5/1024/1025, merges with deletions incl. zero survivors) + %d inputs with 1030-1400 documents; each is written by the current writer and by the frozen reference writer; each of the two files is dumped (fresh objects per lookup) by the current reader and by the reference reader and the two dumps must be equal; non-trivial = a file with >= 2 stored blocks or a term in >= 2 chunks or a merge", n, nbig)
	crossReads, sameBytes, refFails := 0, 0, 0
	refErrs := map[string]int{}
	seen := map[string]bool{}
	crossRead := func(in c10Input, files map[string][]byte, tags []string) {
		c := &Case{Tags: tags}
		for _, w := range []string{"current", "reference"} {
			f := files[w]
			if f == nil {
				continue
			}
			in.Writer = w
			dc, errc := safeDump(Current, f)
			dr, errr := safeDump(Reference, f)
			crossReads++
			switch {
			case errr != nil && errc != nil:
				refFails++ // both fail the same way: accepted (DESIGN.md C10)
				refErrs[fmt.Sprintf("%s-written %v: ref: %.60v | cur: %.60v", w, c.Tags, errr, errc)]++
			case errr != nil && errc == nil:
				refFails++
				refErrs[fmt.Sprintf("%s-written %v: ref: %.60v | cur ok", w, c.Tags, errr)]++
				if w == "current" {
					// the current writer emitted a file the pinned reader cannot read
					sp.failf(in, "file of the current writer is not readable by the reference reader: %v", errr)
				}
			case errc != nil:
				sp.failf(in, "current reader fails (%v) on a file the reference reader reads", errc)
			case !eqW(dc, dr):
				sp.failf(in, "the %s writer's file is read differently by the current reader and the reference reader (first difference at transcript index %d)", w, firstDiff(dc, dr))
			}
		}
	}
	for i := 0; i < n+nbig; i++ {
		in := c10Input{Seed: seed, Index: i}
		c := &Case{}
		var files = map[string][]byte{}
		big := i >= n
		kind := g.R.Intn(3)
		if big {
			kind = 0
		}
		for _, impl := range []*Impl{Current, Reference} {
			gg := NewGen(seed*7919 + 10 + int64(i)*131) // same inputs for both writers
			switch kind {
			case 0:
				nd := gg.smallSize()
				if gg.R.Intn(4) == 0 {
					nd = 100 + gg.R.Intn(220)
				}
				o := BatchOpts{NDocs: nd}
				if big {
					o = BatchOpts{NDocs: 1030 + gg.R.Intn(370), NVocab: 4, NFields: 2}
				}
				cm := gg.ChunkMode()
				if big {
					cm = 1025
				}
				b := gg.Batch(o)
				c.tagBatch(b, cm)
				in.Kind, in.CM, in.NDocs = "build", cm, []int{len(b)}
				err, pan := safely(func() error {
					f, _, err := buildBytes(impl, b, cm)
					files[impl.Name] = f
					return err
				})
				if err != nil || pan != nil {
					sp.failf(in, "%s writer failed to build: %v %v", impl.Name, err, pan)
				}
			default:
				k := 1 + gg.R.Intn(3)
				var segs []segment.Segment
				var drops []*roaring.Bitmap
				in.NDocs = nil
				total := 0
				for j := 0; j < k; j++ {
					nd := gg.smallSize()
					if gg.R.Intn(5) == 0 {
						nd = 100 + gg.R.Intn(100)
					}
					b := gg.Batch(BatchOpts{NDocs: nd, IDPrefix: string(rune('a' + j))})
					bcm := gg.ChunkMode()
					seg, _, err := impl.New(b.Documents(), HarnessNorm, bcm)
					if err != nil {
						sp.failf(in, "%s writer failed to build: %v", impl.Name, err)
						continue
					}
					d, isNil, _ := gg.Drops(nd)
					if kind == 2 && gg.R.Intn(3) == 0 { // force zero survivors now and then
						d, isNil = nil, false
						for x := 0; x < nd; x++ {
							d = append(d, uint64(x))
						}
					}
					segs = append(segs, seg)
					if isNil {
						drops = append(drops, nil)
					} else {
						drops = append(drops, bitmapOf(d))
					}
					in.NDocs = append(in.NDocs, nd)
					total += nd - len(d)
				}
				cm := gg.ChunkMode()
				in.Kind, in.CM = "merge", cm
				c.tag("merge")
				if total == 0 {
					c.tag("zero_survivors")
				}
				if total > 128 {
					c.tag("multi_block")
				}
				err, pan := safely(func() error {
					f, _, err := mergeBytes(impl, segs, drops, cm)
					files[impl.Name] = f
					return err
				})
				if err != nil || pan != nil {
					sp.failf(in, "%s writer failed to merge: %v %v", impl.Name, err, pan)
				}
			}
		}
		in.Tags = c.Tags
		if bytes.Equal(files["current"], files["reference"]) {
			sameBytes++
		}
		crossRead(in, files, c.Tags)
		key := fmt.Sprint(in.Kind, in.CM, in.NDocs, c.Tags)
		sp.Evaluations++
		if !seen[key] {
			seen[key] = true
			sp.Distinct++
			for _, t := range c.Tags {
				if t == "multi_block" || t == "multi_chunk" || t == "merge" {
					sp.Nontrivial++
					break
				}
			}
		}
		if len(sp.Samples) < 2 {
			sp.Samples = append(sp.Samples, in)
		}
	}
	// corner inputs, written by both writers (built, and merged with the documents that carry values
	// deleted) and read by both readers: a stored value and a doc-value chunk above 1 MiB (zstd frames
	// with a large window), doc-value fields whose first chunk is empty or that never have a term
	for ci, corner := range c10Corners() {
		in := c10Input{Seed: seed, Index: 100000 + ci, Kind: "corner:" + corner.name, CM: 1025, NDocs: []int{len(corner.b)}}
		for step := 0; step < 2; step++ {
			files := map[string][]byte{}
			for _, impl := range []*Impl{Current, Reference} {
				f, seg, err := buildBytes(impl, corner.b, 1025)
				if err != nil {
					sp.failf(in, "%s writer failed to build: %v", impl.Name, err)
					continue
				}
				if step == 1 {
					in.Kind = "corner-merge:" + corner.name
					if f, _, err = mergeBytes(impl, []segment.Segment{seg}, []*roaring.Bitmap{bitmapOf(corner.drops)}, 1025); err != nil {
						sp.failf(in, "%s writer failed to merge: %v", impl.Name, err)
						continue
					}
				}
				files[impl.Name] = f
			}
			crossRead(in, files, []string{"corner"})
			sp.Evaluations++
			sp.Distinct++
			sp.Nontrivial++
		}
	}
	if gd := os.Getenv("VERIF_GOLDEN_DIR"); gd != "" {
		k := CheckGolden(gd, sp)
		sp.Extra["golden_files_checked"] = k
		sp.Evaluations += k
	}
	sp.Extra["cross_reads"] = crossReads
	sp.Extra["inputs_where_both_writers_emit_identical_bytes"] = sameBytes
	sp.Extra["files_the_reference_reader_cannot_load"] = refFails
	sp.Extra["reference_reader_failures"] = refErrs
	return sp
}

type c10Corner struct {
	name  string
	b     Batch
	drops []uint64
}

func c10Corners() []c10Corner {
	big := func(n int, seed byte) []byte {
		v := make([]byte, n)
		x := uint32(seed) + 1
		for i := range v {
			x = x*1664525 + 1013904223
			v[i] = byte(x >> 24)
			if v[i] == 0xff {
				v[i] = 0
			}
		}
		return v
	}
	var out []c10Corner
	// one stored value above 1 MiB
	out = append(out, c10Corner{"stored-value-1.1MiB", Batch{
		{idField("a", true), Field{N: "body", St: true, Val: big(1150000, 1)}},
		{idField("b", true), Field{N: "body", St: true, Val: []byte("small")}},
	}, []uint64{1}})
	// a doc-value chunk above 1 MiB
	var dv Batch
	for d := 0; d < 140; d++ {
		dv = append(dv, Doc{idField(fmt.Sprintf("k%d", d), false), Field{N: "body", Len: 1, DV: true, Terms: []Term{{T: big(9000, byte(d)), Freq: 1}}}})
	}
	out = append(out, c10Corner{"dv-chunk-1.2MiB", dv, []uint64{3}})
	// doc-value fields with an empty first chunk / without any term
	var late Batch
	var valued []uint64
	for d := 0; d < 1130; d++ {
		doc := Doc{idField(fmt.Sprintf("e%d", d), false)}
		if d >= 1100 {
			doc = append(doc, Field{N: "late", DV: true, Len: 1, Terms: []Term{{T: []byte(fmt.Sprintf("v%d", d%3)), Freq: 1}}})
			valued = append(valued, uint64(d))
		}
		if d%9 == 0 {
			doc = append(doc, Field{N: "none", DV: true, St: true, Val: []byte{byte(d)}})
		}
		late = append(late, doc)
	}
	out = append(out, c10Corner{"dv-empty-first-chunk", late, valued})
	// a small batch whose doc-value field never has a term
	out = append(out, c10Corner{"dv-field-without-terms", Batch{
		{idField("a", true), Field{N: "none", DV: true, St: true, Val: []byte("x")}},
		{idField("b", true), Field{N: "none", DV: true, St: true, Val: []byte("y")}},
	}, []uint64{0}})
	return out
}

func firstDiff(a, b W) int {
	for i := 0; i < len(a) && i < len(b); i++ {
		if a[i] != b[i] {
			return i
		}
	}
	if len(a) < len(b) {
		return len(a)
	}
	return len(b)
}

// ---------------------------------------------------------------------------
// C12: a writer failing at every offset, a close channel closed at every offset
// ---------------------------------------------------------------------------

var errInjected = errors.New("injected write failure")

// failAt accepts k bytes in total and then fails every write.
type failAt struct {
	k       int
	written int
	buf     bytes.Buffer
}

func (w *failAt) Write(p []byte) (int, error) {
	room := w.k - w.written
	if room <= 0 {
		return 0, errInjected
	}
	if len(p) <= room {
		w.written += len(p)
		w.buf.Write(p)
		return len(p), nil
	}
	w.written += room
	w.buf.Write(p[:room])
	return room, errInjected
}

// closeAt closes ch as soon as k bytes have been written.
type closeAt struct {
	k      int
	ch     chan struct{}
	closed bool
	buf    bytes.Buffer
}

func (w *closeAt) Write(p []byte) (int, error) {
	w.buf.Write(p)
	if !w.closed && w.buf.Len() >= w.k {
		close(w.ch)
		w.closed = true
	}
	return len(p), nil
}

type c12Input struct {
	Seed     int64  `json:"seed"`
	Workload int    `json:"workload"`
	Kind     string `json:"kind"`
	BufSize  int    `json:"buffer_size"`
	Offset   int    `json:"offset"`
	Total    int    `json:"file_length"`
}

func specialC12(seed int64, thorough bool) *Special {
	sp := &Special{Extra: map[string]interface{}{}}
	g := NewGen(seed*104729 + 12)
	nw := 5
	bufs := []int{16, 4096}
	if thorough {
		nw = 30
		bufs = []int{0, 1, 16, 4096, 1 << 20}
	}
	sp.Rule = fmt.Sprintf("%d workloads (merges of 1-3 segments with deletions through Merger.WriteTo with buffer sizes %v, and Segment.WriteTo of built and loaded segments); for EVERY byte offset k below the file length the destination fails after k bytes (the call must return an error) and, for merges, the close channel is closed when k bytes have been written (the call must return ErrClosed, or succeed with the complete, loadable file); exhaustive per workload; plus two boundary workloads (two inputs of 129-136 documents: every offset; 1,025+ and 6 documents with a doc-value field sorting last: a stride of offsets and the last 600), where a panic is also a failure; non-trivial = every (workload, buffer size, offset) triple is distinct and lies inside the file", nw, bufs)
	sp.Extra["exhaustive_per_workload"] = true
	faults, cancels, closedErr, completed := 0, 0, 0, 0
	for wl := 0; wl < nw; wl++ {
		k := 1 + g.R.Intn(3)
		var segs []segment.Segment
		var drops []*roaring.Bitmap
		for j := 0; j < k; j++ {
			nd := 1 + g.R.Intn(12)
			b := g.Batch(BatchOpts{NDocs: nd, IDPrefix: string(rune('a' + j))})
			seg, _, err := Current.New(b.Documents(), HarnessNorm, 1025)
			if err != nil {
				sp.failf(nil, "build failed: %v", err)
				return sp
			}
			if j == 0 && g.R.Intn(2) == 0 { // a loaded segment as merge input
				var buf bytes.Buffer
				seg.WriteTo(&buf, nil)
				seg, err = Current.Load(segment.NewDataBytes(buf.Bytes()))
				if err != nil {
					sp.failf(nil, "load failed: %v", err)
					return sp
				}
			}
			segs = append(segs, seg)
			d, isNil, _ := g.Drops(nd)
			if isNil {
				drops = append(drops, nil)
			} else {
				drops = append(drops, bitmapOf(d))
			}
		}
		for _, bs := range bufs {
			var clean bytes.Buffer
			n, err := Current.Merger(segs, drops, bs).WriteTo(&clean, nil)
			if err != nil || int(n) != clean.Len() {
				sp.failf(c12Input{Seed: seed, Workload: wl, Kind: "merge", BufSize: bs}, "clean merge failed or miscounted: err=%v n=%d len=%d", err, n, clean.Len())
				continue
			}
			total := clean.Len()
			for off := 0; off < total; off++ {
				in := c12Input{Seed: seed, Workload: wl, Kind: "merge", BufSize: bs, Offset: off, Total: total}
				fw := &failAt{k: off}
				_, err := Current.Merger(segs, drops, bs).WriteTo(fw, nil)
				faults++
				if err == nil {
					sp.failf(in, "Merger.WriteTo reported success although the writer failed after %d of %d bytes", off, total)
				}
				// cancellation when off bytes have been written
				cw := &closeAt{k: off, ch: make(chan struct{})}
				_, err = Current.Merger(segs, drops, bs).WriteTo(cw, cw.ch)
				cancels++
				if err == segment.ErrClosed {
					closedErr++
				} else if err != nil {
					sp.failf(in, "cancelled merge returned an unexpected error: %v", err)
				} else {
					completed++
					if !bytes.Equal(cw.buf.Bytes(), clean.Bytes()) {
						sp.failf(in, "cancelled merge reported success but wrote %d bytes that differ from the complete %d-byte file", cw.buf.Len(), total)
					} else if _, lerr := Current.Load(segment.NewDataBytes(cw.buf.Bytes())); lerr != nil {
						sp.failf(in, "cancelled merge reported success but the file does not load: %v", lerr)
					}
				}
			}
			sp.Evaluations += 2 * total
			sp.Distinct += 2 * total
			sp.Nontrivial += 2 * total
		}
		// Segment.WriteTo of the first segment (built or loaded)
		var clean bytes.Buffer
		n, err := segs[0].WriteTo(&clean, nil)
		if err != nil || int(n) != clean.Len() {
			sp.failf(c12Input{Seed: seed, Workload: wl, Kind: "persist"}, "clean persist failed or miscounted: err=%v n=%d len=%d", err, n, clean.Len())
			continue
		}
		for off := 0; off < clean.Len(); off++ {
			fw := &failAt{k: off}
			_, err := segs[0].WriteTo(fw, nil)
			faults++
			if err == nil {
				sp.failf(c12Input{Seed: seed, Workload: wl, Kind: "persist", Offset: off, Total: clean.Len()},
					"Segment.WriteTo reported success although the writer failed after %d of %d bytes", off, clean.Len())
			}
		}
		sp.Evaluations += clean.Len()
		sp.Distinct += clean.Len()
		sp.Nontrivial += clean.Len()
		if len(sp.Samples) < 2 {
			sp.Samples = append(sp.Samples, c12Input{Seed: seed, Workload: wl, Kind: "merge+persist", Total: clean.Len()})
		}
	}
	// boundary workloads: the close (or the fault) falls right after a 128-document stored
	// block / a 1,024-document doc-value chunk of the first of two inputs has been written
	type bigWL struct {
		name   string
		sizes  []int
		dv     bool
		bufs   []int
		stride int
	}
	bigs := []bigWL{{"two inputs of 129-136 documents (stored blocks)", []int{129 + g.R.Intn(8), 129 + g.R.Intn(8)}, false, []int{1, 64}, 1},
		{"1,025-1,040 and 6 documents with a doc-value field that sorts last (doc-value chunks)", []int{1025 + g.R.Intn(16), 6}, true, []int{1}, 13}}
	if thorough {
		bigs[1].stride = 3
		bigs[1].bufs = []int{1, 100}
	}
	for bi, wl := range bigs {
		var segs []segment.Segment
		var drops []*roaring.Bitmap
		for j, nd := range wl.sizes {
			var b Batch
			for d := 0; d < nd; d++ {
				doc := Doc{idField(fmt.Sprintf("%c%d", 'a'+j, d), true)}
				if wl.dv {
					doc = append(doc, Field{N: "zz", Len: 1, DV: true, Terms: []Term{{T: []byte(fmt.Sprintf("v%d", d%7)), Freq: 1}}})
				}
				b = append(b, doc)
			}
			seg, _, err := Current.New(b.Documents(), HarnessNorm, 1025)
			if err != nil {
				sp.failf(nil, "build failed: %v", err)
				return sp
			}
			segs = append(segs, seg)
			drops = append(drops, nil)
		}
		for _, bs := range wl.bufs {
			var clean bytes.Buffer
			n, err := Current.Merger(segs, drops, bs).WriteTo(&clean, nil)
			if err != nil || int(n) != clean.Len() {
				sp.failf(c12Input{Seed: seed, Workload: 1000 + bi, Kind: "merge", BufSize: bs}, "clean merge failed or miscounted: err=%v n=%d len=%d", err, n, clean.Len())
				continue
			}
			total := clean.Len()
			tried := 0
			for off := 0; off < total; off++ {
				if off%wl.stride != 0 && off < total-600 {
					continue
				}
				tried++
				in := c12Input{Seed: seed, Workload: 1000 + bi, Kind: "merge:" + wl.name, BufSize: bs, Offset: off, Total: total}
				fw := &failAt{k: off}
				var err error
				_, p := safely(func() error { _, err = Current.Merger(segs, drops, bs).WriteTo(fw, nil); return nil })
				faults++
				if p != nil {
					sp.failf(in, "Merger.WriteTo panicked when the writer failed after %d of %d bytes: %v", off, total, p)
				} else if err == nil {
					sp.failf(in, "Merger.WriteTo reported success although the writer failed after %d of %d bytes", off, total)
				}
				cw := &closeAt{k: off, ch: make(chan struct{})}
				_, p = safely(func() error { _, err = Current.Merger(segs, drops, bs).WriteTo(cw, cw.ch); return nil })
				cancels++
				switch {
				case p != nil:
					sp.failf(in, "merge cancelled after %d of %d bytes panicked (neither ErrClosed nor a complete file): %v", off, total, p)
				case err == segment.ErrClosed:
					closedErr++
				case err != nil:
					sp.failf(in, "cancelled merge returned an unexpected error: %v", err)
				default:
					completed++
					if !bytes.Equal(cw.buf.Bytes(), clean.Bytes()) {
						sp.failf(in, "merge cancelled after %d bytes reported success but wrote %d bytes that differ from the complete %d-byte file", off, cw.buf.Len(), total)
					}
				}
			}
			sp.Evaluations += 2 * tried
			sp.Distinct += 2 * tried
			sp.Nontrivial += 2 * tried
		}
	}
	sp.Extra["boundary_workloads"] = fmt.Sprintf("%d (offsets: all / every %d-th plus the last 600)", len(bigs), bigs[1].stride)
	sp.Extra["write_faults_injected"] = faults
	sp.Extra["cancellations_injected"] = cancels
	sp.Extra["cancelled_with_ErrClosed"] = closedErr
	sp.Extra["completed_despite_cancel"] = completed
	return sp
}

// ---------------------------------------------------------------------------
// C14: builder bytes after arbitrary build histories and under concurrency
// ---------------------------------------------------------------------------

func dropPool() {
	// sync.Pool contents are released over two garbage collections
	runtime.GC()
	runtime.GC()
}

type c14Input struct {
	Seed    int64  `json:"seed"`
	Target  int    `json:"target"`
	History string `json:"history"`
	CM      uint32 `json:"chunk_mode"`
	NDocs   int    `json:"ndocs"`
}

// safeNew builds and turns a panic into a value.
func safeNew(b Batch, norm func(string, int) float32, cm uint32) (err error, panicked interface{}) {
	return safely(func() error {
		_, _, err := Current.New(b.Documents(), norm, cm)
		return err
	})
}

func specialC14(seed int64, thorough bool) *Special {
	sp := &Special{Extra: map[string]interface{}{}}
	g := NewGen(seed*15485863 + 14)
	nt := 40
	conc := 8
	concRounds := 30
	if thorough {
		nt, conc, concRounds = 500, 16, 400
	}
	sp.Rule = fmt.Sprintf("%d targets: the bytes of Persist(New(batch)) from a cold builder pool (after two GCs) are compared with the bytes after 3 random build histories (bigger and smaller batches on both sides of the 1,024-document boundary, other chunk modes, other norm functions, builds whose norm function panics half way); a capacity ladder (a batch with four locations per term built after batches leaving every backing-array capacity around its needs); then %d goroutines build concurrently for %d rounds and compare with their cold bytes; non-trivial = the pool probe reported a recycled builder object right before the compared build", nt, conc, concRounds)
	recycled, failedBuilds := 0, 0
	if os.Getenv("VERIF_C14_CONCURRENT_ONLY") != "" {
		nt = 0 // the run under the race detector: only the concurrent builders
	}
	for t := 0; t < nt; t++ {
		nd := g.smallSize()
		cm := g.ChunkMode()
		o := BatchOpts{NDocs: nd}
		if t%8 == 5 { // a target on the other side of the 1,024-document boundary of the doc-value chunks
			nd = 1030 + g.R.Intn(60)
			o = BatchOpts{NDocs: nd, NFields: 2, NVocab: 4, ForceDV: true, NoStored: true}
		}
		b := g.Batch(o)
		dropPool()
		cold, _, err := buildBytes(Current, b, cm)
		if err != nil {
			sp.failf(nil, "cold build failed: %v", err)
			continue
		}
		for h := 0; h < 3; h++ {
			hist := ""
			steps := 1 + g.R.Intn(4)
			for s := 0; s < steps; s++ {
				ho := BatchOpts{NDocs: g.smallSize() * (1 + g.R.Intn(3))}
				if g.R.Intn(6) == 0 || (t%8 == 1 && s == 0) { // a build with more than 1,024 documents and doc values in the history
					ho = BatchOpts{NDocs: 1030 + g.R.Intn(60), NFields: 2, NVocab: 4, ForceDV: true, NoStored: true}
				}
				hb := g.Batch(ho)
				hcm := g.ChunkMode()
				if g.R.Intn(6) == 0 {
					// a failed build: an unknown chunk mode makes convert return an error
					if err, pan := safeNew(hb, HarnessNorm, 5000); pan != nil {
						sp.failf(c14Input{Seed: seed, Target: t, History: hist + fmt.Sprintf("err(%d)", len(hb)), CM: 5000, NDocs: len(hb)}, "a build with an unknown chunk mode panicked after the history: %v", pan)
					} else if err != nil {
						failedBuilds++
						hist += fmt.Sprintf("err(%d)", len(hb))
						continue
					}
				}
				if g.R.Intn(4) == 0 {
					// a failed build: the norm function panics after a few calls
					calls := 0
					limit := 1 + g.R.Intn(6)
					_, pan := safely(func() error {
						_, _, err := Current.New(hb.Documents(), func(f string, l int) float32 {
							calls++
							if calls > limit {
								panic("norm failure injected")
							}
							return HarnessNorm(f, l)
						}, hcm)
						return err
					})
					if pan != nil {
						failedBuilds++
						hist += fmt.Sprintf("fail(%d)", len(hb))
						continue
					}
				} else if g.R.Intn(3) == 0 {
					// a build with ANOTHER norm function (it depends on the field name and differs from
					// HarnessNorm for every length): nothing of it may survive in the pooled builder
					other := func(f string, l int) float32 { return HarnessNorm(f+"#", l+7) }
					if err, pan := safeNew(hb, other, hcm); err != nil || pan != nil {
						sp.failf(c14Input{Seed: seed, Target: t, History: hist + fmt.Sprintf("n(%d,%d)", len(hb), hcm), CM: hcm, NDocs: len(hb)},
							"a build of a valid batch with another norm function failed after the history: err=%v panic=%v", err, pan)
					}
					hist += fmt.Sprintf("n(%d,%d)", len(hb), hcm)
					continue
				} else if err, pan := safeNew(hb, HarnessNorm, hcm); err != nil || pan != nil {
					sp.failf(c14Input{Seed: seed, Target: t, History: hist + fmt.Sprintf("b(%d,%d)", len(hb), hcm), CM: hcm, NDocs: len(hb)},
						"a build of a valid batch failed after the history (the same batch builds from a cold pool): err=%v panic=%v", err, pan)
				}
				hist += fmt.Sprintf("b(%d,%d)", len(hb), hcm)
			}
			used := Current.PoolProbe()
			warm, _, err := buildBytes(Current, b, cm)
			in := c14Input{Seed: seed, Target: t, History: hist, CM: cm, NDocs: nd}
			sp.Evaluations++
			sp.Distinct++
			if used {
				recycled++
				sp.Nontrivial++
			}
			if err != nil {
				sp.failf(in, "build after history failed: %v", err)
			} else if !bytes.Equal(cold, warm) {
				sp.failf(in, "bytes after the history differ from the cold-start bytes (first difference at offset %d of %d/%d)", firstDiffBytes(cold, warm), len(cold), len(warm))
			}
			if len(sp.Samples) < 2 {
				sp.Samples = append(sp.Samples, in)
			}
		}
	}
	// capacity ladder: a batch with several locations per term (more locations than term/field
	// pairs) built right after batches that leave the pooled builder's backing arrays with every
	// capacity around what this batch needs (below, between and above its numbers of postings and
	// of locations)
	if nt > 0 {
		var target Batch
		for d := 0; d < 6; d++ {
			body := Field{N: "body"}
			for ti, t := range []string{"x", "y", "z"} {
				tm := Term{T: []byte(t), Freq: 4}
				for l := 0; l < 4; l++ {
					tm.Locs = append(tm.Locs, Loc{Pos: 1 + 4*ti + l, Start: 3 * l, End_: 3*l + 2})
				}
				body.Terms = append(body.Terms, tm)
				body.Len += 4
			}
			target = append(target, Doc{idField(fmt.Sprintf("l%d", d), true), body})
		}
		dropPool()
		cold, _, err := buildBytes(Current, target, 1025)
		if err != nil {
			sp.failf(nil, "cold build of the ladder target failed: %v", err)
		}
		for m := 4; m <= 90 && err == nil; m += 1 + m/12 {
			var prev Batch
			for d := 0; d < m; d++ {
				prev = append(prev, Doc{idField(fmt.Sprintf("p%d", d), false),
					Field{N: "body", Len: 1, Terms: []Term{{T: []byte("w"), Freq: 1, Locs: []Loc{{Pos: 1, Start: 0, End_: 1}}}}}})
			}
			dropPool()
			in := c14Input{Seed: seed, Target: -1, History: fmt.Sprintf("ladder(%d docs with one location each)", m), CM: 1025, NDocs: len(target)}
			if e, pan := safeNew(prev, HarnessNorm, 1025); e != nil || pan != nil {
				sp.failf(in, "ladder build failed: err=%v panic=%v", e, pan)
				continue
			}
			used := Current.PoolProbe()
			warm, _, e := buildBytes(Current, target, 1025)
			sp.Evaluations++
			sp.Distinct++
			if used {
				recycled++
				sp.Nontrivial++
			}
			if e != nil {
				sp.failf(in, "build after the ladder step failed although the same batch builds from a cold pool: %v", e)
			} else if !bytes.Equal(cold, warm) {
				sp.failf(in, "bytes after the ladder step differ from the cold-start bytes (first difference at offset %d)", firstDiffBytes(cold, warm))
			}
		}
	}
	// wide vocabularies: a batch with 6,000 distinct terms, then one with 5,100 other terms whose
	// documents differ, compared with its cold-start bytes
	if nt > 0 {
		wide := func(prefix string, terms, docs int) Batch {
			var b Batch
			for d := 0; d < docs; d++ {
				body := Field{N: "body"}
				for t := d; t < terms; t += docs {
					body.Terms = append(body.Terms, Term{T: []byte(fmt.Sprintf("%s%05d", prefix, t)), Freq: 1})
					body.Len++
				}
				b = append(b, Doc{idField(fmt.Sprintf("%s%d", prefix, d), false), body})
			}
			return b
		}
		target := wide("w", 5100, 7)
		dropPool()
		cold, _, err := buildBytes(Current, target, 1025)
		if err == nil {
			dropPool()
			in := c14Input{Seed: seed, Target: -2, History: "wide(6000 terms over 11 documents)", CM: 1025, NDocs: len(target)}
			if e, pan := safeNew(wide("v", 6000, 11), HarnessNorm, 1025); e != nil || pan != nil {
				sp.failf(in, "wide build failed: err=%v panic=%v", e, pan)
			}
			used := Current.PoolProbe()
			warm, _, e := buildBytes(Current, target, 1025)
			sp.Evaluations++
			sp.Distinct++
			if used {
				recycled++
				sp.Nontrivial++
			}
			if e != nil {
				sp.failf(in, "build after the wide batch failed although the same batch builds from a cold pool: %v", e)
			} else if !bytes.Equal(cold, warm) {
				sp.failf(in, "bytes after the wide batch differ from the cold-start bytes (first difference at offset %d)", firstDiffBytes(cold, warm))
			}
		}
	}
	// no norm function at all: whatever New does with a nil norm function (today: it panics
	// when the first field is processed) must not depend on what was built before
	if nt > 0 {
		nb := g.Batch(BatchOpts{NDocs: 4})
		outcome := func() string {
			var file []byte
			err, pan := safely(func() error {
				seg, _, err := Current.New(nb.Documents(), nil, 1025)
				if err != nil {
					return err
				}
				var buf bytes.Buffer
				_, err = seg.WriteTo(&buf, nil)
				file = buf.Bytes()
				return err
			})
			if pan != nil {
				return "panic"
			}
			if err != nil {
				return "error"
			}
			return fmt.Sprintf("bytes:%x", file)
		}
		dropPool()
		cold := outcome()
		for k, norm := range []func(string, int) float32{HarnessNorm, func(f string, l int) float32 { return HarnessNorm(f+"#", l+7) }} {
			dropPool()
			safeNew(g.Batch(BatchOpts{NDocs: 5}), norm, 1025)
			warm := outcome()
			sp.Evaluations++
			sp.Distinct++
			if warm != cold {
				sp.failf(c14Input{Seed: seed, Target: -3, History: fmt.Sprintf("b(5 docs, norm function %d), then New with a nil norm function", k), CM: 1025, NDocs: len(nb)},
					"New with a nil norm function behaves differently after a build with a norm function than from a cold pool (%.20s... vs %.20s...)", warm, cold)
			}
		}
	}
	// concurrent builders
	type job struct {
		b    Batch
		cm   uint32
		cold []byte
	}
	jobs := make([]job, conc)
	for i := range jobs {
		o := BatchOpts{NDocs: 1 + g.R.Intn(30)}
		if i%2 == 0 { // many documents with several doc-value fields: long stretches inside the shared helpers
			o = BatchOpts{NDocs: 150 + g.R.Intn(150), NFields: 4, NVocab: 8, ForceDV: true, AllFields: true}
		}
		b := g.Batch(o)
		cm := g.ChunkMode()
		dropPool()
		cold, _, _ := buildBytes(Current, b, cm)
		jobs[i] = job{b, cm, cold}
	}
	var wg sync.WaitGroup
	var mism int64
	start := make(chan struct{})
	for i := range jobs {
		wg.Add(1)
		go func(j job) {
			defer wg.Done()
			<-start
			for r := 0; r < concRounds; r++ {
				w, _, err := buildBytes(Current, j.b, j.cm)
				if err != nil || !bytes.Equal(w, j.cold) {
					atomic.AddInt64(&mism, 1)
				}
			}
		}(jobs[i])
	}
	close(start)
	wg.Wait()
	if mism > 0 {
		sp.failf(map[string]interface{}{"seed": seed, "goroutines": conc}, "%d concurrent builds produced bytes different from the cold-start bytes", mism)
	}
	sp.Evaluations += conc * concRounds
	sp.Extra["compared_builds_on_recycled_pool_object"] = recycled
	sp.Extra["failed_builds_in_histories"] = failedBuilds
	sp.Extra["concurrent_builds"] = conc * concRounds
	sp.Extra["concurrent_goroutines"] = conc
	return sp
}

func firstDiffBytes(a, b []byte) int {
	for i := 0; i < len(a) && i < len(b); i++ {
		if a[i] != b[i] {
			return i
		}
	}
	if len(a) < len(b) {
		return len(a)
	}
	return len(b)
}

// ---------------------------------------------------------------------------
// C15: nothing an operation touches is modified
// ---------------------------------------------------------------------------

type snap struct {
	dump  W
	bytes []byte
}

func bitmapSnap(bm *roaring.Bitmap) []byte {
	b, _ := bm.ToBytes()
	st := bm.Stats()
	return append(b, []byte(fmt.Sprintf("|%d|%d|%d|%d", st.Cardinality, st.Containers, st.RunContainers, st.ArrayContainers))...)
}

func specialC15(seed int64, thorough bool, tmp string) *Special {
	sp := &Special{Extra: map[string]interface{}{}}
	g := NewGen(seed*32452843 + 15)
	nh, nops := 30, 14
	if thorough {
		nh, nops = 400, 25
	}
	sp.Rule = fmt.Sprintf("%d histories of %d operations (reads with exclusion bitmaps, statistics accumulated into the objects a segment hands out, Segment.WriteTo, merges with deletion bitmaps) over 3 segments (built, merged, loaded) and 3 bitmaps; before the history and after every operation each segment's full dump and persisted bytes and each bitmap's serialised bytes and container statistics are compared with the initial snapshot; plus segments of 1,100-2,200 documents read by an interleaved two-reader / two-iterator script before and after merges and persists; non-trivial = a history containing a merge or a persist between two observations", nh, nops)
	opCount := map[string]int{}
	for h := 0; h < nh; h++ {
		in := NewInterp(Current, tmp)
		var segs []segment.Segment
		b0 := g.Batch(BatchOpts{NDocs: 2 + g.R.Intn(20)})
		b1 := g.Batch(BatchOpts{NDocs: 1 + g.R.Intn(10), IDPrefix: "x"})
		s0, _, _ := Current.New(b0.Documents(), HarnessNorm, g.ChunkMode())
		s1, _, _ := Current.New(b1.Documents(), HarnessNorm, g.ChunkMode())
		mb, _, err := mergeBytes(Current, []segment.Segment{s0, s1}, []*roaring.Bitmap{bitmapOf(g.subset(len(b0), 3)), nil}, g.ChunkMode())
		if err != nil {
			sp.failf(nil, "setup merge failed: %v", err)
			continue
		}
		s2, _ := Current.Load(segment.NewDataBytes(mb))
		pb, _ := in.Persist(s0)
		s3, _ := in.LoadBytes(pb, 1) // file-backed
		// a segment with a different field set, loaded (its field table has spare capacity)
		b4 := g.Batch(BatchOpts{NDocs: 1 + g.R.Intn(6), IDPrefix: "y", NFields: 8})
		for d := range b4 {
			b4[d] = append(b4[d], Field{N: "only_here", Len: 1, St: true, Val: []byte("v"), Terms: []Term{{T: []byte("q"), Freq: 1, Locs: []Loc{{Pos: 1, Start: 0, End_: 1}}}}})
		}
		s4b, _, _ := Current.New(b4.Documents(), HarnessNorm, g.ChunkMode())
		pb4, _ := in.Persist(s4b)
		s4, _ := in.LoadBytes(pb4, g.R.Intn(2))
		// the same bytes as s0 behind a reader whose failures can be switched on and off
		frS := &faultyReader{b: pb, failFrom: -1}
		s5, err := Current.Load(segment.NewDataReaderAt(frS, len(pb)))
		if err != nil {
			sp.failf(nil, "setup load failed: %v", err)
			continue
		}
		segs = []segment.Segment{s0, s2, s3, s4, s5}
		counts := []int{len(b0), int(s2.Count()), len(b0), len(b4), len(b0)}
		bms := []*roaring.Bitmap{bitmapOf(g.subset(len(b0), 2)), bitmapOf(g.subset(len(b0), 4)), roaring.New()}
		bms[0].RunOptimize()
		takeSeg := func(s segment.Segment) (sn snap) {
			defer func() { // a segment that cannot be read any more is a changed segment
				if r := recover(); r != nil {
					sn = snap{W{999999, 999999}, nil}
				}
			}()
			d := in.obsAll(s)
			if fa, ok := s.(footerAPI); ok { // every public accessor is an observation (taken before persisting)
				d = append(d, uint64(fa.CRC()), uint64(fa.ChunkMode()), uint64(fa.Version()), fa.NumDocs(),
					fa.StoredIndexOffset(), fa.FieldsIndexOffset(), fa.DocValueOffset())
			}
			// lookups that must stay empty: an absent term and an unknown field, through fresh objects
			for _, ft := range []FT{{"body", []byte("\x00no-such-term")}, {"no-such-field", []byte("a")}} {
				if dd, err := s.Dictionary(ft.F); err == nil {
					if pl, err := dd.PostingsList(ft.T, nil, nil); err == nil {
						d = append(d, pl.Count())
						if it, err := pl.Iterator(true, true, true, nil); err == nil {
							d = append(d, it.Count())
							if p, _ := it.Next(); p != nil {
								d = append(d, 1, p.Number())
							} else {
								d = append(d, 0)
							}
						}
					}
				}
			}
			pb, _ := in.Persist(s)
			return snap{d, pb}
		}
		var base []snap
		for _, s := range segs {
			base = append(base, takeSeg(s))
		}
		var bbase [][]byte
		for _, bm := range bms {
			bbase = append(bbase, bitmapSnap(bm))
		}
		fts := BatchTerms(b0)
		hist := []string{}
		nontriv := false
		var prePL segment.PostingsList
		var preIt segment.PostingsIterator
		for o := 0; o < nops; o++ {
			si := g.R.Intn(len(segs))
			seg := segs[si]
			var what string
			switch g.R.Intn(9) {
			case 7:
				// what a multi-segment reader does per search: the statistics object a segment hands out is
				// the caller's accumulator (CollectionStats.Merge adds into its receiver); adding another
				// segment's statistics to it must not reach the segment
				what = "stats(accumulated by the caller)"
				safely(func() error {
					other := segs[g.R.Intn(len(segs))]
					for _, f := range seg.Fields() {
						acc, err := seg.CollectionStats(f)
						if err != nil {
							return err
						}
						if st, err := other.CollectionStats(f); err == nil {
							acc.Merge(st)
						}
						if again, err := seg.CollectionStats(f); err == nil {
							acc.Merge(again)
						}
					}
					return nil
				})
			case 0: // iterate a postings list with an exclusion bitmap
				ft := g.pickFT(fts)
				what = "postings+except"
				safely(func() error {
					d, err := seg.Dictionary(ft.F)
					if err != nil {
						return err
					}
					pl, err := d.PostingsList(ft.T, bms[g.R.Intn(2)], prePL)
					if err != nil {
						return err
					}
					it, err := pl.Iterator(true, true, true, preIt)
					if err != nil {
						return err
					}
					prePL, preIt = pl, it // reused by the next lookup, on whichever segment that is
					pl.Count()
					for p, err := it.Next(); err == nil && p != nil; p, err = it.Advance(p.Number() + 2) {
					}
					return nil
				})
			case 1:
				what = "persist"
				nontriv = true
				in.Persist(seg)
			case 2:
				what = "merge"
				nontriv = true
				safely(func() error {
					other := segs[g.R.Intn(len(segs))]
					pair := []segment.Segment{other, seg}
					if g.R.Intn(2) == 0 {
						pair = []segment.Segment{seg, other}
					}
					_, _, err := mergeBytes(Current, pair, []*roaring.Bitmap{bms[g.R.Intn(3)], bms[1]}, g.ChunkMode())
					return err
				})
			case 3:
				what = "stored+dv"
				if counts[si] > 0 {
					n := uint64(g.R.Intn(counts[si]))
					seg.VisitStoredFields(n, func(string, []byte) bool { return g.R.Intn(3) != 0 })
					rd, _ := seg.DocumentValueReader(seg.Fields())
					rd.VisitDocumentValues(n, func(string, []byte) {})
				}
			case 4:
				what = "docsmatching+dict"
				var terms []segment.Term
				for j := 0; j < 3; j++ {
					ft := g.pickFT(fts)
					terms = append(terms, fterm{ft.F, ft.T})
				}
				safely(func() error {
					_, err := seg.DocsMatchingTerms(terms)
					d, _ := seg.Dictionary("body")
					dictEntries(d.Iterator(nil, nil, nil))
					return err
				})
			case 6:
				// reads on the fault-injectable segment while its storage fails (from a random read on),
				// after which the storage works again: a failed read must leave nothing behind
				what = "reads(storage failing, then restored)"
				nontriv = true
				frS.failFrom = frS.reads + int64(g.R.Intn(4))
				safely(func() error {
					fseg := segs[len(segs)-1]
					for _, f := range fseg.Fields() {
						if d, err := fseg.Dictionary(f); err == nil {
							ft := g.pickFT(fts)
							if pl, err := d.PostingsList(ft.T, nil, nil); err == nil {
								if it, err := pl.Iterator(true, true, true, nil); err == nil {
									it.Next()
								}
							}
						}
					}
					fseg.VisitStoredFields(0, func(string, []byte) bool { return true })
					if rd, err := fseg.DocumentValueReader(fseg.Fields()); err == nil {
						rd.VisitDocumentValues(0, func(string, []byte) {})
					}
					return nil
				})
				frS.failFrom = -1
				// the same on a freshly loaded (cold) copy: its first dictionary loads meet the failure;
				// once the storage works again it must answer exactly like the warm copy
				safely(func() error {
					frC := &faultyReader{b: pb, failFrom: -1}
					cold, err := Current.Load(segment.NewDataReaderAt(frC, len(pb)))
					if err != nil {
						return err
					}
					frC.failFrom = frC.reads + int64(g.R.Intn(3))
					safely(func() error {
						for _, f := range cold.Fields() {
							if d, err := cold.Dictionary(f); err == nil {
								d.Contains([]byte("a"))
							}
						}
						return nil
					})
					frC.failFrom = -1
					now := takeSeg(cold)
					if !eqW(now.dump, base[len(base)-1].dump) {
						sp.failf(map[string]interface{}{"seed": seed, "history": h, "ops": append(append([]string(nil), hist...), what)},
							"a freshly loaded segment whose first reads failed answers differently from a copy that never saw a failure, although the storage works again")
					}
					return nil
				})
			case 5:
				// a merge abandoned half way (the close channel closes, or the destination fails, after
				// some bytes): the inputs must read as before
				what = "merge(abandoned)"
				nontriv = true
				safely(func() error {
					other := segs[g.R.Intn(len(segs))]
					k := g.R.Intn(400)
					if g.R.Intn(2) == 0 {
						cw := &closeAt{k: k, ch: make(chan struct{})}
						_, err := Current.Merger([]segment.Segment{seg, other}, []*roaring.Bitmap{bms[g.R.Intn(3)], nil}, 16).WriteTo(cw, cw.ch)
						return err
					}
					_, err := Current.Merger([]segment.Segment{other, seg}, []*roaring.Bitmap{nil, bms[g.R.Intn(3)]}, 16).WriteTo(&failAt{k: k}, nil)
					return err
				})
			default:
				what = "merge(public)"
				nontriv = true
				safely(func() error {
					var buf bytes.Buffer
					_, err := Current.Merger([]segment.Segment{seg}, []*roaring.Bitmap{bms[0]}, 64).WriteTo(&buf, nil)
					return err
				})
			}
			hist = append(hist, what)
			opCount[what]++
			input := map[string]interface{}{"seed": seed, "history": h, "ops": append([]string(nil), hist...)}
			for i, s := range segs {
				now := takeSeg(s)
				if !eqW(now.dump, base[i].dump) {
					sp.failf(input, "after %q the dump of segment %d differs from before the history", what, i)
				}
				if !bytes.Equal(now.bytes, base[i].bytes) {
					sp.failf(input, "after %q the bytes persisted by segment %d differ from before the history", what, i)
				}
			}
			for i, bm := range bms {
				if !bytes.Equal(bitmapSnap(bm), bbase[i]) {
					sp.failf(input, "after %q the caller's bitmap %d changed (serialised bytes or container statistics)", what, i)
				}
			}
			sp.Evaluations++
		}
		sp.Distinct++
		if nontriv {
			sp.Nontrivial++
		}
		if len(sp.Samples) < 2 {
			sp.Samples = append(sp.Samples, map[string]interface{}{"history": h, "ops": hist})
		}
		in.Close()
	}
	sp.Extra["operation_counts"] = opCount
	rounds := 2
	if thorough {
		rounds = 10
	}
	bigImmut(sp, g, seed, rounds, tmp)
	return sp
}

// bigImmut: a segment with more than 1,024 documents (several doc-value chunks,
// multi-chunk postings) is read by a fixed script - two doc-value readers used
// alternately on different chunks, two iterators of one long term advanced
// alternately, stored fields on both sides of a block boundary - before and
// after it took part in merges (in either position, with deletions) and persists.
// The script's answers must not change.
func bigImmut(sp *Special, g *Gen, seed int64, rounds int, tmp string) {
	for r := 0; r < rounds; r++ {
		n := 1100 + g.R.Intn(1100)
		b := g.Batch(BatchOpts{NDocs: n, NFields: 2, NVocab: 4, ForceDV: true, AllFields: true, Dense: r%2 == 0})
		small := g.Batch(BatchOpts{NDocs: 3 + g.R.Intn(5), NFields: 2, NVocab: 4, ForceDV: true, IDPrefix: "s"})
		seg, _, err := Current.New(b.Documents(), HarnessNorm, 1025)
		if err != nil {
			sp.failf(nil, "build failed: %v", err)
			return
		}
		if r%2 == 1 { // a loaded segment
			var buf bytes.Buffer
			seg.WriteTo(&buf, nil)
			if seg, err = Current.Load(segment.NewDataBytes(buf.Bytes())); err != nil {
				sp.failf(nil, "load failed: %v", err)
				return
			}
		}
		sseg, _, _ := Current.New(small.Documents(), HarnessNorm, 1025)
		fts := BatchTerms(b)
		long := fts[len(fts)-1]
		for _, ft := range fts { // the first term of a non-_id field: dense batches give it > 1,024 postings
			if ft.F != "_id" {
				long = ft
				break
			}
		}
		script := func() (out W) {
			defer func() {
				if p := recover(); p != nil {
					out = append(out, 999999, 999999)
				}
			}()
			fields := seg.Fields()
			r1, e1 := seg.DocumentValueReader(fields)
			r2, e2 := seg.DocumentValueReader(fields)
			if e1 != nil || e2 != nil {
				return W{888888}
			}
			visit := func(rd segment.DocumentValueReader, d int) {
				cnt := 0
				var vals W
				err := rd.VisitDocumentValues(uint64(d), func(f string, t []byte) {
					vals.Str(f)
					vals.Bytes(t)
					cnt++
				})
				out.Bool(err != nil)
				out.Num(uint64(cnt))
				out.Append(vals)
			}
			for _, d := range []int{0, 1030, 1, 5, n - 1, 1023, 1024, 2, n - 2} {
				visit(r1, d%n)
				visit(r2, (d+1024)%n)
			}
			dd, err := seg.Dictionary(long.F)
			if err != nil {
				return append(out, 777777)
			}
			var its [2]segment.PostingsIterator
			for k := range its {
				pl, err := dd.PostingsList(long.T, nil, nil)
				if err != nil {
					return append(out, 777777)
				}
				out.Num(pl.Count())
				if its[k], err = pl.Iterator(true, true, true, nil); err != nil {
					return append(out, 777777)
				}
			}
			for step := 0; step < 12; step++ {
				for k := range its {
					p, err := its[k].Advance(uint64((step*211 + k*1024) % n))
					out.Bool(err != nil)
					if p != nil {
						out.Num(p.Number())
						out.Num(uint64(p.Frequency()))
						out.Num(uint64(len(p.Locations())))
					} else {
						out.Num(0)
					}
				}
			}
			for _, d := range []int{127, 128, 0, n - 1} {
				seg.VisitStoredFields(uint64(d), func(f string, v []byte) bool {
					out.Str(f)
					out.Bytes(v)
					return true
				})
			}
			return out
		}
		// the small segment's doc values, read with fresh readers
		smallScript := func() (out W) {
			defer func() {
				if p := recover(); p != nil {
					out = append(out, 999999, 999999)
				}
			}()
			rd, err := sseg.DocumentValueReader(sseg.Fields())
			if err != nil {
				return W{888888}
			}
			for d := uint64(0); d < sseg.Count(); d++ {
				err := rd.VisitDocumentValues(d, func(f string, t []byte) {
					out.Str(f)
					out.Bytes(t)
				})
				out.Bool(err != nil)
			}
			return out
		}
		base := script()
		sbase := smallScript()
		drops := bitmapOf(g.subset(n, 9))
		steps := []struct {
			name string
			f    func()
		}{
			{"merge as first input, with deletions", func() {
				mergeBytes(Current, []segment.Segment{seg, sseg}, []*roaring.Bitmap{drops, nil}, 1025)
			}},
			{"merge as second input", func() { mergeBytes(Current, []segment.Segment{sseg, seg}, []*roaring.Bitmap{nil, nil}, 1025) }},
			{"persist", func() {
				var buf bytes.Buffer
				seg.WriteTo(&buf, nil)
			}},
			{"public single-segment merge", func() {
				var buf bytes.Buffer
				safely(func() error {
					_, err := Current.Merger([]segment.Segment{seg}, []*roaring.Bitmap{nil}, 64).WriteTo(&buf, nil)
					return err
				})
			}},
		}
		var hist []string
		for _, st := range steps {
			st.f()
			hist = append(hist, st.name)
			now := script()
			if !eqW(now, base) {
				sp.failf(map[string]interface{}{"seed": seed, "exploration": "big-immut", "round": r, "ndocs": n, "ops": append([]string(nil), hist...), "first_difference_at": firstDiff(now, base)},
					"after %q the read script (two doc-value readers and two iterators used alternately across chunks) of a %d-document segment answers differently than before", st.name, n)
				break
			}
			if snow := smallScript(); !eqW(snow, sbase) {
				sp.failf(map[string]interface{}{"seed": seed, "exploration": "big-immut", "round": r, "ndocs": n, "ops": append([]string(nil), hist...)},
					"after %q the doc values of the SMALL segment that was merged together with the %d-document segment read differently than before", st.name, n)
				break
			}
			sp.Evaluations++
			sp.Nontrivial++
		}
		sp.Distinct++
	}
	sp.Extra["big_segments"] = fmt.Sprintf("%d segments of 1,100-2,200 documents, 4 operations each, interleaved two-reader script", rounds)
}

// ---------------------------------------------------------------------------
// C19: storage that starts failing at the k-th read
// ---------------------------------------------------------------------------

var errStorage = errors.New("injected storage failure")

// faultyReader fails every ReadAt once failFrom reads have been served.
type faultyReader struct {
	b        []byte
	reads    int64
	failFrom int64 // < 0: never
}

func (r *faultyReader) ReadAt(p []byte, off int64) (int, error) {
	n := atomic.AddInt64(&r.reads, 1)
	if r.failFrom >= 0 && n > r.failFrom {
		return 0, errStorage
	}
	if off >= int64(len(r.b)) {
		return 0, io.EOF
	}
	c := copy(p, r.b[off:])
	if c < len(p) {
		return c, io.EOF
	}
	return c, nil
}

type outcome struct {
	kind string // ok, err, panic, block
	out  W
}

func watch(f func() (W, error), d time.Duration) outcome {
	ch := make(chan outcome, 1)
	go func() {
		defer func() {
			if r := recover(); r != nil {
				ch <- outcome{kind: "panic:" + fmt.Sprint(r) + " @ " + trimStack(debug.Stack())}
			}
		}()
		o, err := f()
		if err != nil {
			ch <- outcome{kind: "err"}
			return
		}
		ch <- outcome{kind: "ok", out: o}
	}()
	select {
	case o := <-ch:
		return o
	case <-time.After(d):
		return outcome{kind: "block"}
	}
}

// per-segment state that survives between the calls of one run (C19: an iterator
// opened before the storage fails and continued afterwards)
type iterKeep struct{ it segment.PostingsIterator }

var iterStates sync.Map

func iterState(seg segment.Segment) *iterKeep {
	v, _ := iterStates.LoadOrStore(seg, &iterKeep{})
	return v.(*iterKeep)
}

// readCall is one read API call with its transcript.
type readCall struct {
	Name string
	Run  func(seg segment.Segment, rd *segment.DocumentValueReader) (W, error)
}

func c19Calls(g *Gen, b Batch, count int) []readCall {
	fts := BatchTerms(b)
	fields := BatchFields(b)
	var calls []readCall
	mk := func(name string, f func(seg segment.Segment, rd *segment.DocumentValueReader) (W, error)) {
		calls = append(calls, readCall{name, f})
	}
	n := 8 + g.R.Intn(8)
	// one postings iterator is kept across calls: opened by the first "iter" call of a
	// run and continued by the later ones (the state lives in the run's reader slot)
	longest := FT{}
	best := 0
	cnt := map[string]int{}
	for _, d := range b {
		for _, f := range d {
			for _, t := range f.Terms {
				k := f.N + "\x00" + string(t.T)
				cnt[k]++
				if cnt[k] > best {
					best, longest = cnt[k], FT{f.N, t.T}
				}
			}
		}
	}
	iterStep := func(k int) {
		mk(fmt.Sprintf("iter-continue:%d", k), func(seg segment.Segment, rd *segment.DocumentValueReader) (W, error) {
			st := iterState(seg)
			if st.it == nil {
				d, err := seg.Dictionary(longest.F)
				if err != nil {
					return nil, err
				}
				pl, err := d.PostingsList(longest.T, nil, nil)
				if err != nil {
					return nil, err
				}
				it, err := pl.Iterator(true, true, true, nil)
				if err != nil {
					return nil, err
				}
				st.it = it
			}
			var out W
			for i := 0; i < k; i++ {
				p, err := st.it.Next()
				if err != nil {
					return nil, err
				}
				if p == nil {
					out.Num(0)
					break
				}
				out.Num(1)
				postingOut(&out, p)
			}
			return out, nil
		})
	}
	for i := 0; i < n; i++ {
		ft := g.pickFT(fts)
		doc := uint64(0)
		if count > 0 {
			doc = uint64(g.R.Intn(count))
		}
		if i%3 == 2 {
			iterStep(1 + g.R.Intn(best/3+2))
			continue
		}
		switch g.R.Intn(5) {
		case 0:
			mk("dict:"+ft.F, func(seg segment.Segment, _ *segment.DocumentValueReader) (W, error) {
				d, err := seg.Dictionary(ft.F)
				if err != nil {
					return nil, err
				}
				return dictEntries(d.Iterator(nil, nil, nil))
			})
		case 1:
			mk("postings:"+ft.F, func(seg segment.Segment, _ *segment.DocumentValueReader) (W, error) {
				d, err := seg.Dictionary(ft.F)
				if err != nil {
					return nil, err
				}
				pl, err := d.PostingsList(ft.T, nil, nil)
				if err != nil {
					return nil, err
				}
				it, err := pl.Iterator(true, true, true, nil)
				if err != nil {
					return nil, err
				}
				var out W
				p, err := it.Next()
				for err == nil && p != nil {
					postingOut(&out, p)
					p, err = it.Next()
				}
				return out, err
			})
		case 2:
			mk(fmt.Sprintf("stored:%d", doc), func(seg segment.Segment, _ *segment.DocumentValueReader) (W, error) {
				var out W
				err := seg.VisitStoredFields(doc, func(f string, v []byte) bool {
					out.Str(f)
					out.Bytes(v)
					return true
				})
				return out, err
			})
		case 3:
			mk(fmt.Sprintf("docvalues:%d", doc), func(seg segment.Segment, rd *segment.DocumentValueReader) (W, error) {
				if *rd == nil {
					r, err := seg.DocumentValueReader(fields)
					if err != nil {
						return nil, err
					}
					*rd = r
				}
				var out W
				err := (*rd).VisitDocumentValues(doc, func(f string, t []byte) {
					out.Str(f)
					out.Bytes(t)
				})
				return out, err
			})
		default:
			terms := []segment.Term{fterm{ft.F, ft.T}}
			ft2 := g.pickFT(fts)
			terms = append(terms, fterm{ft2.F, ft2.T})
			mk("docsmatching", func(seg segment.Segment, _ *segment.DocumentValueReader) (W, error) {
				bm, err := seg.DocsMatchingTerms(terms)
				if err != nil {
					return nil, err
				}
				var out W
				for _, x := range bm.ToArray() {
					out.Num(uint64(x))
				}
				return out, nil
			})
		}
	}
	return calls
}

func specialC19(seed int64, thorough bool) *Special {
	sp := &Special{Extra: map[string]interface{}{}}
	g := NewGen(seed*49979687 + 19)
	nseq := 25
	if thorough {
		nseq = 300
	}
	sp.Rule = fmt.Sprintf("%d segments (built or merged, up to 1100 documents) behind an io.ReaderAt that starts failing at the k-th read, for EVERY k from 0 to the number of reads the fault-free run of a random sequence of 8-15 read calls performs (exhaustive per sequence: all cache warm-up states in between); every call runs under a 3 s watchdog and recover; it must return an error, the fault-free answer or an empty answer, never panic or block; non-trivial = a fault point after at least one successful read (some cache is warm) and before the last read", nseq)
	sp.Extra["exhaustive_per_sequence"] = true
	kinds := map[string]int{}
	points := 0
	for s := 0; s < nseq; s++ {
		nd := 2 + g.R.Intn(40)
		if s%8 == 7 {
			nd = 1030 + g.R.Intn(70)
		}
		o := BatchOpts{NDocs: nd, ForceDV: true}
		if nd > 1000 {
			o.NFields, o.NVocab = 2, 4
		}
		b := g.Batch(o)
		cm := g.ChunkMode()
		crafted := s%5 == 2
		if crafted {
			// in every run: a term with locations in every document, four or more chunks of three
			// documents, read by an iterator that lives across the fault (a failure between the
			// freq/norm chunk and the location chunk of a later chunk must not desynchronise it)
			nd = 10 + g.R.Intn(6)
			b = nil
			for d := 0; d < nd; d++ {
				body := Field{N: "body", DV: true}
				for _, t := range []string{"a", "b"} {
					if t == "a" || g.R.Intn(2) == 0 {
						fq := 1 + g.R.Intn(2)
						body.Terms = append(body.Terms, Term{T: []byte(t), Freq: fq, Locs: []Loc{{Pos: 1 + d, Start: d, End_: d + 1}}})
						body.Len += fq
					}
				}
				b = append(b, Doc{idField(fmt.Sprintf("c%d", d), true), body})
			}
			cm = 3
		}
		file, _, err := buildBytes(Current, b, cm)
		if err != nil {
			sp.failf(nil, "setup failed: %v", err)
			continue
		}
		if !crafted && g.R.Intn(2) == 0 { // a merged file (1-hit encodings)
			seg, _ := Current.Load(segment.NewDataBytes(file))
			file, _, err = mergeBytes(Current, []segment.Segment{seg}, []*roaring.Bitmap{nil}, g.ChunkMode())
			if err != nil {
				sp.failf(nil, "setup merge failed: %v", err)
				continue
			}
		}
		calls := c19Calls(g, b, nd)
		// fault-free run: reference answers and the number of reads
		fr := &faultyReader{b: file, failFrom: -1}
		seg, err := Current.Load(segment.NewDataReaderAt(fr, len(file)))
		if err != nil {
			sp.failf(nil, "fault-free load failed: %v", err)
			continue
		}
		loadReads := fr.reads
		var rd segment.DocumentValueReader
		want := make([]W, len(calls))
		for i, c := range calls {
			w, err := c.Run(seg, &rd)
			if err != nil {
				sp.failf(nil, "fault-free call %s failed: %v", c.Name, err)
			}
			want[i] = w
		}
		totalReads := fr.reads
		step := int64(1)
		if totalReads-loadReads > 400 {
			step = (totalReads - loadReads) / 400
		}
		for k := loadReads; k <= totalReads && len(sp.Failures) < 4; k += step {
			fr2 := &faultyReader{b: file, failFrom: k}
			seg2, err := Current.Load(segment.NewDataReaderAt(fr2, len(file)))
			if err != nil {
				sp.failf(nil, "load before the fault point failed: %v", err)
				break
			}
			var rd2 segment.DocumentValueReader
			names := []string{}
			for i, c := range calls {
				names = append(names, c.Name)
				in := map[string]interface{}{"seed": seed, "sequence": s, "fail_from_read": k, "reads_during_load": loadReads, "calls": append([]string(nil), names...)}
				oc := watch(func() (W, error) { return c.Run(seg2, &rd2) }, 3*time.Second)
				switch {
				case oc.kind == "block":
					kinds["block"]++
					sp.failf(in, "call %s did not return within 3 s after the storage started failing at read %d", c.Name, k)
				case len(oc.kind) > 5 && oc.kind[:5] == "panic":
					kinds["panic"]++
					sp.failf(in, "call %s panicked after the storage started failing at read %d: %s", c.Name, k, oc.kind)
				case oc.kind == "err":
					kinds["error"]++
				default:
					if eqW(oc.out, want[i]) {
						kinds["fault_free_answer"]++
					} else if len(oc.out) == 0 {
						kinds["empty_answer"]++
					} else {
						kinds["wrong_answer"]++
						sp.failf(in, "call %s returned a non-empty answer that differs from the fault-free one after the storage started failing at read %d", c.Name, k)
					}
				}
				if oc.kind == "block" {
					break // the goroutine is stuck: later calls on this segment would pile up
				}
			}
			points++
			sp.Evaluations++
			sp.Distinct++
			if k > loadReads && k < totalReads {
				sp.Nontrivial++
			}
		}
		if len(sp.Samples) < 2 {
			var names []string
			for _, c := range calls {
				names = append(names, c.Name)
			}
			sp.Samples = append(sp.Samples, map[string]interface{}{"sequence": s, "ndocs": nd, "reads_during_load": loadReads, "reads_total": totalReads, "calls": names})
		}
	}
	before := sp.Evaluations
	maxJ := 12
	if thorough {
		maxJ = 120
	}
	dvChunkFaults(sp, seed, maxJ)
	sp.Extra["doc_value_header_fault_visits"] = sp.Evaluations - before
	sp.Extra["fault_points"] = points
	sp.Extra["outcomes"] = kinds
	return sp
}

// ---------------------------------------------------------------------------
// C09: concurrent and re-entrant readers, also during a merge
// (run from the -race build of the harness)
// ---------------------------------------------------------------------------

// reentrantAfterCancel: merges cancelled at every early point (which exercise the
// error paths that hand pooled scratch state back), each followed by nested
// stored-field reads whose answers must be those of the plain reads.
func reentrantAfterCancel(sp *Special, g *Gen, seed int64, n int) {
	for r := 0; r < n; r++ {
		nd := 4 + g.R.Intn(30)
		dropEvery := 3
		if r%2 == 0 {
			// more than 128 survivors in the first input: a stored block is flushed (and the channel
			// closed at the first destination write) while the first segment is still being copied
			nd = 200 + g.R.Intn(60)
			dropEvery = 12
		}
		b := g.Batch(BatchOpts{NDocs: nd, NFields: 3})
		b2 := g.Batch(BatchOpts{NDocs: 3 + g.R.Intn(10), NFields: 3, IDPrefix: "x"})
		seg, _, err := Current.New(b.Documents(), HarnessNorm, 1025)
		seg2, _, err2 := Current.New(b2.Documents(), HarnessNorm, 1025)
		if err != nil || err2 != nil {
			continue
		}
		plain := func(d uint64) W {
			var out W
			seg.VisitStoredFields(d, func(f string, v []byte) bool {
				out.Str(f)
				out.Bytes(v)
				return true
			})
			return out
		}
		var clean bytes.Buffer
		Current.Merger([]segment.Segment{seg, seg2}, []*roaring.Bitmap{bitmapOf(g.subset(nd, dropEvery)), nil}, 16).WriteTo(&clean, nil)
		points := []int{0, 1, 17}
		for i := 1; i < 8; i++ {
			points = append(points, i*clean.Len()/8)
		}
		for _, k := range points {
			cw := &closeAt{k: k, ch: make(chan struct{})}
			if k == 0 {
				close(cw.ch)
				cw.closed = true
			}
			Current.Merger([]segment.Segment{seg, seg2}, []*roaring.Bitmap{bitmapOf(g.subset(nd, dropEvery)), nil}, 16).WriteTo(cw, cw.ch)
			for t := 0; t < 4; t++ {
				d1, d2 := uint64(g.R.Intn(nd)), uint64(g.R.Intn(nd))
				want1, want2 := plain(d1), plain(d2)
				var got1, got2 W
				first := true
				seg.VisitStoredFields(d1, func(f string, v []byte) bool {
					if first {
						first = false
						seg.VisitStoredFields(d2, func(f2 string, v2 []byte) bool {
							got2.Str(f2)
							got2.Bytes(v2)
							return true
						})
					}
					got1.Str(f)
					got1.Bytes(v)
					return true
				})
				sp.Evaluations++
				if !eqW(got1, want1) || (len(want1) > 0 && !eqW(got2, want2)) {
					sp.failf(map[string]interface{}{"seed": seed, "round": r, "cancel_after_bytes": k, "outer_doc": d1, "inner_doc": d2},
						"after a merge cancelled at byte %d, a stored-field read nested inside another one changes the answers (outer doc %d, inner doc %d)", k, d1, d2)
				}
			}
		}
	}
}

func specialC09(seed int64, thorough bool) *Special {
	sp := &Special{Extra: map[string]interface{}{}}
	g := NewGen(seed*86028121 + 9)
	rounds, gor, perG := 6, 8, 60
	if thorough {
		rounds, gor, perG = 60, 12, 200
	}
	reentrantAfterCancel(sp, g, seed, rounds)
	if os.Getenv("VERIF_C09_REENTRANT_ONLY") != "" {
		// the binary without the race detector (whose sync.Pool drops objects at random) runs this
		// deterministic part only
		sp.Rule = "merges cancelled at several byte offsets, each followed by nested stored-field reads compared with plain reads (binary without the race detector: sync.Pool behaves deterministically)"
		sp.Distinct, sp.Nontrivial = sp.Evaluations, sp.Evaluations
		return sp
	}
	sp.Rule = fmt.Sprintf("%d segments (built, merged, loaded from a file; 130-400 documents so that stored fields span several blocks); %d goroutines each issue %d random read calls (dictionary enumeration, postings iteration, stored fields, doc values, DocsMatchingTerms, nested stored/postings reads from inside a stored-field visitor) on the same segment while another goroutine merges that segment; every answer is compared with the answer computed sequentially beforehand; the harness is built with the Go race detector, whose reports are collected; non-trivial = a round in which at least two goroutines were inside read calls at the same time (measured)", rounds, gor, perG)
	overlapRounds := 0
	var totalCalls int64
	for r := 0; r < rounds; r++ {
		nd := 130 + g.R.Intn(270)
		if r%2 == 1 {
			nd = 1100 + g.R.Intn(300) // two doc-value chunks, adaptive multi-chunk postings
		}
		b := g.Batch(BatchOpts{NDocs: nd, NFields: 3, NVocab: 6, ForceDV: true})
		seg, _, err := Current.New(b.Documents(), HarnessNorm, g.ChunkMode())
		if err != nil {
			sp.failf(nil, "setup failed: %v", err)
			continue
		}
		switch r % 3 {
		case 1:
			mb, _, _ := mergeBytes(Current, []segment.Segment{seg}, []*roaring.Bitmap{nil}, g.ChunkMode())
			seg, _ = Current.Load(segment.NewDataBytes(mb))
		case 2:
			var buf bytes.Buffer
			seg.WriteTo(&buf, nil)
			seg, _ = Current.Load(segment.NewDataReaderAt(&faultyReader{b: buf.Bytes(), failFrom: -1}, buf.Len()))
		}
		// the answers are computed sequentially on one instance, the concurrent phase
		// then runs on a second, cold instance of the same segment (no cache is warm)
		var img bytes.Buffer
		seg.WriteTo(&img, nil)
		coldCopy := func() segment.Segment {
			if r%3 == 2 {
				c, _ := Current.Load(segment.NewDataReaderAt(&faultyReader{b: img.Bytes(), failFrom: -1}, img.Len()))
				return c
			}
			c, _ := Current.Load(segment.NewDataBytes(append([]byte(nil), img.Bytes()...)))
			return c
		}
		if r%3 == 0 { // keep one built (never loaded) segment kind: it has no cold twin, warm-up is unavoidable
			coldCopy = func() segment.Segment { return seg }
		}
		fts := BatchTerms(b)
		fields := BatchFields(b)
		type call struct {
			name string
			run  func() W
		}
		type keepT struct {
			pl segment.PostingsList
			it segment.PostingsIterator
		}
		keeps := make([]*keepT, gor)
		mkCalls := func(rr *rand.Rand, keep *keepT) []call {
			var cs []call
			if rr.Intn(2) == 0 { // persisting the shared segment while others read (and persist) it
				cs = append(cs, call{"persist", func() W {
					var buf bytes.Buffer
					n, err := seg.WriteTo(&buf, nil)
					var out W
					out.Num(uint64(n))
					out.Bool(err == nil)
					out.Bytes(buf.Bytes())
					return out
				}})
			}
			for i := 0; i < perG; i++ {
				ft := fts[rr.Intn(len(fts))]
				doc := uint64(rr.Intn(nd))
				doc2 := uint64(rr.Intn(nd))
				switch rr.Intn(6) {
				case 0:
					cs = append(cs, call{"dict", func() W {
						d, _ := seg.Dictionary(ft.F)
						w, _ := dictEntries(d.Iterator(nil, nil, nil))
						return w
					}})
				case 1:
					// the goroutine keeps its postings list and iterator and hands them back as prealloc
					cs = append(cs, call{"postings(reused objects)", func() W {
						d, _ := seg.Dictionary(ft.F)
						pl, _ := d.PostingsList(ft.T, nil, keep.pl)
						it, _ := pl.Iterator(true, true, true, keep.it)
						keep.pl, keep.it = pl, it
						var out W
						for p, err := it.Next(); err == nil && p != nil; p, err = it.Next() {
							postingOut(&out, p)
						}
						return out
					}})
				case 2:
					cs = append(cs, call{"stored", func() W {
						var out W
						seg.VisitStoredFields(doc, func(f string, v []byte) bool {
							out.Str(f)
							out.Bytes(v)
							return true
						})
						return out
					}})
				case 3:
					cs = append(cs, call{"docvalues", func() W {
						rd, _ := seg.DocumentValueReader(fields)
						rd2, _ := seg.DocumentValueReader(fields)
						var out W
						first := true
						for _, n := range []uint64{doc, doc2} {
							rd.VisitDocumentValues(n, func(f string, t []byte) {
								if first { // a second reader used from inside the first reader's callback
									first = false
									rd2.VisitDocumentValues(doc2, func(f2 string, t2 []byte) {
										out.Str(f2)
										out.Bytes(t2)
									})
								}
								out.Str(f)
								out.Bytes(t)
							})
						}
						return out
					}})
				case 4:
					cs = append(cs, call{"docsmatching", func() W {
						bm, _ := seg.DocsMatchingTerms([]segment.Term{fterm{ft.F, ft.T}})
						var out W
						for _, x := range bm.ToArray() {
							out.Num(uint64(x))
						}
						return out
					}})
				default:
					// re-entrancy: read another document's stored fields and a postings list
					// from inside the visitor, then keep reading the outer document's values
					cs = append(cs, call{"nested", func() W {
						var out W
						first := true
						seg.VisitStoredFields(doc, func(f string, v []byte) bool {
							if first {
								first = false
								seg.VisitStoredFields(doc2, func(f2 string, v2 []byte) bool {
									out.Str(f2)
									out.Bytes(v2)
									return true
								})
								d, _ := seg.Dictionary(ft.F)
								pl, _ := d.PostingsList(ft.T, nil, nil)
								out.Num(pl.Count())
							}
							out.Str(f)
							out.Bytes(v)
							return true
						})
						return out
					}})
				}
			}
			return cs
		}
		warm := seg
		all := make([][]call, gor)
		want := make([][]W, gor)
		for gi := 0; gi < gor; gi++ {
			keeps[gi] = &keepT{}
			all[gi] = mkCalls(rand.New(rand.NewSource(seed*1000+int64(r*100+gi))), keeps[gi])
			for _, c := range all[gi] {
				var w W
				c := c
				if _, pan := safely(func() error { w = c.run(); return nil }); pan != nil {
					sp.failf(map[string]interface{}{"seed": seed, "round": r, "call": c.name, "ndocs": nd},
						"sequential (single goroutine) call %s panicked: %v", c.name, pan)
				}
				want[gi] = append(want[gi], w)
			}
		}
		seg = coldCopy() // the closures read the variable: from here on they hit the cold instance
		_ = warm
		for gi := range keeps { // the reusable objects start fresh again for the concurrent pass
			*keeps[gi] = keepT{}
		}
		var inside, maxInside, mism int64
		var wg sync.WaitGroup
		stop := make(chan struct{})
		wg.Add(1)
		go func() { // a merge of the same segment running alongside the readers
			defer wg.Done()
			for {
				select {
				case <-stop:
					return
				default:
				}
				safely(func() error {
					_, _, err := mergeBytes(Current, []segment.Segment{seg, seg}, []*roaring.Bitmap{bitmapOf([]uint64{1, 5}), nil}, 1025)
					return err
				})
			}
		}()
		var rwg sync.WaitGroup
		var badName atomic.Value
		for gi := 0; gi < gor; gi++ {
			rwg.Add(1)
			go func(gi int) {
				defer rwg.Done()
				for ci, c := range all[gi] {
					n := atomic.AddInt64(&inside, 1)
					for {
						m := atomic.LoadInt64(&maxInside)
						if n <= m || atomic.CompareAndSwapInt64(&maxInside, m, n) {
							break
						}
					}
					var got W
					_, pan := safely(func() error { got = c.run(); return nil })
					atomic.AddInt64(&inside, -1)
					atomic.AddInt64(&totalCalls, 1)
					if pan != nil || !eqW(got, want[gi][ci]) {
						atomic.AddInt64(&mism, 1)
						badName.Store(fmt.Sprintf("%s (panic=%v)", c.name, pan))
					}
				}
			}(gi)
		}
		rwg.Wait()
		close(stop)
		wg.Wait()
		in := map[string]interface{}{"seed": seed, "round": r, "ndocs": nd, "goroutines": gor, "segment_kind": []string{"built", "merged", "loaded(ReaderAt)"}[r%3]}
		if mism > 0 {
			sp.failf(in, "%d concurrent read calls returned something else than they return alone; last: %v", mism, badName.Load())
		}
		sp.Evaluations++
		sp.Distinct++
		if maxInside >= 2 {
			overlapRounds++
			sp.Nontrivial++
		}
		if len(sp.Samples) < 2 {
			sp.Samples = append(sp.Samples, in)
		}
	}
	sp.Extra["rounds_with_overlapping_readers"] = overlapRounds
	sp.Extra["read_calls_compared"] = totalCalls
	return sp
}

// ---------------------------------------------------------------------------
// golden corpus: files written once by the frozen reference writer, committed
// with the dump the reference reader produced at that time
// ---------------------------------------------------------------------------

// GoldenInputs builds the fixed inputs of the golden corpus with an implementation.
func GoldenInputs(impl *Impl) map[string][]byte {
	out := map[string][]byte{}
	g := NewGen(20261001)
	for i, nd := range []int{0, 1, 7, 33, 140, 300} {
		cm := ChunkModes[i%len(ChunkModes)]
		b := g.Batch(BatchOpts{NDocs: nd})
		f, seg, err := buildBytes(impl, b, cm)
		if err != nil {
			continue
		}
		out[fmt.Sprintf("build-%d-cm%d", nd, cm)] = f
		if nd >= 7 {
			b2 := g.Batch(BatchOpts{NDocs: nd / 2, IDPrefix: "x"})
			seg2, _, err := impl.New(b2.Documents(), HarnessNorm, 3)
			if err != nil {
				continue
			}
			m, _, err := mergeBytes(impl, []segment.Segment{seg, seg2}, []*roaring.Bitmap{bitmapOf(g.subset(nd, 4)), nil}, ChunkModes[(i+3)%len(ChunkModes)])
			if err == nil {
				out[fmt.Sprintf("merge-%d", nd)] = m
			}
		}
	}
	return out
}

// CheckGolden reads every committed golden file with both readers and compares
// with the committed dump.
func CheckGolden(dir string, sp *Special) int {
	names, _ := filepath.Glob(filepath.Join(dir, "*.ice"))
	n := 0
	for _, name := range names {
		file, err := os.ReadFile(name)
		if err != nil {
			continue
		}
		wantRaw, err := os.ReadFile(strings.TrimSuffix(name, ".ice") + ".dump")
		if err != nil {
			continue
		}
		var want W
		for _, t := range strings.Fields(string(wantRaw)) {
			v, _ := strconv.ParseUint(t, 10, 64)
			want = append(want, v)
		}
		n++
		in := map[string]interface{}{"golden_file": filepath.Base(name)}
		if d, err := safeDump(Current, file); err != nil {
			sp.failf(in, "the current reader cannot read the reference-written golden file: %v", err)
		} else if !eqW(d, want) {
			sp.failf(in, "the current reader reads the reference-written golden file differently from the committed dump (first difference at %d)", firstDiff(d, want))
		}
		if d, err := safeDump(Reference, file); err != nil || !eqW(d, want) {
			sp.failf(in, "the frozen reference reader no longer reproduces the committed dump of its own golden file (the frozen copy was edited?)")
		}
	}
	return n
}

// WriteGolden (re)creates the golden corpus; used once, the files are committed.
func WriteGolden(dir string) error {
	os.MkdirAll(dir, 0o755)
	for name, f := range GoldenInputs(Reference) {
		d, err := safeDump(Reference, f)
		if err != nil {
			return fmt.Errorf("%s: %v", name, err)
		}
		if err := os.WriteFile(filepath.Join(dir, name+".ice"), f, 0o644); err != nil {
			return err
		}
		var sb strings.Builder
		for i, x := range d {
			if i > 0 {
				sb.WriteByte(' ')
			}
			sb.WriteString(strconv.FormatUint(x, 10))
		}
		if err := os.WriteFile(filepath.Join(dir, name+".dump"), []byte(sb.String()), 0o644); err != nil {
			return err
		}
	}
	return nil
}

// ---------------------------------------------------------------------------
// C06 / C07: blocks and chunks far larger than anything the model-compared
// scenarios carry (megabytes of stored values / doc-value terms per block).
// The oracle is the input itself: the values put in must come back.
// ---------------------------------------------------------------------------

func specialLarge(prop string, seed int64, thorough bool) *Special {
	sp := &Special{Extra: map[string]interface{}{}}
	g := NewGen(seed*7368787 + 6)
	rounds := 2
	if thorough {
		rounds = 12
	}
	sp.Rule = fmt.Sprintf("%d segments of 130-300 documents whose stored values (C06) or doc-value terms (C07) are 6-12 KB each, so that one 128-document stored block / one doc-value chunk holds more than 1 MiB; built, loaded from a file and merged; every document is read back and compared with the input; for C06 also one segment whose records have every combination of 1-3 byte meta-length and 1-4 byte data-length varints (1, 60 and 5,600 stored values per document, up to 2.2 MB); non-trivial = a block or chunk above 1 MiB, or a record of the grid", rounds)
	for r := 0; r < rounds; r++ {
		nd := 130 + g.R.Intn(170)
		var b Batch
		size := 9000 + g.R.Intn(4000) // 128 documents exceed 1 MiB
		for d := 0; d < nd; d++ {
			val := make([]byte, size)
			for i := range val {
				val[i] = byte(g.R.Intn(255)) // no 0xff: also usable as a doc-value term
			}
			id := fmt.Sprintf("k%d", d)
			doc := Doc{idField(id, true)}
			if prop == "C06" {
				doc = append(doc, Field{N: "body", St: true, Val: val})
			} else {
				doc = append(doc, Field{N: "body", Len: 1, DV: true, Terms: []Term{{T: val, Freq: 1}}})
			}
			b = append(b, doc)
		}
		file, seg, err := buildBytes(Current, b, 1025)
		if err != nil {
			sp.failf(nil, "build failed: %v", err)
			continue
		}
		segs := map[string]segment.Segment{"built": seg}
		if l, err := Current.Load(segment.NewDataReaderAt(&faultyReader{b: file, failFrom: -1}, len(file))); err == nil {
			segs["loaded"] = l
		} else {
			sp.failf(nil, "load failed: %v", err)
		}
		if mb, _, err := mergeBytes(Current, []segment.Segment{seg}, []*roaring.Bitmap{nil}, 1025); err == nil {
			if m, err := Current.Load(segment.NewDataBytes(mb)); err == nil {
				segs["merged"] = m
			}
		} else {
			sp.failf(map[string]interface{}{"seed": seed, "round": r, "ndocs": nd, "value_size": size}, "merge of a segment with large blocks failed: %v", err)
		}
		for kind, sg := range segs {
			in := map[string]interface{}{"seed": seed, "round": r, "segment": kind, "ndocs": nd, "value_size": size}
			bad := 0
			if prop == "C06" {
				for d := 0; d < nd; d++ {
					var got []byte
					found := false
					err := sg.VisitStoredFields(uint64(d), func(f string, v []byte) bool {
						if f == "body" {
							got, found = append([]byte(nil), v...), true
						}
						return true
					})
					if err != nil || !found || !bytes.Equal(got, b[d][1].Val) {
						bad++
					}
				}
			} else {
				rd, err := sg.DocumentValueReader([]string{"body"})
				if err != nil {
					sp.failf(in, "DocumentValueReader failed: %v", err)
					continue
				}
				for _, d := range []int{nd - 1, 0, 129, 5, 128} {
					var got []byte
					n := 0
					err := rd.VisitDocumentValues(uint64(d), func(f string, t []byte) {
						got = append([]byte(nil), t...)
						n++
					})
					if err != nil || n != 1 || !bytes.Equal(got, b[d][1].Terms[0].T) {
						bad++
					}
				}
			}
			if bad > 0 {
				sp.failf(in, "%d documents of the %s segment did not return the value that was put in (blocks above 1 MiB)", bad, kind)
			}
			sp.Evaluations++
			sp.Distinct++
			if 128*size > 1<<20 {
				sp.Nontrivial++
			}
		}
		if len(sp.Samples) < 1 {
			sp.Samples = append(sp.Samples, map[string]interface{}{"round": r, "ndocs": nd, "value_size": size})
		}
	}
	if prop == "C06" {
		storedVarintGrid(sp, g, seed)
	}
	return sp
}

// storedVarintGrid: a stored record starts with two uvarints, the length of its
// meta part (three or more bytes per stored value) and the length of its data.
// One document per combination of their encoded widths (1-3 bytes x 1-4 bytes:
// 1 / 60 / 5,600 values, totalling tens of bytes to more than 2 MiB), in one
// block together with short records, is built, loaded from a file, merged
// through the byte-copy path and through the re-encoding path, and read back.
func storedVarintGrid(sp *Special, g *Gen, seed int64) {
	type shape struct{ Values, Size int }
	var shapes []shape
	for _, nv := range []int{1, 60, 5600} {
		for _, total := range []int{40, 3000, 40000, 2200000} {
			sz := total / nv
			if nv == 5600 && total == 40 {
				sz = 0 // 5,600 values, only a few of them non-empty
			}
			shapes = append(shapes, shape{nv, sz})
		}
	}
	var b Batch
	var want [][][]byte
	for i, sh := range shapes {
		doc := Doc{idField(fmt.Sprintf("g%d", i), false)}
		var vals [][]byte
		for v := 0; v < sh.Values; v++ {
			n := sh.Size
			if sh.Size == 0 && v%80 == 0 {
				n = 1
			}
			val := make([]byte, n)
			for k := range val {
				val[k] = byte(g.R.Intn(256))
			}
			doc = append(doc, Field{N: "body", St: true, Val: val})
			vals = append(vals, val)
		}
		b = append(b, doc, Doc{idField(fmt.Sprintf("s%d", i), true)}) // a short record after each long one
		want = append(want, vals, [][]byte{[]byte(fmt.Sprintf("s%d", i))})
	}
	in := map[string]interface{}{"seed": seed, "exploration": "stored-varint-grid", "shapes": shapes}
	file, seg, err := buildBytes(Current, b, 1025)
	if err != nil {
		sp.failf(in, "build failed: %v", err)
		return
	}
	segs := map[string]segment.Segment{"built": seg}
	if l, err := Current.Load(segment.NewDataReaderAt(&faultyReader{b: file, failFrom: -1}, len(file))); err == nil {
		segs["loaded"] = l
	} else {
		sp.failf(in, "load failed: %v", err)
	}
	if mb, _, err := mergeBytes(Current, []segment.Segment{seg}, []*roaring.Bitmap{nil}, 1025); err == nil {
		if m, err := Current.Load(segment.NewDataBytes(mb)); err == nil {
			segs["merged-copy-path"] = m
		}
	} else {
		sp.failf(in, "merge failed: %v", err)
	}
	// dropping the last (short) document forces the re-encoding path; the numbers of the others stay
	if mb, _, err := mergeBytes(Current, []segment.Segment{seg}, []*roaring.Bitmap{bitmapOf([]uint64{uint64(len(b) - 1)})}, 1025); err == nil {
		if m, err := Current.Load(segment.NewDataBytes(mb)); err == nil {
			segs["merged-reencoded"] = m
		}
	} else {
		sp.failf(in, "merge with a deletion failed: %v", err)
	}
	for kind, sg := range segs {
		for d := range b {
			if uint64(d) >= sg.Count() {
				continue
			}
			var got [][]byte
			var verr error
			_, p := safely(func() error {
				verr = sg.VisitStoredFields(uint64(d), func(f string, v []byte) bool {
					if f == "body" || (f == "_id" && d%2 == 1) {
						got = append(got, append([]byte(nil), v...))
					}
					return true
				})
				return nil
			})
			ok := p == nil && verr == nil && len(got) == len(want[d])
			for k := 0; ok && k < len(got); k++ {
				ok = bytes.Equal(got[k], want[d][k])
			}
			if !ok {
				sh := shape{0, 0}
				if d%2 == 0 {
					sh = shapes[d/2]
				}
				sp.failf(map[string]interface{}{"seed": seed, "exploration": "stored-varint-grid", "segment": kind, "doc": d, "values": sh.Values, "value_size": sh.Size},
					"document %d (%d stored values of %d bytes) of the %s segment did not return its stored values: panic=%v err=%v, %d values instead of %d",
					d, sh.Values, sh.Size, kind, p, verr, len(got), len(want[d]))
			}
			sp.Evaluations++
			sp.Distinct++
			if d%2 == 0 {
				sp.Nontrivial++
			}
		}
	}
	sp.Extra["stored_varint_grid"] = fmt.Sprintf("%d record shapes (values x bytes per value) %v in %d segments", len(shapes), shapes, len(segs))
}

// dvChunkFaults: one reader with a cached doc-value chunk; the storage starts failing at the j-th read
// of the load of ANOTHER chunk (for every small j: inside the header, which is overwritten entry by
// entry); afterwards the documents of the still-cached chunk are visited again.  Every answer must be an
// error, empty, or the fault-free answer (finding D15: a half-written header used to be paired with the old
// chunk's data).
func dvChunkFaults(sp *Special, seed int64, maxJ int) {
	var b Batch
	n := 2100
	term := func(d int) []byte { return []byte(fmt.Sprintf("t%04d%s", d, strings.Repeat("x", (d*7)%5))) }
	for d := 0; d < n; d++ {
		b = append(b, Doc{idField(fmt.Sprintf("k%d", d), false), {N: "f", Len: 1, DV: true, Terms: []Term{{T: term(d), Freq: 1}}}})
	}
	file, _, err := buildBytes(Current, b, 1025)
	if err != nil {
		sp.failf(nil, "dvChunkFaults: build failed: %v", err)
		return
	}
	fr := &faultyReader{b: file, failFrom: -1}
	seg, err := Current.Load(segment.NewDataReaderAt(fr, len(file)))
	if err != nil {
		sp.failf(nil, "dvChunkFaults: load failed: %v", err)
		return
	}
	for _, dir := range [][2]uint64{{1500, 5}, {5, 1500}, {2060, 1030}} { // cached chunk, chunk whose load fails
		for j := int64(1); j <= int64(maxJ); j++ {
			rd, _ := seg.DocumentValueReader([]string{"f"})
			visit := func(d uint64) (string, error) {
				out := ""
				err := rd.VisitDocumentValues(d, func(f string, t []byte) { out += string(t) + "," })
				return out, err
			}
			fr.failFrom = -1
			visit(dir[0])
			visit(dir[1]) // the second call of a reader re-clones its per-field readers
			visit(dir[0] + 1)
			fr.failFrom = fr.reads + j
			_, e := visit(dir[1])
			base := (dir[0] / 1024) * 1024
			for d := base; d < base+40 && d < uint64(n); d++ {
				oc := watch(func() (W, error) {
					got, err := visit(d)
					var w W
					w.Str(got)
					return w, err
				}, 3*time.Second)
				var want W
				want.Str(string(term(int(d))) + ",")
				in := map[string]interface{}{"seed": seed, "cached_chunk_doc": dir[0], "failing_load_doc": dir[1], "fail_at_read_of_load": j, "visited": d, "failing_visit_reported_error": e != nil}
				switch {
				case oc.kind == "err":
				case oc.kind == "ok" && (eqW(oc.out, want) || len(oc.out) <= 1):
				case oc.kind == "ok":
					sp.failf(in, "after a doc-value chunk load failed at its read %d, document %d of the cached chunk is answered with other bytes than its own, without an error", j, d)
				default:
					sp.failf(in, "after a failed doc-value chunk load, visiting document %d: %s", d, oc.kind)
				}
				sp.Evaluations++
			}
		}
	}
}

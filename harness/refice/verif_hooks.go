


package ice

import (
	"io"

	"github.com/RoaringBitmap/roaring"
	segment "github.com/blugelabs/bluge_segment_api"
)

// VerifNew exposes the chunk-mode-parameterised builder to the verification
// harness. It is compiled only under the "verif" build tag.
func VerifNew(results []segment.Document, normCalc func(string, int) float32,
	chunkMode uint32) (segment.Segment, uint64, error) {
	return newWithChunkMode(results, normCalc, chunkMode)
}

// VerifMerge exposes the chunk-mode-parameterised merger to the verification
// harness. It is compiled only under the "verif" build tag.
func VerifMerge(segments []segment.Segment, drops []*roaring.Bitmap, w io.Writer,
	chunkMode uint32, closeCh chan struct{}) ([][]uint64, uint64, error) {
	segmentBases := make([]*Segment, len(segments))
	for i, seg := range segments {
		segmentBases[i] = seg.(*Segment)
	}
	return mergeSegmentBasesWriter(segmentBases, drops, w, chunkMode, closeCh)
}

// VerifPoolProbe takes a builder object from the pool, reports whether it was
// used before (it kept capacity from an earlier build) and puts it back.
func VerifPoolProbe() bool {
	s := interimPool.Get().(*interim)
	used := cap(s.Postings) > 0 || cap(s.FieldsInv) > 0 || cap(s.DictKeys) > 0
	interimPool.Put(s)
	return used
}

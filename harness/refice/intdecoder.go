//  Copyright (c) 2020 Couchbase, Inc.
//
// Licensed under the Apache License, Version 2.0 (the "License");
// you may not use this file except in compliance with the License.
// You may obtain a copy of the License at
//
// 		http://www.apache.org/licenses/LICENSE-2.0
//
// Unless required by applicable law or agreed to in writing, software
// distributed under the License is distributed on an "AS IS" BASIS,
// WITHOUT WARRANTIES OR CONDITIONS OF ANY KIND, either express or implied.
// See the License for the specific language governing permissions and
// limitations under the License.

package ice

import (
	"encoding/binary"
	"fmt"

	segment "github.com/blugelabs/bluge_segment_api"
)

type chunkedIntDecoder struct {
	startOffset     uint64
	dataStartOffset uint64
	chunkOffsets    []uint64
	curChunkBytes   []byte
	uncompressed    []byte // temp buf for decompression
	data            *segment.Data
	r               *memUvarintReader
}

func newChunkedIntDecoder(data *segment.Data, offset uint64, rv *chunkedIntDecoder) (*chunkedIntDecoder, error) {
	if rv == nil {
		rv = &chunkedIntDecoder{startOffset: offset, data: data}
	} else {
		rv.startOffset = offset
		rv.data = data
	}
	var n, numChunks uint64
	var read int
	if offset == termNotEncoded {
		numChunks = 0
	} else {
		numChunksData, err := data.Read(int(offset+n), int(offset+n+binary.MaxVarintLen64))
		if err != nil {
			return nil, err
		}
		numChunks, read = binary.Uvarint(numChunksData)
	}

	n += uint64(read)
	if cap(rv.chunkOffsets) >= int(numChunks) {
		rv.chunkOffsets = rv.chunkOffsets[:int(numChunks)]
	} else {
		rv.chunkOffsets = make([]uint64, int(numChunks))
	}
	for i := 0; i < int(numChunks); i++ {
		chunkOffsetData, err := data.Read(int(offset+n), int(offset+n+binary.MaxVarintLen64))
		if err != nil {
			return nil, err
		}
		rv.chunkOffsets[i], read = binary.Uvarint(chunkOffsetData)
		n += uint64(read)
	}
	rv.dataStartOffset = offset + n
	return rv, nil
}

func (d *chunkedIntDecoder) loadChunk(chunk int) error {
	if d.startOffset == termNotEncoded {
		d.r = newMemUvarintReader([]byte(nil))
		return nil
	}

	if chunk >= len(d.chunkOffsets) {
		return fmt.Errorf("tried to load freq chunk that doesn't exist %d/(%d)",
			chunk, len(d.chunkOffsets))
	}

	end, start := d.dataStartOffset, d.dataStartOffset
	s, e := readChunkBoundary(chunk, d.chunkOffsets)
	start += s
	end += e
	curChunkBytesData, err := d.data.Read(int(start), int(end))
	if err != nil {
		return err
	}
	d.uncompressed, err = ZSTDDecompress(d.uncompressed[:cap(d.uncompressed)], curChunkBytesData)
	if err != nil {
		return err
	}
	d.curChunkBytes = d.uncompressed
	if d.r == nil {
		d.r = newMemUvarintReader(d.curChunkBytes)
	} else {
		d.r.Reset(d.curChunkBytes)
	}

	return nil
}

func (d *chunkedIntDecoder) reset() {
	d.startOffset = 0
	d.dataStartOffset = 0
	d.chunkOffsets = d.chunkOffsets[:0]
	d.curChunkBytes = d.curChunkBytes[:0]
	d.uncompressed = d.uncompressed[:0]

	// FIXME what?
	// d.data = d.data[:0]
	d.data = nil
	if d.r != nil {
		d.r.Reset([]byte(nil))
	}
}

func (d *chunkedIntDecoder) isNil() bool {
	return d.curChunkBytes == nil || len(d.curChunkBytes) == 0
}

func (d *chunkedIntDecoder) readUvarint() (uint64, error) {
	return d.r.ReadUvarint()
}

func (d *chunkedIntDecoder) SkipUvarint() {
	d.r.SkipUvarint()
}

func (d *chunkedIntDecoder) SkipBytes(count int) {
	d.r.SkipBytes(count)
}

func (d *chunkedIntDecoder) Len() int {
	return d.r.Len()
}

//  Copyright (c) 2020 Couchbase, Inc.
//
// Licensed under the Apache License, Version 2.0 (the "License");
// you may not use this file except in compliance with the License.
// You may obtain a copy of the License at
//
// 		http://www.apache.org/licenses/LICENSE-2.0
//
// Unless required by applicable law or agreed to in writing, software
// distributed under the License is distributed on an "AS IS" BASIS,
// WITHOUT WARRANTIES OR CONDITIONS OF ANY KIND, either express or implied.
// See the License for the specific language governing permissions and
// limitations under the License.

package ice

import (
	"bytes"
	"encoding/binary"
	"io"
)

var termSeparator byte = 0xff
var termSeparatorSplitSlice = []byte{termSeparator}

type chunkedContentCoder struct {
	final     []byte
	chunkSize uint64
	currChunk uint64
	chunkLens []uint64

	w                io.Writer
	progressiveWrite bool

	chunkMetaBuf bytes.Buffer
	chunkBuf     bytes.Buffer

	chunkMeta []metaData

	compressed []byte // temp buf for compression
}

// metaData represents the data information inside a
// chunk.
type metaData struct {
	DocNum      uint64 // docNum of the data inside the chunk
	DocDvOffset uint64 // offset of data inside the chunk for the given docid
}

// newChunkedContentCoder returns a new chunk content coder which
// packs data into chunks based on the provided chunkSize
func newChunkedContentCoder(chunkSize, maxDocNum uint64,
	w io.Writer, progressiveWrite bool) *chunkedContentCoder {
	total := maxDocNum/chunkSize + 1
	rv := &chunkedContentCoder{
		chunkSize:        chunkSize,
		chunkLens:        make([]uint64, total),
		chunkMeta:        make([]metaData, 0, total),
		w:                w,
		progressiveWrite: progressiveWrite,
	}

	return rv
}

// Reset lets you reuse this chunked content coder. Buffers are reset
// and re used. You cannot change the chunk size.
func (c *chunkedContentCoder) Reset() {
	c.currChunk = 0
	c.final = c.final[:0]
	c.chunkBuf.Reset()
	c.chunkMetaBuf.Reset()
	for i := range c.chunkLens {
		c.chunkLens[i] = 0
	}
	c.chunkMeta = c.chunkMeta[:0]
}

func (c *chunkedContentCoder) SetChunkSize(chunkSize, maxDocNum uint64) {
	total := int(maxDocNum/chunkSize + 1)
	c.chunkSize = chunkSize
	if cap(c.chunkLens) < total {
		c.chunkLens = make([]uint64, total)
	} else {
		c.chunkLens = c.chunkLens[:total]
	}
	if cap(c.chunkMeta) < total {
		c.chunkMeta = make([]metaData, 0, total)
	}
}

// Close indicates you are done calling Add() this allows
// the final chunk to be encoded.
func (c *chunkedContentCoder) Close() error {
	return c.flushContents()
}

func (c *chunkedContentCoder) flushContents() error {
	// flush the contents, with meta information at first
	buf := make([]byte, binary.MaxVarintLen64)
	n := binary.PutUvarint(buf, uint64(len(c.chunkMeta)))
	_, err := c.chunkMetaBuf.Write(buf[:n])
	if err != nil {
		return err
	}

	// write out the metaData slice
	diffDocNum := uint64(0)
	diffDvOffset := uint64(0)
	for _, meta := range c.chunkMeta {
		err = writeUvarints(&c.chunkMetaBuf, meta.DocNum-diffDocNum, meta.DocDvOffset-diffDvOffset)
		if err != nil {
			return err
		}
		diffDocNum = meta.DocNum
		diffDvOffset = meta.DocDvOffset
	}

	// write the metadata to final data
	metaData := c.chunkMetaBuf.Bytes()
	c.final = append(c.final, c.chunkMetaBuf.Bytes()...)
	// write the compressed data to the final data
	c.compressed, err = ZSTDCompress(c.compressed[:cap(c.compressed)], c.chunkBuf.Bytes(), ZSTDCompressionLevel)
	if err != nil {
		return err
	}
	c.final = append(c.final, c.compressed...)

	c.chunkLens[c.currChunk] = uint64(len(c.compressed) + len(metaData))

	if c.progressiveWrite {
		_, err := c.w.Write(c.final)
		if err != nil {
			return err
		}
		c.final = c.final[:0]
	}

	return nil
}

// Add encodes the provided byte slice into the correct chunk for the provided
// doc num.  You MUST call Add() with increasing docNums.
func (c *chunkedContentCoder) Add(docNum uint64, vals []byte) error {
	chunk := docNum / c.chunkSize
	if chunk != c.currChunk {
		// flush out the previous chunk details
		err := c.flushContents()
		if err != nil {
			return err
		}
		// clearing the chunk specific meta for next chunk
		c.chunkBuf.Reset()
		c.chunkMetaBuf.Reset()
		c.chunkMeta = c.chunkMeta[:0]
		c.currChunk = chunk
	}

	// get the starting offset for this doc
	dvOffset := c.chunkBuf.Len()
	dvSize, err := c.chunkBuf.Write(vals)
	if err != nil {
		return err
	}

	c.chunkMeta = append(c.chunkMeta, metaData{
		DocNum:      docNum,
		DocDvOffset: uint64(dvOffset + dvSize),
	})
	return nil
}

// Write commits all the encoded chunked contents to the provided writer.
//
// | ..... data ..... | chunk offsets (varints)
// | position of chunk offsets (uint64) | number of offsets (uint64) |
//
func (c *chunkedContentCoder) Write() (int, error) {
	var tw int

	if c.final != nil {
		// write out the data section first
		nw, err := c.w.Write(c.final)
		tw += nw
		if err != nil {
			return tw, err
		}
	}

	chunkOffsetsStart := uint64(tw)

	if cap(c.final) < binary.MaxVarintLen64 {
		c.final = make([]byte, binary.MaxVarintLen64)
	} else {
		c.final = c.final[0:binary.MaxVarintLen64]
	}
	chunkOffsets := modifyLengthsToEndOffsets(c.chunkLens)
	// write out the chunk offsets
	for _, chunkOffset := range chunkOffsets {
		n := binary.PutUvarint(c.final, chunkOffset)
		nw, err := c.w.Write(c.final[:n])
		tw += nw
		if err != nil {
			return tw, err
		}
	}

	chunkOffsetsLen := uint64(tw) - chunkOffsetsStart

	c.final = c.final[0:8]
	// write out the length of chunk offsets
	binary.BigEndian.PutUint64(c.final, chunkOffsetsLen)
	nw, err := c.w.Write(c.final)
	tw += nw
	if err != nil {
		return tw, err
	}

	// write out the number of chunks
	binary.BigEndian.PutUint64(c.final, uint64(len(c.chunkLens)))
	nw, err = c.w.Write(c.final)
	tw += nw
	if err != nil {
		return tw, err
	}

	c.final = c.final[:0]

	return tw, nil
}

// readDocValueBoundary elicits the start, end offsets from a
// metaData header slice
func readDocValueBoundary(chunk int, metaHeaders []metaData) (start, end uint64) {
	if chunk > 0 {
		start = metaHeaders[chunk-1].DocDvOffset
	}
	return start, metaHeaders[chunk].DocDvOffset
}

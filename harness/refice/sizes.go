//  Copyright (c) 2020 Couchbase, Inc.
//
// Licensed under the Apache License, Version 2.0 (the "License");
// you may not use this file except in compliance with the License.
// You may obtain a copy of the License at
//
// 		http://www.apache.org/licenses/LICENSE-2.0
//
// Unless required by applicable law or agreed to in writing, software
// distributed under the License is distributed on an "AS IS" BASIS,
// WITHOUT WARRANTIES OR CONDITIONS OF ANY KIND, either express or implied.
// See the License for the specific language governing permissions and
// limitations under the License.

package ice

import (
	"reflect"
)

func init() {
	var ptr *int
	sizeOfPtr = int(reflect.TypeOf(ptr).Size())
	var str string
	sizeOfString = int(reflect.TypeOf(str).Size())
	var u16 uint16
	sizeOfUint16 = int(reflect.TypeOf(u16).Size())
	var u32 uint32
	sizeOfUint32 = int(reflect.TypeOf(u32).Size())
	var u64 uint64
	sizeOfUint64 = int(reflect.TypeOf(u64).Size())
	reflectStaticSizeSegment = int(reflect.TypeOf(Segment{}).Size())
	var md metaData
	reflectStaticSizeMetaData = int(reflect.TypeOf(md).Size())
	var dvi docValueReader
	reflectStaticSizedocValueReader = int(reflect.TypeOf(dvi).Size())
	var pl PostingsList
	reflectStaticSizePostingsList = int(reflect.TypeOf(pl).Size())
	var pi PostingsIterator
	reflectStaticSizePostingsIterator = int(reflect.TypeOf(pi).Size())
	var p Posting
	reflectStaticSizePosting = int(reflect.TypeOf(p).Size())
	var l Location
	reflectStaticSizeLocation = int(reflect.TypeOf(l).Size())
}

var sizeOfPtr int
var sizeOfString int
var sizeOfUint16 int
var sizeOfUint32 int
var sizeOfUint64 int
var reflectStaticSizeSegment int
var reflectStaticSizeMetaData int
var reflectStaticSizedocValueReader int
var reflectStaticSizePostingsList int
var reflectStaticSizePostingsIterator int
var reflectStaticSizePosting int
var reflectStaticSizeLocation int

package ice

// verif_dump.go is an addition of the verification harness to the frozen copy of
// the pinned ice package: a structural dumper that parses a version-2 file with
// the pinned reader's own code paths and returns its logical layout with every
// compressed chunk decompressed.  It is the independent parser for the layout
// comparison (DESIGN.md C10): what the current writer emits, seen by the pinned
// format, must be what the Coq model of the format says.

import (
	"encoding/binary"

	segment "github.com/blugelabs/bluge_segment_api"
)

type LTerm struct {
	Key        []byte
	OneHit     bool
	Doc, Norm  uint64
	Docs       []uint32
	ChunkSize  uint64
	FreqChunks [][]byte
	LocEncoded bool
	LocChunks  [][]byte
}

type LDVChunk struct {
	Header [][2]uint64
	Data   []byte
}

type LField struct {
	Name        string
	Docs, Freqs uint64
	Terms       []LTerm
	HasDV       bool
	DVChunks    []LDVChunk
}

type Layout struct {
	NumDocs       uint64
	ChunkMode     uint32
	Fields        []LField
	StoredBlocks  [][]byte
	StoredOffsets []uint64
}

func decodeChunks(data *segment.Data, offset uint64) ([][]byte, error) {
	dec, err := newChunkedIntDecoder(data, offset, nil)
	if err != nil {
		return nil, err
	}
	var out [][]byte
	for c := 0; c < len(dec.chunkOffsets); c++ {
		s, e := readChunkBoundary(c, dec.chunkOffsets)
		raw, err := data.Read(int(dec.dataStartOffset+s), int(dec.dataStartOffset+e))
		if err != nil {
			return nil, err
		}
		unc, err := ZSTDDecompress(nil, raw)
		if err != nil {
			return nil, err
		}
		out = append(out, append([]byte(nil), unc...))
	}
	return out, nil
}

func VerifLayout(file []byte) (*Layout, error) {
	s, err := load(segment.NewDataBytes(file))
	if err != nil {
		return nil, err
	}
	l := &Layout{NumDocs: s.footer.numDocs, ChunkMode: s.footer.chunkMode}
	for fieldID, name := range s.fieldsInv {
		lf := LField{Name: name, Docs: s.fieldDocs[uint16(fieldID)], Freqs: s.fieldFreqs[uint16(fieldID)]}
		d, err := s.dictionary(name)
		if err != nil {
			return nil, err
		}
		if d != nil && d.fst != nil {
			itr, err := d.fst.Iterator(nil, nil)
			for err == nil {
				key, val := itr.Current()
				t := LTerm{Key: append([]byte(nil), key...)}
				pl := &PostingsList{sb: s}
				if err := pl.read(val, d); err != nil {
					return nil, err
				}
				if pl.normBits1Hit != 0 || val&fSTValEncodingMask == fSTValEncoding1Hit {
					t.OneHit = true
					t.Doc, t.Norm = fSTValDecode1Hit(val)
				} else {
					t.Docs = pl.postings.ToArray()
					t.ChunkSize = pl.chunkSize
					t.FreqChunks, err = decodeChunks(s.data, pl.freqOffset)
					if err != nil {
						return nil, err
					}
					if pl.locOffset != termNotEncoded {
						t.LocEncoded = true
						t.LocChunks, err = decodeChunks(s.data, pl.locOffset)
						if err != nil {
							return nil, err
						}
					}
				}
				lf.Terms = append(lf.Terms, t)
				err = itr.Next()
			}
		}
		if dvr, ok := s.fieldDvReaders[uint16(fieldID)]; ok && dvr != nil {
			lf.HasDV = true
			rd := dvr.cloneInto(nil)
			for c := 0; c < len(rd.chunkOffsets); c++ {
				if err := rd.loadDvChunk(uint64(c), s); err != nil {
					return nil, err
				}
				var ch LDVChunk
				for _, h := range rd.curChunkHeader {
					ch.Header = append(ch.Header, [2]uint64{h.DocNum, h.DocDvOffset})
				}
				if rd.curChunkData != nil && len(rd.curChunkHeader) > 0 {
					unc, err := ZSTDDecompress(nil, rd.curChunkData)
					if err != nil {
						return nil, err
					}
					ch.Data = append([]byte(nil), unc...)
				}
				lf.DVChunks = append(lf.DVChunks, ch)
			}
		}
		l.Fields = append(l.Fields, lf)
	}
	for i := 0; i+1 < len(s.storedFieldChunkOffsets); i++ {
		a, b := s.storedFieldChunkOffsets[i], s.storedFieldChunkOffsets[i+1]
		if a == b {
			continue
		}
		raw, err := s.data.Read(int(a), int(b))
		if err != nil {
			return nil, err
		}
		unc, err := ZSTDDecompress(nil, raw)
		if err != nil {
			return nil, err
		}
		l.StoredBlocks = append(l.StoredBlocks, append([]byte(nil), unc...))
	}
	for d := uint64(0); d < s.footer.numDocs; d++ {
		off := s.footer.storedIndexOffset + fileAddrWidth*d
		b, err := s.data.Read(int(off), int(off+fileAddrWidth))
		if err != nil {
			return nil, err
		}
		l.StoredOffsets = append(l.StoredOffsets, binary.BigEndian.Uint64(b))
	}
	return l, nil
}

// Container is what the pinned loaders read from the index structures of a file.
type Container struct {
	DictLocs           []uint64
	Names              []string
	Docs, Freqs        []uint64
	StoredChunkOffsets []uint64
	DocOffsets         []uint64
	DvLocs             [][2]uint64
}

// VerifContainer loads the file with the pinned loader and reports the raw
// contents of the fields section, the stored trailer and index and the
// doc-value location index.
func VerifContainer(file []byte) (*Container, error) {
	s, err := load(segment.NewDataBytes(file))
	if err != nil {
		return nil, err
	}
	c := &Container{DictLocs: s.dictLocs, StoredChunkOffsets: s.storedFieldChunkOffsets}
	for i, n := range s.fieldsInv {
		c.Names = append(c.Names, n)
		c.Docs = append(c.Docs, s.fieldDocs[uint16(i)])
		c.Freqs = append(c.Freqs, s.fieldFreqs[uint16(i)])
	}
	for d := uint64(0); d < s.footer.numDocs; d++ {
		_, off, err := s.getDocStoredOffsetsOnly(d)
		if err != nil {
			return nil, err
		}
		c.DocOffsets = append(c.DocOffsets, off)
	}
	if s.footer.docValueOffset != fieldNotUninverted && s.footer.numDocs != 0 {
		var read uint64
		for range s.fieldsInv {
			var loc [2]uint64
			for k := 0; k < 2; k++ {
				b, err := s.data.Read(int(s.footer.docValueOffset+read), int(s.footer.docValueOffset+read+binary.MaxVarintLen64))
				if err != nil {
					return nil, err
				}
				v, n := binary.Uvarint(b)
				loc[k] = v
				read += uint64(n)
			}
			c.DvLocs = append(c.DvLocs, loc)
		}
	}
	return c, nil
}

//  Copyright (c) 2020 Couchbase, Inc.
//
// Licensed under the Apache License, Version 2.0 (the "License");
// you may not use this file except in compliance with the License.
// You may obtain a copy of the License at
//
// 		http://www.apache.org/licenses/LICENSE-2.0
//
// Unless required by applicable law or agreed to in writing, software
// distributed under the License is distributed on an "AS IS" BASIS,
// WITHOUT WARRANTIES OR CONDITIONS OF ANY KIND, either express or implied.
// See the License for the specific language governing permissions and
// limitations under the License.

package ice

import (
	"bytes"
	"encoding/binary"
	"io"
)

// We can safely use 0 to represent termNotEncoded since 0
// could never be a valid address for term location information.
// (stored field index is always non-empty and earlier in the
// file)
const termNotEncoded = 0

type chunkedIntCoder struct {
	final     []byte
	chunkSize uint64
	chunkBuf  bytes.Buffer
	chunkLens []uint64
	currChunk uint64

	buf        []byte
	compressed []byte
}

// newChunkedIntCoder returns a new chunk int coder which packs data into
// chunks based on the provided chunkSize and supports up to the specified
// maxDocNum
func newChunkedIntCoder(chunkSize, maxDocNum uint64) *chunkedIntCoder {
	total := maxDocNum/chunkSize + 1
	rv := &chunkedIntCoder{
		chunkSize: chunkSize,
		chunkLens: make([]uint64, total),
		final:     make([]byte, 0, 64),
	}

	return rv
}

// Reset lets you reuse this chunked int coder.  buffers are reset and reused
// from previous use.  you cannot change the chunk size or max doc num.
func (c *chunkedIntCoder) Reset() {
	c.final = c.final[:0]
	c.chunkBuf.Reset()
	c.currChunk = 0
	for i := range c.chunkLens {
		c.chunkLens[i] = 0
	}
}

// SetChunkSize changes the chunk size.  It is only valid to do so
// with a new chunkedIntCoder, or immediately after calling Reset()
func (c *chunkedIntCoder) SetChunkSize(chunkSize, maxDocNum uint64) {
	total := int(maxDocNum/chunkSize + 1)
	c.chunkSize = chunkSize
	if cap(c.chunkLens) < total {
		c.chunkLens = make([]uint64, total)
	} else {
		c.chunkLens = c.chunkLens[:total]
	}
}

// Add encodes the provided integers into the correct chunk for the provided
// doc num.  You MUST call Add() with increasing docNums.
func (c *chunkedIntCoder) Add(docNum uint64, vals ...uint64) error {
	chunk := docNum / c.chunkSize
	if chunk != c.currChunk {
		// starting a new chunk
		c.Close()
		c.chunkBuf.Reset()
		c.currChunk = chunk
	}

	if len(c.buf) < binary.MaxVarintLen64 {
		c.buf = make([]byte, binary.MaxVarintLen64)
	}

	for _, val := range vals {
		wb := binary.PutUvarint(c.buf, val)
		_, err := c.chunkBuf.Write(c.buf[:wb])
		if err != nil {
			return err
		}
	}

	return nil
}

// Close indicates you are done calling Add() this allows the final chunk
// to be encoded.
func (c *chunkedIntCoder) Close() error {
	var err error
	c.compressed, err = ZSTDCompress(c.compressed[:cap(c.compressed)], c.chunkBuf.Bytes(), ZSTDCompressionLevel)
	if err != nil {
		return err
	}
	c.chunkLens[c.currChunk] = uint64(len(c.compressed))
	c.final = append(c.final, c.compressed...)
	c.currChunk = uint64(cap(c.chunkLens)) // sentinel to detect double close
	return nil
}

// Write commits all the encoded chunked integers to the provided writer.
func (c *chunkedIntCoder) Write(w io.Writer) (int, error) {
	bufNeeded := binary.MaxVarintLen64 * (1 + len(c.chunkLens))
	if len(c.buf) < bufNeeded {
		c.buf = make([]byte, bufNeeded)
	}
	buf := c.buf

	// convert the chunk lengths into chunk offsets
	chunkOffsets := modifyLengthsToEndOffsets(c.chunkLens)

	// write out the number of chunks & each chunk offsets
	n := binary.PutUvarint(buf, uint64(len(chunkOffsets)))
	for _, chunkOffset := range chunkOffsets {
		n += binary.PutUvarint(buf[n:], chunkOffset)
	}

	tw, err := w.Write(buf[:n])
	if err != nil {
		return tw, err
	}

	// write out the data
	nw, err := w.Write(c.final)
	tw += nw
	if err != nil {
		return tw, err
	}
	return tw, nil
}

// writeAt commits all the encoded chunked integers to the provided writer
// and returns the starting offset, total bytes written and an error
func (c *chunkedIntCoder) writeAt(w io.Writer) (startOffset uint64, err error) {
	startOffset = uint64(termNotEncoded)
	if len(c.final) == 0 {
		return startOffset, nil
	}

	if chw := w.(*countHashWriter); chw != nil {
		startOffset = uint64(chw.Count())
	}

	_, err = c.Write(w)
	return startOffset, err
}

func (c *chunkedIntCoder) FinalSize() int {
	return len(c.final)
}

// modifyLengthsToEndOffsets converts the chunk length array
// to a chunk offset array. The readChunkBoundary
// will figure out the start and end of every chunk from
// these offsets. Starting offset of i'th index is stored
// in i-1'th position except for 0'th index and ending offset
// is stored at i'th index position.
// For 0'th element, starting position is always zero.
// eg:
// Lens ->  5 5 5 5 => 5 10 15 20
// Lens ->  0 5 0 5 => 0 5 5 10
// Lens ->  0 0 0 5 => 0 0 0 5
// Lens ->  5 0 0 0 => 5 5 5 5
// Lens ->  0 5 0 0 => 0 5 5 5
// Lens ->  0 0 5 0 => 0 0 5 5
func modifyLengthsToEndOffsets(lengths []uint64) []uint64 {
	var runningOffset uint64
	var index, i int
	for i = 1; i <= len(lengths); i++ {
		runningOffset += lengths[i-1]
		lengths[index] = runningOffset
		index++
	}
	return lengths
}

func readChunkBoundary(chunk int, offsets []uint64) (start, end uint64) {
	if chunk > 0 {
		start = offsets[chunk-1]
	}
	return start, offsets[chunk]
}

//  Copyright (c) 2020 The Bluge Authors.
//
// Licensed under the Apache License, Version 2.0 (the "License");
// you may not use this file except in compliance with the License.
// You may obtain a copy of the License at
//
// 		http://www.apache.org/licenses/LICENSE-2.0
//
// Unless required by applicable law or agreed to in writing, software
// distributed under the License is distributed on an "AS IS" BASIS,
// WITHOUT WARRANTIES OR CONDITIONS OF ANY KIND, either express or implied.
// See the License for the specific language governing permissions and
// limitations under the License.

package ice

import "fmt"

// ------------------------------------------------------------

type memUvarintReader struct {
	C int // index of next byte to read from S
	S []byte
}

func newMemUvarintReader(s []byte) *memUvarintReader {
	return &memUvarintReader{S: s}
}

// Len returns the number of unread bytes.
func (r *memUvarintReader) Len() int {
	n := len(r.S) - r.C
	if n < 0 {
		return 0
	}
	return n
}

// why 63?  The original code had an 'i += 1' loop var and
// checked for i > 9 || i == 9 ...; but, we no longer
// check for the i var, but instead check here for s,
// which is incremented by 7.  So, 7*9 == 63.
const sevenTimesNine = 63

// lastByte has the most significant bit set
// indicating there are more bytes in the stream
// any value less than this is a terminal byte
const lastByte = 0x80

// significantBits masks the significant bits
// the highest order bit is used to indicate
// the presence of more data
const significantBits = 0x7f

// ReadUvarint reads an encoded uint64.  The original code this was
// based on is at encoding/binary/ReadUvarint().
func (r *memUvarintReader) ReadUvarint() (uint64, error) {
	var x uint64
	var s uint
	var C = r.C
	var S = r.S

	for {
		b := S[C]
		C++

		if b < lastByte {
			r.C = C

			// why the "extra" >= check?  The normal case is that s <
			// 63, so we check this single >= guard first so that we
			// hit the normal, nil-error return pathway sooner.
			if s >= sevenTimesNine && (s > sevenTimesNine || s == sevenTimesNine && b > 1) {
				return 0, fmt.Errorf("memUvarintReader overflow")
			}

			return x | uint64(b)<<s, nil
		}

		x |= uint64(b&significantBits) << s
		s += 7
	}
}

// SkipUvarint skips ahead one encoded uint64.
func (r *memUvarintReader) SkipUvarint() {
	for {
		b := r.S[r.C]
		r.C++

		if b < lastByte {
			return
		}
	}
}

// SkipBytes skips a count number of bytes.
func (r *memUvarintReader) SkipBytes(count int) {
	r.C += count
}

func (r *memUvarintReader) Reset(s []byte) {
	r.C = 0
	r.S = s
}

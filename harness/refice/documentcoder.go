package ice

import (
	"bytes"
	"encoding/binary"
	"io"
)

const defaultDocumentChunkSize uint32 = 128

type chunkedDocumentCoder struct {
	chunkSize  uint64
	w          io.Writer
	buf        *bytes.Buffer
	metaBuf    []byte
	n          uint64
	bytes      uint64
	compressed []byte
	offsets    []uint64
}

func newChunkedDocumentCoder(chunkSize uint64, w io.Writer) *chunkedDocumentCoder {
	c := &chunkedDocumentCoder{
		chunkSize: chunkSize,
		w:         w,
	}
	c.buf = bytes.NewBuffer(nil)
	c.metaBuf = make([]byte, binary.MaxVarintLen64)
	c.offsets = append(c.offsets, 0)
	return c
}

func (c *chunkedDocumentCoder) Add(docNum uint64, meta, data []byte) (int, error) {
	var wn, n int
	var err error
	n = binary.PutUvarint(c.metaBuf, uint64(len(meta)))
	if n, err = c.writeToBuf(c.metaBuf[:n]); err != nil {
		return 0, err
	}
	wn += n
	n = binary.PutUvarint(c.metaBuf, uint64(len(data)))
	if n, err = c.writeToBuf(c.metaBuf[:n]); err != nil {
		return 0, err
	}
	wn += n
	if n, err = c.writeToBuf(meta); err != nil {
		return 0, err
	}
	wn += n
	if n, err = c.writeToBuf(data); err != nil {
		return 0, err
	}
	wn += n

	return wn, c.newLine()
}

func (c *chunkedDocumentCoder) writeToBuf(data []byte) (int, error) {
	return c.buf.Write(data)
}

func (c *chunkedDocumentCoder) newLine() error {
	c.n++
	if c.n%c.chunkSize != 0 {
		return nil
	}
	return c.flush()
}

func (c *chunkedDocumentCoder) flush() error {
	if c.buf.Len() > 0 {
		var err error
		c.compressed, err = ZSTDCompress(c.compressed[:cap(c.compressed)], c.buf.Bytes(), ZSTDCompressionLevel)
		if err != nil {
			return err
		}
		n, err := c.w.Write(c.compressed)
		if err != nil {
			return err
		}
		c.bytes += uint64(n)
		c.buf.Reset()
	}
	c.offsets = append(c.offsets, c.bytes)
	return nil
}

func (c *chunkedDocumentCoder) Write() error {
	// flush first
	if err := c.flush(); err != nil {
		return err
	}
	var err error
	var wn, n int
	// write chunk offsets
	for _, offset := range c.offsets {
		n = binary.PutUvarint(c.metaBuf, offset)
		if _, err = c.w.Write(c.metaBuf[:n]); err != nil {
			return err
		}
		wn += n
	}
	// write chunk offset length
	err = binary.Write(c.w, binary.BigEndian, uint32(wn))
	if err != nil {
		return err
	}
	// write chunk num
	err = binary.Write(c.w, binary.BigEndian, uint32(len(c.offsets)))
	if err != nil {
		return err
	}
	return nil
}

func (c *chunkedDocumentCoder) Reset() {
	c.compressed = c.compressed[:0]
	c.offsets = c.offsets[:0]
	c.n = 0
	c.bytes = 0
	c.buf.Reset()
}

// Size returns buffer size of current chunk
func (c *chunkedDocumentCoder) Size() uint64 {
	return uint64(c.buf.Len())
}

// Len returns chunks num
func (c *chunkedDocumentCoder) Len() int {
	return len(c.offsets)
}

// Len returns chunks num
func (c *chunkedDocumentCoder) Offsets() []uint64 {
	m := make([]uint64, 0, len(c.offsets))
	m = append(m, c.offsets...)
	return m
}

//  Copyright (c) 2020 Couchbase, Inc.
//
// Licensed under the Apache License, Version 2.0 (the "License");
// you may not use this file except in compliance with the License.
// You may obtain a copy of the License at
//
// 		http://www.apache.org/licenses/LICENSE-2.0
//
// Unless required by applicable law or agreed to in writing, software
// distributed under the License is distributed on an "AS IS" BASIS,
// WITHOUT WARRANTIES OR CONDITIONS OF ANY KIND, either express or implied.
// See the License for the specific language governing permissions and
// limitations under the License.

package ice

import (
	"bytes"

	"github.com/blevesearch/vellum"
)

// enumerator provides an ordered traversal of multiple vellum
// iterators.  Like JOIN of iterators, the enumerator produces a
// sequence of (key, iteratorIndex, value) tuples, sorted by key ASC,
// then iteratorIndex ASC, where the same key might be seen or
// repeated across multiple child iterators.
type enumerator struct {
	itrs   []vellum.Iterator
	currKs [][]byte
	currVs []uint64

	lowK    []byte
	lowIdxs []int
	lowCurr int
}

// newEnumerator returns a new enumerator over the vellum Iterators
func newEnumerator(itrs []vellum.Iterator) (*enumerator, error) {
	rv := &enumerator{
		itrs:    itrs,
		currKs:  make([][]byte, len(itrs)),
		currVs:  make([]uint64, len(itrs)),
		lowIdxs: make([]int, 0, len(itrs)),
	}
	for i, itr := range rv.itrs {
		rv.currKs[i], rv.currVs[i] = itr.Current()
	}
	rv.updateMatches(false)
	if rv.lowK == nil && len(rv.lowIdxs) == 0 {
		return rv, vellum.ErrIteratorDone
	}
	return rv, nil
}

// updateMatches maintains the low key matches based on the currKs
func (m *enumerator) updateMatches(skipEmptyKey bool) {
	m.lowK = nil
	m.lowIdxs = m.lowIdxs[:0]
	m.lowCurr = 0

	for i, key := range m.currKs {
		if (key == nil && m.currVs[i] == 0) || // in case of empty iterator
			(len(key) == 0 && skipEmptyKey) { // skip empty keys
			continue
		}

		cmp := bytes.Compare(key, m.lowK)
		if cmp < 0 || len(m.lowIdxs) == 0 {
			// reached a new low
			m.lowK = key
			m.lowIdxs = m.lowIdxs[:0]
			m.lowIdxs = append(m.lowIdxs, i)
		} else if cmp == 0 {
			m.lowIdxs = append(m.lowIdxs, i)
		}
	}
}

// Current returns the enumerator's current key, iterator-index, and
// value.  If the enumerator is not pointing at a valid value (because
// Next returned an error previously), Current will return nil,0,0.
func (m *enumerator) Current() (key []byte, index int, val uint64) {
	if m.lowCurr < len(m.lowIdxs) {
		index = m.lowIdxs[m.lowCurr]
		val = m.currVs[index]
	}
	return m.lowK, index, val
}

// GetLowIdxsAndValues will return all of the iterator indices
// which point to the current key, and their corresponding
// values.  This can be used by advanced caller which may need
// to peek into these other sets of data before processing.
func (m *enumerator) GetLowIdxsAndValues() (lowIdxs []int, values []uint64) {
	values = make([]uint64, 0, len(m.lowIdxs))
	for _, idx := range m.lowIdxs {
		values = append(values, m.currVs[idx])
	}
	return m.lowIdxs, values
}

// Next advances the enumerator to the next key/iterator/value result,
// else vellum.ErrIteratorDone is returned.
func (m *enumerator) Next() error {
	m.lowCurr++
	if m.lowCurr >= len(m.lowIdxs) {
		// move all the current low iterators forwards
		for _, vi := range m.lowIdxs {
			err := m.itrs[vi].Next()
			if err != nil && err != vellum.ErrIteratorDone {
				return err
			}
			m.currKs[vi], m.currVs[vi] = m.itrs[vi].Current()
		}
		// can skip any empty keys encountered at this point
		m.updateMatches(true)
	}
	if m.lowK == nil && len(m.lowIdxs) == 0 {
		return vellum.ErrIteratorDone
	}
	return nil
}

// Close all the underlying Iterators.  The first error, if any, will
// be returned.
func (m *enumerator) Close() error {
	var rv error
	for _, itr := range m.itrs {
		err := itr.Close()
		if rv == nil {
			rv = err
		}
	}
	return rv
}

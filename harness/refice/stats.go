//  Copyright (c) 2020 The Bluge Authors.
//
// Licensed under the Apache License, Version 2.0 (the "License");
// you may not use this file except in compliance with the License.
// You may obtain a copy of the License at
//
// 		http://www.apache.org/licenses/LICENSE-2.0
//
// Unless required by applicable law or agreed to in writing, software
// distributed under the License is distributed on an "AS IS" BASIS,
// WITHOUT WARRANTIES OR CONDITIONS OF ANY KIND, either express or implied.
// See the License for the specific language governing permissions and
// limitations under the License.

package ice

import (
	segment "github.com/blugelabs/bluge_segment_api"
)

type CollectionStats struct {
	totalDocCount    uint64
	docCount         uint64
	sumTotalTermFreq uint64
}

func (c *CollectionStats) TotalDocumentCount() uint64 {
	return c.totalDocCount
}

func (c *CollectionStats) DocumentCount() uint64 {
	return c.docCount
}

func (c *CollectionStats) SumTotalTermFrequency() uint64 {
	return c.sumTotalTermFreq
}

func (c *CollectionStats) Merge(other segment.CollectionStats) {
	c.totalDocCount += other.TotalDocumentCount()
	c.docCount += other.DocumentCount()
	c.sumTotalTermFreq += other.SumTotalTermFrequency()
}

func (s *Segment) CollectionStats(field string) (segment.CollectionStats, error) {
	var rv = &CollectionStats{}
	fieldIDPlus1 := s.fieldsMap[field]
	if fieldIDPlus1 > 0 {
		rv.totalDocCount = s.footer.numDocs
		rv.docCount = s.fieldDocs[fieldIDPlus1-1]
		rv.sumTotalTermFreq = s.fieldFreqs[fieldIDPlus1-1]
	}
	return rv, nil
}

//  Copyright (c) 2020 Couchbase, Inc.
//
// Licensed under the Apache License, Version 2.0 (the "License");
// you may not use this file except in compliance with the License.
// You may obtain a copy of the License at
//
// 		http://www.apache.org/licenses/LICENSE-2.0
//
// Unless required by applicable law or agreed to in writing, software
// distributed under the License is distributed on an "AS IS" BASIS,
// WITHOUT WARRANTIES OR CONDITIONS OF ANY KIND, either express or implied.
// See the License for the specific language governing permissions and
// limitations under the License.

package ice

import (
	"encoding/binary"
)

func (s *Segment) getDocStoredMetaAndUnCompressed(docNum uint64) (meta, data []byte, err error) {
	_, storedOffset, n, metaLen, dataLen, err := s.getDocStoredOffsets(docNum)
	if err != nil {
		return nil, nil, err
	}

	meta = s.storedFieldChunkUncompressed[int(storedOffset+n):int(storedOffset+n+metaLen)]
	data = s.storedFieldChunkUncompressed[int(storedOffset+n+metaLen):int(storedOffset+n+metaLen+dataLen)]
	return meta, data, nil
}

func (s *Segment) getDocStoredOffsets(docNum uint64) (indexOffset, storedOffset, n, metaLen, dataLen uint64, err error) {
	indexOffset, storedOffset, err = s.getDocStoredOffsetsOnly(docNum)
	if err != nil {
		return 0, 0, 0, 0, 0, err
	}

	// document chunk coder
	chunkI := docNum / uint64(defaultDocumentChunkSize)
	chunkOffsetStart := s.storedFieldChunkOffsets[int(chunkI)]
	chunkOffsetEnd := s.storedFieldChunkOffsets[int(chunkI)+1]
	compressed, err := s.data.Read(int(chunkOffsetStart), int(chunkOffsetEnd))
	if err != nil {
		return 0, 0, 0, 0, 0, err
	}
	s.storedFieldChunkUncompressed = s.storedFieldChunkUncompressed[:0]
	s.storedFieldChunkUncompressed, err = ZSTDDecompress(s.storedFieldChunkUncompressed[:cap(s.storedFieldChunkUncompressed)], compressed)
	if err != nil {
		return 0, 0, 0, 0, 0, err
	}

	metaLenData := s.storedFieldChunkUncompressed[int(storedOffset):int(storedOffset+binary.MaxVarintLen64)]
	var read int
	metaLen, read = binary.Uvarint(metaLenData)
	n += uint64(read)

	dataLenData := s.storedFieldChunkUncompressed[int(storedOffset+n):int(storedOffset+n+binary.MaxVarintLen64)]
	dataLen, read = binary.Uvarint(dataLenData)
	n += uint64(read)

	return indexOffset, storedOffset, n, metaLen, dataLen, nil
}

func (s *Segment) getDocStoredOffsetsOnly(docNum uint64) (indexOffset, storedOffset uint64, err error) {
	indexOffset = s.footer.storedIndexOffset + (fileAddrWidth * docNum)
	storedOffsetData, err := s.data.Read(int(indexOffset), int(indexOffset+fileAddrWidth))
	if err != nil {
		return 0, 0, err
	}
	storedOffset = binary.BigEndian.Uint64(storedOffsetData)
	return indexOffset, storedOffset, nil
}

//  Copyright (c) 2020 Couchbase, Inc.
//
// Licensed under the Apache License, Version 2.0 (the "License");
// you may not use this file except in compliance with the License.
// You may obtain a copy of the License at
//
// 		http://www.apache.org/licenses/LICENSE-2.0
//
// Unless required by applicable law or agreed to in writing, software
// distributed under the License is distributed on an "AS IS" BASIS,
// WITHOUT WARRANTIES OR CONDITIONS OF ANY KIND, either express or implied.
// See the License for the specific language governing permissions and
// limitations under the License.

package ice

import (
	"hash/crc32"
	"io"
)

// countHashWriter is a wrapper around a Writer which counts the number of
// bytes which have been written and computes a crc32 hash
type countHashWriter struct {
	w   io.Writer
	crc uint32
	n   int
}

// newCountHashWriter returns a countHashWriter which wraps the provided Writer
func newCountHashWriter(w io.Writer) *countHashWriter {
	return &countHashWriter{w: w}
}

// Write writes the provided bytes to the wrapped writer and counts the bytes
func (c *countHashWriter) Write(b []byte) (int, error) {
	n, err := c.w.Write(b)
	c.crc = crc32.Update(c.crc, crc32.IEEETable, b[:n])
	c.n += n
	return n, err
}

// Count returns the number of bytes written
func (c *countHashWriter) Count() int {
	return c.n
}

// Sum32 returns the CRC-32 hash of the content written to this writer
func (c *countHashWriter) Sum32() uint32 {
	return c.crc
}

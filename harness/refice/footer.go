//  Copyright (c) 2020 The Bluge Authors.
//
// Licensed under the Apache License, Version 2.0 (the "License");
// you may not use this file except in compliance with the License.
// You may obtain a copy of the License at
//
// 		http://www.apache.org/licenses/LICENSE-2.0
//
// Unless required by applicable law or agreed to in writing, software
// distributed under the License is distributed on an "AS IS" BASIS,
// WITHOUT WARRANTIES OR CONDITIONS OF ANY KIND, either express or implied.
// See the License for the specific language governing permissions and
// limitations under the License.

package ice

import (
	"encoding/binary"
	"fmt"

	segment "github.com/blugelabs/bluge_segment_api"
)

// Ice footer
//
// |========|========|========|========|====|====|====|
// |     D# |     SF |      F |    FDV | CM |  V | CC |
// |========|====|===|====|===|====|===|====|====|====|
//
// D#  - number of docs
// SF  - stored fields index offset
//  F  - field index offset
// FDV - field doc values offset
// CM  - chunk Mode
//  V  - version
// CC  - crc32

type footer struct {
	storedIndexOffset uint64
	docValueOffset    uint64
	fieldsIndexOffset uint64
	numDocs           uint64
	crc               uint32
	version           uint32
	chunkMode         uint32
}

const (
	crcWidth          = 4
	verWidth          = 4
	chunkWidth        = 4
	fdvOffsetWidth    = 8
	fieldsOffsetWidth = 8
	storedOffsetWidth = 8
	numDocsWidth      = 8
	footerLen         = crcWidth + verWidth + chunkWidth + fdvOffsetWidth +
		fieldsOffsetWidth + storedOffsetWidth + numDocsWidth
)

func parseFooter(data *segment.Data) (*footer, error) {
	if data.Len() < footerLen {
		return nil, fmt.Errorf("data len %d less than footer len %d", data.Len(),
			footerLen)
	}

	rv := &footer{}
	crcOffset := data.Len() - crcWidth
	crcData, err := data.Read(crcOffset, crcOffset+crcWidth)
	if err != nil {
		return nil, err
	}
	rv.crc = binary.BigEndian.Uint32(crcData)

	verOffset := crcOffset - verWidth
	verData, err := data.Read(verOffset, verOffset+verWidth)
	if err != nil {
		return nil, err
	}
	rv.version = binary.BigEndian.Uint32(verData)
	if rv.version != Version {
		return nil, fmt.Errorf("unsupported version %d", rv.version)
	}

	chunkOffset := verOffset - chunkWidth
	chunkData, err := data.Read(chunkOffset, chunkOffset+chunkWidth)
	if err != nil {
		return nil, err
	}
	rv.chunkMode = binary.BigEndian.Uint32(chunkData)

	docValueOffset := chunkOffset - fdvOffsetWidth
	docValueData, err := data.Read(docValueOffset, docValueOffset+fdvOffsetWidth)
	if err != nil {
		return nil, err
	}
	rv.docValueOffset = binary.BigEndian.Uint64(docValueData)

	fieldsIndexOffset := docValueOffset - fieldsOffsetWidth
	fieldsData, err := data.Read(fieldsIndexOffset, fieldsIndexOffset+fieldsOffsetWidth)
	if err != nil {
		return nil, err
	}
	rv.fieldsIndexOffset = binary.BigEndian.Uint64(fieldsData)

	storedIndexOffset := fieldsIndexOffset - storedOffsetWidth
	storedData, err := data.Read(storedIndexOffset, storedIndexOffset+storedOffsetWidth)
	if err != nil {
		return nil, err
	}
	rv.storedIndexOffset = binary.BigEndian.Uint64(storedData)

	numDocsOffset := storedIndexOffset - numDocsWidth
	numDocsData, err := data.Read(numDocsOffset, numDocsOffset+numDocsWidth)
	if err != nil {
		return nil, err
	}
	rv.numDocs = binary.BigEndian.Uint64(numDocsData)
	return rv, nil
}

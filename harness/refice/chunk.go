//  Copyright (c) 2020 Couchbase, Inc.
//
// Licensed under the Apache License, Version 2.0 (the "License");
// you may not use this file except in compliance with the License.
// You may obtain a copy of the License at
//
//              http://www.apache.org/licenses/LICENSE-2.0
//
// Unless required by applicable law or agreed to in writing, software
// distributed under the License is distributed on an "AS IS" BASIS,
// WITHOUT WARRANTIES OR CONDITIONS OF ANY KIND, either express or implied.
// See the License for the specific language governing permissions and
// limitations under the License.

package ice

import (
	"fmt"
)

const maxDocsToScanSequentially = 1024

// legacyChunkMode was the original chunk mode (always chunk size 1024)
// this mode is still used for chunking doc values.
const legacyChunkMode uint32 = 1024

const chunkModeV1 uint32 = 1025

// defaultChunkMode is the most recent improvement to chunking and should
// be used by default.
const defaultChunkMode uint32 = chunkModeV1

func getChunkSize(chunkMode uint32, cardinality, maxDocs uint64) (uint64, error) {
	switch {
	// any chunkMode <= 1024 will always chunk with chunkSize=chunkMode
	case chunkMode <= legacyChunkMode:
		// legacy chunk size
		return uint64(chunkMode), nil

	case chunkMode == chunkModeV1:
		// the observation that the fewest number of dense chunks is the most
		// desirable layout, given the built-in assumptions of chunking
		// (that we want to put an upper-bound on the number of items you must
		//  walk over without skipping, currently tuned to 1024)
		//
		// 1.  compute the number of chunks needed (max 1024/chunk)
		// 2.  convert to chunkSize, dividing into maxDocs
		numChunks := (cardinality / maxDocsToScanSequentially) + 1
		chunkSize := maxDocs / numChunks
		return chunkSize, nil
	}
	return 0, fmt.Errorf("unknown chunk mode %d", chunkMode)
}

/*
 * Copyright 2019 Dgraph Labs, Inc. and Contributors
 *
 * Licensed under the Apache License, Version 2.0 (the "License");
 * you may not use this file except in compliance with the License.
 * You may obtain a copy of the License at
 *
 *     http://www.apache.org/licenses/LICENSE-2.0
 *
 * Unless required by applicable law or agreed to in writing, software
 * distributed under the License is distributed on an "AS IS" BASIS,
 * WITHOUT WARRANTIES OR CONDITIONS OF ANY KIND, either express or implied.
 * See the License for the specific language governing permissions and
 * limitations under the License.
 */

package ice

import (
	"log"
	"sync"

	"github.com/klauspost/compress/zstd"
)

const ZSTDCompressionLevel = 3 // 1, 3, 9

var (
	decoder *zstd.Decoder
	encoder *zstd.Encoder

	encOnce, decOnce sync.Once
)

// ZSTDDecompress decompresses a block using ZSTD algorithm.
func ZSTDDecompress(dst, src []byte) ([]byte, error) {
	decOnce.Do(func() {
		var err error
		decoder, err = zstd.NewReader(nil)
		if err != nil {
			log.Panicf("ZSTDDecompress: %+v", err)
		}
	})
	return decoder.DecodeAll(src, dst[:0])
}

// ZSTDCompress compresses a block using ZSTD algorithm.
func ZSTDCompress(dst, src []byte, compressionLevel int) ([]byte, error) {
	encOnce.Do(func() {
		var err error
		level := zstd.EncoderLevelFromZstd(compressionLevel)
		encoder, err = zstd.NewWriter(nil, zstd.WithEncoderLevel(level))
		if err != nil {
			log.Panicf("ZSTDCompress: %+v", err)
		}
	})
	return encoder.EncodeAll(src, dst[:0]), nil
}

// ZSTDCompressBound returns the worst case size needed for a destination buffer.
// Klauspost ZSTD library does not provide any API for Compression Bound. This
// calculation is based on the DataDog ZSTD library.
// See https://pkg.go.dev/github.com/DataDog/zstd#CompressBound
func ZSTDCompressBound(srcSize int) int {
	lowLimit := 128 << 10 // 128 kB
	var margin int
	if srcSize < lowLimit {
		margin = (lowLimit - srcSize) >> 11
	}
	return srcSize + (srcSize >> 8) + margin
}

//  Copyright (c) 2020 The Bluge Authors.
//
// Licensed under the Apache License, Version 2.0 (the "License");
// you may not use this file except in compliance with the License.
// You may obtain a copy of the License at
//
// 		http://www.apache.org/licenses/LICENSE-2.0
//
// Unless required by applicable law or agreed to in writing, software
// distributed under the License is distributed on an "AS IS" BASIS,
// WITHOUT WARRANTIES OR CONDITIONS OF ANY KIND, either express or implied.
// See the License for the specific language governing permissions and
// limitations under the License.

package ice

import (
	"encoding/binary"
	"fmt"

	"github.com/blevesearch/vellum"
	segment "github.com/blugelabs/bluge_segment_api"
)

// Open returns an impl of a segment
func Load(data *segment.Data) (segment.Segment, error) {
	return load(data)
}

func load(data *segment.Data) (*Segment, error) {
	footer, err := parseFooter(data)
	if err != nil {
		return nil, fmt.Errorf("error parsing footer: %w", err)
	}
	rv := &Segment{
		data:           data.Slice(0, data.Len()-footerLen),
		footer:         footer,
		fieldsMap:      make(map[string]uint16),
		fieldDvReaders: make(map[uint16]*docValueReader),
		fieldFSTs:      make(map[uint16]*vellum.FST),
		fieldDocs:      make(map[uint16]uint64),
		fieldFreqs:     make(map[uint16]uint64),
	}

	// FIXME temporarily map to existing footer fields
	// rv.memCRC = footer.crc
	// rv.chunkMode = footer.chunkMode
	// rv.numDocs = footer.numDocs
	// rv.storedIndexOffset = footer.storedIndexOffset
	// rv.fieldsIndexOffset = footer.fieldsIndexOffset
	// rv.docValueOffset = footer.docValueOffset

	err = rv.loadFields()
	if err != nil {
		return nil, err
	}

	err = rv.loadStoredFieldChunk()
	if err != nil {
		return nil, err
	}

	err = rv.loadDvReaders()
	if err != nil {
		return nil, err
	}

	rv.updateSize()

	return rv, nil
}

const fileAddrWidth = 8

func (s *Segment) loadFields() error {
	// NOTE for now we assume the fields index immediately precedes
	// the footer, and if this changes, need to adjust accordingly (or
	// store explicit length), where s.mem was sliced from s.mm in Open().
	fieldsIndexEnd := uint64(s.data.Len())

	// iterate through fields index
	var fieldID uint64
	for s.footer.fieldsIndexOffset+(fileAddrWidth*fieldID) < fieldsIndexEnd {
		addrData, err := s.data.Read(int(s.footer.fieldsIndexOffset+(fileAddrWidth*fieldID)),
			int(s.footer.fieldsIndexOffset+(fileAddrWidth*fieldID)+fileAddrWidth))
		if err != nil {
			return err
		}
		addr := binary.BigEndian.Uint64(addrData)

		dictLocData, err := s.data.Read(int(addr), int(fieldsIndexEnd))
		if err != nil {
			return err
		}
		dictLoc, read := binary.Uvarint(dictLocData)
		n := uint64(read)
		s.dictLocs = append(s.dictLocs, dictLoc)

		var nameLen uint64
		nameLenData, err := s.data.Read(int(addr+n), int(fieldsIndexEnd))
		if err != nil {
			return err
		}
		nameLen, read = binary.Uvarint(nameLenData)
		n += uint64(read)

		nameData, err := s.data.Read(int(addr+n), int(addr+n+nameLen))
		if err != nil {
			return err
		}
		n += nameLen

		fieldDocData, err := s.data.Read(int(addr+n), int(fieldsIndexEnd))
		if err != nil {
			return err
		}
		fieldDocVal, read := binary.Uvarint(fieldDocData)
		n += uint64(read)

		fieldFreqData, err := s.data.Read(int(addr+n), int(fieldsIndexEnd))
		if err != nil {
			return err
		}
		fieldFreqVal, _ := binary.Uvarint(fieldFreqData)

		name := string(nameData)
		s.fieldsInv = append(s.fieldsInv, name)
		s.fieldsMap[name] = uint16(fieldID + 1)
		s.fieldDocs[uint16(fieldID)] = fieldDocVal
		s.fieldFreqs[uint16(fieldID)] = fieldFreqVal

		fieldID++
	}
	return nil
}

// loadStoredFieldChunk load storedField chunk offsets
func (s *Segment) loadStoredFieldChunk() error {
	// read chunk num
	chunkOffsetPos := int(s.footer.storedIndexOffset - uint64(sizeOfUint32))
	chunkData, err := s.data.Read(chunkOffsetPos, chunkOffsetPos+sizeOfUint32)
	if err != nil {
		return err
	}
	chunkNum := binary.BigEndian.Uint32(chunkData)
	chunkOffsetPos -= sizeOfUint32
	// read chunk offsets length
	chunkData, err = s.data.Read(chunkOffsetPos, chunkOffsetPos+sizeOfUint32)
	if err != nil {
		return err
	}
	chunkOffsetsLen := binary.BigEndian.Uint32(chunkData)
	// read chunk offsets
	chunkOffsetPos -= int(chunkOffsetsLen)
	var offset, read int
	var offsetata []byte
	s.storedFieldChunkOffsets = make([]uint64, chunkNum)
	for i := 0; i < int(chunkNum); i++ {
		offsetata, err = s.data.Read(chunkOffsetPos+offset, chunkOffsetPos+offset+binary.MaxVarintLen64)
		if err != nil {
			return err
		}
		s.storedFieldChunkOffsets[i], read = binary.Uvarint(offsetata)
		offset += read
	}

	return nil
}

//  Copyright (c) 2020 Couchbase, Inc.
//
// Licensed under the Apache License, Version 2.0 (the "License");
// you may not use this file except in compliance with the License.
// You may obtain a copy of the License at
//
// 		http://www.apache.org/licenses/LICENSE-2.0
//
// Unless required by applicable law or agreed to in writing, software
// distributed under the License is distributed on an "AS IS" BASIS,
// WITHOUT WARRANTIES OR CONDITIONS OF ANY KIND, either express or implied.
// See the License for the specific language governing permissions and
// limitations under the License.

package ice

import (
	"encoding/binary"
	"io"
	"math"

	"github.com/RoaringBitmap/roaring"
)

const fieldNotUninverted = math.MaxUint64

type varintEncoder func(uint64) (int, error)

func encodeStoredFieldValues(fieldID int,
	storedFieldValues [][]byte,
	curr int, metaEncode varintEncoder, data []byte) (
	newCurr int, newData []byte, err error) {
	for i := 0; i < len(storedFieldValues); i++ {
		// encode field
		_, err := metaEncode(uint64(fieldID))
		if err != nil {
			return 0, nil, err
		}
		// encode start offset
		_, err = metaEncode(uint64(curr))
		if err != nil {
			return 0, nil, err
		}
		// end len
		_, err = metaEncode(uint64(len(storedFieldValues[i])))
		if err != nil {
			return 0, nil, err
		}

		data = append(data, storedFieldValues[i]...)
		curr += len(storedFieldValues[i])
	}

	return curr, data, nil
}

func writePostings(postings *roaring.Bitmap, tfEncoder, locEncoder *chunkedIntCoder,
	use1HitEncoding func(uint64) (bool, uint64, uint64),
	w *countHashWriter, bufMaxVarintLen64 []byte) (
	offset uint64, err error) {
	termCardinality := postings.GetCardinality()
	if termCardinality <= 0 {
		return 0, nil
	}

	if use1HitEncoding != nil {
		encodeAs1Hit, docNum1Hit, normBits1Hit := use1HitEncoding(termCardinality)
		if encodeAs1Hit {
			return fSTValEncode1Hit(docNum1Hit, normBits1Hit), nil
		}
	}

	var tfOffset uint64
	tfOffset, err = tfEncoder.writeAt(w)
	if err != nil {
		return 0, err
	}

	var locOffset uint64
	locOffset, err = locEncoder.writeAt(w)
	if err != nil {
		return 0, err
	}

	postingsOffset := uint64(w.Count())

	n := binary.PutUvarint(bufMaxVarintLen64, tfOffset)
	_, err = w.Write(bufMaxVarintLen64[:n])
	if err != nil {
		return 0, err
	}

	if locOffset > 0 && tfOffset > 0 {
		n = binary.PutUvarint(bufMaxVarintLen64, locOffset-tfOffset)
	} else {
		n = binary.PutUvarint(bufMaxVarintLen64, locOffset)
	}
	_, err = w.Write(bufMaxVarintLen64[:n])
	if err != nil {
		return 0, err
	}

	_, err = writeRoaringWithLen(postings, w, bufMaxVarintLen64)
	if err != nil {
		return 0, err
	}

	return postingsOffset, nil
}

// returns the total # of bytes needed to encode the given uint64's
// into binary.PutUVarint() encoding
func totalUvarintBytes(a, b, c, d uint64) (n int) {
	n = numUvarintBytes(a)
	n += numUvarintBytes(b)
	n += numUvarintBytes(c)
	n += numUvarintBytes(d)
	return n
}

// returns # of bytes needed to encode x in binary.PutUvarint() encoding
func numUvarintBytes(x uint64) (n int) {
	for x >= 0x80 {
		x >>= 7
		n++
	}
	return n + 1
}

// writes out the length of the roaring bitmap in bytes as varint
// then writes out the roaring bitmap itself
func writeRoaringWithLen(r *roaring.Bitmap, w io.Writer,
	reuseBufVarint []byte) (int, error) {
	r.RunOptimize()
	buf, err := r.ToBytes()
	if err != nil {
		return 0, err
	}

	var tw int

	// write out the length
	n := binary.PutUvarint(reuseBufVarint, uint64(len(buf)))
	nw, err := w.Write(reuseBufVarint[:n])
	tw += nw
	if err != nil {
		return tw, err
	}

	// write out the roaring bytes
	nw, err = w.Write(buf)
	tw += nw
	if err != nil {
		return tw, err
	}

	return tw, nil
}

func persistFields(fieldsInv []string, fieldDocs, fieldFreqs map[uint16]uint64,
	w *countHashWriter, dictLocs []uint64) (uint64, error) {
	var rv uint64
	var fieldsOffsets []uint64

	for fieldID, fieldName := range fieldsInv {
		// record start of this field
		fieldsOffsets = append(fieldsOffsets, uint64(w.Count()))

		// write out the dict location and field name length
		err := writeUvarints(w, dictLocs[fieldID], uint64(len(fieldName)))
		if err != nil {
			return 0, err
		}

		// write out the field name
		_, err = w.Write([]byte(fieldName))
		if err != nil {
			return 0, err
		}

		// write out the number of docs using this field
		// and the number of total tokens
		err = writeUvarints(w, fieldDocs[uint16(fieldID)], fieldFreqs[uint16(fieldID)])
		if err != nil {
			return 0, err
		}
	}

	// now write out the fields index
	rv = uint64(w.Count())
	for fieldID := range fieldsInv {
		err := binary.Write(w, binary.BigEndian, fieldsOffsets[fieldID])
		if err != nil {
			return 0, err
		}
	}

	return rv, nil
}

func persistFooter(footer *footer, writerIn io.Writer) error {
	w := newCountHashWriter(writerIn)
	w.crc = footer.crc

	// write out the number of docs
	err := binary.Write(w, binary.BigEndian, footer.numDocs)
	if err != nil {
		return err
	}
	// write out the stored field index location:
	err = binary.Write(w, binary.BigEndian, footer.storedIndexOffset)
	if err != nil {
		return err
	}
	// write out the field index location
	err = binary.Write(w, binary.BigEndian, footer.fieldsIndexOffset)
	if err != nil {
		return err
	}
	// write out the fieldDocValue location
	err = binary.Write(w, binary.BigEndian, footer.docValueOffset)
	if err != nil {
		return err
	}
	// write out 32-bit chunk factor
	err = binary.Write(w, binary.BigEndian, footer.chunkMode)
	if err != nil {
		return err
	}
	// write out 32-bit version
	err = binary.Write(w, binary.BigEndian, Version)
	if err != nil {
		return err
	}
	// write out CRC-32 of everything upto but not including this CRC
	err = binary.Write(w, binary.BigEndian, w.crc)
	if err != nil {
		return err
	}
	return nil
}

func writeUvarints(w io.Writer, vals ...uint64) (err error) {
	buf := make([]byte, binary.MaxVarintLen64)
	for _, val := range vals {
		n := binary.PutUvarint(buf, val)
		_, err = w.Write(buf[:n])
		if err != nil {
			return err
		}
	}
	return err
}

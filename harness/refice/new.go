//  Copyright (c) 2020 Couchbase, Inc.
//
// Licensed under the Apache License, Version 2.0 (the "License");
// you may not use this file except in compliance with the License.
// You may obtain a copy of the License at
//
// 		http://www.apache.org/licenses/LICENSE-2.0
//
// Unless required by applicable law or agreed to in writing, software
// distributed under the License is distributed on an "AS IS" BASIS,
// WITHOUT WARRANTIES OR CONDITIONS OF ANY KIND, either express or implied.
// See the License for the specific language governing permissions and
// limitations under the License.

package ice

import (
	"bytes"
	"encoding/binary"
	"math"
	"sort"
	"sync"

	"github.com/RoaringBitmap/roaring"
	"github.com/blevesearch/vellum"
	segment "github.com/blugelabs/bluge_segment_api"
)

var newSegmentBufferNumResultsBump = 100
var newSegmentBufferNumResultsFactor = 1.0
var newSegmentBufferAvgBytesPerDocFactor = 1.0

// New creates an in-memory implementation
// of a segment for the source documents
func New(results []segment.Document, normCalc func(string, int) float32) (
	segment.Segment, uint64, error) {
	return newWithChunkMode(results, normCalc, defaultChunkMode)
}

func newWithChunkMode(results []segment.Document, normCalc func(string, int) float32,
	chunkMode uint32) (segment.Segment, uint64, error) {
	s := interimPool.Get().(*interim)

	s.normCalc = normCalc

	var br bytes.Buffer
	if s.lastNumDocs > 0 {
		// use previous results to initialize the buf with an estimate
		// size, but note that the interim instance comes from a
		// global interimPool, so multiple index instances indexing
		// different docs can lead to low quality estimates
		estimateAvgBytesPerDoc := int(float64(s.lastOutSize/s.lastNumDocs) *
			newSegmentBufferNumResultsFactor)
		estimateNumResults := int(float64(len(results)+newSegmentBufferNumResultsBump) *
			newSegmentBufferAvgBytesPerDocFactor)
		br.Grow(estimateAvgBytesPerDoc * estimateNumResults)
	}

	s.results = results
	s.chunkMode = chunkMode
	s.w = newCountHashWriter(&br)

	var footer *footer
	footer, dictOffsets, storedFieldChunkOffsets, err := s.convert()
	if err != nil {
		return nil, uint64(0), err
	}
	footer.crc = s.w.Sum32()
	footer.chunkMode = chunkMode
	footer.numDocs = uint64(len(results))

	sb, err := initSegmentBase(br.Bytes(), footer,
		s.FieldsMap, s.FieldsInv,
		s.FieldDocs, s.FieldFreqs,
		dictOffsets, storedFieldChunkOffsets)

	if err == nil && s.reset() == nil {
		s.lastNumDocs = len(results)
		s.lastOutSize = len(br.Bytes())
		interimPool.Put(s)
	}

	return sb, uint64(len(br.Bytes())), err
}

func initSegmentBase(mem []byte, footer *footer,
	fieldsMap map[string]uint16, fieldsInv []string,
	fieldsDocs, fieldsFreqs map[uint16]uint64,
	dictLocs []uint64, storedFieldChunkOffsets []uint64) (*Segment, error) {
	sb := &Segment{
		data:                    segment.NewDataBytes(mem),
		footer:                  footer,
		fieldsMap:               fieldsMap,
		fieldsInv:               fieldsInv,
		fieldDocs:               fieldsDocs,
		fieldFreqs:              fieldsFreqs,
		dictLocs:                dictLocs,
		fieldDvReaders:          make(map[uint16]*docValueReader),
		fieldFSTs:               make(map[uint16]*vellum.FST),
		storedFieldChunkOffsets: storedFieldChunkOffsets,
	}
	sb.updateSize()

	err := sb.loadDvReaders()
	if err != nil {
		return nil, err
	}

	return sb, nil
}

var interimPool = sync.Pool{New: func() interface{} { return &interim{} }}

// interim holds temporary working data used while converting from
// the source operations to an encoded segment
type interim struct {
	results []segment.Document

	chunkMode uint32

	w *countHashWriter

	// FieldsMap adds 1 to field id to avoid zero value issues
	//  name -> field id + 1
	FieldsMap map[string]uint16

	// FieldsInv is the inverse of FieldsMap
	//  field id -> name
	FieldsInv []string

	// FieldDocs tracks how many documents have at least one value
	// for each field
	FieldDocs map[uint16]uint64

	// FieldFreqs tracks how many total tokens there are in a field
	// across all documents
	FieldFreqs map[uint16]uint64

	// Term dictionaries for each field
	//  field id -> term -> postings list id + 1
	Dicts []map[string]uint64

	// Terms for each field, where terms are sorted ascending
	//  field id -> []term
	DictKeys [][]string

	// Fields whose IncludeDocValues is true
	//  field id -> bool
	IncludeDocValues []bool

	// postings id -> bitmap of docNums
	Postings []*roaring.Bitmap

	// postings id -> freq/norm's, one for each docNum in postings
	FreqNorms        [][]interimFreqNorm
	freqNormsBacking []interimFreqNorm

	// postings id -> locs, one for each freq
	Locs        [][]interimLoc
	locsBacking []interimLoc

	numTermsPerPostingsList []int // key is postings list id
	numLocsPerPostingsList  []int // key is postings list id

	builder    *vellum.Builder
	builderBuf bytes.Buffer

	metaBuf bytes.Buffer

	tmp0 []byte
	tmp1 []byte

	lastNumDocs int
	lastOutSize int

	normCalc func(string, int) float32
}

func (s *interim) reset() (err error) {
	s.results = nil
	s.chunkMode = 0
	s.w = nil
	s.FieldsMap = nil
	s.FieldsInv = nil
	for i := range s.Dicts {
		s.Dicts[i] = nil
	}
	s.Dicts = s.Dicts[:0]
	for i := range s.DictKeys {
		s.DictKeys[i] = s.DictKeys[i][:0]
	}
	s.DictKeys = s.DictKeys[:0]
	for i := range s.IncludeDocValues {
		s.IncludeDocValues[i] = false
	}
	s.IncludeDocValues = s.IncludeDocValues[:0]
	for _, idn := range s.Postings {
		idn.Clear()
	}
	s.Postings = s.Postings[:0]
	s.FreqNorms = s.FreqNorms[:0]
	for i := range s.freqNormsBacking {
		s.freqNormsBacking[i] = interimFreqNorm{}
	}
	s.freqNormsBacking = s.freqNormsBacking[:0]
	s.Locs = s.Locs[:0]
	for i := range s.locsBacking {
		s.locsBacking[i] = interimLoc{}
	}
	s.locsBacking = s.locsBacking[:0]
	s.numTermsPerPostingsList = s.numTermsPerPostingsList[:0]
	s.numLocsPerPostingsList = s.numLocsPerPostingsList[:0]
	s.builderBuf.Reset()
	if s.builder != nil {
		err = s.builder.Reset(&s.builderBuf)
	}
	s.metaBuf.Reset()
	s.tmp0 = s.tmp0[:0]
	s.tmp1 = s.tmp1[:0]
	s.lastNumDocs = 0
	s.lastOutSize = 0

	return err
}

func (s *interim) grabBuf(size int) []byte {
	buf := s.tmp0
	if cap(buf) < size {
		buf = make([]byte, size)
		s.tmp0 = buf
	}
	return buf[0:size]
}

type interimStoredField struct {
	vals [][]byte
}

type interimFreqNorm struct {
	freq    uint64
	norm    float32
	numLocs int
}

type interimLoc struct {
	fieldID uint16
	pos     uint64
	start   uint64
	end     uint64
}

func (s *interim) convert() (f *footer, dictOffsets, storedFieldChunkOffsets []uint64, err error) {
	s.FieldsMap = map[string]uint16{}
	s.FieldDocs = map[uint16]uint64{}
	s.FieldFreqs = map[uint16]uint64{}

	// FIXME review if this is still necessary
	// YES, integration tests fail when removed
	s.getOrDefineField(_idFieldName) // _id field is fieldID 0

	for _, result := range s.results {
		result.EachField(func(field segment.Field) {
			s.getOrDefineField(field.Name())
		})
	}

	sort.Strings(s.FieldsInv[1:]) // keep _id as first field

	for fieldID, fieldName := range s.FieldsInv {
		s.FieldsMap[fieldName] = uint16(fieldID + 1)
	}

	if cap(s.IncludeDocValues) >= len(s.FieldsInv) {
		s.IncludeDocValues = s.IncludeDocValues[:len(s.FieldsInv)]
	} else {
		s.IncludeDocValues = make([]bool, len(s.FieldsInv))
	}

	s.prepareDicts()

	for _, dict := range s.DictKeys {
		sort.Strings(dict)
	}

	s.processDocuments()

	var storedIndexOffset uint64
	storedIndexOffset, storedFieldChunkOffsets, err = s.writeStoredFields()
	if err != nil {
		return nil, nil, nil, err
	}

	var fdvIndexOffset uint64

	if len(s.results) > 0 {
		fdvIndexOffset, dictOffsets, err = s.writeDicts()
		if err != nil {
			return nil, nil, nil, err
		}
	} else {
		dictOffsets = make([]uint64, len(s.FieldsInv))
	}

	fieldsIndexOffset, err := persistFields(s.FieldsInv, s.FieldDocs, s.FieldFreqs, s.w, dictOffsets)
	if err != nil {
		return nil, nil, nil, err
	}

	return &footer{
		storedIndexOffset: storedIndexOffset,
		fieldsIndexOffset: fieldsIndexOffset,
		docValueOffset:    fdvIndexOffset,
		version:           Version,
	}, dictOffsets, storedFieldChunkOffsets, nil
}

func (s *interim) getOrDefineField(fieldName string) int {
	fieldIDPlus1, exists := s.FieldsMap[fieldName]
	if !exists {
		fieldIDPlus1 = uint16(len(s.FieldsInv) + 1)
		s.FieldsMap[fieldName] = fieldIDPlus1
		s.FieldsInv = append(s.FieldsInv, fieldName)

		s.Dicts = append(s.Dicts, make(map[string]uint64))

		n := len(s.DictKeys)
		if n < cap(s.DictKeys) {
			s.DictKeys = s.DictKeys[:n+1]
			s.DictKeys[n] = s.DictKeys[n][:0]
		} else {
			s.DictKeys = append(s.DictKeys, []string(nil))
		}
	}

	return int(fieldIDPlus1 - 1)
}

// fill Dicts and DictKeys from analysis results
func (s *interim) prepareDicts() {
	var pidNext int

	var totTFs int
	var totLocs int

	for _, result := range s.results {
		pidNext, totLocs, totTFs = s.prepareDictsForDocument(result, pidNext, totLocs, totTFs)
	}

	numPostingsLists := pidNext

	if cap(s.Postings) >= numPostingsLists {
		s.Postings = s.Postings[:numPostingsLists]
	} else {
		postings := make([]*roaring.Bitmap, numPostingsLists)
		copy(postings, s.Postings[:cap(s.Postings)])
		for i := 0; i < numPostingsLists; i++ {
			if postings[i] == nil {
				postings[i] = roaring.New()
			}
		}
		s.Postings = postings
	}

	if cap(s.FreqNorms) >= numPostingsLists {
		s.FreqNorms = s.FreqNorms[:numPostingsLists]
	} else {
		s.FreqNorms = make([][]interimFreqNorm, numPostingsLists)
	}

	if cap(s.freqNormsBacking) >= totTFs {
		s.freqNormsBacking = s.freqNormsBacking[:totTFs]
	} else {
		s.freqNormsBacking = make([]interimFreqNorm, totTFs)
	}

	freqNormsBacking := s.freqNormsBacking
	for pid, numTerms := range s.numTermsPerPostingsList {
		s.FreqNorms[pid] = freqNormsBacking[0:0]
		freqNormsBacking = freqNormsBacking[numTerms:]
	}

	if cap(s.Locs) >= numPostingsLists {
		s.Locs = s.Locs[:numPostingsLists]
	} else {
		s.Locs = make([][]interimLoc, numPostingsLists)
	}

	if cap(s.locsBacking) >= totLocs {
		s.locsBacking = s.locsBacking[:totLocs]
	} else {
		s.locsBacking = make([]interimLoc, totLocs)
	}

	locsBacking := s.locsBacking
	for pid, numLocs := range s.numLocsPerPostingsList {
		s.Locs[pid] = locsBacking[0:0]
		locsBacking = locsBacking[numLocs:]
	}
}

func (s *interim) prepareDictsForDocument(result segment.Document, pidNext, totLocs, totTFs int) (
	pidNextOut, totLocsOut, totTFsOut int) {
	fieldsSeen := map[uint16]struct{}{}
	result.EachField(func(field segment.Field) {
		fieldID := uint16(s.getOrDefineField(field.Name()))

		fieldsSeen[fieldID] = struct{}{}
		s.FieldFreqs[fieldID] += uint64(field.Length())

		dict := s.Dicts[fieldID]
		dictKeys := s.DictKeys[fieldID]

		var numTerms int
		field.EachTerm(func(term segment.FieldTerm) {
			numTerms++
			termStr := string(term.Term())
			pidPlus1, exists := dict[termStr]
			if !exists {
				pidNext++
				pidPlus1 = uint64(pidNext)

				dict[termStr] = pidPlus1
				dictKeys = append(dictKeys, termStr)

				s.numTermsPerPostingsList = append(s.numTermsPerPostingsList, 0)
				s.numLocsPerPostingsList = append(s.numLocsPerPostingsList, 0)
			}

			pid := pidPlus1 - 1

			s.numTermsPerPostingsList[pid]++

			var numLocations int
			term.EachLocation(func(_ segment.Location) {
				numLocations++
			})
			s.numLocsPerPostingsList[pid] += numLocations

			totLocs += numLocations
		})

		totTFs += numTerms

		s.DictKeys[fieldID] = dictKeys
	})
	// record fields seen by this doc
	for k := range fieldsSeen {
		s.FieldDocs[k]++
	}
	return pidNext, totLocs, totTFs
}

func (s *interim) processDocuments() {
	numFields := len(s.FieldsInv)
	reuseFieldLens := make([]int, numFields)
	reuseFieldTFs := make([]tokenFrequencies, numFields)

	for docNum, result := range s.results {
		for i := 0; i < numFields; i++ { // clear these for reuse
			reuseFieldLens[i] = 0
			reuseFieldTFs[i] = nil
		}

		s.processDocument(uint64(docNum), result,
			reuseFieldLens, reuseFieldTFs)
	}
}

func (s *interim) processDocument(docNum uint64,
	result segment.Document,
	fieldLens []int, fieldTFs []tokenFrequencies) {
	visitField := func(field segment.Field) {
		fieldID := uint16(s.getOrDefineField(field.Name()))
		fieldLens[fieldID] += field.Length()

		if existingFreqs := fieldTFs[fieldID]; existingFreqs == nil {
			fieldTFs[fieldID] = make(map[string]*tokenFreq)
		}

		existingFreqs := fieldTFs[fieldID]
		field.EachTerm(func(term segment.FieldTerm) {
			tfk := string(term.Term())
			existingTf, exists := existingFreqs[tfk]
			if exists {
				term.EachLocation(func(location segment.Location) {
					existingTf.Locations = append(existingTf.Locations,
						&tokenLocation{
							FieldVal:    field.Name(),
							StartVal:    location.Start(),
							EndVal:      location.End(),
							PositionVal: location.Pos(),
						})
				})
				existingTf.frequency += term.Frequency()
			} else {
				newTf := &tokenFreq{
					TermVal:   term.Term(),
					frequency: term.Frequency(),
				}
				term.EachLocation(func(location segment.Location) {
					newTf.Locations = append(newTf.Locations,
						&tokenLocation{
							FieldVal:    location.Field(),
							StartVal:    location.Start(),
							EndVal:      location.End(),
							PositionVal: location.Pos(),
						})
				})
				existingFreqs[tfk] = newTf
			}
		})
	}

	result.EachField(visitField)

	// now that it's been rolled up into fieldTFs, walk that
	for fieldID, tfs := range fieldTFs {
		dict := s.Dicts[fieldID]
		norm := s.normCalc(s.FieldsInv[fieldID], fieldLens[fieldID])

		for term, tf := range tfs {
			pid := dict[term] - 1
			bs := s.Postings[pid]
			bs.Add(uint32(docNum))

			s.FreqNorms[pid] = append(s.FreqNorms[pid],
				interimFreqNorm{
					freq:    uint64(tf.Frequency()),
					norm:    norm,
					numLocs: len(tf.Locations),
				})

			if len(tf.Locations) > 0 {
				locs := s.Locs[pid]

				for _, loc := range tf.Locations {
					var locf = uint16(fieldID)
					if loc.FieldVal != "" {
						locf = uint16(s.getOrDefineField(loc.FieldVal))
					}
					locs = append(locs, interimLoc{
						fieldID: locf,
						pos:     uint64(loc.PositionVal),
						start:   uint64(loc.StartVal),
						end:     uint64(loc.EndVal),
					})
				}

				s.Locs[pid] = locs
			}
		}
	}
}

func (s *interim) writeStoredFields() (
	storedIndexOffset uint64, storedFieldChunkOffsets []uint64, err error) {
	varBuf := make([]byte, binary.MaxVarintLen64)
	metaEncode := func(val uint64) (int, error) {
		wb := binary.PutUvarint(varBuf, val)
		return s.metaBuf.Write(varBuf[:wb])
	}

	data, compressed := s.tmp0[:0], s.tmp1[:0]
	defer func() { s.tmp0, s.tmp1 = data, compressed }()

	// keyed by docNum
	docStoredOffsets := make([]uint64, len(s.results))

	// keyed by fieldID, for the current doc in the loop
	docStoredFields := map[uint16]interimStoredField{}

	// document chunk coder
	docChunkCoder := newChunkedDocumentCoder(uint64(defaultDocumentChunkSize), s.w)

	for docNum, result := range s.results {
		for fieldID := range docStoredFields { // reset for next doc
			delete(docStoredFields, fieldID)
		}

		result.EachField(func(field segment.Field) {
			fieldID := uint16(s.getOrDefineField(field.Name()))

			if field.Store() {
				isf := docStoredFields[fieldID]
				isf.vals = append(isf.vals, field.Value())
				docStoredFields[fieldID] = isf
			}

			if field.IndexDocValues() {
				s.IncludeDocValues[fieldID] = true
			}
		})

		var curr int

		s.metaBuf.Reset()
		data = data[:0]

		// handle fields
		for fieldID := 0; fieldID < len(s.FieldsInv); fieldID++ {
			isf, exists := docStoredFields[uint16(fieldID)]
			if exists {
				curr, data, err = encodeStoredFieldValues(
					fieldID, isf.vals,
					curr, metaEncode, data)
				if err != nil {
					return 0, nil, err
				}
			}
		}

		metaBytes := s.metaBuf.Bytes()
		docStoredOffsets[docNum] = docChunkCoder.Size()
		_, err = docChunkCoder.Add(uint64(docNum), metaBytes, data)
		if err != nil {
			return 0, nil, err
		}
	}

	// document chunk coder
	err = docChunkCoder.Write()
	if err != nil {
		return 0, nil, err
	}
	storedFieldChunkOffsets = docChunkCoder.Offsets()

	storedIndexOffset = uint64(s.w.Count())

	for _, docStoredOffset := range docStoredOffsets {
		err = binary.Write(s.w, binary.BigEndian, docStoredOffset)
		if err != nil {
			return 0, nil, err
		}
	}

	return storedIndexOffset, storedFieldChunkOffsets, nil
}

func (s *interim) writeDicts() (fdvIndexOffset uint64, dictOffsets []uint64, err error) {
	dictOffsets = make([]uint64, len(s.FieldsInv))

	fdvOffsetsStart := make([]uint64, len(s.FieldsInv))
	fdvOffsetsEnd := make([]uint64, len(s.FieldsInv))

	buf := s.grabBuf(binary.MaxVarintLen64)

	// these int coders are initialized with chunk size 1024
	// however this will be reset to the correct chunk size
	// while processing each individual field-term section
	tfEncoder := newChunkedIntCoder(uint64(legacyChunkMode), uint64(len(s.results)-1))
	locEncoder := newChunkedIntCoder(uint64(legacyChunkMode), uint64(len(s.results)-1))

	var docTermMap [][]byte

	if s.builder == nil {
		s.builder, err = vellum.New(&s.builderBuf, nil)
		if err != nil {
			return 0, nil, err
		}
	}

	for fieldID, terms := range s.DictKeys {
		err2 := s.writeDictsField(docTermMap, fieldID, terms, tfEncoder, locEncoder, buf, dictOffsets, fdvOffsetsStart, fdvOffsetsEnd)
		if err2 != nil {
			return 0, nil, err2
		}
	}

	fdvIndexOffset = uint64(s.w.Count())

	for i := 0; i < len(fdvOffsetsStart); i++ {
		n := binary.PutUvarint(buf, fdvOffsetsStart[i])
		_, err := s.w.Write(buf[:n])
		if err != nil {
			return 0, nil, err
		}
		n = binary.PutUvarint(buf, fdvOffsetsEnd[i])
		_, err = s.w.Write(buf[:n])
		if err != nil {
			return 0, nil, err
		}
	}

	return fdvIndexOffset, dictOffsets, nil
}

func (s *interim) writeDictsField(docTermMap [][]byte, fieldID int, terms []string, tfEncoder,
	locEncoder *chunkedIntCoder, buf []byte, dictOffsets, fdvOffsetsStart, fdvOffsetsEnd []uint64) error {
	if cap(docTermMap) < len(s.results) {
		docTermMap = make([][]byte, len(s.results))
	} else {
		docTermMap = docTermMap[0:len(s.results)]
		for docNum := range docTermMap { // reset the docTermMap
			docTermMap[docNum] = docTermMap[docNum][:0]
		}
	}

	dict := s.Dicts[fieldID]

	for _, term := range terms { // terms are already sorted
		err2 := s.writeDictsTermField(docTermMap, dict, term, tfEncoder, locEncoder, buf)
		if err2 != nil {
			return err2
		}
	}

	err := s.builder.Close()
	if err != nil {
		return err
	}

	// record where this dictionary starts
	dictOffsets[fieldID] = uint64(s.w.Count())

	vellumData := s.builderBuf.Bytes()

	// write out the length of the vellum data
	n := binary.PutUvarint(buf, uint64(len(vellumData)))
	_, err = s.w.Write(buf[:n])
	if err != nil {
		return err
	}

	// write this vellum to disk
	_, err = s.w.Write(vellumData)
	if err != nil {
		return err
	}

	// reset vellum for reuse
	s.builderBuf.Reset()

	err = s.builder.Reset(&s.builderBuf)
	if err != nil {
		return err
	}

	// write the field doc values
	// NOTE: doc values continue to use legacy chunk mode
	chunkSize, err := getChunkSize(legacyChunkMode, 0, 0)
	if err != nil {
		return err
	}
	fdvEncoder := newChunkedContentCoder(chunkSize, uint64(len(s.results)-1), s.w, false)
	if s.IncludeDocValues[fieldID] {
		for docNum, docTerms := range docTermMap {
			if len(docTerms) > 0 {
				err = fdvEncoder.Add(uint64(docNum), docTerms)
				if err != nil {
					return err
				}
			}
		}
		err = fdvEncoder.Close()
		if err != nil {
			return err
		}

		fdvOffsetsStart[fieldID] = uint64(s.w.Count())

		_, err = fdvEncoder.Write()
		if err != nil {
			return err
		}

		fdvOffsetsEnd[fieldID] = uint64(s.w.Count())

		fdvEncoder.Reset()
	} else {
		fdvOffsetsStart[fieldID] = fieldNotUninverted
		fdvOffsetsEnd[fieldID] = fieldNotUninverted
	}
	return nil
}

func (s *interim) writeDictsTermField(docTermMap [][]byte, dict map[string]uint64, term string, tfEncoder,
	locEncoder *chunkedIntCoder, buf []byte) error {
	pid := dict[term] - 1

	postingsBS := s.Postings[pid]

	freqNorms := s.FreqNorms[pid]
	freqNormOffset := 0

	locs := s.Locs[pid]
	locOffset := 0

	chunkSize, err := getChunkSize(s.chunkMode, postingsBS.GetCardinality(), uint64(len(s.results)))
	if err != nil {
		return err
	}
	tfEncoder.SetChunkSize(chunkSize, uint64(len(s.results)-1))
	locEncoder.SetChunkSize(chunkSize, uint64(len(s.results)-1))

	postingsItr := postingsBS.Iterator()
	for postingsItr.HasNext() {
		docNum := uint64(postingsItr.Next())

		freqNorm := freqNorms[freqNormOffset]

		err = tfEncoder.Add(docNum,
			encodeFreqHasLocs(freqNorm.freq, freqNorm.numLocs > 0),
			uint64(math.Float32bits(freqNorm.norm)))
		if err != nil {
			return err
		}

		if freqNorm.numLocs > 0 {
			numBytesLocs := 0
			for _, loc := range locs[locOffset : locOffset+freqNorm.numLocs] {
				numBytesLocs += totalUvarintBytes(
					uint64(loc.fieldID), loc.pos, loc.start, loc.end)
			}

			err = locEncoder.Add(docNum, uint64(numBytesLocs))
			if err != nil {
				return err
			}

			for _, loc := range locs[locOffset : locOffset+freqNorm.numLocs] {
				err = locEncoder.Add(docNum,
					uint64(loc.fieldID), loc.pos, loc.start, loc.end)
				if err != nil {
					return err
				}
			}

			locOffset += freqNorm.numLocs
		}

		freqNormOffset++

		docTermMap[docNum] = append(
			append(docTermMap[docNum], term...),
			termSeparator)
	}

	tfEncoder.Close()
	locEncoder.Close()

	var postingsOffset uint64
	postingsOffset, err =
		writePostings(postingsBS, tfEncoder, locEncoder, nil, s.w, buf)
	if err != nil {
		return err
	}

	if postingsOffset > uint64(0) {
		err = s.builder.Insert([]byte(term), postingsOffset)
		if err != nil {
			return err
		}
	}

	tfEncoder.Reset()
	locEncoder.Reset()
	return nil
}

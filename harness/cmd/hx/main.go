// Command hx generates correspondence cases for one property, runs them on the
// real ice package and writes, per case, the flat scenario (cases.in), the
// implementation's flat transcript (cases.exp), a readable form (cases.jsonl)
// and run statistics (stats.json).  The driver (bin/check) then evaluates the
// Coq model on cases.in and compares.
package main

import (
	"bufio"
	"crypto/sha256"
	"encoding/hex"
	"encoding/json"
	"flag"
	"fmt"
	"os"
	"path/filepath"
	"sort"
	"strconv"
	"strings"
	"time"

	"verif/harness/hx"
)

func writeNums(w *bufio.Writer, xs hx.W) {
	for i, x := range xs {
		if i > 0 {
			w.WriteByte(' ')
		}
		w.WriteString(strconv.FormatUint(x, 10))
	}
	w.WriteByte('\n')
}

type Stats struct {
	Prop        string         `json:"prop"`
	Tier        string         `json:"tier"`
	Seed        int64          `json:"seed"`
	Cases       int            `json:"cases"`
	Distinct    int            `json:"distinct"`
	Nontrivial  int            `json:"distinct_nontrivial"`
	Rule        string         `json:"rule"`
	Families    map[string]int `json:"families"`
	Tags        map[string]int `json:"tags"`
	OpCounts    map[string]int `json:"op_counts"`
	Touched     map[string]int `json:"touched"`
	DocSizes    map[string]int `json:"doc_count_histogram"`
	GoChecks    int            `json:"go_checks"`
	GoFailures  []GoFailure    `json:"go_failures"`
	Samples     []interface{}  `json:"samples"`
	WallS       float64        `json:"wall_s"`
	TranscriptN int            `json:"transcript_numbers"`
	Extra       map[string]interface{} `json:"extra,omitempty"`
	Special     *hx.Special            `json:"special,omitempty"`
}

type GoFailure struct {
	Case  int    `json:"case"`
	Prop  string `json:"prop"`
	What  string `json:"what"`
}

var opNames = map[int]string{1: "build", 2: "merge", 3: "reload", 10: "obs_all", 11: "dict", 12: "iter",
	13: "stored", 14: "dv", 15: "docs_matching", 16: "stats", 17: "contains"}

func sizeBucket(n int) string {
	switch {
	case n == 0:
		return "0"
	case n == 1:
		return "1"
	case n <= 8:
		return "2-8"
	case n <= 40:
		return "9-40"
	case n <= 128:
		return "41-128"
	case n <= 1024:
		return "129-1024"
	default:
		return ">1024"
	}
}

func main() {
	prop := flag.String("prop", "", "property id")
	tier := flag.String("tier", "quick", "quick|thorough")
	seed := flag.Int64("seed", 1, "PRNG seed")
	out := flag.String("out", "", "output directory")
	replay := flag.String("replay", "", "replay file (JSON case) to run instead of generating")
	noSpecial := flag.Bool("nospecial", false, "skip the Go-side special exploration of the property")
	goldenWrite := flag.String("golden-write", "", "(re)create the golden corpus of reference-written files in this directory and exit")
	flag.Parse()
	if *goldenWrite != "" {
		if err := hx.WriteGolden(*goldenWrite); err != nil {
			fmt.Fprintln(os.Stderr, err)
			os.Exit(1)
		}
		return
	}
	if *out == "" {
		fmt.Fprintln(os.Stderr, "need -out")
		os.Exit(2)
	}
	os.MkdirAll(*out, 0o755)
	tmp := filepath.Join(*out, "tmp")
	os.MkdirAll(tmp, 0o755)
	defer os.RemoveAll(tmp)
	start := time.Now()

	var cases []*hx.Case
	var rule []string
	extra := map[string]interface{}{}
	if *replay != "" {
		data, err := os.ReadFile(*replay)
		if err != nil {
			fmt.Fprintln(os.Stderr, err)
			os.Exit(2)
		}
		var rp struct {
			Case *hx.Case `json:"case"`
		}
		if err := json.Unmarshal(data, &rp); err != nil || rp.Case == nil {
			fmt.Fprintln(os.Stderr, "replay file has no case:", err)
			os.Exit(2)
		}
		cases = []*hx.Case{rp.Case}
	} else {
		cases, rule = hx.PlanCases(*prop, *tier, *seed)
	}
	var special *hx.Special
	if *replay == "" && !*noSpecial {
		special = hx.RunSpecial(*prop, *tier, *seed, tmp)
	}

	fin, _ := os.Create(filepath.Join(*out, "cases.in"))
	fexp, _ := os.Create(filepath.Join(*out, "cases.exp"))
	fjs, _ := os.Create(filepath.Join(*out, "cases.jsonl"))
	win, wexp, wjs := bufio.NewWriterSize(fin, 1<<20), bufio.NewWriterSize(fexp, 1<<20), bufio.NewWriterSize(fjs, 1<<20)

	st := &Stats{Prop: *prop, Tier: *tier, Seed: *seed, Families: map[string]int{}, Tags: map[string]int{},
		OpCounts: map[string]int{}, Touched: map[string]int{}, DocSizes: map[string]int{}, Extra: extra}
	seen := map[string]bool{}
	nontrivTags := hx.NontrivialTags(*prop)
	for i, c := range cases {
		c.Index = i
		in := hx.NewInterp(hx.Current, tmp)
		transcript := in.RunScenario(c.Ops)
		extraFails := hx.PostChecks(*prop, c, in, transcript)
		in.Close()
		input := hx.EncodeScenario(c.Ops) // after running: the interpreter may normalise ops
		writeNums(win, input)
		writeNums(wexp, transcript)
		js, _ := json.Marshal(c)
		wjs.Write(js)
		wjs.WriteByte('\n')
		st.TranscriptN += len(transcript)
		st.Families[c.Family]++
		for k, v := range in.Touched {
			st.Touched[k] += v
			if v > 0 {
				c.Tags = append(c.Tags, k)
			}
		}
		for _, t := range c.Tags {
			st.Tags[t]++
		}
		for _, o := range c.Ops {
			st.OpCounts[opNames[o.Code]]++
			if o.Code == hx.OpBuild {
				st.DocSizes[sizeBucket(len(o.Batch))]++
			}
		}
		h := sha256.Sum256([]byte(strings.Trim(fmt.Sprint([]uint64(input)), "[]")))
		key := hex.EncodeToString(h[:8])
		if !seen[key] {
			seen[key] = true
			st.Distinct++
			nt := false
			for _, t := range c.Tags {
				if nontrivTags[t] {
					nt = true
				}
			}
			if nt {
				st.Nontrivial++
			}
		}
		st.GoChecks += 1
		for _, f := range append(in.Failed, extraFails...) {
			st.GoFailures = append(st.GoFailures, GoFailure{Case: i, Prop: f.Prop, What: f.What})
		}
		if len(st.Samples) < 2 && len(c.Ops) > 0 && len(input) < 1500 {
			st.Samples = append(st.Samples, map[string]interface{}{"case": c, "transcript_len": len(transcript)})
		}
	}
	win.Flush()
	wexp.Flush()
	wjs.Flush()
	fin.Close()
	fexp.Close()
	fjs.Close()
	st.Cases = len(cases)
	var tags []string
	for t := range nontrivTags {
		tags = append(tags, t)
	}
	sort.Strings(tags)
	st.Rule = strings.Join(rule, "; ") + "; a case is non-trivial when it carries one of the tags {" + strings.Join(tags, ", ") + "}; distinct = distinct flat scenario encodings"
	if len(st.Samples) == 0 && len(cases) > 0 {
		st.Samples = append(st.Samples, map[string]interface{}{"family": cases[0].Family, "tags": cases[0].Tags, "ops": len(cases[0].Ops)})
	}
	st.Special = special
	st.WallS = time.Since(start).Seconds()
	js, _ := json.MarshalIndent(st, "", " ")
	os.WriteFile(filepath.Join(*out, "stats.json"), js, 0o644)
}

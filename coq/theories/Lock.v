(* Lock.v - lock skeletons of Go functions and the checker that decides whether
   every path releases the mutex (C19).  The translator regenerates the skeleton
   of every function of /repo that touches a sync.Mutex; GenTie evaluates
   [balanced] on it; Lock_Proofs.v proves the checker sound for a path semantics. *)
From Ice Require Export Base.

Inductive skel :=
| KNop                       (* any statement without lock effect and without return *)
| KLock                      (* m.Lock() *)
| KUnlock                    (* m.Unlock() *)
| KDeferUnlock               (* defer m.Unlock() *)
| KRet                       (* return *)
| KSeq (a b : skel)
| KIf (t e : skel)           (* if .. { t } else { e }; also switch/select with two arms nested *)
| KLoop (body : skel).       (* for .. { body }: zero or more iterations; break/continue are not modelled (rejected by the translator) *)

Record lstate := mkLS { held : bool; deferred : bool }.
Inductive kind := Fall | Ret.

Definition ls_eqb (a b : lstate) : bool :=
  Bool.eqb (held a) (held b) && Bool.eqb (deferred a) (deferred b).

(* all outcomes of a skeleton from a state; None = a path locks a held mutex
   (self-deadlock), unlocks a free one, or a loop body changes the lock state *)
Fixpoint exec (s : skel) (st : lstate) : option (list (kind * lstate)) :=
  match s with
  | KNop => Some [(Fall, st)]
  | KLock => if held st then None else Some [(Fall, mkLS true (deferred st))]
  | KUnlock => if held st then Some [(Fall, mkLS false (deferred st))] else None
  | KDeferUnlock => Some [(Fall, mkLS (held st) true)]
  | KRet => Some [(Ret, st)]
  | KSeq a b =>
      match exec a st with
      | None => None
      | Some outs =>
          fold_right (fun o acc =>
              match acc with
              | None => None
              | Some l =>
                  match o with
                  | (Ret, st') => Some ((Ret, st') :: l)
                  | (Fall, st') =>
                      match exec b st' with
                      | None => None
                      | Some l' => Some (l' ++ l)
                      end
                  end
              end) (Some []) outs
      end
  | KIf t e =>
      match exec t st, exec e st with
      | Some a, Some b => Some (a ++ b)
      | _, _ => None
      end
  | KLoop body =>
      match exec body st with
      | None => None
      | Some outs =>
          if forallb (fun o => match o with (Fall, st') => ls_eqb st' st | (Ret, _) => true end) outs
          then Some ((Fall, st) :: filter (fun o => match o with (Ret, _) => true | _ => false end) outs)
          else None
      end
  end.

(* at function exit a deferred Unlock runs: the mutex is free iff not held or deferred-unlocked exactly once *)
Definition released (st : lstate) : bool := negb (held st) || deferred st.
(* a deferred unlock of a mutex that is no longer held is a runtime fatal error *)
Definition exit_ok (st : lstate) : bool := if deferred st then held st else negb (held st).

Definition balanced (s : skel) : bool :=
  match exec s (mkLS false false) with
  | None => false
  | Some outs => forallb (fun o => exit_ok (snd o)) outs
  end.

(* Writer.v - the control model behind C12: a destination that starts failing
   after k bytes, bufio.Writer with its sticky error, a persist/merge as a
   sequence of write sites (each checked by the caller or not) closed by a
   checked Flush; and cancellation as polls between phases.  Only byte counts
   matter for the verdict, so data is abstracted to lengths. *)
From Ice Require Export Base.

(* the destination accepts [room] more bytes and fails every write after that *)
Record dest := mkDest { room : N; accepted : N }.

(* dest.Write(n bytes) -> (written, error?) *)
Definition dest_write (d : dest) (n : N) : dest * N * bool :=
  if n <=? room d then (mkDest (room d - n) (accepted d + n), n, false)
  else (mkDest 0 (accepted d + room d), room d, true).

(* bufio.Writer: size, buffered count, sticky error *)
Record bw := mkBW { size : N; buffered : N; sticky : bool; under : dest }.

Definition bw_new (sz : N) (d : dest) : bw := mkBW (if sz =? 0 then 4096 else sz) 0 false d.

(* Flush: err sticky; n == 0 -> nil; write buf[0:n]; on error keep the rest buffered *)
Definition bw_flush (b : bw) : bw * bool :=
  if sticky b then (b, true)
  else if buffered b =? 0 then (b, false)
  else
    let '(d', n, err) := dest_write (under b) (buffered b) in
    if err then (mkBW (size b) (buffered b - n) true d', true)
    else (mkBW (size b) 0 false d', false).

(* Write(p) with len(p) = n, following bufio.Writer.Write:
   for len(p) > Available && err == nil { if Buffered == 0 { write p directly } else { fill; Flush } } ; copy the rest *)
Fixpoint bw_write_loop (fuel : nat) (b : bw) (n : N) : bw * bool :=
  match fuel with
  | O => (b, sticky b)
  | S f =>
      if ((size b - buffered b) <? n) && negb (sticky b) then
        if buffered b =? 0 then
          let '(d', w, err) := dest_write (under b) n in
          bw_write_loop f (mkBW (size b) 0 err d') (n - w)
        else
          let avail := size b - buffered b in
          let '(b', _) := bw_flush (mkBW (size b) (buffered b + avail) (sticky b) (under b)) in
          bw_write_loop f b' (n - avail)
      else if sticky b then (b, true)
      else (mkBW (size b) (buffered b + n) false (under b), false)
  end.
Definition bw_write (b : bw) (n : N) : bw * bool := bw_write_loop 4 b n.

(* a write site: number of bytes, and whether the caller looks at the error *)
Definition site := (N * bool)%type.

(* run the sites in order; a checked site that sees an error aborts with an error;
   the final Flush is checked (Merger.WriteTo / Segment.WriteTo) *)
Fixpoint run_sites (b : bw) (sites : list site) : bw * bool :=
  match sites with
  | [] => bw_flush b
  | (n, checked) :: rest =>
      let '(b', err) := bw_write b n in
      if err && checked then (b', true) else run_sites b' rest
  end.

Definition total_bytes (sites : list site) : N := sumN (map fst sites).

(* Merger.WriteTo / Segment.WriteTo footer part: result = error? and the bytes that reached the destination *)
Definition writeto (bufsize k : N) (sites : list site) : bool * N :=
  let '(b, err) := run_sites (bw_new bufsize (mkDest k 0)) sites in (err, accepted (under b)).

(* ---- cancellation: a merge is a list of phases; before a phase the close
   channel may be polled; [closed_from] is the phase index from which the channel is closed ---- *)
Inductive cres := CClosed | CDone (written : N).
Fixpoint run_phases (i closed_from : nat) (acc : N) (phases : list (bool * N)) : cres :=
  match phases with
  | [] => CDone acc
  | (poll, n) :: rest =>
      if poll && Nat.leb closed_from i then CClosed
      else run_phases (S i) closed_from (acc + n) rest
  end.

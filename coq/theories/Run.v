(* Run.v - the scenario language of the correspondence check.
   A scenario arrives as a flat list of numbers (written by the Go harness, which
   ran the same scenario on the real package); [run_flat] decodes it, interprets
   it on the model and returns the flat transcript, which must equal the
   implementation's transcript.  Executable only; no proofs here. *)
From Ice Require Import Base Spec Varint Chunk Postings Crc32 Footer Stored DocValues Dict Container.
From Ice Require Builder.
From Ice Require Import Units.

(* ---- parser over a flat list of numbers ---- *)
Definition P (A : Type) := list N -> option (A * list N).
Definition pret {A} (x : A) : P A := fun s => Some (x, s).
Definition pbind {A B} (p : P A) (f : A -> P B) : P B :=
  fun s => match p s with Some (x, s') => f x s' | None => None end.
Notation "'let%p' x := p 'in' k" := (pbind p (fun x => k))
  (at level 200, x pattern, p at level 100, k at level 200, right associativity).

Definition pnum : P N := fun s => match s with x :: s' => Some (x, s') | [] => None end.
Definition pbool : P bool := let%p x := pnum in pret (negb (x =? 0)).

Fixpoint prep {A} (p : P A) (n : nat) : P (list A) :=
  match n with
  | O => pret []
  | S n' => let%p x := p in let%p xs := prep p n' in pret (x :: xs)
  end.
Definition plist {A} (p : P A) : P (list A) :=
  let%p n := pnum in prep p (N.to_nat n).
Definition pbytes : P bytes := plist pnum.
Definition popt {A} (p : P A) : P (option A) :=
  let%p t := pnum in if t =? 0 then pret None else let%p x := p in pret (Some x).

Definition ploc : P Loc :=
  let%p f := pbytes in let%p a := pnum in let%p b := pnum in let%p c := pnum in
  pret (mkLoc f a b c).
Definition pterm : P Term :=
  let%p t := pbytes in let%p fr := pnum in let%p ls := plist ploc in pret (mkTerm t fr ls).
Definition pfield : P Field :=
  let%p n := pbytes in let%p l := pnum in let%p st := pbool in let%p dv := pbool in
  let%p v := pbytes in let%p ts := plist pterm in pret (mkField n l st dv v ts).
Definition pbatch : P Batch := plist (plist pfield).

(* ---- scenario operations ---- *)
Inductive op :=
| OBuild (cm : N) (b : Batch)
| OMerge (cm : N) (ins : list (N * list N))
| OReload (slot kind : N)
| OObsAll (slot : N)
| ODict (slot : N) (f : bytes) (lo hi pre : option bytes)
| OIter (slot : N) (f t : bytes) (except : option (list N)) (fl : bool * bool * bool)
        (replace : option (list N)) (ops : list iter_op)
| OStored (slot n : N) (stop : option N)
| ODV (slot : N) (fields : list bytes) (visits : list N)
| ODocsMatching (slot : N) (terms : list (bytes * bytes))
| OStats (slot : N) (f : bytes)
| OContains (slot : N) (f t : bytes)
| OFooter (slot : N) (file : bytes)
| OLayout (slot : N) (dvflags : list bool)
| OContainer (slot : N) (file : bytes)
| OInterim (b : Batch)
| OUnit (which : N) (script : list cop)
| OEnum (itrs : list (list (bytes * N))) (script : list eop).

Definition piterop : P iter_op :=
  let%p k := pnum in
  if k =? 0 then pret INext else let%p d := pnum in pret (IAdvance d).

Definition pcop : P cop :=
  let%p k := pnum in
  match k with
  | 0 => let%p a := pnum in let%p b := pnum in pret (CNew a b)
  | 1 => pret CReset
  | 2 => let%p a := pnum in let%p b := pnum in pret (CSetChunkSize a b)
  | 3 => let%p d := pnum in let%p vals := plist pnum in let%p meta := pbytes in
         let%p data := pbytes in pret (CAdd d vals meta data)
  | 4 => pret CClose
  | _ => pret CWrite
  end.

Definition pop : P op :=
  let%p code := pnum in
  match code with
  | 1 => let%p cm := pnum in let%p b := pbatch in pret (OBuild cm b)
  | 2 => let%p cm := pnum in
         let%p ins := plist (let%p s := pnum in let%p d := plist pnum in pret (s, d)) in
         pret (OMerge cm ins)
  | 3 => let%p s := pnum in let%p k := pnum in pret (OReload s k)
  | 10 => let%p s := pnum in pret (OObsAll s)
  | 11 => let%p s := pnum in let%p f := pbytes in let%p lo := popt pbytes in
          let%p hi := popt pbytes in let%p pre := popt pbytes in pret (ODict s f lo hi pre)
  | 12 => let%p s := pnum in let%p f := pbytes in let%p t := pbytes in
          let%p ex := popt (plist pnum) in
          let%p a := pbool in let%p b := pbool in let%p c := pbool in
          let%p rep := popt (plist pnum) in
          let%p _ := pnum in let%p _ := pnum in     (* object-reuse slots: ignored by the model *)
          let%p ops := plist piterop in
          pret (OIter s f t ex (a, b, c) rep ops)
  | 13 => let%p s := pnum in let%p n := pnum in let%p st := popt pnum in pret (OStored s n st)
  | 14 => let%p s := pnum in let%p _ := pnum in let%p fs := plist pbytes in
          let%p vs := plist pnum in pret (ODV s fs vs)
  | 15 => let%p s := pnum in
          let%p ts := plist (let%p f := pbytes in let%p t := pbytes in pret (f, t)) in
          pret (ODocsMatching s ts)
  | 16 => let%p s := pnum in let%p f := pbytes in pret (OStats s f)
  | 17 => let%p s := pnum in let%p f := pbytes in let%p t := pbytes in pret (OContains s f t)
  | 20 => let%p s := pnum in let%p b := pbytes in pret (OFooter s b)
  | 21 => let%p s := pnum in let%p fl := plist pbool in pret (OLayout s fl)
  | 22 => let%p s := pnum in let%p b := pbytes in pret (OContainer s b)
  | 23 => let%p b := pbatch in pret (OInterim b)
  | 24 => let%p sc := plist pcop in pret (OUnit 24 sc)
  | 25 => let%p sc := plist pcop in pret (OUnit 25 sc)
  | 26 => let%p sc := plist pcop in pret (OUnit 26 sc)
  | 27 => let%p its := plist (plist (let%p k := pbytes in let%p v := pnum in pret (k, v))) in
          let%p sc := plist (let%p k := pnum in
                             pret (match k with 0 => ECurrent | 1 => ELow | _ => ENext end)) in
          pret (OEnum its sc)
  | _ => fun _ => None
  end.

(* ---- transcript encoding ---- *)
Definition w_aloc (l : ALoc) : list N :=
  let '(f, (p, (s, e))) := l in w_bytes f ++ [p; s; e].
Definition w_posting (p : APosting) : list N :=
  let '(d, (fr, (nm, ls))) := p in [d; fr; nm] ++ w_list w_aloc ls.
Definition w_pair (p : bytes * bytes) : list N := w_bytes (fst p) ++ w_bytes (snd p).
Definition w_dictentry (e : bytes * N) : list N := w_bytes (fst e) ++ [snd e].
Definition w_stats (s : N * (N * N)) : list N := let '(a, (b, c)) := s in [a; b; c].

(* the harness norm function: a positive, finite float32 bit pattern *)
Definition harness_norm (name : bytes) (len : N) : N :=
  (if len mod 3 =? 0 then 1073741824 else 1056964608) + (len * 131 + sumN name) mod 1048576.

(* the three user flags collapse to two internal ones *)
Definition flags_fn (fl : bool * bool * bool) : bool :=
  let '(a, b, c) := fl in a || b || c.
Definition flags_locs (fl : bool * bool * bool) : bool := let '(_, _, c) := fl in c.

Definition w_step (fl : bool * bool * bool) (o : option APosting) : list N :=
  match o with
  | None => [0]
  | Some p => 1 :: w_posting (deliver (flags_fn fl) (flags_locs fl) p)
  end.

Definition obs_all (A : ASeg) : list N :=
  w_list w_bytes (o_fields A) ++ [o_count A] ++
  flat_map' (fun f =>
     w_stats (o_stats A f) ++
     w_list w_dictentry (o_dict A f None None None) ++
     flat_map' (fun t => w_list w_posting (o_postings A f t)) (o_terms A f))
   (o_fields A) ++
  flat_map' (fun nd => w_list w_pair (o_stored A (fst nd))) (number_from 0 (as_docs A)) ++
  flat_map' (fun nd => w_list w_pair (o_dv A (o_fields A) (fst nd))) (number_from 0 (as_docs A)).

(* a segment slot remembers how it was written: the chunk mode and whether a
   merge wrote it (only merges use the 1-hit encoding) *)
Record Slot := mkSlot {
  sl_seg : ASeg; sl_cm : N; sl_merged : bool;
  (* (field, term) pairs the merger did not 1-hit encode although one posting survives:
     finishTerm looks at the frequency and number reported by the LAST input segment
     whose dictionary has the term, and that segment contributed no surviving posting *)
  sl_no1hit : list (bytes * bytes) }.

Definition slot (st : list Slot) (s : N) : ASeg :=
  match nthN st (N.to_nat s) with Some x => sl_seg x | None => mkASeg [] [] [] end.
Definition slot_full (st : list Slot) (s : N) : Slot :=
  opt_default (mkSlot (mkASeg [] [] []) 1025 false []) (nthN st (N.to_nat s)).

(* the stored form of a term's postings in a segment written with chunk mode cm *)
Definition to_eposting (fields : list bytes) (p : APosting) : EPosting :=
  let '(d, (fr, (nm, ls))) := p in
  (d, (fr, (nm, map (fun l => (opt_default 0 (index_of (fst l) fields 0), snd l)) ls))).

Definition mask31 : N := 2147483647.

Definition encode_term (sl : Slot) (f t : bytes) : EncPL :=
  let A := sl_seg sl in
  let ps := map (to_eposting (as_fields A)) (o_postings A f t) in
  let one_hit :=
    match ps with
    | [p] => sl_merged sl && negb (ep_hasLocs p) && (ep_doc p <=? mask31) && (ep_freq p =? 1)
             && negb (existsb (fun ft => beq (fst ft) f && beq (snd ft) t) (sl_no1hit sl))
    | _ => false
    end in
  match ps, one_hit with
  | [p], true => E1Hit (ep_doc p) (N.land (ep_norm p) mask31)
  | _, _ =>
      let cs := opt_default 0 (getChunkSize (sl_cm sl) (lenN ps) (o_count A)) in
      encode_gen cs (N.to_nat (num_chunks cs (o_count A - 1))) ps
  end.

Definition w_delivered (o : option APosting) : list N :=
  match o with None => [0] | Some p => 1 :: w_posting p end.

(* the iterator op runs the L1 cursor machine over the encoded postings *)
Definition run_iter_l1 (sl : Slot) (f t : bytes) (ex : option (list N)) (fl : bool * bool * bool)
           (rep : option (list N)) (ops : list iter_op) : list N :=
  let e := encode_term sl f t in
  let absent := match o_postings (sl_seg sl) f t with [] => true | _ => false end in
  if absent then 0 :: flat_map' (fun _ => [0]) ops
  else
    let i0 := it_init e ex (flags_fn fl) (flags_locs fl) (as_fields (sl_seg sl)) None in
    let i1 := match rep with Some bm => it_replace i0 bm | None => i0 end in
    match it_run i1 ops with
    | Ok outs => pl_count e ex :: flat_map' w_delivered outs
    | Err => [4294967294; 1]
    | _ => [4294967294; 2]
    end.

(* ---- stored fields through the L1 record model ---- *)
Definition svals_of (fields : list bytes) (d : ADoc) : SVals :=
  map (fun p => (opt_default 0 (index_of (fst p) fields 0), snd p)) (ad_stored d).

Definition run_stored_l1 (A : ASeg) (n : N) (stop : option N) : list N :=
  if o_count A <=? n then [0]
  else
    let blk := n / block_docs in
    let docs := firstn (N.to_nat block_docs) (skipn (N.to_nat (blk * block_docs)) (as_docs A)) in
    let svs := map (svals_of (as_fields A)) docs in
    let off := nth (N.to_nat (n mod block_docs)) (block_offsets 0 svs) 0 in
    match visit_stored (block_of svs) off (as_fields A) stop with
    | Ok vals => w_list w_pair vals
    | Err => [4294967294; 1]
    | _ => [4294967294; 2]
    end.

(* ---- doc values through the L1 chunk/reader model ---- *)
Definition dv_entries (A : ASeg) (f : bytes) : list (N * bytes) :=
  flat_map' (fun nd : N * ADoc =>
     match doc_field (snd nd) f with
     | Some df => if adf_dv df then [(fst nd, dv_bytes (map fst (adf_terms df)))] else []
     | None => []
     end) (number_from 0 (as_docs A)).

Definition dv_readers (A : ASeg) : list (bytes * DvReader) :=
  let nch := N.to_nat ((o_count A - 1) / dv_chunk_docs + 1) in
  map (fun f => (f, dv_open (dv_chunks nch (dv_entries A f)))) (as_fields A).

Definition run_dv_l1 (A : ASeg) (fields : list bytes) (visits : list N) : list N :=
  match dv_run (dv_readers A) fields visits with
  | Ok outs => flat_map' (w_list w_pair) outs
  | Err => [4294967294; 1]
  | _ => [4294967294; 2]
  end.

(* ---- the dictionary through the L1 scratch-list model ---- *)
Definition fst_entries (sl : Slot) (f : bytes) : list (bytes * FstVal) :=
  map (fun t => (t, match encode_term sl f t with
                    | E1Hit d nb => V1Hit d nb
                    | EGen docs _ _ _ => VGen docs
                    end)) (o_terms (sl_seg sl) f).

Definition run_dict_l1 (sl : Slot) (f : bytes) (lo hi pre : option bytes) : list N :=
  w_list w_dictentry (dict_iter pl_read pl_zero (fst_search (fst_entries sl f) lo hi pre)).

(* ---- the logical layout of the whole file, as the pinned format defines it ---- *)
Definition w_term_layout (sl : Slot) (f t : bytes) : list N :=
  w_bytes t ++
  match encode_term sl f t with
  | E1Hit d nb => [1; d; nb]
  | EGen docs cs fch lch =>
      [0] ++ w_list (fun x => [x]) docs ++ [cs] ++ w_list w_bytes fch ++
      match lch with
      | Some l => [1] ++ w_list w_bytes l
      | None => [0]
      end
  end.

Definition w_dvchunk (c : DvChunk) : list N :=
  w_list (fun h : N * N => [fst h; snd h]) (dvc_header c) ++ w_bytes (dvc_data c).

Definition stored_layout (A : ASeg) : list bytes * list N :=
  let fix go (fuel : nat) (docs : list ADoc) : list bytes * list N :=
    match fuel with
    | O => ([], [])
    | S f =>
        match docs with
        | [] => ([], [])
        | _ =>
            let svs := map (svals_of (as_fields A)) (firstn (N.to_nat block_docs) docs) in
            let '(bs, os) := go f (skipn (N.to_nat block_docs) docs) in
            (block_of svs :: bs, block_offsets 0 svs ++ os)
        end
    end in
  go (S (length (as_docs A))) (as_docs A).

Definition layout (sl : Slot) (dvflags : list bool) : list N :=
  let A := sl_seg sl in
  let nch := N.to_nat ((o_count A - 1) / dv_chunk_docs + 1) in
  let '(blocks, offs) := stored_layout A in
  [o_count A; sl_cm sl] ++
  w_list (fun fb : bytes * bool =>
     let f := fst fb in
     let st := o_stats A f in
     w_bytes f ++ [fst (snd st); snd (snd st)] ++
     w_list (w_term_layout sl f) (o_terms A f) ++
     (if snd fb then [1] ++ w_list w_dvchunk (dv_chunks nch (dv_entries A f)) else [0]))
   (combine (as_fields A) (dvflags ++ repeat false (length (as_fields A)))) ++
  w_list w_bytes blocks ++ w_list (fun x => [x]) offs ++
  [if forallb (fun fb : bytes * bool => snd fb || match dv_entries A (fst fb) with [] => true | _ => false end)
             (combine (as_fields A) (dvflags ++ repeat false (length (as_fields A)))) then 1 else 0].

(* does input (A, drops) have a surviving document with term t in field f? *)
Definition survives_in (A : ASeg) (drops : list N) (f t : bytes) : bool :=
  existsb (fun nd : N * ADoc => negb (memN (fst nd) drops) && mem beq t (map fst (doc_terms (snd nd) f)))
          (number_from 0 (as_docs A)).

(* the last input whose dictionary has the term decides what finishTerm sees;
   [tl] pairs every input with its terms of the field (computed once per field) *)
Definition last_with_term (tl : list ((ASeg * list N) * list bytes)) (t : bytes) : option (ASeg * list N) :=
  fold_left (fun acc p => if mem beq t (snd p) then Some (fst p) else acc) tl None.

Definition merge_no1hit (ins : list (ASeg * list N)) (M : ASeg) : list (bytes * bytes) :=
  flat_map' (fun f =>
    let tl := map (fun p => (p, o_terms (fst p) f)) ins in
    flat_map' (fun t =>
      (* only a term with exactly one surviving posting can be 1-hit encoded at all *)
      match o_postings M f t with
      | [_] =>
          match last_with_term tl t with
          | Some (A, dr) => if survives_in A dr f t then [] else [(f, t)]
          | None => []
          end
      | _ => []
      end) (o_terms M f)) (as_fields M).

Definition step (st : list Slot) (o : op) : list Slot * list N :=
  match o with
  | OBuild cm b => let A := abs_of_batch harness_norm b in (st ++ [mkSlot A cm false []], [o_count A])
  | OMerge cm ins =>
      let '(A, nums) := merge_spec (map (fun p => (slot st (fst p), snd p)) ins) in
      (st ++ [mkSlot A cm true (merge_no1hit (map (fun p => (slot st (fst p), snd p)) ins) A)],
       w_list (w_list (fun x => [x])) nums ++ [o_count A])
  | OReload s _ => (st ++ [slot_full st s], [o_count (slot st s)])
  | OObsAll s => (st, obs_all (slot st s))
  | ODict s f lo hi pre => (st, run_dict_l1 (slot_full st s) f lo hi pre)
  | OIter s f t ex fl rep ops => (st, run_iter_l1 (slot_full st s) f t ex fl rep ops)
  | OStored s n stop => (st, run_stored_l1 (slot st s) n stop)
  | ODV s fs vs => (st, run_dv_l1 (slot st s) fs vs)
  | ODocsMatching s ts => (st, w_list (fun x => [x]) (o_docsmatching (slot st s) ts))
  | OStats s f => (st, w_stats (o_stats (slot st s) f))
  | OContains s f t => (st, w_bool (o_contains (slot st s) f t))
  | OFooter s file =>
      (* the real bytes of a persisted file: parse the footer, recompute the CRC *)
      (st, match parse_footer file with
           | Ok ft => [lenN file; ft_numDocs ft; ft_stored ft; ft_fields ft; ft_dv ft;
                       ft_chunkMode ft; ft_version ft;
                       if crc_ok file && (ft_numDocs ft =? o_count (slot st s))
                          && (ft_chunkMode ft =? sl_cm (slot_full st s)) then 1 else 0]
           | _ => [4294967294; 1]
           end)
  | OLayout s fl => (st, layout (slot_full st s) fl)
  | OInterim b =>
      (* the statement-by-statement builder model (field numbering, counting pass, windows of
         the backing arrays, per-document pass in input order of the map, the final walk) *)
      (st, w_list (fun ft : bytes * list (bytes * list EPosting) =>
                     w_bytes (fst ft) ++
                     w_list (fun tp : bytes * list EPosting =>
                               w_bytes (fst tp) ++
                               w_list (fun p : EPosting =>
                                         [ep_doc p; ep_freq p; ep_norm p] ++
                                         w_list (fun l : ELoc => let '(f, (a, (b0, c))) := l in [f; a; b0; c]) (ep_locs p))
                                      (snd tp)) (snd ft))
                  (Builder.build_postings_model harness_norm (fun _ _ l => l) b))
  | OUnit which sc =>
      (* operation scripts on the models of the chunk coders (Units.v) *)
      (st, if which =? 24 then run_intcoder None sc
           else if which =? 25 then run_contentcoder None sc
           else run_doccoder StoredWriter.dc_new sc)
  | OEnum its sc => (st, run_enum_script its sc)
  | OContainer s file =>
      (* the byte-exact loader models on the real bytes of the file *)
      (st, match parse_footer file with
           | Ok ft =>
               let data := drop_last footerLen file in
               match load_fields data (ft_fields ft),
                     load_stored_chunk_offsets data (ft_stored ft),
                     load_dv_locs data (ft_dv ft) (ft_numDocs ft)
                                  (match load_fields data (ft_fields ft) with Ok fs => length fs | _ => O end) with
               | Ok fs, Ok offs, Ok dvl =>
                   let docoffs :=
                     map (fun d => match doc_stored_offset data (ft_stored ft) (N.of_nat d) with
                                   | Ok (_, v) => v | _ => 4294967294 end)
                         (seq 0 (N.to_nat (ft_numDocs ft))) in
                   w_list (fun f : field_rec => let '(dl, nm, dc, fq) := f in [dl] ++ w_bytes nm ++ [dc; fq]) fs ++
                   w_list (fun x => [x]) offs ++ w_list (fun x => [x]) docoffs ++
                   w_list (fun p : N * N => [fst p; snd p]) dvl
               | _, _, _ => [4294967294; 1]
               end
           | _ => [4294967294; 1]
           end)
  end.

Fixpoint run_ops (st : list Slot) (ops : list op) : list N :=
  match ops with
  | [] => []
  | o :: ops' => let '(st', out) := step st o in (lenN out :: out) ++ run_ops st' ops'
  end.

(* undecodable input yields the one-element transcript [4294967295] *)
Definition run_flat (input : list N) : list N :=
  match plist pop input with
  | Some (ops, []) => run_ops [] ops
  | _ => [4294967295]
  end.

Fixpoint eq_listN (a b : list N) : bool :=
  match a, b with
  | [], [] => true
  | x :: a', y :: b' => (x =? y) && eq_listN a' b'
  | _, _ => false
  end.

(* a case is (input, expected transcript); the result is the list of indexes that differ *)
Fixpoint mismatches (i : N) (cases : list (list N * list N)) : list N :=
  match cases with
  | [] => []
  | (inp, exp) :: cs =>
      (if eq_listN (run_flat inp) exp then [] else [i]) ++ mismatches (i + 1) cs
  end.

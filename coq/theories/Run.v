(* Run.v - the scenario language of the correspondence check.
   A scenario arrives as a flat list of numbers (written by the Go harness, which
   ran the same scenario on the real package); [run_flat] decodes it, interprets
   it on the model and returns the flat transcript, which must equal the
   implementation's transcript.  Executable only; no proofs here. *)
From Ice Require Import Base Spec.

(* ---- parser over a flat list of numbers ---- *)
Definition P (A : Type) := list N -> option (A * list N).
Definition pret {A} (x : A) : P A := fun s => Some (x, s).
Definition pbind {A B} (p : P A) (f : A -> P B) : P B :=
  fun s => match p s with Some (x, s') => f x s' | None => None end.
Notation "'let%p' x := p 'in' k" := (pbind p (fun x => k))
  (at level 200, x pattern, p at level 100, k at level 200, right associativity).

Definition pnum : P N := fun s => match s with x :: s' => Some (x, s') | [] => None end.
Definition pbool : P bool := let%p x := pnum in pret (negb (x =? 0)).

Fixpoint prep {A} (p : P A) (n : nat) : P (list A) :=
  match n with
  | O => pret []
  | S n' => let%p x := p in let%p xs := prep p n' in pret (x :: xs)
  end.
Definition plist {A} (p : P A) : P (list A) :=
  let%p n := pnum in prep p (N.to_nat n).
Definition pbytes : P bytes := plist pnum.
Definition popt {A} (p : P A) : P (option A) :=
  let%p t := pnum in if t =? 0 then pret None else let%p x := p in pret (Some x).

Definition ploc : P Loc :=
  let%p f := pbytes in let%p a := pnum in let%p b := pnum in let%p c := pnum in
  pret (mkLoc f a b c).
Definition pterm : P Term :=
  let%p t := pbytes in let%p fr := pnum in let%p ls := plist ploc in pret (mkTerm t fr ls).
Definition pfield : P Field :=
  let%p n := pbytes in let%p l := pnum in let%p st := pbool in let%p dv := pbool in
  let%p v := pbytes in let%p ts := plist pterm in pret (mkField n l st dv v ts).
Definition pbatch : P Batch := plist (plist pfield).

(* ---- scenario operations ---- *)
Inductive op :=
| OBuild (cm : N) (b : Batch)
| OMerge (cm : N) (ins : list (N * list N))
| OReload (slot kind : N)
| OObsAll (slot : N)
| ODict (slot : N) (f : bytes) (lo hi pre : option bytes)
| OIter (slot : N) (f t : bytes) (except : list N) (fl : bool * bool * bool)
        (replace : option (list N)) (ops : list iter_op)
| OStored (slot n : N) (stop : option N)
| ODV (slot : N) (fields : list bytes) (visits : list N)
| ODocsMatching (slot : N) (terms : list (bytes * bytes))
| OStats (slot : N) (f : bytes)
| OContains (slot : N) (f t : bytes).

Definition piterop : P iter_op :=
  let%p k := pnum in
  if k =? 0 then pret INext else let%p d := pnum in pret (IAdvance d).

Definition pop : P op :=
  let%p code := pnum in
  match code with
  | 1 => let%p cm := pnum in let%p b := pbatch in pret (OBuild cm b)
  | 2 => let%p cm := pnum in
         let%p ins := plist (let%p s := pnum in let%p d := plist pnum in pret (s, d)) in
         pret (OMerge cm ins)
  | 3 => let%p s := pnum in let%p k := pnum in pret (OReload s k)
  | 10 => let%p s := pnum in pret (OObsAll s)
  | 11 => let%p s := pnum in let%p f := pbytes in let%p lo := popt pbytes in
          let%p hi := popt pbytes in let%p pre := popt pbytes in pret (ODict s f lo hi pre)
  | 12 => let%p s := pnum in let%p f := pbytes in let%p t := pbytes in
          let%p ex := plist pnum in
          let%p a := pbool in let%p b := pbool in let%p c := pbool in
          let%p rep := popt (plist pnum) in
          let%p _ := pnum in let%p _ := pnum in     (* object-reuse slots: ignored by the model *)
          let%p ops := plist piterop in
          pret (OIter s f t ex (a, b, c) rep ops)
  | 13 => let%p s := pnum in let%p n := pnum in let%p st := popt pnum in pret (OStored s n st)
  | 14 => let%p s := pnum in let%p _ := pnum in let%p fs := plist pbytes in
          let%p vs := plist pnum in pret (ODV s fs vs)
  | 15 => let%p s := pnum in
          let%p ts := plist (let%p f := pbytes in let%p t := pbytes in pret (f, t)) in
          pret (ODocsMatching s ts)
  | 16 => let%p s := pnum in let%p f := pbytes in pret (OStats s f)
  | 17 => let%p s := pnum in let%p f := pbytes in let%p t := pbytes in pret (OContains s f t)
  | _ => fun _ => None
  end.

(* ---- transcript encoding ---- *)
Definition w_aloc (l : ALoc) : list N :=
  let '(f, (p, (s, e))) := l in w_bytes f ++ [p; s; e].
Definition w_posting (p : APosting) : list N :=
  let '(d, (fr, (nm, ls))) := p in [d; fr; nm] ++ w_list w_aloc ls.
Definition w_pair (p : bytes * bytes) : list N := w_bytes (fst p) ++ w_bytes (snd p).
Definition w_dictentry (e : bytes * N) : list N := w_bytes (fst e) ++ [snd e].
Definition w_stats (s : N * (N * N)) : list N := let '(a, (b, c)) := s in [a; b; c].

(* the harness norm function: a positive, finite float32 bit pattern *)
Definition harness_norm (name : bytes) (len : N) : N :=
  1056964608 + (len * 131 + sumN name) mod 1048576.

(* the three user flags collapse to two internal ones *)
Definition flags_fn (fl : bool * bool * bool) : bool :=
  let '(a, b, c) := fl in a || b || c.
Definition flags_locs (fl : bool * bool * bool) : bool := let '(_, _, c) := fl in c.

Definition w_step (fl : bool * bool * bool) (o : option APosting) : list N :=
  match o with
  | None => [0]
  | Some p => 1 :: w_posting (deliver (flags_fn fl) (flags_locs fl) p)
  end.

Definition obs_all (A : ASeg) : list N :=
  w_list w_bytes (o_fields A) ++ [o_count A] ++
  flat_map' (fun f =>
     w_stats (o_stats A f) ++
     w_list w_dictentry (o_dict A f None None None) ++
     flat_map' (fun t => w_list w_posting (o_postings A f t)) (o_terms A f))
   (o_fields A) ++
  flat_map' (fun nd => w_list w_pair (o_stored A (fst nd))) (number_from 0 (as_docs A)) ++
  flat_map' (fun nd => w_list w_pair (o_dv A (o_fields A) (fst nd))) (number_from 0 (as_docs A)).

Definition slot (st : list ASeg) (s : N) : ASeg :=
  opt_default (mkASeg [] [] []) (nthN st (N.to_nat s)).

Definition run_iter_spec (A : ASeg) (f t : bytes) (ex : list N) (fl : bool * bool * bool)
           (rep : option (list N)) (ops : list iter_op) : list N :=
  let all := o_postings A f t in
  let lv := filter (live ex) all in
  let actual := match rep with
                | None => lv
                | Some bm => filter (fun p => memN (fst p) bm) all
                end in
  lenN lv :: flat_map' (w_step fl) (spec_run actual ops).

Definition step (st : list ASeg) (o : op) : list ASeg * list N :=
  match o with
  | OBuild _ b => let A := abs_of_batch harness_norm b in (st ++ [A], [o_count A])
  | OMerge _ ins =>
      let '(A, nums) := merge_spec (map (fun p => (slot st (fst p), snd p)) ins) in
      (st ++ [A], w_list (w_list (fun x => [x])) nums ++ [o_count A])
  | OReload s _ => (st ++ [slot st s], [o_count (slot st s)])
  | OObsAll s => (st, obs_all (slot st s))
  | ODict s f lo hi pre => (st, w_list w_dictentry (o_dict (slot st s) f lo hi pre))
  | OIter s f t ex fl rep ops => (st, run_iter_spec (slot st s) f t ex fl rep ops)
  | OStored s n stop => (st, w_list w_pair (o_stored_stop (slot st s) n stop))
  | ODV s fs vs => (st, flat_map' (fun n => w_list w_pair (o_dv (slot st s) fs n)) vs)
  | ODocsMatching s ts => (st, w_list (fun x => [x]) (o_docsmatching (slot st s) ts))
  | OStats s f => (st, w_stats (o_stats (slot st s) f))
  | OContains s f t => (st, w_bool (o_contains (slot st s) f t))
  end.

Fixpoint run_ops (st : list ASeg) (ops : list op) : list N :=
  match ops with
  | [] => []
  | o :: ops' => let '(st', out) := step st o in (lenN out :: out) ++ run_ops st' ops'
  end.

(* undecodable input yields the one-element transcript [4294967295] *)
Definition run_flat (input : list N) : list N :=
  match plist pop input with
  | Some (ops, []) => run_ops [] ops
  | _ => [4294967295]
  end.

Fixpoint eq_listN (a b : list N) : bool :=
  match a, b with
  | [], [] => true
  | x :: a', y :: b' => (x =? y) && eq_listN a' b'
  | _, _ => false
  end.

(* a case is (input, expected transcript); the result is the list of indexes that differ *)
Fixpoint mismatches (i : N) (cases : list (list N * list N)) : list N :=
  match cases with
  | [] => []
  | (inp, exp) :: cs =>
      (if eq_listN (run_flat inp) exp then [] else [i]) ++ mismatches (i + 1) cs
  end.

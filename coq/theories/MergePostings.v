(* MergePostings.v - executable model of how the merger re-encodes the postings
   of ONE field: /repo/merge.go persistMergedRestField with setupActiveForField,
   prepareNewTerm, mergeTermFreqNormLocs, finishTerm, and /repo/write.go
   writePostings.  Every definition names the Go function it mirrors and
   follows it statement by statement.  Executable; the theorems are in
   proofs/MergePostings_Proofs.v.

   The term loop is driven by the REAL enumerator model: the list
   [Enumerator.enum_run_low_new] over one vellum iterator per input, i.e. what
   enumerator.Current() and enumerator.GetLowIdxsAndValues() return at every
   turn of `for err == nil { ... err = enumerator.Next() }`.  (The proofs
   replace it by the sorted triple list [spec_triples] through
   Enumerator_Proofs.enumerator_sorted_complete / enum_low_idxs.)

   Abstractions (all stated where they are made):
   * An FST value (file offset of a postings list, or a packed 1-hit) is the
     1-based position of the term in the input's dictionary [ai_dict];
     dict.postingsListFromOffset is the lookup [ai_postings].  Values are thus
     never 0, as in every FST written by ice.
   * tfEncoder / locEncoder / newRoaring are represented by the list [ms_ps] of
     the postings added since the last Reset/Clear, in the order of the Add
     calls, plus tfEncoder.currChunk ([ms_cur]) which decides when Close
     panics.  What the two coders hold after these Adds is given by
     IntCoder.freq_adds / loc_adds and IntCoder_Proofs.writer_encodes_gen: the
     chunk streams [chunks_of freq_entry] / [chunks_of loc_entry].
     newRoaring is the sorted duplicate free list of uint32(docNum).
   * zstd is peeled off as in Postings.v; file offsets of the written postings
     are not modelled: the value inserted in the new FST is the [EncPL] the
     reader will find there.
   * the reused objects `postings` and `postItr` carry no state from one turn to
     the next (Postings.it_init ignores the content of its [old] argument:
     Dict_Proofs.it_init_old_irrelevant), so they are not threaded.
   * closeCh is never closed (isClosed = false). *)
From Ice Require Export Base Spec Chunk Postings Enumerator.
From Ice Require Import Run.

(* ------------------------------------------------------------------ *)
(* inputs                                                              *)
(* ------------------------------------------------------------------ *)

(* one segment "in focus" for the field: the i-th entries of the slices
   newDocNums, drops, dicts, itrs returned by setupActiveForField *)
Record ActiveIn := mkActive {
  ai_fields : list bytes;            (* dicts[i].sb.fieldsInv: resolves location field ids *)
  ai_dict : list (bytes * EncPL);    (* dicts[i]: terms strictly ascending, with their postings lists *)
  ai_drops : option (list N);        (* drops[i]: nil unless the bitmap is non-empty *)
  ai_newDocNums : list N }.          (* newDocNums[i]: old -> new document numbers *)

(* merge.go setupActiveForField.  One entry per segment:
   (fieldsInv, seg.dictionary(fieldName) [None: dict == nil || dict.fst == nil],
    dropsIn[segmentI] as a list ([] for nil), newDocNumsIn[segmentI]).
     if dropsIn[segmentI] != nil && !dropsIn[segmentI].IsEmpty() { drops = append(drops, dropsIn[segmentI]) }
     else { drops = append(drops, nil) } *)
Definition setup_active
  (segs : list (list bytes * option (list (bytes * EncPL)) * list N * list N)) : list ActiveIn :=
  flat_map' (fun s =>
     let '(flds, od, dr, tbl) := s in
     match od with
     | None => []
     | Some d => [mkActive flds d (match dr with [] => None | _ :: _ => Some dr end) tbl]
     end) segs.

(* dict.fst.Iterator(nil, nil): the FST value of the k-th term is k+1 *)
Definition ai_itr (a : ActiveIn) : vitr :=
  map (fun p : N * (bytes * EncPL) => (fst (snd p), fst p + 1)) (number_from 0 (ai_dict a)).

(* dicts[i].postingsListFromOffset(v, drops[i], _) : the postings list the FST
   value designates.  A value that designates nothing makes PostingsList.read
   decode garbage; modelled as Err (unreachable: the values come from ai_itr). *)
Definition ai_postings (a : ActiveIn) (v : N) : result EncPL :=
  if v =? 0 then Err
  else match nthN (ai_dict a) (N.to_nat (v - 1)) with
       | Some (_, e) => Ok e
       | None => Err
       end.

(* ------------------------------------------------------------------ *)
(* mergeTermFreqNormLocs                                               *)
(* ------------------------------------------------------------------ *)

(* uint64(fieldsMap[loc.Field()] - 1): fieldsMap maps a name to its index + 1
   and an unknown name to 0, and 0 - 1 wraps to 65535 in uint16 *)
Definition new_field_id (newFields : list bytes) (name : bytes) : N :=
  opt_default 65535 (index_of name newFields 0).

(* what one hit adds to tfEncoder and locEncoder under its new number:
     tfEncoder.Add(hitNewDocNum, encodeFreqHasLocs(freq, len(locs) > 0), nextNorm)
     locEncoder.Add(hitNewDocNum, numBytesLocs); for each loc: locEncoder.Add(hitNewDocNum, fieldID, pos, start, end)
   (IntCoder.freq_adds / loc_adds of this EPosting).
   nextNorm = Float32bits(float32(next.Norm())) is the norm bit pattern the
   iterator decoded (the round trip through float64 is exact for non-NaN). *)
Definition emit_posting (newFields : list bytes) (newDoc : N) (hit : APosting) : EPosting :=
  let '(_, (fr, (nm, ls))) := hit in
  (newDoc, (fr, (nm, map (fun l : ALoc => (new_field_id newFields (fst l), snd l)) ls))).

(* the state mergeTermFreqNormLocs works on: its named results and the objects
   it mutates *)
Record HitSt := mkHS {
  hs_ps : list EPosting;     (* Adds to newRoaring / tfEncoder / locEncoder since the last Reset *)
  hs_cur : N;                (* tfEncoder.currChunk *)
  hs_track : list N;         (* docTracking.Add calls *)
  hs_lastDoc : N; hs_lastFreq : N; hs_lastNorm : N;   (* lastDocNum, lastFreq, lastNorm *)
  hs_sum : N }.              (* sumFreq *)

(* the body of `for next != nil && err == nil`:
     hitNewDocNum := newDocNums[next.Number()]                    // Panic: index out of range
     if hitNewDocNum == docDropped { return ..., fmt.Errorf("see hit with dropped docNum") }
     newRoaring.Add(uint32(hitNewDocNum)); docTracking.Add(uint32(hitNewDocNum))
     tfEncoder.Add(...)   // chunk := docNum/chunkSize; if chunk != currChunk { Close(); currChunk = chunk }
                          // Close panics when chunkLens[currChunk] is out of range
     locEncoder.Add(...)  // panics no earlier than tfEncoder (it sees a subset of the documents)
     lastDocNum, lastFreq, lastNorm = hitNewDocNum, nextFreq, nextNorm; sumFreq += nextFreq
   [total] is len(tfEncoder.chunkLens). *)
Definition merge_hit (newFields : list bytes) (newDocNums : list N) (cs total : N)
           (h : HitSt) (hit : APosting) : result HitSt :=
  let '(doc, (freq, (norm, _))) := hit in
  match nthN newDocNums (N.to_nat doc) with
  | None => Panic
  | Some newDoc =>
      if newDoc =? docDropped then Err
      else
        let chunk := newDoc / cs in
        if negb (chunk =? hs_cur h) && (total <=? hs_cur h) then Panic
        else Ok (mkHS (hs_ps h ++ [emit_posting newFields newDoc hit]) chunk
                      (hs_track h ++ [newDoc]) newDoc freq norm (hs_sum h + freq))
  end.

(* next, err := postItr.Next(); for next != nil && err == nil { body; next, err = postItr.Next() } *)
Fixpoint merge_tfnl_loop (fuel : nat) (newFields : list bytes) (newDocNums : list N) (cs total : N)
         (it : It) (h : HitSt) : result HitSt :=
  match fuel with
  | O => OutOfFuel
  | S k =>
      do (it', o) <- it_step it INext;
      match o with
      | None => Ok h
      | Some hit =>
          do h' <- merge_hit newFields newDocNums cs total h hit;
          merge_tfnl_loop k newFields newDocNums cs total it' h'
      end
  end.

(* ------------------------------------------------------------------ *)
(* the state of persistMergedRestField                                 *)
(* ------------------------------------------------------------------ *)

(* what finishTerm saw for a term it inserted (ghost: only the theorems read it) *)
Record TermLog := mkTL {
  tl_term : bytes;
  tl_card : N;                 (* newCard of prepareNewTerm *)
  tl_cs : N;                   (* the chunk size derived from it *)
  tl_ps : list EPosting;       (* the postings collected for the term *)
  tl_last : N * (N * N) }.     (* lastDocNum, lastFreq, lastNorm *)

Record MergeSt := mkMS {
  ms_prev : gokey;                    (* prevTerm (None = nil) *)
  ms_card : N;                        (* newCard of the last prepareNewTerm (ghost) *)
  ms_cs : N;                          (* tfEncoder.chunkSize = locEncoder.chunkSize *)
  ms_ps : list EPosting;              (* Adds to newRoaring / tfEncoder / locEncoder since the last Reset *)
  ms_cur : N;                         (* tfEncoder.currChunk *)
  ms_lastDoc : N; ms_lastFreq : N; ms_lastNorm : N;
  ms_vellum : list (bytes * EncPL);   (* newVellum.Insert calls, in order *)
  ms_track : list N;                  (* fieldDocTracking.Add calls *)
  ms_freqs : N;                       (* fieldFreqs[fieldID] *)
  ms_log : list TermLog }.

(* persistMergedRest: newChunkedIntCoder(uint64(legacyChunkMode), newSegDocCount-1), twice;
   persistMergedRestField: prevTerm = nil; newRoaring.Clear(); fieldDocTracking.Clear();
   lastDocNum, lastFreq, lastNorm = 0, 0, 0.
   fieldFreqs[fieldID] starts at 0 (each field is visited once). *)
Definition ms_init : MergeSt := mkMS None 0 legacyChunkMode [] 0 0 0 0 [] [] 0 [].

(* len(c.chunkLens) after SetChunkSize(chunkSize, newSegDocCount-1) (IntCoder.coder_setChunkSize).
   newSegDocCount = 0 would wrap newSegDocCount-1; mergeToWriter calls
   persistMergedRest only `if numDocs > 0`. *)
Definition ms_total (ndc : N) (cs : N) : N := num_chunks cs (ndc - 1).

(* newRoaring: Add(uint32(docNum)) for every posting *)
Definition new_roaring (ps : list EPosting) : list N :=
  sort_dedup_N (map (fun p => wrap32 (ep_doc p)) ps).

(* merge.go finishTerm(w, newRoaring, tfEncoder, locEncoder, newVellum, buf, term = prevTerm, &last...)
   together with write.go writePostings:
     tfEncoder.Close(); locEncoder.Close()         // Panic: chunkLens[currChunk] out of range
     termCardinality := postings.GetCardinality(); if termCardinality <= 0 { return 0, nil }
     use1HitEncoding: termCardinality == 1 && locEncoder.FinalSize() <= 0
                      && under32Bits(docNum = newRoaring.Minimum()) && docNum == *lastDocNum && *lastFreq == 1
                      -> fSTValEncode1Hit(docNum, *lastNorm)    // keeps mask31Bits & docNum, mask31Bits & normBits
     else tfEncoder.writeAt, locEncoder.writeAt (nothing written, offset 0, when FinalSize() == 0), roaring
     if postingsOffset > 0 { newVellum.Insert(term, postingsOffset) }
     newRoaring.Clear(); tfEncoder.Reset(); locEncoder.Reset(); *lastDocNum, *lastFreq, *lastNorm = 0, 0, 0
   locEncoder.FinalSize() <= 0 iff nothing was added to it (IntCoder_Proofs.finalSize_zero_iff),
   i.e. no posting has locations. *)
Definition finish_term (ndc : N) (st : MergeSt) : result MergeSt :=
  let cs := ms_cs st in
  let total := ms_total ndc cs in
  if total <=? ms_cur st then Panic
  else
    let ps := ms_ps st in
    let bm := new_roaring ps in
    let term := key_bytes (ms_prev st) in
    let hasLocs := existsb ep_hasLocs ps in
    let inserted :=
      match bm with
      | [] => []
      | docNum :: _ =>
          if (lenN bm =? 1) && negb hasLocs && (docNum <=? mask31)
             && (docNum =? ms_lastDoc st) && (ms_lastFreq st =? 1)
          then [(term, E1Hit (N.land mask31 docNum) (N.land mask31 (ms_lastNorm st)))]
          else [(term, EGen bm cs (chunks_of freq_entry cs (N.to_nat total) ps)
                            (if hasLocs then Some (chunks_of loc_entry cs (N.to_nat total) ps) else None))]
      end in
    let logged :=
      match bm with
      | [] => []
      | _ :: _ => [mkTL term (ms_card st) cs ps (ms_lastDoc st, (ms_lastFreq st, ms_lastNorm st))]
      end in
    Ok (mkMS (ms_prev st) (ms_card st) cs [] 0 0 0 0 (ms_vellum st ++ inserted)
             (ms_track st) (ms_freqs st) (ms_log st ++ logged)).

(* the loop of prepareNewTerm over enumerator.GetLowIdxsAndValues():
     for i, idx := range lowItrIdxs {
       pl, err = dicts[idx].postingsListFromOffset(lowItrVals[i], drops[idx], nil); newCard += pl.Count() }
   Panic: dicts[idx] / lowItrVals[i] index out of range *)
Fixpoint new_card (acts : list ActiveIn) (idxs : list nat) (vals : list N) : result N :=
  match idxs with
  | [] => Ok 0
  | idx :: idxs' =>
      match vals with
      | [] => Panic
      | v :: vals' =>
          match nth_error acts idx with
          | None => Panic
          | Some a =>
              do e <- ai_postings a v;
              do r <- new_card acts idxs' vals';
              Ok (pl_count e (ai_drops a) + r)
          end
      end
  end.

(* merge.go prepareNewTerm:
     newCard := (loop above)
     chunkSize, err = getChunkSize(chunkMode, newCard, newSegDocCount)     // Err: unknown chunk mode
     tfEncoder.SetChunkSize(chunkSize, newSegDocCount-1); locEncoder.SetChunkSize(...)
                                                                           // Panic: integer divide by zero *)
Definition prepare_new_term (cm ndc : N) (acts : list ActiveIn) (idxs : list nat) (vals : list N)
           (st : MergeSt) : result MergeSt :=
  do card <- new_card acts idxs vals;
  match getChunkSize cm card ndc with
  | None => Err
  | Some cs =>
      if cs =? 0 then Panic
      else Ok (mkMS (ms_prev st) card cs (ms_ps st) (ms_cur st)
                    (ms_lastDoc st) (ms_lastFreq st) (ms_lastNorm st)
                    (ms_vellum st) (ms_track st) (ms_freqs st) (ms_log st))
  end.

(* prevTerm = prevTerm[:0]; prevTerm = append(prevTerm, term...):
   stays nil only when it was nil and the term is empty *)
Definition copy_term (prev : gokey) (term : bytes) : gokey :=
  match prev, term with
  | None, [] => None
  | _, _ => Some term
  end.

(* one turn of the loop `for err == nil` of persistMergedRestField.  [x] is
   (enumerator.Current(), enumerator.GetLowIdxsAndValues()) at this turn.
     term, itrI, postingsOffset := enumerator.Current()
     if !bytes.Equal(prevTerm, term) { finishTerm(..., prevTerm, ...) }
     if !bytes.Equal(prevTerm, term) || prevTerm == nil { prepareNewTerm(...) }
     postings, err = dicts[itrI].postingsListFromOffset(postingsOffset, drops[itrI], postings)
     postItr, err = postings.iterator(true, true, true, postItr)
     lastDocNum, lastFreq, lastNorm, sumFreq, bufLoc, err = mergeTermFreqNormLocs(
         fieldsMap, postItr, newDocNums[itrI], newRoaring, tfEncoder, locEncoder, bufLoc, fieldDocTracking)
     fieldFreqs[uint16(fieldID)] += sumFreq
     prevTerm = append(prevTerm[:0], term...)
   The iterator can deliver at most pl_count postings; one more Next returns nil. *)
Definition merge_step (cm ndc : N) (newFields : list bytes) (acts : list ActiveIn)
           (st : MergeSt) (x : (bytes * nat * N) * (list nat * list N)) : result MergeSt :=
  let '((term, itrI, postingsOffset), (lowIdxs, lowVals)) := x in
  let changed := negb (beq (key_bytes (ms_prev st)) term) in
  do st1 <- (if changed then finish_term ndc st else Ok st);
  do st2 <- (if changed || key_is_nil (ms_prev st1)
             then prepare_new_term cm ndc acts lowIdxs lowVals st1 else Ok st1);
  match nth_error acts itrI with
  | None => Panic                                                    (* dicts[itrI] *)
  | Some a =>
      do e <- ai_postings a postingsOffset;
      let it := it_init e (ai_drops a) true true (ai_fields a) None in
      do h <- merge_tfnl_loop (S (N.to_nat (pl_count e (ai_drops a)))) newFields (ai_newDocNums a)
                              (ms_cs st2) (ms_total ndc (ms_cs st2)) it
                              (mkHS (ms_ps st2) (ms_cur st2) (ms_track st2) 0 0 0 0);
      Ok (mkMS (copy_term (ms_prev st2) term) (ms_card st2) (ms_cs st2) (hs_ps h) (hs_cur h)
               (hs_lastDoc h) (hs_lastFreq h) (hs_lastNorm h)
               (ms_vellum st2) (hs_track h) (ms_freqs st2 + hs_sum h) (ms_log st2))
  end.

Fixpoint merge_loop {X} (step : MergeSt -> X -> result MergeSt) (l : list X) (st : MergeSt)
  : result MergeSt :=
  match l with
  | [] => Ok st
  | x :: l' => do st' <- step st x; merge_loop step l' st'
  end.

(* the result for the field *)
Record FieldResult := mkFR {
  fr_dict : list (bytes * EncPL);   (* the new dictionary: (term, postings list) in insertion order *)
  fr_docs : N;                      (* fieldDocs[fieldID] += fieldDocTracking.GetCardinality() *)
  fr_freqs : N;                     (* fieldFreqs[fieldID] *)
  fr_log : list TermLog }.

(* what the loop body sees at every turn, from newEnumerator(itrs) to ErrIteratorDone *)
Definition merge_turns (acts : list ActiveIn) :=
  let itrs := map ai_itr acts in
  enum_run_low_new (S (total_pairs itrs)) itrs.

(* merge.go persistMergedRestField for field [fieldName] (already resolved into
   [acts] = setupActiveForField(...)): the loop, then the last finishTerm.
   [newFields] is fieldsInv of the new segment (fieldsMap = mapFields(fieldsInv)),
   [ndc] is newSegDocCount. *)
Definition merge_field (cm ndc : N) (newFields : list bytes) (acts : list ActiveIn) : result FieldResult :=
  do st <- merge_loop (merge_step cm ndc newFields acts) (merge_turns acts) ms_init;
  do st' <- finish_term ndc st;
  Ok (mkFR (ms_vellum st')
           (lenN (sort_dedup_N (map wrap32 (ms_track st'))))
           (ms_freqs st')
           (ms_log st')).

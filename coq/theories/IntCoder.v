(* IntCoder.v - the L1 model of ice's chunkedIntCoder (intcoder.go), the writer
   of the freq/norm and location streams of a postings list, and of the reader
   side that finds the chunks again (intdecoder.go newChunkedIntDecoder /
   loadChunk).  Each definition follows its Go counterpart statement by
   statement.  Executable; no proofs here, they are in proofs/IntCoder_Proofs.v.

   Abstractions (all stated where they are made):
   * zstd enters only through the two section variables zc / zd
     (ZSTDCompress / ZSTDDecompress) and three hypotheses.  zc [] = [] is what
     klauspost EncodeAll does for an empty source (it returns dst[:0]), and a
     non empty source always yields at least a frame header.
   * the slice c.chunkLens is a list; cap(c.chunkLens) is taken to be its
     length (see coder_setChunkSize for what that forgets).
   * the scratch buffers c.buf / c.compressed carry no state between calls.
   * bytes.Buffer.Write never fails (it panics on out of memory only), so the
     error results of Add/Close are always nil and are not modelled. *)
From Ice Require Export Base Varint Chunk Postings.

(* type chunkedIntCoder struct { final; chunkSize; chunkBuf; chunkLens; currChunk; buf; compressed } *)
Record coder := mkCoder {
  co_final : bytes;          (* final     []byte       *)
  co_chunkSize : N;          (* chunkSize uint64       *)
  co_chunkBuf : bytes;       (* chunkBuf  bytes.Buffer *)
  co_chunkLens : list N;     (* chunkLens []uint64     *)
  co_currChunk : N }.        (* currChunk uint64       *)

(* s[i] = v on a slice; None = index out of range *)
Fixpoint list_set (l : list N) (i : nat) (v : N) : option (list N) :=
  match l, i with
  | [], _ => None
  | _ :: l', O => Some (v :: l')
  | x :: l', S i' =>
      match list_set l' i' v with
      | Some r => Some (x :: r)
      | None => None
      end
  end.

(* s[st:en] for st <= en <= len(s) *)
Definition slice (s : bytes) (st en : N) : bytes :=
  firstn (N.to_nat (en - st)) (skipn (N.to_nat st) s).

(* total := maxDocNum/chunkSize + 1 in uint64 arithmetic.  The sum wraps only
   for chunkSize = 1 and maxDocNum = 2^64-1. *)
Definition total_chunks (chunkSize maxDocNum : N) : N := wrap64 (num_chunks chunkSize maxDocNum).

(* the values handed to binary.PutUvarint are uint64 already; this is the
   content appended to chunkBuf by the loop `for _, val := range vals` of Add *)
Definition add_bytes (vals : list N) : bytes := put_uvarints vals.

(* intcoder.go modifyLengthsToEndOffsets: running sums (Chunk.end_offsets from 0).
   uint64 wrap of runningOffset is not modelled: the lengths are those of
   byte slices that are all held in memory at once (c.final). *)
Definition modify_lengths_to_end_offsets (lengths : list N) : list N := end_offsets 0 lengths.

(* memory-less part of newChunkedIntDecoder's loop:
   for i := 0; i < numChunks; i++ { chunkOffsets[i], read = binary.Uvarint(...); n += read } *)
Fixpoint read_uvarints_n (n : nat) (s : bytes) : option (list N * bytes) :=
  match n with
  | O => Some ([], s)
  | S n' =>
      match read_uvarint s with
      | Some (Some v, s') =>
          match read_uvarints_n n' s' with
          | Some (vs, s'') => Some (v :: vs, s'')
          | None => None
          end
      | _ => None
      end
  end.

(* intdecoder.go newChunkedIntDecoder for offset != termNotEncoded.  [s] is the
   segment data from the term's offset on; the result is chunkOffsets and the
   data from dataStartOffset on.
   None stands for everything the Go function does not handle: data.Read
   failing (fewer than MaxVarintLen64 bytes left; cannot happen inside a
   segment, the footer follows) and a malformed varint, for which
   binary.Uvarint returns read <= 0 that the Go code adds to n unchecked. *)
Definition decoder_open (s : bytes) : option (list N * bytes) :=
  match read_uvarint s with                                  (* numChunks, read = binary.Uvarint(numChunksData) *)
  | Some (Some numChunks, s1) => read_uvarints_n (N.to_nat numChunks) s1
  | _ => None
  end.

(* newChunkedIntDecoder(data, offset, rv): `if offset == termNotEncoded { numChunks = 0 }`.
   The result is (startOffset, chunkOffsets, data from dataStartOffset on). *)
Definition decoder_open_at (data : bytes) (offset : N) : option (N * list N * bytes) :=
  if offset =? 0 then Some (0, [], data)
  else match decoder_open (skipn (N.to_nat offset) data) with
       | Some (offs, d) => Some (offset, offs, d)
       | None => None
       end.

Section ZSTD.
  Variables zc zd : bytes -> bytes.            (* ZSTDCompress / ZSTDDecompress *)
  Hypothesis zd_zc : forall b, zd (zc b) = b.
  Hypothesis zc_nil : zc [] = [].
  Hypothesis zc_nonnil : forall b, b <> [] -> zc b <> [].

  (* func newChunkedIntCoder(chunkSize, maxDocNum uint64) *chunkedIntCoder
     Panic: integer divide by zero *)
  Definition coder_new (chunkSize maxDocNum : N) : result coder :=
    if chunkSize =? 0 then Panic
    else
      let total := total_chunks chunkSize maxDocNum in       (* total := maxDocNum/chunkSize + 1 *)
      Ok (mkCoder []                                          (* final: make([]byte, 0, 64) *)
                  chunkSize
                  []
                  (repeat 0 (N.to_nat total))                 (* chunkLens: make([]uint64, total) *)
                  0).

  (* func (c *chunkedIntCoder) Reset() *)
  Definition coder_reset (c : coder) : coder :=
    mkCoder []                                                (* c.final = c.final[:0] *)
            (co_chunkSize c)
            []                                                (* c.chunkBuf.Reset() *)
            (map (fun _ => 0) (co_chunkLens c))               (* for i := range c.chunkLens { c.chunkLens[i] = 0 } *)
            0.                                                (* c.currChunk = 0 *)

  (* func (c *chunkedIntCoder) SetChunkSize(chunkSize, maxDocNum uint64)
       total := int(maxDocNum/chunkSize + 1)
       c.chunkSize = chunkSize
       if cap(c.chunkLens) < total { c.chunkLens = make([]uint64, total) }
       else { c.chunkLens = c.chunkLens[:total] }
     With cap = length the second branch keeps the first [total] old values.
     What is forgotten: for len < total <= cap Go re-slices and exposes the
     backing array beyond len; Reset zeroed those cells while they were within
     len and nothing wrote them since, so under the documented discipline
     (SetChunkSize only on a new coder or right after Reset) they are 0 and
     both branches yield `repeat 0 total`, which is what the model returns.
     Panic: integer divide by zero. *)
  Definition coder_setChunkSize (c : coder) (chunkSize maxDocNum : N) : result coder :=
    if chunkSize =? 0 then Panic
    else
      let total := N.to_nat (total_chunks chunkSize maxDocNum) in
      let lens := if Nat.ltb (length (co_chunkLens c)) total
                  then repeat 0 total
                  else firstn total (co_chunkLens c) in
      Ok (mkCoder (co_final c) chunkSize (co_chunkBuf c) lens (co_currChunk c)).

  (* func (c *chunkedIntCoder) Close() error
       c.compressed, err = ZSTDCompress(c.compressed[:cap(c.compressed)], c.chunkBuf.Bytes(), level)
       c.chunkLens[c.currChunk] = uint64(len(c.compressed))
       c.final = append(c.final, c.compressed...)
       c.currChunk = uint64(cap(c.chunkLens)) // sentinel to detect double close
     Panic: c.chunkLens[c.currChunk] index out of range (a second Close always
     panics: the sentinel is never a valid index). *)
  Definition coder_close (c : coder) : result coder :=
    let compressed := zc (co_chunkBuf c) in
    match list_set (co_chunkLens c) (N.to_nat (co_currChunk c)) (lenN compressed) with
    | None => Panic
    | Some lens =>
        Ok (mkCoder (co_final c ++ compressed) (co_chunkSize c) (co_chunkBuf c) lens
                    (lenN lens))
    end.

  (* func (c *chunkedIntCoder) Add(docNum uint64, vals ...uint64) error
       chunk := docNum / c.chunkSize
       if chunk != c.currChunk { c.Close(); c.chunkBuf.Reset(); c.currChunk = chunk }
       for _, val := range vals { wb := binary.PutUvarint(c.buf, val); c.chunkBuf.Write(c.buf[:wb]) }
     Panic: integer divide by zero; index out of range inside Close. *)
  Definition coder_add (c : coder) (docNum : N) (vals : list N) : result coder :=
    if co_chunkSize c =? 0 then Panic
    else
      let chunk := docNum / co_chunkSize c in
      do c1 <- (if negb (chunk =? co_currChunk c) then
                  do c' <- coder_close c;
                  Ok (mkCoder (co_final c') (co_chunkSize c') [] (co_chunkLens c') chunk)
                else Ok c);
      Ok (mkCoder (co_final c1) (co_chunkSize c1) (co_chunkBuf c1 ++ add_bytes vals)
                  (co_chunkLens c1) (co_currChunk c1)).

  (* func (c *chunkedIntCoder) Write(w io.Writer) (int, error): the bytes handed to w
       chunkOffsets := modifyLengthsToEndOffsets(c.chunkLens)
       n := binary.PutUvarint(buf, uint64(len(chunkOffsets)))
       for _, chunkOffset := range chunkOffsets { n += binary.PutUvarint(buf[n:], chunkOffset) }
       w.Write(buf[:n]); w.Write(c.final) *)
  Definition coder_write (c : coder) : bytes :=
    let chunkOffsets := modify_lengths_to_end_offsets (co_chunkLens c) in
    put_uvarint (lenN chunkOffsets) ++ put_uvarints chunkOffsets ++ co_final c.

  (* the coder after Write: modifyLengthsToEndOffsets works in place, so
     c.chunkLens holds the end offsets afterwards (Reset zeroes them again) *)
  Definition coder_after_write (c : coder) : coder :=
    mkCoder (co_final c) (co_chunkSize c) (co_chunkBuf c)
            (modify_lengths_to_end_offsets (co_chunkLens c)) (co_currChunk c).

  (* func (c *chunkedIntCoder) FinalSize() int *)
  Definition coder_finalSize (c : coder) : N := lenN (co_final c).

  (* func (c *chunkedIntCoder) writeAt(w io.Writer) (startOffset uint64, err error):
     [count] is chw.Count(); the result is (startOffset, bytes written) *)
  Definition coder_writeAt (c : coder) (count : N) : N * bytes :=
    if coder_finalSize c =? 0 then (0, [])          (* startOffset = termNotEncoded, nothing written *)
    else (count, coder_write c).

  (* the per term use of a coder in new.go writeDictsTermField and in merge.go
     prepareNewTerm / mergeTermFreqNormLocs / finishTerm:
       enc.SetChunkSize(chunkSize, maxDocNum); for each posting: enc.Add(docNum, vals...); enc.Close() *)
  Fixpoint coder_adds (c : coder) (entries : list (N * list N)) : result coder :=
    match entries with
    | [] => Ok c
    | e :: entries' => do c' <- coder_add c (fst e) (snd e); coder_adds c' entries'
    end.

  Definition run_term_from (c0 : coder) (cs maxDocNum : N) (entries : list (N * list N)) : result coder :=
    do c1 <- coder_setChunkSize c0 cs maxDocNum;
    do c2 <- coder_adds c1 entries;
    coder_close c2.

  (* on the coder made by persistDicts / persistMergedRest:
     newChunkedIntCoder(uint64(legacyChunkMode), maxDocNum) *)
  Definition run_term (cs maxDocNum : N) (entries : list (N * list N)) : result coder :=
    do c0 <- coder_new legacyChunkMode maxDocNum;
    run_term_from c0 cs maxDocNum entries.

  (* intdecoder.go loadChunk for startOffset != termNotEncoded: [offsets] is
     d.chunkOffsets, [data] the segment data from d.dataStartOffset on.
       if chunk >= len(d.chunkOffsets) { return fmt.Errorf(...) }
       s, e := readChunkBoundary(chunk, d.chunkOffsets)
       curChunkBytesData, err := d.data.Read(int(start+s), int(start+e))
       d.uncompressed, err = ZSTDDecompress(..., curChunkBytesData)
     Panic: slice bounds out of range of d.mem[start:end] (for a file backed
     segment reading past the end is an error instead). *)
  Definition decoder_chunk (offsets : list N) (data : bytes) (chunk : nat) : result bytes :=
    if Nat.leb (length offsets) chunk then Err
    else
      match readChunkBoundary chunk offsets with
      | None => Panic                              (* unreachable after the length test *)
      | Some (s, e) =>
          if (e <? s) || (lenN data <? e) then Panic
          else Ok (zd (slice data s e))
      end.

  (* loadChunk including `if d.startOffset == termNotEncoded { d.r = newMemUvarintReader(nil); return nil }` *)
  Definition decoder_loadChunk (d : N * list N * bytes) (chunk : nat) : result bytes :=
    let '(startOffset, offsets, data) := d in
    if startOffset =? 0 then Ok [] else decoder_chunk offsets data chunk.
End ZSTD.

(* ---- what the builder and the merger hand to the two coders ---- *)

(* the uncompressed content chunk c must have: the bytes of the Adds whose
   document falls into it, in the order of the calls *)
Definition entries_stream (cs c : N) (entries : list (N * list N)) : bytes :=
  flat_map' (fun e => if fst e / cs =? c then put_uvarints (snd e) else []) entries.

(* tfEncoder.Add(docNum, encodeFreqHasLocs(freq, numLocs > 0), uint64(math.Float32bits(norm))) *)
Definition freq_adds (ps : list EPosting) : list (N * list N) :=
  map (fun p => (ep_doc p, [encodeFreqHasLocs (ep_freq p) (ep_hasLocs p); ep_norm p])) ps.

(* if numLocs > 0 {
     locEncoder.Add(docNum, uint64(numBytesLocs))          // numBytesLocs = sum of totalUvarintBytes(loc)
     for each loc { locEncoder.Add(docNum, fieldID, pos, start, end) } } *)
Definition loc_adds_of (p : EPosting) : list (N * list N) :=
  match ep_locs p with
  | [] => []
  | ls => (ep_doc p, [sumN (map loc_size ls)]) :: map (fun l => (ep_doc p, loc_values l)) ls
  end.
Definition loc_adds (ps : list EPosting) : list (N * list N) := flat_map' loc_adds_of ps.

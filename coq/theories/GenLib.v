(* GenLib.v - the small runtime library of the translated code (Generated.v). *)
From Ice Require Export Base.

(* `for cond { body }` with explicit fuel; None = out of fuel *)
Fixpoint loop_fuel {S : Type} (fuel : nat) (cond : S -> bool) (body : S -> S) (s : S) : option S :=
  match fuel with
  | O => if cond s then None else Some s
  | S f => if cond s then loop_fuel f cond body (body s) else Some s
  end.

Definition unwrap_num (r : result N) : N := match r with Ok v => v | _ => 0 end.

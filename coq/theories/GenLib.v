(* GenLib.v - the small runtime library of the translated code (Generated.v). *)
From Ice Require Export Base.

(* `for cond { body }` with explicit fuel; None = out of fuel *)
Fixpoint loop_fuel {S : Type} (fuel : nat) (cond : S -> bool) (body : S -> S) (s : S) : option S :=
  match fuel with
  | O => if cond s then None else Some s
  | S f => if cond s then loop_fuel f cond body (body s) else Some s
  end.

Definition unwrap_num (r : result N) : N := match r with Ok v => v | _ => 0 end.

(* ---- runtime of the translated loaders (Generated.v, section 2c) ---- *)
From Coq Require Import ZArith.
From Ice Require Import Varint.

(* `for cond { body }` whose body can fail; the fuel is a parameter of the
   translated function.  OutOfFuel only when the condition still holds. *)
Fixpoint loop_fuel_r {S : Type} (fuel : nat) (cond : S -> bool) (body : S -> result S) (s : S)
  : result S :=
  if cond s then
    match fuel with
    | O => OutOfFuel
    | Datatypes.S f => do s' <- body s; loop_fuel_r f cond body s'
    end
  else Ok s.

(* binary.BigEndian.Uint32 / Uint64: `_ = b[w-1]` panics on a short slice, the
   first w bytes are the value *)
Definition go_be_uint (w : nat) (b : bytes) : result N :=
  if Nat.ltb (length b) w then Panic else Ok (be_value (firstn w b) 0).

(* s[i] = v on a []uint64 with an int index *)
Fixpoint list_set {A} (l : list A) (i : nat) (v : A) : list A :=
  match l, i with
  | [], _ => []
  | _ :: l', O => v :: l'
  | x :: l', Datatypes.S i' => x :: list_set l' i' v
  end.
Definition go_slice_set (l : list N) (i : Z) (v : N) : result (list N) :=
  if (i <? 0)%Z || (Z.of_nat (length l) <=? i)%Z then Panic
  else Ok (list_set l (Z.to_nat i) v).

(* make([]uint64, n) with an int length: a negative length panics *)
Definition go_make_int (n : Z) : result (list N) :=
  if (n <? 0)%Z then Panic else Ok (repeat 0 (Z.to_nat n)).

(* for i, x := range l { body } with an int index; the body can fail *)
Fixpoint range_r {A S : Type} (body : Z -> A -> S -> result S) (i : Z) (l : list A) (s : S) : result S :=
  match l with
  | [] => Ok s
  | x :: l' => do s' <- body i x s; range_r body (i + 1)%Z l' s'
  end.

(* l[i] on a []uint64 with an int index *)
Definition go_index (l : list N) (i : Z) : result N :=
  if (i <? 0)%Z then Panic
  else match nth_error l (Z.to_nat i) with Some v => Ok v | None => Panic end.

(* b[lo:hi] on a byte slice whose capacity is taken to be its length *)
Definition go_slice (b : bytes) (lo hi : Z) : result bytes :=
  if (lo <? 0)%Z || (hi <? lo)%Z || (Z.of_nat (length b) <? hi)%Z then Panic
  else Ok (firstn (Z.to_nat (hi - lo)) (skipn (Z.to_nat lo) b)).

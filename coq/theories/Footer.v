(* Footer.v - the byte-exact model of the 44-byte ice footer (footer.go,
   write.go persistFooter, count.go countHashWriter) and of the two WriteTo
   functions as far as the container is concerned. *)
From Ice Require Export Base Varint Crc32.

Definition Version : N := 2.
Definition footerLen : nat := 44.

Record footer := mkFooter {
  ft_numDocs : N; ft_stored : N; ft_fields : N; ft_dv : N;
  ft_chunkMode : N; ft_version : N; ft_crc : N }.

(* the 40 bytes that precede the CRC *)
Definition footer_body (f : footer) : bytes :=
  be_bytes 8 (ft_numDocs f) ++ be_bytes 8 (ft_stored f) ++ be_bytes 8 (ft_fields f) ++
  be_bytes 8 (ft_dv f) ++ be_bytes 4 (ft_chunkMode f) ++ be_bytes 4 Version.

(* persistFooter: a countHashWriter seeded with footer.crc (the CRC of the data
   section) hashes the body as it is written; the running CRC is written last *)
Definition persist_footer (f : footer) : bytes :=
  footer_body f ++ be_bytes 4 (crc_update (ft_crc f) (footer_body f)).

(* Segment.WriteTo after the repair: the data CRC is computed while writing *)
Definition segment_writeto (data : bytes) (f : footer) : bytes :=
  data ++ persist_footer (mkFooter (ft_numDocs f) (ft_stored f) (ft_fields f) (ft_dv f)
                                   (ft_chunkMode f) (ft_version f) (crc32 data)).

(* mergeSegmentBasesWriter: the same container shape *)
Definition merger_writeto (data : bytes) (numDocs stored fields dv chunkMode : N) : bytes :=
  data ++ persist_footer (mkFooter numDocs stored fields dv chunkMode Version (crc32 data)).

Definition take_last (n : nat) (b : bytes) : bytes := skipn (length b - n) b.
Definition drop_last (n : nat) (b : bytes) : bytes := firstn (length b - n) b.

(* parseFooter: fixed-width fields read backwards from the end of the file *)
Definition parse_footer (file : bytes) : result footer :=
  if Nat.ltb (length file) footerLen then Err
  else
    let ft := take_last footerLen file in
    let fld (off len : nat) := be_value (firstn len (skipn off ft)) 0 in
    let version := fld 36%nat 4%nat in
    if negb (version =? Version) then Err
    else Ok (mkFooter (fld 0%nat 8%nat) (fld 8%nat 8%nat) (fld 16%nat 8%nat) (fld 24%nat 8%nat)
                      (fld 32%nat 4%nat) version (fld 40%nat 4%nat)).

(* the check a reader of the file can make: the trailing CRC covers every preceding byte *)
Definition crc_ok (file : bytes) : bool :=
  be_value (take_last 4 file) 0 =? crc32 (drop_last 4 file).

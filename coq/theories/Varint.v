(* Varint.v - encoding/binary.PutUvarint and ice's memUvarintReader. *)
From Ice Require Export Base.

(* binary.PutUvarint: 7 bits per byte, least significant group first,
   continuation bit 0x80.  Fuel 10 suffices for x < 2^64 (Varint_Proofs). *)
Fixpoint put_uvarint_fuel (fuel : nat) (x : N) : bytes :=
  match fuel with
  | O => [x mod 128]
  | S f => if x <? 128 then [x] else (x mod 128 + 128) :: put_uvarint_fuel f (x / 128)
  end.
Definition put_uvarint (x : N) : bytes := put_uvarint_fuel 10 x.

Definition put_uvarints (xs : list N) : bytes := flat_map' put_uvarint xs.

(* write.go numUvarintBytes *)
Fixpoint num_uvarint_bytes_fuel (fuel : nat) (x : N) : N :=
  match fuel with
  | O => 1
  | S f => if x <? 128 then 1 else 1 + num_uvarint_bytes_fuel f (x / 128)
  end.
Definition num_uvarint_bytes (x : N) : N := num_uvarint_bytes_fuel 10 x.

(* memUvarintReader.ReadUvarint on the unread suffix S[C:].
   None = index out of range (a Go panic); Some (None, _) = overflow error. *)
Fixpoint read_uvarint_aux (s : bytes) (shift acc : N) : option (option N * bytes) :=
  match s with
  | [] => None
  | b :: rest =>
      if b <? 128 then
        if (63 <=? shift) && ((63 <? shift) || ((shift =? 63) && (1 <? b)))
        then Some (None, rest)
        else Some (Some (wrap64 (N.lor acc (wrap64 (N.shiftl b shift)))), rest)
      else read_uvarint_aux rest (shift + 7)
             (wrap64 (N.lor acc (wrap64 (N.shiftl (N.land b 127) shift))))
  end.
Definition read_uvarint (s : bytes) : option (option N * bytes) := read_uvarint_aux s 0 0.

(* memUvarintReader.SkipUvarint *)
Fixpoint skip_uvarint (s : bytes) : option bytes :=
  match s with
  | [] => None
  | b :: rest => if b <? 128 then Some rest else skip_uvarint rest
  end.

(* memUvarintReader.SkipBytes: C += count (may run past the end; Len() is then 0
   and the next read panics, which is what reading from [] does here) *)
Definition skip_bytes (count : N) (s : bytes) : bytes := skipn (N.to_nat count) s.

(* big-endian fixed width integers (encoding/binary BigEndian) *)
Fixpoint be_bytes (width : nat) (x : N) : bytes :=
  match width with
  | O => []
  | S w => be_bytes w (x / 256) ++ [x mod 256]
  end.
Fixpoint be_value (b : bytes) (acc : N) : N :=
  match b with
  | [] => acc
  | x :: b' => be_value b' (acc * 256 + x)
  end.

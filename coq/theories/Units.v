(* Units.v - operation scripts run on the models of the three chunk coders
   (IntCoder.v chunkedIntCoder, DvWriter.v chunkedContentCoder, StoredWriter.v
   chunkedDocumentCoder).  The harness runs the same scripts on the real
   coders (verif hooks VerifIntCoder / VerifContentCoder / VerifDocumentCoder)
   and compares the transcripts.  zstd is the identity here; the harness
   decompresses what the real coders emit before comparing, so the transcript
   speaks about chunk boundaries and chunk contents, not about zstd frames.

   Transcript of a script: per operation 0 (done, nothing to report), or 1
   followed by what a Write made visible, or 9 (the operation panics; the
   script ends there), or 8 (malformed script). *)
From Ice Require Import Base Varint Chunk DocValues IntCoder DvWriter StoredWriter.

Inductive cop :=
| CNew (a b : N)                          (* chunkSize, maxDocNum *)
| CReset
| CSetChunkSize (a b : N)
| CAdd (docNum : N) (vals : list N) (meta data : bytes)
| CClose
| CWrite.

Definition idz (b : bytes) : bytes := b.

(* the data section cut by the chunk lengths *)
Fixpoint cut_bytes (lens : list N) (final : bytes) : list bytes :=
  match lens with
  | [] => []
  | l :: r => firstn (N.to_nat l) final :: cut_bytes r (skipn (N.to_nat l) final)
  end.

(* ---- chunkedIntCoder ---- *)
Fixpoint run_intcoder (c : option coder) (ops : list cop) : list N :=
  match ops with
  | [] => []
  | o :: r =>
      let continue (x : result coder) :=
        match x with Ok c' => 0 :: run_intcoder (Some c') r | _ => [9] end in
      match o, c with
      | CNew a b, _ => continue (coder_new a b)
      | _, None => [8]
      | CReset, Some c => continue (Ok (coder_reset c))
      | CSetChunkSize a b, Some c => continue (coder_setChunkSize c a b)
      | CAdd d vals _ _, Some c => continue (coder_add idz c d vals)
      | CClose, Some c => continue (coder_close idz c)
      | CWrite, Some c =>
          (* Write: the number of chunks, and per chunk number the bytes a reader finds *)
          1 :: w_list w_bytes (cut_bytes (co_chunkLens c) (co_final c))
            ++ run_intcoder (Some (coder_after_write c)) r
      end
  end.

(* ---- chunkedContentCoder ---- *)
(* Reset(): c.currChunk = 0; c.final = c.final[:0]; c.chunkBuf.Reset(); c.chunkMetaBuf.Reset();
            for i := range c.chunkLens { c.chunkLens[i] = 0 }; c.chunkMeta = c.chunkMeta[:0] *)
Definition cc_reset (c : Coder) : Coder :=
  mkCoder (cc_chunkSize c) 0 (map (fun _ => 0) (cc_chunkLens c)) [] [] [].

(* Write(): modifyLengthsToEndOffsets(c.chunkLens) works in place; c.final = c.final[:0] *)
Definition cc_after_write (c : Coder) : Coder :=
  mkCoder (cc_chunkSize c) (cc_currChunk c) (end_offsets 0 (cc_chunkLens c)) (cc_meta c) (cc_buf c) [].

Definition w_chunk (c : DvChunk) : list N :=
  w_list (fun p : N * N => [fst p; snd p]) (dvc_header c) ++ w_bytes (dvc_data c).

Fixpoint run_contentcoder (c : option Coder) (ops : list cop) : list N :=
  match ops with
  | [] => []
  | o :: r =>
      let continue (x : result Coder) :=
        match x with Ok c' => 0 :: run_contentcoder (Some c') r | _ => [9] end in
      match o, c with
      | CNew a b, _ => continue (cc_new a b)
      | _, None => [8]
      | CReset, Some c => continue (Ok (cc_reset c))
      | CSetChunkSize _ _, Some _ => [8]
      | CAdd d _ _ data, Some c => continue (cc_add c d data)
      | CClose, Some c => continue (cc_close c)
      | CWrite, Some c =>
          1 :: w_list w_chunk (cc_chunks c) ++ run_contentcoder (Some (cc_after_write c)) r
      end
  end.

(* ---- chunkedDocumentCoder (chunk size = Stored.block_docs) ---- *)
Fixpoint run_doccoder (c : docCoder) (ops : list cop) : list N :=
  match ops with
  | [] => []
  | o :: r =>
      match o with
      | CAdd _ _ meta data =>
          let c' := dc_add meta data c in
          (* Add, then Size() and the number of blocks flushed so far *)
          0 :: dc_size c' :: lenN (dc_blocks c') :: run_doccoder c' r
      | CWrite =>
          let c' := dc_finish c in
          1 :: w_list w_bytes (dc_blocks c') ++ run_doccoder c' r
      | _ => [8]
      end
  end.

(* ---- enumerator.go: the k-way merge of the per-segment dictionary iterators ---- *)
From Ice Require Import Enumerator.

Inductive eop := ECurrent | ELow | ENext.

Definition w_gokey (k : gokey) : list N :=
  match k with None => [0] | Some b => 1 :: w_bytes b end.

(* the script runs on a real enumerator over fresh iterators of real vellum FSTs
   (verif hook VerifEnumerator) and on the model; it ends when Next reports
   ErrIteratorDone *)
Fixpoint run_enum (e : enumerator) (ops : list eop) : list N :=
  match ops with
  | [] => []
  | o :: r =>
      match o with
      | ECurrent =>
          let '(k, i, v) := enum_current e in
          w_gokey k ++ [N.of_nat i; v] ++ run_enum e r
      | ELow =>
          let '(idxs, vs) := enum_low_idxs_and_values e in
          w_list (fun i : nat => [N.of_nat i]) idxs ++ w_list (fun v : N => [v]) vs ++ run_enum e r
      | ENext =>
          let '(e', done) := enum_next e in
          if done then [1] else 0 :: run_enum e' r
      end
  end.

Definition run_enum_script (itrs : list vitr) (ops : list eop) : list N :=
  let '(e, done) := enum_new itrs in
  if done then [1] else 0 :: run_enum e ops.

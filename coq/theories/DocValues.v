(* DocValues.v - the L1 model of doc values: per-document term strings
   (term 0xff term 0xff ...), 1024-document chunks with a (docNum, endOffset)
   header, and the docValueReader with its one-chunk cache (docvalues.go,
   contentcoder.go).  Chunk data is uncompressed. *)
From Ice Require Export Base Chunk.

Definition termSeparator : N := 255.
Definition dv_chunk_docs : N := 1024.   (* getChunkSize(legacyChunkMode, 0, 0) *)
Definition maxInt64 : N := 9223372036854775807.

(* what the builder appends per document: every term followed by the separator *)
Definition dv_bytes (terms : list bytes) : bytes := flat_map' (fun t => t ++ [termSeparator]) terms.

(* visitDocValues: repeatedly cut at the next separator (bytes.Index); bytes
   after the last separator are ignored *)
Fixpoint split_terms (cur : bytes) (s : bytes) : list bytes :=
  match s with
  | [] => []
  | b :: s' => if b =? termSeparator then rev cur :: split_terms [] s' else split_terms (b :: cur) s'
  end.

(* one chunk: header entries (document, end offset of its bytes), data *)
Record DvChunk := mkDvChunk { dvc_header : list (N * N); dvc_data : bytes }.

(* chunkedContentCoder.Add over the documents of one chunk, in order *)
Fixpoint dv_chunk_build (docs : list (N * bytes)) (acc : N) : list (N * N) * bytes :=
  match docs with
  | [] => ([], [])
  | (d, b) :: docs' =>
      let '(h, dat) := dv_chunk_build docs' (acc + lenN b) in
      ((d, acc + lenN b) :: h, b ++ dat)
  end.
Definition dv_chunk_of (docs : list (N * bytes)) : DvChunk :=
  let '(h, dat) := dv_chunk_build docs 0 in mkDvChunk h dat.

(* all chunks of a field: entries (doc, bytes) ascending, split by doc / 1024 *)
Definition dv_chunks (nchunks : nat) (entries : list (N * bytes)) : list DvChunk :=
  map (fun c => dv_chunk_of (filter (fun e => fst e / dv_chunk_docs =? N.of_nat c) entries))
      (seq 0 nchunks).

(* ---- docValueReader ---- *)
Record DvReader := mkDvReader {
  dr_chunks : list DvChunk;      (* the field's chunks (chunkOffsets + data on storage) *)
  dr_cur : N;                    (* curChunkNum; math.MaxInt64 = nothing loaded *)
  dr_header : list (N * N);      (* curChunkHeader *)
  dr_data : option bytes }.      (* curChunkData / uncompressed; None = nil *)

Definition dv_open (chunks : list DvChunk) : DvReader := mkDvReader chunks maxInt64 [] None.

(* loadDvChunk; an empty chunk (start >= end) leaves an empty header *)
Definition dv_load (r : DvReader) (chunk : N) : result DvReader :=
  match nthN (dr_chunks r) (N.to_nat chunk) with
  | None => Panic                                  (* readChunkBoundary: index out of range *)
  | Some c =>
      match dvc_header c with
      | [] => Ok (mkDvReader (dr_chunks r) chunk [] None)
      | h => Ok (mkDvReader (dr_chunks r) chunk h (Some (dvc_data c)))
      end
  end.

(* getDocValueLocs: sort.Search for the first header entry with DocNum >= docNum *)
Fixpoint dv_locs (h : list (N * N)) (prevEnd : N) (docNum : N) : option (N * N) :=
  match h with
  | [] => None
  | (d, e) :: h' =>
      if docNum <=? d then (if d =? docNum then Some (prevEnd, e) else None)
      else dv_locs h' e docNum
  end.

Definition dv_visit_loaded (r : DvReader) (field : bytes) (docNum : N) : result (list (bytes * bytes)) :=
  match dv_locs (dr_header r) 0 docNum with
  | None => Ok []
  | Some (s, e) =>
      if s =? e then Ok []
      else match dr_data r with
           | None => Panic
           | Some dat =>
               if (s <=? e) && (e <=? lenN dat)
               then Ok (map (fun t => (field, t))
                            (split_terms [] (firstn (N.to_nat (e - s)) (skipn (N.to_nat s) dat))))
               else Panic
           end
  end.

(* visitDocumentFieldTerms for one field reader *)
Definition dv_visit (r : DvReader) (field : bytes) (docNum : N) : result (DvReader * list (bytes * bytes)) :=
  let chunk := docNum / dv_chunk_docs in
  do r1 <- (if chunk =? dr_cur r then Ok r else dv_load r chunk);
  do out <- dv_visit_loaded r1 field docNum;
  Ok (r1, out).

(* a DocumentValueReader over several fields: association list field -> reader
   (fields without doc values have no reader), visited in request order *)
Fixpoint dv_visit_fields (rs : list (bytes * DvReader)) (fields : list bytes) (docNum : N)
  : result (list (bytes * DvReader) * list (bytes * bytes)) :=
  match fields with
  | [] => Ok (rs, [])
  | f :: fields' =>
      match find (fun p => beq (fst p) f) rs with
      | None => dv_visit_fields rs fields' docNum
      | Some (_, r) =>
          do (r1, out) <- dv_visit r f docNum;
          let rs1 := map (fun p => if beq (fst p) f then (fst p, r1) else p) rs in
          do (rs2, outs) <- dv_visit_fields rs1 fields' docNum;
          Ok (rs2, out ++ outs)
      end
  end.

Fixpoint dv_run (rs : list (bytes * DvReader)) (fields : list bytes) (visits : list N)
  : result (list (list (bytes * bytes))) :=
  match visits with
  | [] => Ok []
  | n :: visits' =>
      do (rs1, out) <- dv_visit_fields rs fields n;
      do outs <- dv_run rs1 fields visits';
      Ok (out :: outs)
  end.

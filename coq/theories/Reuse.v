(* Reuse.v - object reuse in ice's read path, and the per-term record.

     (A) PostingsList / PostingsIterator objects, their reuse through the
         prealloc arguments, and the two package-level shared objects
         emptyPostingsList / emptyPostingsIterator   (dict.go, posting.go)
     (B) the Posting struct an iterator hands out again and again
         (posting.go nextAtOrAfter, i.next)
     (C) the per-term record: write.go writePostings / writeRoaringWithLen and
         posting.go PostingsList.read, byte exact around the opaque roaring bytes

   Everything is executable and structurally recursive; each definition
   follows its Go counterpart statement by statement (the Go text is quoted in
   the comments, taken from HEAD of /repo).  Proofs: proofs/Reuse_Proofs.v. *)
From Coq Require Import ZArith.
From Ice Require Export Base Varint Spec Postings Dict Container.

(* ================================================================== *)
(* (C) the per-term record                                             *)
(* ================================================================== *)

(* writePostings after the two encoders have been flushed (tfOffset, locOffset
   are what tfEncoder.writeAt / locEncoder.writeAt returned: 0 = termNotEncoded
   when the encoder was empty, else w.Count() before its bytes went out) and
   postingsOffset := uint64(w.Count()) has been taken.  roaringBytes is
   r.ToBytes() after r.RunOptimize(): opaque here. *)
Definition term_record (tfOffset locOffset : N) (roaringBytes : bytes) : bytes :=
  (* n := binary.PutUvarint(bufMaxVarintLen64, tfOffset); w.Write(bufMaxVarintLen64[:n]) *)
  put_uvarint tfOffset ++
  (* if locOffset > 0 && tfOffset > 0 { n = binary.PutUvarint(buf, locOffset-tfOffset) }
     else { n = binary.PutUvarint(buf, locOffset) };  w.Write(buf[:n])
     (uint64 subtraction: it wraps when locOffset < tfOffset) *)
  put_uvarint (if (0 <? locOffset) && (0 <? tfOffset) then u64_sub locOffset tfOffset
               else locOffset) ++
  (* writeRoaringWithLen: n := binary.PutUvarint(reuseBufVarint, uint64(len(buf)));
     w.Write(reuseBufVarint[:n]) *)
  put_uvarint (lenN roaringBytes) ++
  (* w.Write(buf) *)
  roaringBytes.

(* PostingsList.read on the general path (the caller has already seen that
   postingsOffset&fSTValEncodingMask != fSTValEncoding1Hit): the three fields in
   front of the bitmap and the bitmap's bytes.  Returns
   (p.freqOffset, p.locOffset, roaringBytes).  [read] of binary.Uvarint is not
   checked by the Go code: n += uint64(read) also for read <= 0. *)
Definition read_term_record (data : bytes) (postingsOffset : N) : result (N * N * bytes) :=
  (* var n uint64 *)
  let n := 0 in
  (* freqOffsetData, err := d.sb.data.Read(int(postingsOffset+n), int(postingsOffset+binary.MaxVarintLen64))
     if err != nil { return err } *)
  do freqOffsetData <- data_read_int data (int_of_u64 (wrap64 (postingsOffset + n)))
                                          (int_of_u64 (wrap64 (postingsOffset + 10)));
  (* p.freqOffset, read = binary.Uvarint(freqOffsetData); n += uint64(read) *)
  let '(freqOffset, read) := go_uvarint freqOffsetData in
  let n := wrap64 (n + u64_of_int read) in
  (* locOffsetData, err := d.sb.data.Read(int(postingsOffset+n), int(postingsOffset+n+binary.MaxVarintLen64)) *)
  do locOffsetData <- data_read_int data (int_of_u64 (wrap64 (postingsOffset + n)))
                                         (int_of_u64 (wrap64 (postingsOffset + n + 10)));
  (* p.locOffset, read = binary.Uvarint(locOffsetData) *)
  let '(locOffset, read) := go_uvarint locOffsetData in
  (* if p.locOffset > 0 && p.freqOffset > 0 { p.locOffset += p.freqOffset } *)
  let locOffset := if (0 <? locOffset) && (0 <? freqOffset)
                   then wrap64 (locOffset + freqOffset) else locOffset in
  (* n += uint64(read) *)
  let n := wrap64 (n + u64_of_int read) in
  (* postingsLenData, err := d.sb.data.Read(int(postingsOffset+n), int(postingsOffset+n+binary.MaxVarintLen64)) *)
  do postingsLenData <- data_read_int data (int_of_u64 (wrap64 (postingsOffset + n)))
                                           (int_of_u64 (wrap64 (postingsOffset + n + 10)));
  (* postingsLen, read = binary.Uvarint(postingsLenData); n += uint64(read) *)
  let '(postingsLen, read) := go_uvarint postingsLenData in
  let n := wrap64 (n + u64_of_int read) in
  (* roaringData, err := d.sb.data.Read(int(postingsOffset+n), int(postingsOffset+n+postingsLen)) *)
  do roaringData <- data_read_int data (int_of_u64 (wrap64 (postingsOffset + n)))
                                       (int_of_u64 (wrap64 (postingsOffset + n + postingsLen)));
  (* roaringBytes := roaringData; ... p.postings.FromBuffer(roaringBytes) *)
  Ok (freqOffset, locOffset, roaringData).

(* ================================================================== *)
(* (B) the reused Posting struct of an iterator                        *)
(* ================================================================== *)

(* PostingsIterator.next: docNum, freq, norm (its float32 bit pattern) and locs
   (the slice header; the Location values live in i.nextLocs) *)
Record nextbuf := mkNB { nb_doc : N; nb_freq : N; nb_norm : N; nb_locs : list ALoc }.
Definition nb_zero : nextbuf := mkNB 0 0 0 [].          (* Posting{} *)

(* what the caller sees through the returned pointer &i.next *)
Definition nb_posting (b : nextbuf) : APosting :=
  (nb_doc b, (nb_freq b, (nb_norm b, nb_locs b))).

(* readFreqNormHasLocs: (freq, normBits, hasLocs) *)
Definition read_freq_norm_has_locs (i : It) : result (N * N * bool * It) :=
  (* if i.normBits1Hit != 0 { return 1, i.normBits1Hit, false, nil } *)
  if negb (it_norm1 i =? 0) then Ok (1, it_norm1 i, false, i)
  else
    (* freqHasLocs, err := i.freqNormReader.readUvarint() *)
    do (fhl, fr1) <- read_uv (it_fr i);
    (* freq, hasLocs = decodeFreqHasLocs(freqHasLocs): freqHasLocs >> 1, freqHasLocs&0x01 != 0 *)
    (* norm, err = i.freqNormReader.readUvarint() *)
    do (nb, fr2) <- read_uv fr1;
    Ok (N.shiftr fhl 1, nb, N.odd fhl, set_fr i fr2).

(* nextAtOrAfter with the struct i.next made explicit.  [clear] tells whether
   the statement `i.next = Posting{}` is there.  Result: the iterator, the
   struct, and whether a posting (the struct) was returned rather than nil. *)
Definition step_with_buf_gen (clear : bool) (i : It) (b : nextbuf) (atOrAfter : N)
  : result (It * nextbuf * bool) :=
  (* docNum, exists, err := i.nextDocNumAtOrAfter(atOrAfter)
     if err != nil || !exists { return nil, err } *)
  do (i1, o) <- next_docnum i atOrAfter;
  match o with
  | None => Ok (i1, b, false)
  | Some docNum =>
      (* i.next = Posting{} // clear the struct *)
      let b0 := if clear then nb_zero else b in
      (* rv := &i.next; rv.docNum = docNum *)
      let b1 := mkNB docNum (nb_freq b0) (nb_norm b0) (nb_locs b0) in
      (* if !i.includeFreqNorm { return rv, nil } *)
      if negb (it_fn i1) then Ok (i1, b1, true)
      else
        (* rv.freq, normBits, hasLocs, err = i.readFreqNormHasLocs() *)
        do (fnh, i2) <- read_freq_norm_has_locs i1;
        let '(freq, normBits, hasLocs) := fnh in
        (* rv.norm = math.Float32frombits(uint32(normBits)) *)
        let b2 := mkNB (nb_doc b1) freq (wrap32 normBits) (nb_locs b1) in
        (* if i.includeLocs && hasLocs { *)
        if it_locs i2 && hasLocs then
          (* (i.nextLocs / i.nextSegmentLocs are sized to rv.freq)
             rv.locs = i.nextSegmentLocs[:0] *)
          let b3 := mkNB (nb_doc b2) (nb_freq b2) (nb_norm b2) [] in
          (* numLocsBytes, err := i.locReader.readUvarint() *)
          do (nlb, lr1) <- read_uv (it_lr i2);
          (* j := 0; startBytesRemaining := i.locReader.Len()
             for startBytesRemaining-i.locReader.Len() < int(numLocsBytes) {
               i.readLocation(&i.nextLocs[j]); rv.locs = append(rv.locs, &i.nextLocs[j]); j++ } *)
          do (ls, lr2) <- read_locs (N.to_nat freq) (it_fields i2) lr1 (dec_len lr1) nlb;
          Ok (set_lr i2 lr2, mkNB (nb_doc b3) (nb_freq b3) (nb_norm b3) (nb_locs b3 ++ ls), true)
        else
          (* return rv, nil *)
          Ok (i2, b2, true)
  end.

Definition step_with_buf : It -> nextbuf -> N -> result (It * nextbuf * bool) :=
  step_with_buf_gen true.
(* the variant without `i.next = Posting{}` *)
Definition step_with_buf_noclear : It -> nextbuf -> N -> result (It * nextbuf * bool) :=
  step_with_buf_gen false.

(* the value the Go caller gets: nil or what &i.next points to at that moment *)
Definition delivered (r : result (It * nextbuf * bool)) : result (It * option APosting) :=
  do (ib, ex) <- r;
  let '(i, b) := ib in
  Ok (i, if ex then Some (nb_posting b) else None).

(* a run of Next/Advance calls threading the struct *)
Fixpoint buf_run (clear : bool) (i : It) (b : nextbuf) (ops : list iter_op)
  : result (list (option APosting)) :=
  match ops with
  | [] => Ok []
  | op :: ops' =>
      do (ib, ex) <- step_with_buf_gen clear i b
                       (match op with INext => 0 | IAdvance d => d end);
      let '(i', b') := ib in
      do os <- buf_run clear i' b' ops';
      Ok ((if ex then Some (nb_posting b') else None) :: os)
  end.

(* ================================================================== *)
(* (A) PostingsList / PostingsIterator objects and their reuse         *)
(* ================================================================== *)

(* ---- references and the heap ---- *)

(* The Go code compares pointers with the two package-level objects
     var emptyPostingsList = &PostingsList{}
     var emptyPostingsIterator = &PostingsIterator{}
   so they are distinguished references; every other object is one that some
   call allocated (`&PostingsList{}`, `&PostingsIterator{}`). *)
Inductive plref := SharedEmptyPL | OwnPL (id : nat).
Inductive itref := SharedEmptyIt | OwnIt (id : nat).

(* the fields of PostingsList that matter to the callers.  po_sb is p.sb: None
   for nil, otherwise the segment, of which only fieldsInv is looked at (so
   po_hasSegment, "sb != nil", is derived).  po_enc stands for what read() put
   into freqOffset / locOffset / chunkSize together with the bytes of the
   segment they point into: the chunk streams the iterator will decode.  None
   is the zero value (termNotEncoded offsets, chunkSize 0). *)
Record PLobj := mkPLobj {
  po_postings : option (list N);     (* postings *roaring.Bitmap: None = nil *)
  po_doc1 : N;                       (* docNum1Hit *)
  po_norm1 : N;                      (* normBits1Hit *)
  po_except : option (list N);       (* except *roaring.Bitmap *)
  po_sb : option (list bytes);       (* sb *Segment *)
  po_enc : option EncPL }.
Definition po_hasSegment (o : PLobj) : bool :=
  match po_sb o with Some _ => true | None => false end.

Definition plobj_zero : PLobj := mkPLobj None 0 0 None None None.      (* PostingsList{} *)

(* PostingsIterator: the cursor machine of Postings.v and the struct i.next *)
Record ITobj := mkITobj { io_it : It; io_buf : nextbuf }.
Definition it_zero : It := mkIt 0 0 [] [] false 0 0 dec_fresh dec_fresh false false [].
Definition itobj_zero : ITobj := mkITobj it_zero nb_zero.              (* PostingsIterator{} *)

(* a heap: the contents of the shared object (it must stay all-zero for ever,
   but nothing in the model forces that: a store through the shared reference
   changes this cell) and the objects allocated so far *)
Record plstore := mkPLS { ps_shared : PLobj; ps_own : list (nat * PLobj) }.
Record itstore := mkITS { is_shared : ITobj; is_own : list (nat * ITobj) }.
Definition pls_empty : plstore := mkPLS plobj_zero [].
Definition its_empty : itstore := mkITS itobj_zero [].

Fixpoint assoc_get {A} (id : nat) (l : list (nat * A)) : option A :=
  match l with
  | [] => None
  | (k, v) :: l' => if Nat.eqb k id then Some v else assoc_get id l'
  end.
(* overwrite the object with that id (nothing happens for an unknown id) *)
Fixpoint assoc_set {A} (id : nat) (o : A) (l : list (nat * A)) : list (nat * A) :=
  match l with
  | [] => []
  | (k, v) :: l' => if Nat.eqb k id then (k, o) :: l' else (k, v) :: assoc_set id o l'
  end.

Definition pl_get (s : plstore) (r : plref) : option PLobj :=
  match r with SharedEmptyPL => Some (ps_shared s) | OwnPL id => assoc_get id (ps_own s) end.
Definition pl_set (s : plstore) (r : plref) (o : PLobj) : plstore :=
  match r with
  | SharedEmptyPL => mkPLS o (ps_own s)
  | OwnPL id => mkPLS (ps_shared s) (assoc_set id o (ps_own s))
  end.
(* &PostingsList{...}: a new object; its id is the number of objects so far *)
Definition pl_alloc (s : plstore) (o : PLobj) : plstore * plref :=
  let id := length (ps_own s) in (mkPLS (ps_shared s) ((id, o) :: ps_own s), OwnPL id).

Definition it_get (s : itstore) (r : itref) : option ITobj :=
  match r with SharedEmptyIt => Some (is_shared s) | OwnIt id => assoc_get id (is_own s) end.
Definition it_set (s : itstore) (r : itref) (o : ITobj) : itstore :=
  match r with
  | SharedEmptyIt => mkITS o (is_own s)
  | OwnIt id => mkITS (is_shared s) (assoc_set id o (is_own s))
  end.
Definition it_alloc (s : itstore) (o : ITobj) : itstore * itref :=
  let id := length (is_own s) in (mkITS (is_shared s) ((id, o) :: is_own s), OwnIt id).

Definition plref_is_shared (r : plref) : bool :=
  match r with SharedEmptyPL => true | OwnPL _ => false end.

(* A reference that is not in the store cannot come out of the functions below
   (Reuse_Proofs); where one is dereferenced the model answers Panic. *)

(* ---- the dictionary ---- *)

(* Dictionary: d.fstReader == nil (an unknown field: emptyDictionary, sb nil;
   or a known field without terms: sb set) or a vellum FST, a map from terms to
   what the FST value stands for.  [FstVal] is the part Count() sees, [EncPL]
   the encoded list an iterator decodes; a lookup is fstReader.Get(term), the
   order of the entries plays no role.  d.sb is given by its fieldsInv. *)
Inductive dict :=
| NoFST (sb : option (list bytes))
| FST (fields : list bytes) (m : list (bytes * (FstVal * EncPL))).

Definition dict_sb (d : dict) : option (list bytes) :=
  match d with NoFST sb => sb | FST fields _ => Some fields end.

Fixpoint fst_get (term : bytes) (m : list (bytes * (FstVal * EncPL))) : option (FstVal * EncPL) :=
  match m with
  | [] => None
  | (k, v) :: m' => if beq k term then Some v else fst_get term m'
  end.

(* ---- dict.go postingsListInit ---- *)

(* [guard]: the test `rv == emptyPostingsList` is there; [clear]: the call
   postings.Clear() is there.  The real function is the one with both. *)
Definition postings_list_init_gen (guard clear : bool) (s : plstore) (d_sb : option (list bytes))
           (rv : option plref) (except : option (list N)) : result (plstore * plref) :=
  let fresh :=
    (* rv = &PostingsList{}; rv.sb = d.sb; rv.except = except; return rv *)
    Ok (pl_alloc s (mkPLobj None 0 0 except d_sb None)) in
  match rv with
  | None => fresh                                      (* rv == nil *)
  | Some r =>
      if guard && plref_is_shared r then fresh          (* || rv == emptyPostingsList *)
      else
        match pl_get s r with
        | None => Panic
        | Some o =>
            (* postings := rv.postings; if postings != nil { postings.Clear() } *)
            let postings := match po_postings o with
                            | None => None
                            | Some docs => Some (if clear then [] else docs)
                            end in
            (* *rv = PostingsList{}; rv.postings = postings; rv.sb = d.sb; rv.except = except *)
            Ok (pl_set s r (mkPLobj postings 0 0 except d_sb None), r)
        end
  end.

(* ---- posting.go read / init1Hit, on the object ---- *)
(* The dictionary is given decoded: what read() finds at postingsOffset is part
   (C) above (byte level) and Postings.v (the chunk streams); a data.Read or
   FromBuffer error makes postingsListFromOffset return (nil, err) and is not
   part of this model. *)
Definition po_read (o : PLobj) (ve : FstVal * EncPL) : PLobj :=
  match fst ve with
  | V1Hit d nb =>
      (* init1Hit: p.docNum1Hit = docNum; p.normBits1Hit = normBits.
         freqOffset, locOffset and chunkSize keep the zero postingsListInit gave them *)
      mkPLobj (po_postings o) d nb (po_except o) (po_sb o) None
  | VGen docs =>
      (* p.docNum1Hit = 0; p.normBits1Hit = 0; p.freqOffset, p.locOffset = ...;
         if p.postings == nil { p.postings = roaring.NewBitmap() }
         p.postings.FromBuffer(roaringBytes); p.chunkSize = getChunkSize(...) *)
      mkPLobj (Some docs) 0 0 (po_except o) (po_sb o) (Some (snd ve))
  end.

(* ---- dict.go PostingsList / postingsList / postingsListFromOffset ---- *)
Definition postings_list_gen (guard clear : bool) (s : plstore) (d : dict) (term : bytes)
           (except : option (list N)) (prealloc : option plref) : result (plstore * plref) :=
  (* PostingsList(): preallocPL is prealloc when it is a non-nil *PostingsList *)
  let absent :=
    (* if rv == nil || rv == emptyPostingsList { return emptyPostingsList, nil }
       return d.postingsListInit(rv, except), nil *)
    match prealloc with
    | None => Ok (s, SharedEmptyPL)
    | Some SharedEmptyPL => Ok (s, SharedEmptyPL)
    | Some r => postings_list_init_gen guard clear s (dict_sb d) (Some r) except
    end in
  match d with
  | NoFST _ => absent                                   (* if d.fstReader == nil *)
  | FST _ m =>
      (* postingsOffset, exists, err := d.fstReader.Get(term) *)
      match fst_get term m with
      | None => absent                                  (* if !exists *)
      | Some ve =>
          (* postingsListFromOffset: rv = d.postingsListInit(rv, except); err := rv.read(postingsOffset, d) *)
          do (s1, r) <- postings_list_init_gen guard clear s (dict_sb d) prealloc except;
          match pl_get s1 r with
          | None => Panic
          | Some o => Ok (pl_set s1 r (po_read o ve), r)
          end
      end
  end.

Definition postings_list_init := postings_list_init_gen true true.
Definition postings_list := postings_list_gen true true.

(* ---- posting.go Count, OrInto ---- *)
Definition po_pl (o : PLobj) : PL := mkPL (po_postings o) (po_doc1 o) (po_norm1 o) (po_except o).

(* Count(): Dict.pl_Count follows it *)
Definition po_count (o : PLobj) : N := pl_Count (po_pl o).

(* OrInto(receiver) with an empty receiver: the receiver afterwards *)
Definition po_or_into (o : PLobj) : list N :=
  (* if p.normBits1Hit != 0 { receiver.Add(uint32(p.docNum1Hit)); return } *)
  if negb (po_norm1 o =? 0) then [wrap32 (po_doc1 o)]
  (* if p.postings != nil { receiver.Or(p.postings) } *)
  else match po_postings o with Some docs => docs | None => [] end.

(* ---- posting.go Iterator / iterator ---- *)

(* p.normBits1Hit == 0 && (p.postings == nil || p.postings.IsEmpty()) *)
Definition po_is_empty (o : PLobj) : bool :=
  (po_norm1 o =? 0) &&
  match po_postings o with None => true | Some [] => true | Some (_ :: _) => false end.

(* the list as iterator() sees it, from the fields of the object: the 1-hit
   fields when normBits1Hit != 0, else the bitmap with the streams and the
   chunk size that read() left in the object *)
Definition po_view (o : PLobj) : EncPL :=
  if negb (po_norm1 o =? 0) then E1Hit (po_doc1 o) (po_norm1 o)
  else
    let docs := match po_postings o with Some docs => docs | None => [] end in
    match po_enc o with
    | Some (EGen _ cs fch lch) => EGen docs cs fch lch
    | _ => EGen docs 0 [] None                 (* zero offsets, chunkSize 0 *)
    end.

Definition pl_iterator (ps : plstore) (is : itstore) (p : plref)
           (includeFreq includeNorm includeLocs : bool) (prealloc : option itref)
  : result (itstore * itref) :=
  match pl_get ps p with
  | None => Panic
  | Some o =>
      (* if p.normBits1Hit == 0 && (p.postings == nil || p.postings.IsEmpty()) {
           return emptyPostingsIterator, nil } *)
      if po_is_empty o then Ok (is, SharedEmptyIt)
      else
        (* preallocPI is prealloc when it is a non-nil *PostingsIterator;
           if preallocPI == emptyPostingsIterator { preallocPI = nil } *)
        let pre := match prealloc with
                   | Some (OwnIt id) => Some (OwnIt id)
                   | _ => None
                   end in
        (* iterator(): rv.includeFreqNorm = includeFreq || includeNorm || includeLocs *)
        let fn := includeFreq || includeNorm || includeLocs in
        (* the general path reads p.sb.data when a decoder is set up: nil dereference for sb == nil *)
        if (po_norm1 o =? 0) && fn && negb (po_hasSegment o) then Panic
        else
          let fields := match po_sb o with Some f => f | None => [] end in
          match pre with
          | None =>
              (* rv = &PostingsIterator{} ... *)
              Ok (it_alloc is (mkITobj (it_init (po_view o) (po_except o) fn includeLocs fields None)
                                       nb_zero))
          | Some r =>
              match it_get is r with
              | None => Panic
              | Some old =>
                  (* the readers are reset and kept, *rv = PostingsIterator{} (that zeroes next),
                     then the same initialisation *)
                  Ok (it_set is r (mkITobj (it_init (po_view o) (po_except o) fn includeLocs fields
                                                    (Some (io_it old)))
                                           nb_zero), r)
              end
          end
  end.

(* ---- observations ---- *)

Definition obs_count (ps : plstore) (p : plref) : result N :=
  match pl_get ps p with None => Panic | Some o => Ok (po_count o) end.
Definition obs_or_into (ps : plstore) (p : plref) : result (list N) :=
  match pl_get ps p with None => Panic | Some o => Ok (po_or_into o) end.

(* how many more postings an iterator can deliver at most *)
Definition it_remaining (i : It) : nat :=
  if negb (it_norm1 i =? 0) then (if it_doc1 i =? docNum1HitFinished then O else 1%nat)
  else length (it_actual i).

(* Next() until nil or an error, each call through the object in the store (the
   iterator and its struct are written back after every call, also for the
   shared empty iterator).  Delivers the postings seen (copied at the moment
   they are returned) and how the loop ended: Ok tt for nil, else the error of
   the failing call. *)
Fixpoint iterate (fuel : nat) (is : itstore) (r : itref)
  : result (itstore * (list APosting * result unit)) :=
  match fuel with
  | O => OutOfFuel
  | S f =>
      match it_get is r with
      | None => Panic
      | Some io =>
          match step_with_buf (io_it io) (io_buf io) 0 with
          | Ok (i', b', true) =>
              do (is'', rest) <- iterate f (it_set is r (mkITobj i' b')) r;
              Ok (is'', (nb_posting b' :: fst rest, snd rest))
          | Ok (i', b', false) => Ok (it_set is r (mkITobj i' b'), ([], Ok tt))
          | Err => Ok (is, ([], Err))
          | Panic => Ok (is, ([], Panic))
          | Block => Ok (is, ([], Block))
          | OutOfFuel => Ok (is, ([], OutOfFuel))
          end
      end
  end.

Definition obs_iterate (is : itstore) (r : itref) : result (itstore * (list APosting * result unit)) :=
  match it_get is r with
  | None => Panic
  | Some io => iterate (S (it_remaining (io_it io))) is r
  end.

(* ---- sequences of lookups ---- *)

(* one lookup: Dictionary.PostingsList(term, except, prealloc), Count(), OrInto,
   Iterator(includeFreq, includeNorm, includeLocs, prealloc) and Next() to the end.
   The preallocated objects are chosen among the references earlier lookups
   returned (by position, newest first; the two shared references are there
   from the start; a position that does not exist, or None, is nil). *)
Record lookup := mkLk {
  lk_dict : dict; lk_term : bytes; lk_except : option (list N);
  lk_freq : bool; lk_norm : bool; lk_locs : bool;
  lk_pl : option nat; lk_it : option nat }.

Record state := mkSt {
  st_pls : plstore; st_its : itstore;
  st_plrefs : list plref; st_itrefs : list itref }.

Definition st_init : state := mkSt pls_empty its_empty [SharedEmptyPL] [SharedEmptyIt].

Record obs := mkObs {
  ob_count : N;                                   (* Count() *)
  ob_docs : list N;                               (* OrInto an empty bitmap *)
  ob_postings : list APosting * result unit }.    (* Next() ... and how it ended *)

Definition pick {A} (l : list A) (k : option nat) : option A :=
  match k with None => None | Some n => nth_error l n end.

Definition do_lookup_gen (guard clear : bool) (st : state) (lk : lookup) : result (state * obs) :=
  do (pls1, r) <- postings_list_gen guard clear (st_pls st) (lk_dict lk) (lk_term lk) (lk_except lk)
                    (pick (st_plrefs st) (lk_pl lk));
  do c <- obs_count pls1 r;
  do docs <- obs_or_into pls1 r;
  do (its1, ri) <- pl_iterator pls1 (st_its st) r (lk_freq lk) (lk_norm lk) (lk_locs lk)
                     (pick (st_itrefs st) (lk_it lk));
  do (its2, ps) <- obs_iterate its1 ri;
  Ok (mkSt pls1 its2 (r :: st_plrefs st) (ri :: st_itrefs st), mkObs c docs ps).

Fixpoint run_seq_gen (guard clear : bool) (st : state) (lks : list lookup)
  : result (state * list obs) :=
  match lks with
  | [] => Ok (st, [])
  | lk :: lks' =>
      do (st1, o) <- do_lookup_gen guard clear st lk;
      do (st2, os) <- run_seq_gen guard clear st1 lks';
      Ok (st2, o :: os)
  end.

Definition do_lookup := do_lookup_gen true true.
Definition run_seq := run_seq_gen true true.

(* the same lookup with nothing preallocated *)
Definition no_prealloc (lk : lookup) : lookup :=
  mkLk (lk_dict lk) (lk_term lk) (lk_except lk) (lk_freq lk) (lk_norm lk) (lk_locs lk) None None.

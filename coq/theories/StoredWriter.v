(* StoredWriter.v - the L1 models of how stored fields are WRITTEN:
     documentcoder.go  chunkedDocumentCoder (Add, newLine, flush, Write, Size)
     write.go          encodeStoredFieldValues
     new.go            interim.writeStoredFields               (the builder)
     merge.go          mergeFields (same), mergeStoredAndRemap,
                       mergeStoredAndRemapSegment (re-encode path),
                       Segment.copyStoredDocs (byte-copy path)
   Each definition follows its Go counterpart statement by statement.

   Abstractions.  zstd is abstracted away: a block is its uncompressed bytes
   (ZSTDCompress/ZSTDDecompress are inverse), so the coder keeps the list of
   flushed uncompressed blocks; the chunk offset table (c.offsets, c.bytes)
   depends on compressed sizes and is not modelled - in particular the
   duplicate offset that an empty flush appends (a "chunk" with
   chunkOffstart == chunkOffend, which copyStoredDocs skips) does not appear:
   the block list holds the non-empty chunks only.
   Integer widths: Go ints / uint64 are unbounded N here (c.n++, curr += len,
   int(metaLen+dataLen)); the theorems bound every encoded quantity by two64.
   Writer errors (c.w.Write, ZSTDCompress) and the closeCh cancellation check of
   mergeStoredAndRemap are not modelled (Writer.v / C12).

   Executable; the theorems are in proofs/StoredWriter_Proofs.v. *)
From Ice Require Export Base Spec Varint Stored.

(* ------------------------------------------------------------------ *)
(* documentcoder.go : chunkedDocumentCoder                             *)
(* ------------------------------------------------------------------ *)
Record docCoder := mkDC {
  dc_buf : bytes;             (* c.buf : the current uncompressed block *)
  dc_n : N;                   (* c.n : documents added *)
  dc_blocks : list bytes }.   (* what c.w received: the flushed blocks, in order *)

(* newChunkedDocumentCoder(defaultDocumentChunkSize, w) *)
Definition dc_new : docCoder := mkDC [] 0 [].

(* Size(): uint64(c.buf.Len()) *)
Definition dc_size (c : docCoder) : N := lenN (dc_buf c).

(* flush(): if c.buf.Len() > 0 { compress; c.w.Write; c.buf.Reset() }
   (c.offsets = append(c.offsets, c.bytes) is not modelled, see above) *)
Definition dc_flush (c : docCoder) : docCoder :=
  if 0 <? lenN (dc_buf c)
  then mkDC [] (dc_n c) (dc_blocks c ++ [dc_buf c])
  else c.

(* newLine(): c.n++; if c.n % c.chunkSize != 0 { return nil }; return c.flush() *)
Definition dc_new_line (c : docCoder) : docCoder :=
  let c1 := mkDC (dc_buf c) (dc_n c + 1) (dc_blocks c) in
  if negb (dc_n c1 mod block_docs =? 0) then c1 else dc_flush c1.

(* writeToBuf(data): c.buf.Write(data) *)
Definition dc_write_to_buf (data : bytes) (c : docCoder) : docCoder :=
  mkDC (dc_buf c ++ data) (dc_n c) (dc_blocks c).

(* Add(docNum, meta, data): PutUvarint(len(meta)), PutUvarint(len(data)), meta,
   data into the buffer, then newLine().  docNum is not used by the Go code. *)
Definition dc_add (meta data : bytes) (c : docCoder) : docCoder :=
  let c1 := dc_write_to_buf (put_uvarint (lenN meta)) c in
  let c2 := dc_write_to_buf (put_uvarint (lenN data)) c1 in
  let c3 := dc_write_to_buf meta c2 in
  let c4 := dc_write_to_buf data c3 in
  dc_new_line c4.

(* Write(): "flush first"; the chunk offset table that follows is not modelled *)
Definition dc_finish (c : docCoder) : docCoder := dc_flush c.

(* ------------------------------------------------------------------ *)
(* write.go : encodeStoredFieldValues                                  *)
(* ------------------------------------------------------------------ *)
(* for i := range storedFieldValues {
     metaEncode(fieldID); metaEncode(curr); metaEncode(len(v))
     data = append(data, v...); curr += len(v) }
   return curr, data
   metaEncode appends PutUvarint(val) to the meta buffer. *)
Fixpoint encode_stored_field_values (fieldID : N) (values : list bytes) (curr : N)
         (metaBuf data : bytes) : N * bytes * bytes :=
  match values with
  | [] => (curr, metaBuf, data)
  | v :: values' =>
      let metaBuf1 := metaBuf ++ put_uvarint fieldID in
      let metaBuf2 := metaBuf1 ++ put_uvarint curr in
      let metaBuf3 := metaBuf2 ++ put_uvarint (lenN v) in
      encode_stored_field_values fieldID values' (curr + lenN v) metaBuf3 (data ++ v)
  end.

(* ------------------------------------------------------------------ *)
(* new.go : writeStoredFields                                          *)
(* ------------------------------------------------------------------ *)
(* uint16(s.getOrDefineField(name)) once every name of the batch is defined:
   FieldsMap[name] - 1, the index of the name in FieldsInv *)
Definition field_id (fields : list bytes) (name : bytes) : N :=
  opt_default 0 (index_of name fields 0).

(* docStoredFields : map[uint16]interimStoredField, kept as an association list
   (the builder never ranges over it to produce output; it looks ids up).
     isf := docStoredFields[fieldID]; isf.vals = append(isf.vals, v); docStoredFields[fieldID] = isf *)
Fixpoint sf_append (fid : N) (v : bytes) (m : list (N * list bytes)) : list (N * list bytes) :=
  match m with
  | [] => [(fid, [v])]
  | (k, vs) :: m' => if k =? fid then (k, vs ++ [v]) :: m' else (k, vs) :: sf_append fid v m'
  end.

(* isf, exists := docStoredFields[uint16(fieldID)] *)
Fixpoint sf_lookup (fid : N) (m : list (N * list bytes)) : option (list bytes) :=
  match m with
  | [] => None
  | (k, vs) :: m' => if k =? fid then Some vs else sf_lookup fid m'
  end.

(* result.EachField(func(field) { fieldID := getOrDefineField(field.Name());
     if field.Store() { ...append field.Value()... } })  on an emptied map *)
Definition doc_stored_fields (fields : list bytes) (d : Doc) : list (N * list bytes) :=
  fold_left (fun m f => if f_store f then sf_append (field_id fields (f_name f)) (f_value f) m else m)
            d [].

(* for fieldID := 0; fieldID < len(s.FieldsInv); fieldID++ {
     isf, exists := docStoredFields[uint16(fieldID)]
     if exists { curr, data, err = encodeStoredFieldValues(fieldID, isf.vals, curr, metaEncode, data) } }
   [k] is the number of field ids still to visit. *)
Fixpoint build_doc_fields (k : nat) (fieldID : N) (m : list (N * list bytes))
         (curr : N) (metaBuf data : bytes) : N * bytes * bytes :=
  match k with
  | O => (curr, metaBuf, data)
  | S k' =>
      let '(curr1, metaBuf1, data1) :=
        match sf_lookup fieldID m with
        | Some vals => encode_stored_field_values fieldID vals curr metaBuf data
        | None => (curr, metaBuf, data)
        end in
      build_doc_fields k' (fieldID + 1) m curr1 metaBuf1 data1
  end.

(* for docNum, result := range s.results {
     (fill docStoredFields); var curr int; s.metaBuf.Reset(); data = data[:0]
     (field loop)
     docStoredOffsets[docNum] = docChunkCoder.Size()
     docChunkCoder.Add(uint64(docNum), metaBytes, data) }
   docStoredOffsets is make([]uint64, len(s.results)) written at the range
   index docNum = number of documents done: modelled as an append. *)
Fixpoint build_docs (nfields : nat) (docs : list (list (N * list bytes)))
         (c : docCoder) (offs : list N) : docCoder * list N :=
  match docs with
  | [] => (c, offs)
  | m :: docs' =>
      let '(_, metaBytes, data) := build_doc_fields nfields 0 m 0 [] [] in
      let offs1 := offs ++ [dc_size c] in
      build_docs nfields docs' (dc_add metaBytes data c) offs1
  end.

(* writeStoredFields up to docChunkCoder.Write(): the blocks and docStoredOffsets.
   [docs] : per document the docStoredFields map (field id, values in input order) *)
Definition build_stored (fields : list bytes) (docs : list (list (N * list bytes)))
  : list bytes * list N :=
  let '(c, offs) := build_docs (length fields) docs dc_new [] in
  (dc_blocks (dc_finish c), offs).

(* the builder on a batch whose field list is [fields] *)
Definition build_stored_batch (fields : list bytes) (b : Batch) : list bytes * list N :=
  build_stored fields (map (doc_stored_fields fields) b).

(* ------------------------------------------------------------------ *)
(* merge.go : the stored section of a merge                            *)
(* ------------------------------------------------------------------ *)
(* what the merger reads of one input segment *)
Record StoredInput := mkSI {
  si_blocks : list bytes;    (* the decompressed non-empty stored chunks, in order *)
  si_offsets : list N;       (* the stored index: per document its offset in its block;
                                footer.numDocs = length si_offsets *)
  si_fields : list bytes;    (* seg.fieldsInv *)
  si_drops : list N }.       (* drops[segI]; [] = nil or cardinality 0 *)

(* a[i] = x on make([]uint64, n): index out of range is a panic *)
Fixpoint set_nth {A} (n : nat) (x : A) (l : list A) : list A :=
  match l, n with
  | [], _ => []
  | _ :: r, O => x :: r
  | y :: r, S n' => y :: set_nth n' x r
  end.
Definition arr_set (i : N) (x : N) (a : list N) : result (list N) :=
  if i <? lenN a then Ok (set_nth (N.to_nat i) x a) else Panic.

(* the state threaded through the merge: newDocNum, docNumOffsets, docChunkCoder *)
Definition MergeSt := (N * list N * docCoder)%type.

(* seg.visitDocument(vdc, docNum, visitor) for docNum < numDocs, visitor never
   stopping: getDocStoredOffsetsOnly reads the stored index entry (a short read
   is an error), the chunk is docNum / 128 (a missing chunk is an index panic),
   then Stored.visit_stored.  The visitor calls are returned as a list; a
   failure after some visitor calls is the same failure here. *)
Definition visit_doc (si : StoredInput) (docNum : N) : result (list (bytes * bytes)) :=
  match nthN (si_offsets si) (N.to_nat docNum) with
  | None => Err
  | Some off =>
      match nthN (si_blocks si) (N.to_nat (docNum / block_docs)) with
      | None => Panic
      | Some block => visit_stored block off (si_fields si) None
      end
  end.

(* the visitor of mergeStoredAndRemapSegment, applied to the visited pairs:
     fieldID := int(fieldsMap[field]) - 1; vals[fieldID] = append(vals[fieldID], value)
   fieldsMap[name] is index+1, 0 for an unknown name: vals[-1] panics *)
Fixpoint bucket_vals (fieldsInv : list bytes) (pairs : list (bytes * bytes))
         (vals : list (list bytes)) : result (list (list bytes)) :=
  match pairs with
  | [] => Ok vals
  | (field, value) :: pairs' =>
      match index_of field fieldsInv 0 with
      | None => Panic
      | Some fieldID =>
          if fieldID <? lenN vals
          then bucket_vals fieldsInv pairs'
                 (set_nth (N.to_nat fieldID) (nth (N.to_nat fieldID) vals [] ++ [value]) vals)
          else Panic
      end
  end.

(* for fieldID := 0; fieldID < len(fieldsInv); fieldID++ {
     curr, data, err2 = encodeStoredFieldValues(fieldID, vals[fieldID], curr, metaEncode, data) } *)
Fixpoint encode_all_fields (k : nat) (fieldID : N) (vals : list (list bytes))
         (curr : N) (metaBuf data : bytes) : N * bytes * bytes :=
  match k with
  | O => (curr, metaBuf, data)
  | S k' =>
      let '(curr1, metaBuf1, data1) :=
        encode_stored_field_values fieldID (nth (N.to_nat fieldID) vals []) curr metaBuf data in
      encode_all_fields k' (fieldID + 1) vals curr1 metaBuf1 data1
  end.

(* mergeStoredAndRemapSegment: for docNum := 0; docNum < numDocs; docNum++ {
     if dropsI != nil && dropsI.Contains(docNum) { segNewDocNums[docNum] = docDropped; continue }
     curr := 0; metaBuf.Reset(); data = data[:0]; vals[i] = vals[i][:0] for all i
     seg.visitDocument(...)            // fills vals
     (field loop over ALL merged ids)
     docNumOffsets[newDocNum] = docChunkCoder.Size()
     docChunkCoder.Add(newDocNum, metaBytes, data); newDocNum++ }
   [k] = numDocs - docNum.  segNewDocNums is Docnums_Proofs' business. *)
Fixpoint reencode_docs (k : nat) (docNum : N) (si : StoredInput) (fieldsInv : list bytes)
         (st : MergeSt) : result MergeSt :=
  match k with
  | O => Ok st
  | S k' =>
      if memN docNum (si_drops si) then reencode_docs k' (docNum + 1) si fieldsInv st
      else
        let '(newDocNum, docNumOffsets, c) := st in
        do pairs <- visit_doc si docNum;
        do vals <- bucket_vals fieldsInv pairs (repeat [] (length fieldsInv));
        let '(_, metaBytes, data) := encode_all_fields (length fieldsInv) 0 vals 0 [] [] in
        do docNumOffsets1 <- arr_set newDocNum (dc_size c) docNumOffsets;
        reencode_docs k' (docNum + 1) si fieldsInv
                      (newDocNum + 1, docNumOffsets1, dc_add metaBytes data c)
  end.

Definition merge_reencode (si : StoredInput) (fieldsInv : list bytes) (st : MergeSt) : result MergeSt :=
  reencode_docs (length (si_offsets si)) 0 si fieldsInv st.

(* copyStoredDocs, the walk over one decompressed chunk:
     for storedOffset < len(uncompressed) {
       metaLen, dataLen, n by two binary.Uvarint calls on windows of at most
         MaxVarintLen64 bytes clamped to cap(uncompressed)
       newDocNumOffsets[newDocNum] = docChunkCoder.Size()
       metaBytes := uncompressed[storedOffset+n : storedOffset+n+metaLen]
       data := uncompressed[storedOffset+n+metaLen : storedOffset+n+metaLen+dataLen]
       docChunkCoder.Add(newDocNum, metaBytes, data)
       storedOffset += n + metaLen + dataLen; newDocNum++ }
   [buf] is uncompressed[:cap(uncompressed)] (the block followed by whatever the
   reused buffer holds beyond len), [blen] is len(uncompressed): Go allows the
   windows and the slices to reach into the capacity, so they are taken from
   [buf], and Stored.stored_lens clamps its windows to lenN buf = cap.
   Fuel: every iteration is one document; [length block] suffices because a
   record has at least two bytes (StoredWriter_Proofs). *)
Fixpoint copy_block (fuel : nat) (buf : bytes) (blen storedOffset : N) (st : MergeSt)
  : result MergeSt :=
  if storedOffset <? blen then
    match fuel with
    | O => OutOfFuel
    | S fuel' =>
        let '(newDocNum, newDocNumOffsets, c) := st in
        do (metaLen, dataLen, n) <- stored_lens buf storedOffset;
        do newDocNumOffsets1 <- arr_set newDocNum (dc_size c) newDocNumOffsets;
        do metaBytes <- slice buf (storedOffset + n) (storedOffset + n + metaLen);
        do data <- slice buf (storedOffset + n + metaLen) (storedOffset + n + metaLen + dataLen);
        copy_block fuel' buf blen (storedOffset + n + metaLen + dataLen)
                   (newDocNum + 1, newDocNumOffsets1, dc_add metaBytes data c)
    end
  else Ok st.

(* for i := 0; i < len(s.storedFieldChunkOffsets)-1; i++ { (skip empty chunks) read,
   decompress, walk }.  Here every chunk is walked in a buffer with cap = len
   (no stale bytes beyond the block); StoredWriter_Proofs.copy_block_ok shows
   that the walk does not depend on what a reused buffer holds beyond len. *)
Fixpoint copy_blocks (blocks : list bytes) (st : MergeSt) : result MergeSt :=
  match blocks with
  | [] => Ok st
  | block :: blocks' =>
      do st1 <- copy_block (length block) block (lenN block) 0 st;
      copy_blocks blocks' st1
  end.

(* Segment.copyStoredDocs(newDocNum, newDocNumOffsets, docChunkCoder):
   if s.footer.numDocs <= 0 { return nil }; newDocNum is a by-value parameter,
   so the caller does not see its increments *)
Definition copy_stored_docs (si : StoredInput) (newDocNum : N) (newDocNumOffsets : list N)
           (c : docCoder) : result (list N * docCoder) :=
  if lenN (si_offsets si) =? 0 then Ok (newDocNumOffsets, c)
  else
    do st1 <- copy_blocks (si_blocks si) (newDocNum, newDocNumOffsets, c);
    let '(_, newDocNumOffsets1, c1) := st1 in
    Ok (newDocNumOffsets1, c1).

(* mergeFields, the flag:  same = true;
     for each segment, for fieldi, field := range seg.Fields() {
       if len(segment0Fields) != len(fields) || segment0Fields[fieldi] != field { same = false } } *)
Definition fields_same (fls : list (list bytes)) : bool :=
  let segment0Fields := match fls with [] => [] | f0 :: _ => f0 end in
  forallb (fun fields =>
    forallb (fun p : N * bytes =>
      if negb (lenN segment0Fields =? lenN fields) then false
      else match nthN segment0Fields (N.to_nat (fst p)) with
           | Some f0 => beq f0 (snd p)
           | None => false      (* unreachable: the lengths are equal *)
           end) (number_from 0 fields)) fls.

(* mergeFields, the list: _id first, then the other names of all inputs sorted *)
Definition merged_fields (fls : list (list bytes)) : list bytes :=
  field_list (flat_map' (fun f => f) fls).

(* mergeStoredAndRemap, the loop over the segments:
     if fieldsSame && (dropsI == nil || dropsI.GetCardinality() == 0) {
       seg.copyStoredDocs(newDocNum, docNumOffsets, docChunkCoder)
       for i < numDocs { segNewDocNums[i] = newDocNum; newDocNum++ }; continue }
     newDocNum, err2 = mergeStoredAndRemapSegment(...) *)
Fixpoint merge_inputs (ins : list StoredInput) (fieldsSame : bool) (fieldsInv : list bytes)
         (st : MergeSt) : result MergeSt :=
  match ins with
  | [] => Ok st
  | si :: ins' =>
      let '(newDocNum, docNumOffsets, c) := st in
      if fieldsSame && (match si_drops si with [] => true | _ :: _ => false end) then
        do r <- copy_stored_docs si newDocNum docNumOffsets c;
        let '(docNumOffsets1, c1) := r in
        merge_inputs ins' fieldsSame fieldsInv
                     (newDocNum + lenN (si_offsets si), docNumOffsets1, c1)
      else
        do st1 <- merge_reencode si fieldsInv st;
        merge_inputs ins' fieldsSame fieldsInv st1
  end.

(* mergeStoredAndRemap up to docChunkCoder.Write(): the blocks written and
   docNumOffsets = make([]uint64, newSegDocCount).  newSegDocCount is
   computeNewDocCount(segments, drops), a parameter here. *)
Definition merge_stored (ins : list StoredInput) (newSegDocCount : N) : result (list bytes * list N) :=
  let fls := map si_fields ins in
  do st <- merge_inputs ins (fields_same fls) (merged_fields fls)
             (0, repeat 0 (N.to_nat newSegDocCount), dc_new);
  let '(_, docNumOffsets, c) := st in
  Ok (dc_blocks (dc_finish c), docNumOffsets).

(* ------------------------------------------------------------------ *)
(* the layout the specification predicts (the shape of Run.stored_layout) *)
(* ------------------------------------------------------------------ *)
(* consecutive groups of 128 documents, the last one shorter, none empty *)
Fixpoint chunks_fuel (fuel : nat) (docs : list SVals) : list (list SVals) :=
  match fuel with
  | O => []
  | S f =>
      match docs with
      | [] => []
      | _ => firstn (N.to_nat block_docs) docs :: chunks_fuel f (skipn (N.to_nat block_docs) docs)
      end
  end.
Definition chunks (docs : list SVals) : list (list SVals) := chunks_fuel (length docs) docs.

Definition layout_of (docs : list SVals) : list bytes * list N :=
  (map block_of (chunks docs), flat_map' (block_offsets 0) (chunks docs)).

(* an input segment as the merger finds it stored *)
Definition stored_input_of (fields : list bytes) (docs : list SVals) (drops : list N) : StoredInput :=
  mkSI (fst (layout_of docs)) (snd (layout_of docs)) fields drops.

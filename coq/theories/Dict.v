(* Dict.v - the L1 model of the term dictionary: vellum as a sorted association
   list, the scratch PostingsList of DictionaryIterator and PostingsList.read /
   Count (dict.go, posting.go). *)
From Ice Require Export Base Spec.

(* what the FST maps a term to, as far as Count() is concerned *)
Inductive FstVal :=
| V1Hit (doc normBits : N)
| VGen (docs : list N).

(* the fields of PostingsList that read() and Count() touch *)
Record PL := mkPL {
  pl_postings : option (list N);   (* nil or the bitmap's content *)
  pl_doc1 : N;
  pl_norm1 : N;
  pl_except : option (list N) }.

Definition pl_zero : PL := mkPL None 0 0 None.

(* PostingsList.read after the repair: the general path clears the 1-hit fields *)
Definition pl_read (p : PL) (v : FstVal) : PL :=
  match v with
  | V1Hit d nb => mkPL (pl_postings p) d nb (pl_except p)
  | VGen docs => mkPL (Some docs) 0 0 (pl_except p)
  end.

(* the pre-fix read: the 1-hit fields survive (kept for the refutation witness) *)
Definition pl_read_prefix (p : PL) (v : FstVal) : PL :=
  match v with
  | V1Hit d nb => mkPL (pl_postings p) d nb (pl_except p)
  | VGen docs => mkPL (Some docs) (pl_doc1 p) (pl_norm1 p) (pl_except p)
  end.

Definition pl_Count (p : PL) : N :=
  if negb (pl_norm1 p =? 0) then
    1 - (match pl_except p with Some ex => if memN (pl_doc1 p) ex then 1 else 0 | None => 0 end)
  else match pl_postings p with
       | Some docs =>
           lenN docs - (match pl_except p with
                        | Some ex => lenN (filter (fun d => memN d ex) docs)
                        | None => 0
                        end)
       | None => 0
       end.

(* DictionaryIterator.Next over the entries the FST search yields, threading tmp *)
Fixpoint dict_iter (read : PL -> FstVal -> PL) (tmp : PL) (entries : list (bytes * FstVal))
  : list (bytes * N) :=
  match entries with
  | [] => []
  | (k, v) :: rest => let tmp' := read tmp v in (k, pl_Count tmp') :: dict_iter read tmp' rest
  end.

Definition fst_count (v : FstVal) : N :=
  match v with V1Hit _ _ => 1 | VGen docs => lenN docs end.

(* vellum search: the entries of a sorted map inside [lo, hi) matching the automaton *)
Definition fst_search (m : list (bytes * FstVal)) (lo hi pre : option bytes) : list (bytes * FstVal) :=
  filter (fun e => in_range lo hi pre (fst e)) m.

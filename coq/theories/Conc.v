(* Conc.v - the interleaving model behind C09.  After construction the only
   mutable state of a Segment that readers share is the FST cache, filled under
   the segment mutex with a pure function of immutable data.  Threads are lists
   of atomic actions; a schedule picks which thread moves next.  The discipline
   that makes this model adequate is checked on the table of shared writes the
   translator extracts from /repo ([discipline_ok]). *)
From Ice Require Export Base.

Section Model.
  Variable F : N -> N.       (* what loading key's FST from the immutable bytes yields *)
  Variable D : N -> N.       (* the immutable data of the segment *)

  Inductive action :=
  | AFill (key : N)          (* Lock; if cache[key] absent then cache[key] := F key; v := cache[key]; Unlock *)
  | ARead (loc : N)          (* read immutable data *)
  | AScratchWrite (v : N)    (* the pre-fix defect: an unlocked write to a buffer cached on the segment *)
  | AScratchRead.            (* ... and a later unlocked read of it *)

  Record shared := mkShared { cache : list (N * N); scratch : N }.

  Definition cache_get (c : list (N * N)) (k : N) : option N :=
    match find (fun p => fst p =? k) c with Some p => Some (snd p) | None => None end.

  (* one atomic step of one thread: new shared state and the value observed *)
  Definition do_action (s : shared) (a : action) : shared * N :=
    match a with
    | AFill k =>
        match cache_get (cache s) k with
        | Some v => (s, v)
        | None => (mkShared ((k, F k) :: cache s) (scratch s), F k)
        end
    | ARead l => (s, D l)
    | AScratchWrite v => (mkShared (cache s) v, 0)
    | AScratchRead => (s, scratch s)
    end.

  (* thread pool: remaining actions and what each thread observed so far (newest first) *)
  Definition pool := list (list action * list N).

  Fixpoint step_thread (s : shared) (p : pool) (t : nat) : shared * pool :=
    match p, t with
    | [], _ => (s, [])
    | (acts, obs) :: rest, O =>
        match acts with
        | [] => (s, p)
        | a :: acts' => let '(s', v) := do_action s a in (s', (acts', v :: obs) :: rest)
        end
    | th :: rest, S t' => let '(s', rest') := step_thread s rest t' in (s', th :: rest')
    end.

  Fixpoint run_schedule (s : shared) (p : pool) (sched : list nat) : shared * pool :=
    match sched with
    | [] => (s, p)
    | t :: sched' => let '(s', p') := step_thread s p t in run_schedule s' p' sched'
    end.

  (* what a thread observes when it runs alone from an empty cache *)
  Fixpoint alone (s : shared) (acts : list action) (obs : list N) : list N :=
    match acts with
    | [] => obs
    | a :: acts' => let '(s', v) := do_action s a in alone s' acts' (v :: obs)
    end.

  Definition safe_action (a : action) : bool :=
    match a with AFill _ | ARead _ => true | _ => false end.
End Model.

(* ---- the table of writes to shared segment state, regenerated from /repo ---- *)
Record wfoot := mkWF {
  wf_func : N;            (* index into the translator's function table (names in comments) *)
  wf_field : N;           (* index into the translator's field table *)
  wf_locked : bool;       (* the write is syntactically between m.Lock() and m.Unlock() *)
  wf_construction : bool; (* the function is only reachable from load / initSegmentBase / New *)
  wf_cachefill : bool }.  (* the target is the FST cache map *)

Definition discipline_ok (tbl : list wfoot) : bool :=
  forallb (fun w => wf_construction w || (wf_locked w && wf_cachefill w)) tbl.

(* Chunk.v - chunk.go getChunkSize and the chunk arithmetic of the coders. *)
From Ice Require Export Base.

Definition legacyChunkMode : N := 1024.
Definition chunkModeV1 : N := 1025.
Definition maxDocsToScanSequentially : N := 1024.

(* getChunkSize(chunkMode, cardinality, maxDocs); None = "unknown chunk mode" error *)
Definition getChunkSize (chunkMode cardinality maxDocs : N) : option N :=
  if chunkMode <=? legacyChunkMode then Some chunkMode
  else if chunkMode =? chunkModeV1 then
    Some (maxDocs / (cardinality / maxDocsToScanSequentially + 1))
  else None.

(* newChunkedIntCoder / SetChunkSize: number of chunk slots for documents 0..maxDocNum *)
Definition num_chunks (chunkSize maxDocNum : N) : N := maxDocNum / chunkSize + 1.

Definition chunk_of (chunkSize docNum : N) : N := docNum / chunkSize.

(* intcoder.go modifyLengthsToEndOffsets: running sums *)
Fixpoint end_offsets (acc : N) (lens : list N) : list N :=
  match lens with
  | [] => []
  | l :: lens' => (acc + l) :: end_offsets (acc + l) lens'
  end.

(* intcoder.go readChunkBoundary; None = index out of range *)
Definition readChunkBoundary (chunk : nat) (offsets : list N) : option (N * N) :=
  match nthN offsets chunk with
  | None => None
  | Some e =>
      match chunk with
      | O => Some (0, e)
      | S c => match nthN offsets c with Some s => Some (s, e) | None => None end
      end
  end.

Definition valid_mode (cm : N) : bool := ((1 <=? cm) && (cm <=? 1024)) || (cm =? 1025).

(* Pool.v - the POOLED builder object of new.go (interimPool / interim / reset)
   with Go slice semantics: length, capacity and the stale contents of the
   backing array that a re-slice exposes again.

   Builder.v models a build that starts from a FRESH interim object.  In Go
   the object comes from interimPool: newWithChunkMode takes it out of the
   pool, builds, and - only when the build AND reset() succeeded - puts it
   back.  The next build re-slices the pooled slices instead of allocating
   (convert, getOrDefineField, prepareDicts).  This file models

     gslice            a Go slice: a length and the whole backing array from the
                       slice's start to its capacity
     pstate            the fields of interim that survive reset()
     pool_reset        reset(), line by line
     take_* / define_* the places where a build re-slices pooled state, each
                       returning what the build then sees
     Reach             the states an object taken out of the pool can be in

   Everything is executable; the theorems are in proofs/Pool_Proofs.v.

   Fields of interim that are not modelled, and why they cannot carry state
   from one build into the next:
     results, chunkMode, w, normCalc     assigned by newWithChunkMode before use
     FieldsMap, FieldDocs, FieldFreqs    convert() starts with fresh maps
     FieldsInv                           set to nil by reset(), grown by append
     lastNumDocs, lastOutSize            only size the output buffer (br.Grow)
     tmp0, tmp1, metaBuf, builderBuf     byte buffers, truncated by reset();
                                         every use writes buf[:n] before reading it
     builder                             vellum builder, Reset(&builderBuf)
   Integer widths as in Builder.v (Go ints are unbounded naturals here). *)
From Ice Require Export Base Spec Postings Builder.

(* ------------------------------------------------------------------ *)
(* Go slices                                                           *)
(* ------------------------------------------------------------------ *)
(* [gs_back] is the backing array from the first element of the slice to its
   capacity; the first [gs_len] elements are the elements of the slice, the
   others are what an earlier user of the array left there.  A slice
   expression s[:n] with len(s) < n <= cap(s) makes them visible again.
   The nil slice has length 0 and an empty backing array. *)
Record gslice (X : Type) := mkGS { gs_len : nat; gs_back : list X }.
Arguments mkGS {X} gs_len gs_back.
Arguments gs_len {X} g.
Arguments gs_back {X} g.

Section GSlice.
  Context {X : Type}.

  Definition gcap (s : gslice X) : nat := length (gs_back s).           (* cap(s) *)
  Definition visible (s : gslice X) : list X := firstn (gs_len s) (gs_back s).   (* s[0:len(s)] *)
  Definition stale (s : gslice X) : list X := skipn (gs_len s) (gs_back s).      (* s[len(s):cap(s)] *)

  (* len(s) <= cap(s): holds for every slice Go can construct *)
  Definition gs_wf (s : gslice X) : Prop := (gs_len s <= gcap s)%nat.
  Definition gs_wfb (s : gslice X) : bool := Nat.leb (gs_len s) (gcap s).

  Definition gnil : gslice X := mkGS O [].                               (* nil *)
  Definition gmake (z : X) (n : nat) : gslice X := mkGS n (repeat z n).  (* make([]X, n) *)

  (* s[:n]; slice bounds out of range when n > cap(s) *)
  Definition reslice (s : gslice X) (n : nat) : result (gslice X) :=
    if Nat.leb n (gcap s) then Ok (mkGS n (gs_back s)) else Panic.

  (* s[:0] *)
  Definition truncate (s : gslice X) : gslice X := mkGS O (gs_back s).

  (* append(s, x).  With spare capacity the element is written into the
     backing array at index len(s) and the rest of the array stays as it is.
     Otherwise a new array is allocated: the elements of s, x, and [g] further
     zero-valued cells ([g] is the runtime's choice of growth, any number). *)
  Definition gappend (g : nat) (z : X) (s : gslice X) (x : X) : gslice X :=
    if Nat.ltb (gs_len s) (gcap s)
    then mkGS (S (gs_len s)) (set_nth (gs_len s) x (gs_back s))
    else mkGS (S (gs_len s)) (firstn (gs_len s) (gs_back s) ++ x :: repeat z g).

  (* s[i]; index out of range at or beyond the LENGTH *)
  Definition gget (s : gslice X) (i : nat) : result X :=
    if Nat.ltb i (gs_len s)
    then match nthN (gs_back s) i with Some x => Ok x | None => Panic end
    else Panic.

  (* s[i] = x *)
  Definition gset (s : gslice X) (i : nat) (x : X) : result (gslice X) :=
    if Nat.ltb i (gs_len s) then Ok (mkGS (gs_len s) (set_nth i x (gs_back s))) else Panic.

  (* for i := range s { s[i] = f(s[i]) }: range runs over the LENGTH, the cells
     between length and capacity are not touched *)
  Definition gmap_vis (f : X -> X) (s : gslice X) : gslice X :=
    mkGS (gs_len s) (map f (firstn (gs_len s) (gs_back s)) ++ skipn (gs_len s) (gs_back s)).

  (* if cap(s) >= n { s = s[:n] } else { s = make([]X, n) } *)
  Definition take_or_make (z : X) (s : gslice X) (n : nat) : gslice X :=
    if Nat.leb n (gcap s) then mkGS n (gs_back s) else gmake z n.

  (* a computation wrote (anything) at indices below the length only *)
  Definition wrote_below (s s' : gslice X) : Prop :=
    gs_len s' = gs_len s /\ gcap s' = gcap s /\ stale s' = stale s.

  (* a sequence of appends and of assignments to elements: how the build uses
     the slices it grows from length 0 *)
  Inductive sl_op := OpApp (g : nat) (x : X) | OpSet (i : nat) (x : X).

  Definition sl_step (z : X) (s : gslice X) (op : sl_op) : result (gslice X) :=
    match op with
    | OpApp g x => Ok (gappend g z s x)
    | OpSet i x => gset s i x
    end.

  Fixpoint sl_run (z : X) (ops : list sl_op) (s : gslice X) : result (gslice X) :=
    match ops with
    | [] => Ok s
    | op :: r => do s' <- sl_step z s op; sl_run z r s'
    end.

  (* the same operations on a plain list: the model Builder.v uses for these
     slices (Pool_Proofs.sl_run_visible: the two agree on what is visible) *)
  Definition l_step (l : list X) (op : sl_op) : result (list X) :=
    match op with
    | OpApp _ x => Ok (l ++ [x])
    | OpSet i x => if Nat.ltb i (length l) then Ok (set_nth i x l) else Panic
    end.

  Fixpoint l_run (ops : list sl_op) (l : list X) : result (list X) :=
    match ops with
    | [] => Ok l
    | op :: r => do l' <- l_step l op; l_run r l'
    end.
End GSlice.
Arguments sl_op X : clear implicits.

Definition rmap {A B} (f : A -> B) (r : result A) : result B :=
  do x <- r; Ok (f x).

(* ------------------------------------------------------------------ *)
(* the pooled fields of interim                                        *)
(* ------------------------------------------------------------------ *)
Definition Dict := list (bytes * nat).   (* map[string]uint64; nil reads as the empty map *)

Record pstate := mkP {
  pIncludeDV : gslice bool;                            (* IncludeDocValues []bool *)
  pDicts : gslice Dict;                                (* Dicts []map[string]uint64 *)
  pDictKeys : gslice (gslice bytes);                   (* DictKeys [][]string *)
  pPostings : gslice (list N);                         (* Postings []*roaring.Bitmap: the members *)
  pFreqNorms : gslice (Slice interimFreqNorm);         (* FreqNorms [][]interimFreqNorm: slice headers *)
  pFNBacking : gslice (option interimFreqNorm);        (* freqNormsBacking; None = interimFreqNorm{} *)
  pLocs : gslice (Slice ELoc);                         (* Locs [][]interimLoc: slice headers *)
  pLocsBacking : gslice (option ELoc);                 (* locsBacking; None = interimLoc{} *)
  pNumTerms : gslice nat;                              (* numTermsPerPostingsList *)
  pNumLocs : gslice nat }.                             (* numLocsPerPostingsList *)

(* Postings holds pointers.  Every cell of its backing array points to a
   bitmap of its own: prepareDicts fills every nil cell of a new array with
   roaring.New() and copies the old pointers once, into an array that replaces
   the old one.  A cell is therefore modelled by the bitmap's members. *)

(* &interim{}: what interimPool's New delivers *)
Definition pool_fresh : pstate :=
  mkP gnil gnil gnil gnil gnil gnil gnil gnil gnil gnil.

(* ------------------------------------------------------------------ *)
(* reset()                                                             *)
(* ------------------------------------------------------------------ *)
Definition pool_reset (st : pstate) : pstate :=
  mkP
    (* for i := range s.IncludeDocValues { s.IncludeDocValues[i] = false }
       s.IncludeDocValues = s.IncludeDocValues[:0] *)
    (truncate (gmap_vis (fun _ => false) (pIncludeDV st)))
    (* for i := range s.Dicts { s.Dicts[i] = nil }; s.Dicts = s.Dicts[:0] *)
    (truncate (gmap_vis (fun _ => []) (pDicts st)))
    (* for i := range s.DictKeys { s.DictKeys[i] = s.DictKeys[i][:0] }
       s.DictKeys = s.DictKeys[:0] *)
    (truncate (gmap_vis truncate (pDictKeys st)))
    (* for _, idn := range s.Postings { idn.Clear() }; s.Postings = s.Postings[:0]
       the bitmaps stay in the backing array *)
    (truncate (gmap_vis (fun _ => []) (pPostings st)))
    (* s.FreqNorms = s.FreqNorms[:0]   (the old headers stay in the array) *)
    (truncate (pFreqNorms st))
    (* for i := range s.freqNormsBacking { s.freqNormsBacking[i] = interimFreqNorm{} }
       s.freqNormsBacking = s.freqNormsBacking[:0] *)
    (truncate (gmap_vis (fun _ => None) (pFNBacking st)))
    (* s.Locs = s.Locs[:0] *)
    (truncate (pLocs st))
    (* for i := range s.locsBacking { s.locsBacking[i] = interimLoc{} }
       s.locsBacking = s.locsBacking[:0] *)
    (truncate (gmap_vis (fun _ => None) (pLocsBacking st)))
    (* s.numTermsPerPostingsList = s.numTermsPerPostingsList[:0] *)
    (truncate (pNumTerms st))
    (* s.numLocsPerPostingsList = s.numLocsPerPostingsList[:0] *)
    (truncate (pNumLocs st)).

(* two resets with one line forgotten: the theorems must tell them from reset() *)
(* ... IncludeDocValues truncated, its elements not set to false *)
Definition pool_reset_bad1 (st : pstate) : pstate :=
  let r := pool_reset st in
  mkP (truncate (pIncludeDV st)) (pDicts r) (pDictKeys r) (pPostings r) (pFreqNorms r)
      (pFNBacking r) (pLocs r) (pLocsBacking r) (pNumTerms r) (pNumLocs r).

(* ... Postings truncated, the bitmaps not cleared *)
Definition pool_reset_bad2 (st : pstate) : pstate :=
  let r := pool_reset st in
  mkP (pIncludeDV r) (pDicts r) (pDictKeys r) (truncate (pPostings st)) (pFreqNorms r)
      (pFNBacking r) (pLocs r) (pLocsBacking r) (pNumTerms r) (pNumLocs r).

(* ------------------------------------------------------------------ *)
(* the places where a build re-slices pooled state                     *)
(* ------------------------------------------------------------------ *)
(* convert:
     if cap(s.IncludeDocValues) >= len(s.FieldsInv) {
       s.IncludeDocValues = s.IncludeDocValues[:len(s.FieldsInv)]
     } else { s.IncludeDocValues = make([]bool, len(s.FieldsInv)) } *)
Definition take_include_dv (st : pstate) (nfields : nat) : gslice bool :=
  take_or_make false (pIncludeDV st) nfields.

(* getOrDefineField, the branch of an unknown name, on Dicts:
     s.Dicts = append(s.Dicts, make(map[string]uint64)) *)
Definition define_dicts (g : nat) (s : gslice Dict) : gslice Dict := gappend g [] s [].

(* ... and on DictKeys:
     n := len(s.DictKeys)
     if n < cap(s.DictKeys) {
       s.DictKeys = s.DictKeys[:n+1]
       s.DictKeys[n] = s.DictKeys[n][:0]
     } else { s.DictKeys = append(s.DictKeys, []string(nil)) } *)
Definition define_dictkeys (g : nat) (s : gslice (gslice bytes)) : gslice (gslice bytes) :=
  let n := gs_len s in
  if Nat.ltb n (gcap s)
  then mkGS (S n) (set_nth n (truncate (nth n (gs_back s) gnil)) (gs_back s))
  else gappend g gnil s gnil.

(* what the build does with DictKeys:
     DKDefine       getOrDefineField defines a field
     DKAppend i t   dictKeys := s.DictKeys[i]; dictKeys = append(dictKeys, t);
                    s.DictKeys[i] = dictKeys   (prepareDictsForDocument, term by term)
     DKSort i       sort.Strings(s.DictKeys[i]): in place *)
Inductive dk_op := DKDefine (g : nat) | DKAppend (i : nat) (g : nat) (t : bytes) | DKSort (i : nat).

Definition dk_step (s : gslice (gslice bytes)) (op : dk_op) : result (gslice (gslice bytes)) :=
  match op with
  | DKDefine g => Ok (define_dictkeys g s)
  | DKAppend i g t => do d <- gget s i; gset s i (gappend g [] d t)
  | DKSort i =>
      do d <- gget s i;
      gset s i (mkGS (gs_len d) (isort ble (visible d) ++ stale d))
  end.

Fixpoint dk_run (ops : list dk_op) (s : gslice (gslice bytes)) : result (gslice (gslice bytes)) :=
  match ops with
  | [] => Ok s
  | op :: r => do s' <- dk_step s op; dk_run r s'
  end.

(* the same on Builder.v's list of lists *)
Definition ldk_step (l : list (list bytes)) (op : dk_op) : result (list (list bytes)) :=
  match op with
  | DKDefine _ => Ok (l ++ [[]])
  | DKAppend i _ t =>
      if Nat.ltb i (length l) then Ok (set_nth i (nth i l [] ++ [t]) l) else Panic
  | DKSort i =>
      if Nat.ltb i (length l) then Ok (set_nth i (isort ble (nth i l [])) l) else Panic
  end.

Fixpoint ldk_run (ops : list dk_op) (l : list (list bytes)) : result (list (list bytes)) :=
  match ops with
  | [] => Ok l
  | op :: r => do l' <- ldk_step l op; ldk_run r l'
  end.

(* what a reader of DictKeys sees: the strings of the slices below the length *)
Definition dk_view (s : gslice (gslice bytes)) : list (list bytes) := map visible (visible s).

(* prepareDicts:
     if cap(s.Postings) >= numPostingsLists { s.Postings = s.Postings[:numPostingsLists] }
     else {
       postings := make([]*roaring.Bitmap, numPostingsLists)
       copy(postings, s.Postings[:cap(s.Postings)])
       for i := 0; i < numPostingsLists; i++ {
         if postings[i] == nil { postings[i] = roaring.New() } }
       s.Postings = postings } *)
Definition take_postings (st : pstate) (n : nat) : gslice (list N) :=
  let s := pPostings st in
  if Nat.leb n (gcap s) then mkGS n (gs_back s)
  else mkGS n (gs_back s ++ repeat [] (n - gcap s)).

(* if cap(s.FreqNorms) >= numPostingsLists { s.FreqNorms = s.FreqNorms[:numPostingsLists] }
   else { s.FreqNorms = make([][]interimFreqNorm, numPostingsLists) }      (same for Locs)
   the zero value of a slice header is nil *)
Definition take_outer {X} (s : gslice (Slice X)) (n : nat) : gslice (Slice X) :=
  take_or_make (Detached []) s n.

(* if cap(s.freqNormsBacking) >= totTFs { s.freqNormsBacking = s.freqNormsBacking[:totTFs] }
   else { s.freqNormsBacking = make([]interimFreqNorm, totTFs) }           (same for locsBacking) *)
Definition take_backing {X} (s : gslice (option X)) (tot : nat) : gslice (option X) :=
  take_or_make None s tot.

(* freqNormsBacking := s.freqNormsBacking
   for pid, numTerms := range s.numTermsPerPostingsList {
     s.FreqNorms[pid] = freqNormsBacking[0:0]
     freqNormsBacking = freqNormsBacking[numTerms:] }
   (a count larger than what is left of the backing slice is a slice-bounds
   panic in Go; the counts of prepareDicts add up to the length exactly) *)
Fixpoint carve_into {X} (s : gslice (Slice X)) (pid off : nat) (counts : list nat)
  : result (gslice (Slice X)) :=
  match counts with
  | [] => Ok s
  | n :: r => do s' <- gset s pid (Win off 0); carve_into s' (S pid) (off + n)%nat r
  end.

Definition take_windows {X} (s : gslice (Slice X)) (n : nat) (counts : list nat)
  : result (gslice (Slice X)) :=
  carve_into (take_outer s n) 0 0 counts.

(* numTermsPerPostingsList / numLocsPerPostingsList: grown by append(…, 0) from
   the length reset() left, elements incremented in place *)
Definition grow_counters (ops : list (sl_op nat)) (s : gslice nat) : result (gslice nat) :=
  sl_run 0%nat ops s.

(* ------------------------------------------------------------------ *)
(* the states of an object taken out of the pool                       *)
(* ------------------------------------------------------------------ *)
(* A successful build, seen from the pooled fields: any sizes, any operations
   on the slices that grow by append, any values written below the lengths
   the build set.  (That processDocuments writes FreqNorms/Locs entries below
   the lengths of the two backing slices only is Builder_Proofs.no_detach;
   Pool_Proofs.build_leaves_stale_untouched repeats it for a pooled array.) *)
Inductive build_step (st st' : pstate) : Prop :=
| BuildOk (nf np totTFs totLocs : nat)
          (dops : list (sl_op Dict)) (kops : list dk_op) (tops lops : list (sl_op nat)) :
    wrote_below (take_include_dv st nf) (pIncludeDV st') ->
    sl_run [] dops (pDicts st) = Ok (pDicts st') ->
    dk_run kops (pDictKeys st) = Ok (pDictKeys st') ->
    wrote_below (take_postings st np) (pPostings st') ->
    wrote_below (take_outer (pFreqNorms st) np) (pFreqNorms st') ->
    wrote_below (take_backing (pFNBacking st) totTFs) (pFNBacking st') ->
    wrote_below (take_outer (pLocs st) np) (pLocs st') ->
    wrote_below (take_backing (pLocsBacking st) totLocs) (pLocsBacking st') ->
    grow_counters tops (pNumTerms st) = Ok (pNumTerms st') ->
    grow_counters lops (pNumLocs st) = Ok (pNumLocs st') ->
    build_step st st'.

(* an executable successful build: sizes, operations and the assignments
   (index, value) made to elements of the re-sliced slices
   (Pool_Proofs.run_build_step: its result is a build_step) *)
Fixpoint write_all {X} (ws : list (nat * X)) (s : gslice X) : result (gslice X) :=
  match ws with
  | [] => Ok s
  | (i, x) :: r => do s' <- gset s i x; write_all r s'
  end.

Record build_descr := mkBD {
  bd_nf : nat; bd_np : nat; bd_totTFs : nat; bd_totLocs : nat;
  bd_dv : list (nat * bool);                               (* s.IncludeDocValues[fieldID] = true *)
  bd_dops : list (sl_op Dict);
  bd_kops : list dk_op;
  bd_post : list (nat * list N);                           (* s.Postings[pid].Add(docNum) *)
  bd_fnw : list (nat * Slice interimFreqNorm);             (* s.FreqNorms[pid] = ... *)
  bd_fnb : list (nat * option interimFreqNorm);            (* appends inside the windows *)
  bd_lw : list (nat * Slice ELoc);
  bd_lb : list (nat * option ELoc);
  bd_tops : list (sl_op nat);
  bd_lops : list (sl_op nat) }.

Definition run_build (st : pstate) (d : build_descr) : result pstate :=
  do a1 <- write_all (bd_dv d) (take_include_dv st (bd_nf d));
  do a2 <- sl_run [] (bd_dops d) (pDicts st);
  do a3 <- dk_run (bd_kops d) (pDictKeys st);
  do a4 <- write_all (bd_post d) (take_postings st (bd_np d));
  do a5 <- write_all (bd_fnw d) (take_outer (pFreqNorms st) (bd_np d));
  do a6 <- write_all (bd_fnb d) (take_backing (pFNBacking st) (bd_totTFs d));
  do a7 <- write_all (bd_lw d) (take_outer (pLocs st) (bd_np d));
  do a8 <- write_all (bd_lb d) (take_backing (pLocsBacking st) (bd_totLocs d));
  do a9 <- grow_counters (bd_tops d) (pNumTerms st);
  do a10 <- grow_counters (bd_lops d) (pNumLocs st);
  Ok (mkP a1 a2 a3 a4 a5 a6 a7 a8 a9 a10).

(* newWithChunkMode: s := interimPool.Get() ... if err == nil && s.reset() == nil
   { interimPool.Put(s) }.  Get delivers a new object or one that was put; a
   failed build (or a failed reset) drops the object. *)
Inductive Reach : pstate -> Prop :=
| Reach_fresh : Reach pool_fresh
| Reach_put (st st' : pstate) : Reach st -> build_step st st' -> Reach (pool_reset st').

(* ------------------------------------------------------------------ *)
(* what reset() has to establish                                       *)
(* ------------------------------------------------------------------ *)
(* every pooled slice has length 0 and every cell of the backing arrays that
   a re-slice can expose holds the zero value (an inner DictKeys slice: has
   length 0; its own backing array may still hold old strings) *)
Definition Clean (st : pstate) : Prop :=
  (gs_len (pIncludeDV st) = O /\ Forall (fun x => x = false) (gs_back (pIncludeDV st))) /\
  (gs_len (pDicts st) = O /\ Forall (fun d => d = []) (gs_back (pDicts st))) /\
  (gs_len (pDictKeys st) = O /\ Forall (fun d => gs_len d = O) (gs_back (pDictKeys st))) /\
  (gs_len (pPostings st) = O /\ Forall (fun bm => bm = []) (gs_back (pPostings st))) /\
  gs_len (pFreqNorms st) = O /\
  (gs_len (pFNBacking st) = O /\ Forall (fun x => x = None) (gs_back (pFNBacking st))) /\
  gs_len (pLocs st) = O /\
  (gs_len (pLocsBacking st) = O /\ Forall (fun x => x = None) (gs_back (pLocsBacking st))) /\
  gs_len (pNumTerms st) = O /\
  gs_len (pNumLocs st) = O.

Definition is_none {A} (o : option A) : bool := match o with None => true | Some _ => false end.
Definition is_nil {A} (l : list A) : bool := match l with [] => true | _ => false end.

Definition cleanb (st : pstate) : bool :=
  Nat.eqb (gs_len (pIncludeDV st)) 0 && forallb negb (gs_back (pIncludeDV st)) &&
  Nat.eqb (gs_len (pDicts st)) 0 && forallb is_nil (gs_back (pDicts st)) &&
  Nat.eqb (gs_len (pDictKeys st)) 0 &&
    forallb (fun d => Nat.eqb (gs_len d) 0) (gs_back (pDictKeys st)) &&
  Nat.eqb (gs_len (pPostings st)) 0 && forallb is_nil (gs_back (pPostings st)) &&
  Nat.eqb (gs_len (pFreqNorms st)) 0 &&
  Nat.eqb (gs_len (pFNBacking st)) 0 && forallb is_none (gs_back (pFNBacking st)) &&
  Nat.eqb (gs_len (pLocs st)) 0 &&
  Nat.eqb (gs_len (pLocsBacking st)) 0 && forallb is_none (gs_back (pLocsBacking st)) &&
  Nat.eqb (gs_len (pNumTerms st)) 0 &&
  Nat.eqb (gs_len (pNumLocs st)) 0.

(* ------------------------------------------------------------------ *)
(* the build that starts from a pooled object                          *)
(* ------------------------------------------------------------------ *)
(* Builder.initial with Postings, the two families of slice headers and the
   two backing arrays taken from the pooled state.  A window carved out of
   s.freqNormsBacking has the capacity of the ARRAY (freqNormsBacking[n:]
   keeps the capacity), which for a pooled array reaches beyond the length
   totTFs: the Arr gets the whole backing array.  The field table and the
   counters are those of Builder.v's list model (sl_run_visible and
   dk_run_view in Pool_Proofs.v: slices grown by append from length 0 show
   exactly the list). *)
Definition initial_from (st : pstate) (b : Batch)
  : result (Interim (Arr interimFreqNorm) (Arr ELoc)) :=
  let p := prepared b in
  let postings := take_postings st (p_pidNext p) in
  do fnw <- take_windows (pFreqNorms st) (p_pidNext p) (p_numTerms p);
  let fnb := take_backing (pFNBacking st) (p_totTFs p) in
  do lw <- take_windows (pLocs st) (p_pidNext p) (p_numLocs p);
  let lb := take_backing (pLocsBacking st) (p_totLocs p) in
  Ok (mkInterim (i_flds (initial b))
                (visible postings)
                (mkArr (gs_back fnb) (visible fnw))
                (mkArr (gs_back lb) (visible lw))).

(* the walk of writeDicts over the final state (Builder.build_postings_model
   after convert_inmem) *)
Definition postings_of (s : Interim (Arr interimFreqNorm) (Arr ELoc))
  : list (bytes * list (bytes * list EPosting)) :=
  let fl := i_flds s in
  map (fun fid =>
         (nth fid (FieldsInv fl) [],
          map (fun term => (term, term_postings s (nth fid (Dicts fl) []) term))
              (nth fid (DictKeys fl) [])))
      (seq 0 (length (DictKeys fl))).

Definition build_from (st : pstate) (norm : bytes -> N -> N) (perm : N -> nat -> TFs -> TFs)
           (b : Batch) : result (list (bytes * list (bytes * list EPosting))) :=
  do s0 <- initial_from st b;
  Ok (postings_of (process_documents norm perm arr_append arr_append s0 b)).

(* Postings.v - the L1 model of ice's postings encoding and of the
   PostingsIterator cursor machine (posting.go, intdecoder.go, memuvarint.go).
   Chunks are uncompressed byte strings (zstd is peeled off); roaring iterators
   are the list of numbers not yet returned.  Each function follows its Go
   counterpart statement by statement.  Executable; proofs are in
   proofs/Iterator_Proofs.v. *)
From Ice Require Export Base Varint Chunk Spec.

(* ---- stored form of a posting: locations carry field ids ---- *)
Definition ELoc := (N * (N * (N * N)))%type.               (* field id, pos, start, end *)
Definition EPosting := (N * (N * (N * list ELoc)))%type.    (* doc, freq, norm bits, locations *)

Definition ep_doc (p : EPosting) : N := fst p.
Definition ep_freq (p : EPosting) : N := fst (snd p).
Definition ep_norm (p : EPosting) : N := fst (snd (snd p)).
Definition ep_locs (p : EPosting) : list ELoc := snd (snd (snd p)).
Definition ep_hasLocs (p : EPosting) : bool := match ep_locs p with [] => false | _ => true end.

(* posting.go encodeFreqHasLocs *)
Definition encodeFreqHasLocs (freq : N) (hasLocs : bool) : N :=
  N.lor (wrap64 (N.shiftl freq 1)) (if hasLocs then 1 else 0).

Definition loc_values (l : ELoc) : list N :=
  let '(f, (p, (s, e))) := l in [f; p; s; e].
Definition loc_bytes (l : ELoc) : bytes := put_uvarints (loc_values l).
Definition loc_size (l : ELoc) : N := sumN (map num_uvarint_bytes (loc_values l)).

(* what the builder/merger adds to the freq/norm coder and to the location coder *)
Definition freq_entry (p : EPosting) : bytes :=
  put_uvarint (encodeFreqHasLocs (ep_freq p) (ep_hasLocs p)) ++ put_uvarint (ep_norm p).
Definition loc_entry (p : EPosting) : bytes :=
  match ep_locs p with
  | [] => []
  | ls => put_uvarint (sumN (map loc_size ls)) ++ flat_map' loc_bytes ls
  end.

(* the uncompressed content of chunk c: the entries of the postings whose
   document falls into it, in posting order *)
Definition chunk_stream (enc : EPosting -> bytes) (cs c : N) (ps : list EPosting) : bytes :=
  flat_map' (fun p => if ep_doc p / cs =? c then enc p else []) ps.
Definition chunks_of (enc : EPosting -> bytes) (cs : N) (total : nat) (ps : list EPosting) : list bytes :=
  map (fun c => chunk_stream enc cs (N.of_nat c) ps) (seq 0 total).

(* ---- the encoded postings list, as the reader sees it ---- *)
Inductive EncPL :=
| E1Hit (doc normBits : N)
| EGen (docs : list N) (cs : N) (fchunks : list bytes) (lchunks : option (list bytes)).

Definition encode_gen (cs : N) (total : nat) (ps : list EPosting) : EncPL :=
  EGen (map ep_doc ps) cs (chunks_of freq_entry cs total ps)
       (if existsb ep_hasLocs ps then Some (chunks_of loc_entry cs total ps) else None).

(* ---- chunkedIntDecoder ---- *)
Record Dec := mkDec {
  d_chunks : option (list bytes);   (* None: startOffset == termNotEncoded *)
  d_cur : bytes;                    (* curChunkBytes (isNil looks at it) *)
  d_r : bytes }.                    (* memUvarintReader: the unread suffix S[C:] *)

Definition dec_fresh : Dec := mkDec None [] [].
Definition dec_reset (d : Dec) : Dec := mkDec None [] [].   (* reset(): offsets, bytes and reader cleared *)
Definition dec_isNil (d : Dec) : bool := match d_cur d with [] => true | _ => false end.

(* newChunkedIntDecoder re-points a (reset) decoder at a new stream *)
Definition dec_open (d : Dec) (chunks : option (list bytes)) : Dec :=
  mkDec chunks (d_cur d) (d_r d).

Definition dec_load (d : Dec) (chunk : N) : result Dec :=
  match d_chunks d with
  | None => Ok (mkDec None (d_cur d) [])
  | Some cks =>
      match nthN cks (N.to_nat chunk) with
      | None => Err                          (* "tried to load freq chunk that doesn't exist" *)
      | Some b => Ok (mkDec (Some cks) b b)
      end
  end.

Definition read_uv (d : Dec) : result (N * Dec) :=
  match read_uvarint (d_r d) with
  | None => Panic
  | Some (None, _) => Err
  | Some (Some v, rest) => Ok (v, mkDec (d_chunks d) (d_cur d) rest)
  end.
Definition skip_uv (d : Dec) : result Dec :=
  match skip_uvarint (d_r d) with
  | None => Panic
  | Some rest => Ok (mkDec (d_chunks d) (d_cur d) rest)
  end.
Definition dec_skip_bytes (d : Dec) (n : N) : Dec :=
  mkDec (d_chunks d) (d_cur d) (skip_bytes n (d_r d)).
Definition dec_len (d : Dec) : N := lenN (d_r d).

(* ---- PostingsIterator ---- *)
Definition docNum1HitFinished : N := 18446744073709551615.

Record It := mkIt {
  it_norm1 : N;            (* normBits1Hit; 0 for a general list *)
  it_doc1 : N;             (* docNum1Hit *)
  it_all : list N;         (* all: numbers not yet returned by all.Next() *)
  it_actual : list N;      (* Actual *)
  it_clean : bool;         (* postings.postings == ActualBM (one shared iterator) *)
  it_cs : N;               (* postings.chunkSize *)
  it_cur : N;              (* currChunk *)
  it_fr : Dec;             (* freqNormReader *)
  it_lr : Dec;             (* locReader *)
  it_fn : bool;            (* includeFreqNorm *)
  it_locs : bool;          (* includeLocs *)
  it_fields : list bytes }. (* postings.sb.fieldsInv *)

Definition set_fr (i : It) (d : Dec) : It :=
  mkIt (it_norm1 i) (it_doc1 i) (it_all i) (it_actual i) (it_clean i) (it_cs i) (it_cur i)
       d (it_lr i) (it_fn i) (it_locs i) (it_fields i).
Definition set_lr (i : It) (d : Dec) : It :=
  mkIt (it_norm1 i) (it_doc1 i) (it_all i) (it_actual i) (it_clean i) (it_cs i) (it_cur i)
       (it_fr i) d (it_fn i) (it_locs i) (it_fields i).
Definition set_cursors (i : It) (all actual : list N) : It :=
  mkIt (it_norm1 i) (it_doc1 i) all actual (it_clean i) (it_cs i) (it_cur i)
       (it_fr i) (it_lr i) (it_fn i) (it_locs i) (it_fields i).
Definition set_doc1 (i : It) (d : N) : It :=
  mkIt (it_norm1 i) d (it_all i) (it_actual i) (it_clean i) (it_cs i) (it_cur i)
       (it_fr i) (it_lr i) (it_fn i) (it_locs i) (it_fields i).

(* PostingsList.iterator: [old] is the preallocated iterator, if any *)
Definition it_init (e : EncPL) (except : option (list N)) (inclFN inclLocs : bool)
           (fields : list bytes) (old : option It) : It :=
  let fr0 := match old with Some o => dec_reset (it_fr o) | None => dec_fresh end in
  let lr0 := match old with Some o => dec_reset (it_lr o) | None => dec_fresh end in
  match e with
  | E1Hit doc nb =>
      let d1 := match except with
                | Some ex => if memN doc ex then docNum1HitFinished else doc
                | None => doc
                end in
      mkIt nb d1 [] [] false 0 0 fr0 lr0 inclFN inclLocs fields
  | EGen docs cs fch lch =>
      let fr := if inclFN then dec_open fr0 (Some fch) else fr0 in
      let lr := if inclLocs then dec_open lr0 lch else lr0 in
      match except with
      | Some ex => mkIt 0 0 docs (filter (fun d => negb (memN d ex)) docs) false cs 0 fr lr inclFN inclLocs fields
      | None => mkIt 0 0 docs docs true cs 0 fr lr inclFN inclLocs fields
      end
  end.

(* ReplaceActual *)
Definition it_replace (i : It) (abm : list N) : It :=
  mkIt (it_norm1 i) (it_doc1 i) (it_all i) abm false (it_cs i) (it_cur i)
       (it_fr i) (it_lr i) (it_fn i) (it_locs i) (it_fields i).

Definition it_loadChunk (i : It) (chunk : N) : result It :=
  do fr <- (if it_fn i then dec_load (it_fr i) chunk else Ok (it_fr i));
  do lr <- (if it_locs i then dec_load (it_lr i) chunk else Ok (it_lr i));
  Ok (mkIt (it_norm1 i) (it_doc1 i) (it_all i) (it_actual i) (it_clean i) (it_cs i) chunk
           fr lr (it_fn i) (it_locs i) (it_fields i)).

Definition need_load (i : It) (nChunk : N) : bool :=
  negb (it_cur i =? nChunk) || dec_isNil (it_fr i).

(* currChunkNext: skip one freq/norm entry (and its locations) in chunk nChunk *)
Definition currChunkNext (i : It) (nChunk : N) : result It :=
  do i1 <- (if need_load i nChunk then it_loadChunk i nChunk else Ok i);
  do (fhl, fr1) <- read_uv (it_fr i1);
  do fr2 <- skip_uv fr1;
  let i2 := set_fr i1 fr2 in
  if it_locs i2 && N.odd fhl then
    do (nb, lr1) <- read_uv (it_lr i2);
    Ok (set_lr i2 (dec_skip_bytes lr1 nb))
  else Ok i2.

Fixpoint repeat_ccn (k : nat) (i : It) (nChunk : N) : result It :=
  match k with
  | O => Ok i
  | S k' => do i' <- currChunkNext i nChunk; repeat_ccn k' i' nChunk
  end.

(* the scan loop of nextDocNumAtOrAfterClean:
   for uint64(n) < atOrAfter && Actual.HasNext() { n = Actual.Next(); ... } *)
Fixpoint clean_scan (cs atOrAfter n nChunk : N) (same : nat) (rest : list N) : N * N * nat * list N :=
  match rest with
  | [] => (n, nChunk, same, [])
  | m :: rest' =>
      if n <? atOrAfter then
        let c := m / cs in
        clean_scan cs atOrAfter m c (if c =? nChunk then S same else O) rest'
      else (n, nChunk, same, rest)
  end.

(* the lock-step loop of the exclusion path:
   allN := all.Next(); for allN != n { if includeFreqNorm && allN >= reach { currChunkNext }; allN = all.Next() } *)
Fixpoint sync_all (i : It) (n nChunk reach : N) (all : list N) : result (It * list N) :=
  match all with
  | [] => Panic
  | a :: all' =>
      if a =? n then Ok (i, all')
      else
        do i' <- (if it_fn i && (reach <=? a) then currChunkNext i nChunk else Ok i);
        sync_all i' n nChunk reach all'
  end.

Fixpoint drop_lt (d : N) (l : list N) : list N :=   (* AdvanceIfNeeded *)
  match l with
  | [] => []
  | x :: l' => if x <? d then drop_lt d l' else l
  end.

Definition next_docnum (i : It) (atOrAfter : N) : result (It * option N) :=
  if negb (it_norm1 i =? 0) then
    if it_doc1 i =? docNum1HitFinished then Ok (i, None)
    else if it_doc1 i <? atOrAfter then Ok (set_doc1 i docNum1HitFinished, None)
    else Ok (set_doc1 i docNum1HitFinished, Some (it_doc1 i))
  else
    match it_actual i with
    | [] => Ok (i, None)
    | n0 :: rest0 =>
        if it_cs i =? 0 then Panic            (* integer divide by zero *)
        else if it_clean i then
          if negb (it_fn i) then
            match drop_lt (wrap32 atOrAfter) (it_actual i) with
            | [] => Ok (set_cursors i [] [], None)
            | n :: rest => Ok (set_cursors i rest rest, Some n)
            end
          else
            let '(n, nChunk, same, rest) :=
              clean_scan (it_cs i) atOrAfter n0 (n0 / it_cs i) O rest0 in
            let i1 := set_cursors i rest rest in
            if n <? atOrAfter then Ok (i1, None)
            else
              do i2 <- repeat_ccn same i1 nChunk;
              do i3 <- (if need_load i2 nChunk then it_loadChunk i2 nChunk else Ok i2);
              Ok (i3, Some n)
        else
          match drop_lt (wrap32 atOrAfter) (it_actual i) with
          | [] => Ok (set_cursors i (it_all i) [], None)
          | n :: rest =>
              let nChunk := n / it_cs i in
              let reach := wrap32 (nChunk * it_cs i) in
              do (i1, all') <- sync_all i n nChunk reach (it_all i);
              let i2 := set_cursors i1 all' rest in
              do i3 <- (if it_fn i2 && need_load i2 nChunk then it_loadChunk i2 nChunk else Ok i2);
              Ok (i3, Some n)
          end
    end.

(* the location loop of nextAtOrAfter; [fuel] is len(nextLocs) = freq:
   writing nextLocs[j] with j >= freq is an index-out-of-range panic *)
Fixpoint read_locs (fuel : nat) (fields : list bytes) (lr : Dec) (startLen nb : N)
  : result (list ALoc * Dec) :=
  if (startLen - dec_len lr) <? nb then
    match fuel with
    | O => Panic
    | S f =>
        do (fid, lr1) <- read_uv lr;
        do (pos, lr2) <- read_uv lr1;
        do (st, lr3) <- read_uv lr2;
        do (en, lr4) <- read_uv lr3;
        match nthN fields (N.to_nat fid) with
        | None => Panic
        | Some name =>
            do (ls, lr5) <- read_locs f fields lr4 startLen nb;
            Ok ((name, (pos, (st, en))) :: ls, lr5)
        end
    end
  else Ok ([], lr).

(* nextAtOrAfter: Next() is nextAtOrAfter(0), Advance(d) is nextAtOrAfter(d) *)
Definition next_at_or_after (i : It) (atOrAfter : N) : result (It * option APosting) :=
  do (i1, o) <- next_docnum i atOrAfter;
  match o with
  | None => Ok (i1, None)
  | Some n =>
      if negb (it_fn i1) then Ok (i1, Some (n, (0, (0, []))))
      else if negb (it_norm1 i1 =? 0) then Ok (i1, Some (n, (1, (wrap32 (it_norm1 i1), []))))
      else
        do (fhl, fr1) <- read_uv (it_fr i1);
        do (nb, fr2) <- read_uv fr1;
        let i2 := set_fr i1 fr2 in
        let freq := N.shiftr fhl 1 in
        if it_locs i2 && N.odd fhl then
          do (nlb, lr1) <- read_uv (it_lr i2);
          do (ls, lr2) <- read_locs (N.to_nat freq) (it_fields i2) lr1 (dec_len lr1) nlb;
          Ok (set_lr i2 lr2, Some (n, (freq, (wrap32 nb, ls))))
        else Ok (i2, Some (n, (freq, (wrap32 nb, []))))
  end.

Definition it_step (i : It) (op : iter_op) : result (It * option APosting) :=
  match op with
  | INext => next_at_or_after i 0
  | IAdvance d => next_at_or_after i d
  end.

Fixpoint it_run (i : It) (ops : list iter_op) : result (list (option APosting)) :=
  match ops with
  | [] => Ok []
  | op :: ops' =>
      do (i', o) <- it_step i op;
      do os <- it_run i' ops';
      Ok (o :: os)
  end.

(* PostingsList.Count *)
Definition pl_count (e : EncPL) (except : option (list N)) : N :=
  match e with
  | E1Hit doc _ =>
      match except with
      | Some ex => if memN doc ex then 0 else 1
      | None => 1
      end
  | EGen docs _ _ _ =>
      match except with
      | Some ex => lenN docs - lenN (filter (fun d => memN d ex) docs)
      | None => lenN docs
      end
  end.

(* Builder.v - the L1 model of the in-memory phase of the segment builder
   (new.go: newWithChunkMode / convert / getOrDefineField / prepareDicts /
   prepareDictsForDocument / processDocuments / processDocument and the walk
   that writeDictsTermField makes over Postings[pid], FreqNorms[pid], Locs[pid]).

   Each definition follows its Go counterpart statement by statement.
   Maps with a meaningful iteration order are association lists in insertion
   order; the one place where Go iterates over a map whose order matters
   (for term, tf := range tfs in processDocument) takes the order as a
   parameter [perm].  Slices that share a backing array are modelled with
   their Go semantics (start, len, capacity reaching to the end of the
   backing array): see Section Arrays.

   Not modelled here (they do not influence postings): FieldDocs/FieldFreqs,
   stored fields, doc values, the byte encoding.  Integer widths: field ids
   (uint16), document numbers (uint32 in the bitmap) and Go ints are unbounded
   here; Spec.valid_batch bounds them.

   Executable; the theorems are in proofs/Builder_Proofs.v. *)
From Ice Require Export Base Spec Postings.

(* the stored form of a posting: a location's field name becomes its index in
   the field list (same definition as Run.to_eposting) *)
Definition to_eposting (fields : list bytes) (p : APosting) : EPosting :=
  let '(d, (fr, (nm, ls))) := p in
  (d, (fr, (nm, map (fun l => (opt_default 0 (index_of (fst l) fields 0), snd l)) ls))).

(* ------------------------------------------------------------------ *)
(* arrays, maps, bitmaps                                               *)
(* ------------------------------------------------------------------ *)
(* a[n] = x; writing outside the array is an index-out-of-range panic in Go,
   here it leaves the array unchanged (the theorems show it does not occur) *)
Fixpoint set_nth {A} (n : nat) (x : A) (l : list A) : list A :=
  match l, n with
  | [], _ => []
  | _ :: r, O => x :: r
  | y :: r, S n' => y :: set_nth n' x r
  end.

Definition upd_nth {A} (n : nat) (f : A -> A) (d : A) (l : list A) : list A :=
  set_nth n (f (nth n l d)) l.

(* v, exists := m[k] on a map kept as an insertion-ordered association list *)
Fixpoint assoc {V} (k : bytes) (l : list (bytes * V)) : option V :=
  match l with
  | [] => None
  | (k', v) :: r => if beq k' k then Some v else assoc k r
  end.

(* roaring.Bitmap.Add on the ascending duplicate-free list of members *)
Fixpoint bm_add (n : N) (l : list N) : list N :=
  match l with
  | [] => [n]
  | x :: r => if n <? x then n :: l else if n =? x then l else x :: bm_add n r
  end.

(* ------------------------------------------------------------------ *)
(* slices carved out of one backing array                              *)
(* ------------------------------------------------------------------ *)
Section Arrays.
  Variable X : Type.

  (* A slice header.  [Win start len]: the slice still points into the shared
     backing array at [start] with length [len]; its capacity reaches to the
     end of the backing array (that is what backing[0:0] followed by
     backing = backing[n:] produces).  [Detached l]: an append found
     len = cap, allocated a fresh array and copied; the slice no longer
     aliases the backing array. None is the zero value of the element type. *)
  Inductive Slice := Win (start len : nat) | Detached (l : list (option X)).

  Record Arr := mkArr { backing : list (option X); slices : list Slice }.

  (* for pid, n := range counts { S[pid] = backing[0:0]; backing = backing[n:] } *)
  Fixpoint carve (off : nat) (counts : list nat) : list Slice :=
    match counts with
    | [] => []
    | n :: r => Win off 0 :: carve (off + n)%nat r
    end.

  (* make([]X, tot) (or the pooled array, zeroed by reset()) carved by counts *)
  Definition arr_make (tot : nat) (counts : list nat) : Arr :=
    mkArr (repeat None tot) (carve 0 counts).

  (* S[pid] = append(S[pid], x).  While start+len < len(backing) the slice has
     spare capacity: append writes backing[start+len] whatever window that
     cell was meant for.  Otherwise append reallocates. *)
  Definition arr_append (a : Arr) (pid : nat) (x : X) : Arr :=
    match nth pid (slices a) (Detached []) with
    | Win st ln =>
        if Nat.ltb (st + ln) (length (backing a)) then
          mkArr (set_nth (st + ln) (Some x) (backing a))
                (set_nth pid (Win st (S ln)) (slices a))
        else
          mkArr (backing a)
                (set_nth pid (Detached (firstn ln (skipn st (backing a)) ++ [Some x])) (slices a))
    | Detached l =>
        mkArr (backing a) (set_nth pid (Detached (l ++ [Some x])) (slices a))
    end.

  (* S[pid][0:len(S[pid])] *)
  Definition slice_elems (a : Arr) (pid : nat) : list (option X) :=
    match nth pid (slices a) (Detached []) with
    | Win st ln => firstn ln (skipn st (backing a))
    | Detached l => l
    end.

  (* S[pid][0:cap(S[pid])]: a slice expression s[lo:hi] may reach up to the
     capacity, not just the length *)
  Definition slice_cap (a : Arr) (pid : nat) : list (option X) :=
    match nth pid (slices a) (Detached []) with
    | Win st ln => skipn st (backing a)
    | Detached l => l
    end.
End Arrays.
Arguments Win {X} start len.
Arguments Detached {X} l.
Arguments mkArr {X} backing slices.
Arguments backing {X} a.
Arguments slices {X} a.
Arguments carve {X} off counts.
Arguments arr_make {X} tot counts.
Arguments arr_append {X} a pid x.
Arguments slice_elems {X} a pid.
Arguments slice_cap {X} a pid.

(* ------------------------------------------------------------------ *)
(* interim: field numbering                                            *)
(* ------------------------------------------------------------------ *)
(* FieldsInv, Dicts (field id -> term -> 0-based postings id), DictKeys.
   FieldsMap is the inverse of FieldsInv at every moment it is consulted
   (getOrDefineField keeps it so, convert rebuilds it after the sort), so a
   lookup in FieldsMap is index_of in FieldsInv. *)
Record Flds := mkFlds {
  FieldsInv : list bytes;
  Dicts : list (list (bytes * nat));
  DictKeys : list (list bytes) }.

(* getOrDefineField *)
Definition getOrDefineField (s : Flds) (name : bytes) : Flds * N :=
  match index_of name (FieldsInv s) 0 with
  | Some i => (s, i)
  | None =>
      (mkFlds (FieldsInv s ++ [name]) (Dicts s ++ [[]]) (DictKeys s ++ [[]]),
       lenN (FieldsInv s))
  end.

(* convert, up to and including the rebuild of FieldsMap:
   getOrDefineField(_id); for every field of every document getOrDefineField;
   sort.Strings(FieldsInv[1:]) *)
Definition convert_fields (b : Batch) : Flds :=
  let s0 := fst (getOrDefineField (mkFlds [] [] []) id_name) in
  let s := fold_left (fun s n => fst (getOrDefineField s n)) (batch_field_names b) s0 in
  mkFlds (match FieldsInv s with [] => [] | x :: r => x :: isort ble r end)
         (Dicts s) (DictKeys s).

Definition define_fields (b : Batch) : list bytes := FieldsInv (convert_fields b).

(* ------------------------------------------------------------------ *)
(* prepareDicts                                                        *)
(* ------------------------------------------------------------------ *)
(* the variables the EachTerm closure of prepareDictsForDocument works on *)
Record PT := mkPT {
  pt_dict : list (bytes * nat);   (* dict := s.Dicts[fieldID] *)
  pt_keys : list bytes;           (* dictKeys := s.DictKeys[fieldID] *)
  pt_pidNext : nat;
  pt_numTerms : list nat;         (* s.numTermsPerPostingsList *)
  pt_numLocs : list nat;          (* s.numLocsPerPostingsList *)
  pt_totLocs : nat;
  pt_n : nat }.                   (* numTerms *)

(* the body of field.EachTerm in prepareDictsForDocument *)
Definition prep_term (st : PT) (tm : Term) : PT :=
  let nl := length (t_locs tm) in
  match assoc (t_bytes tm) (pt_dict st) with
  | Some pid =>
      mkPT (pt_dict st) (pt_keys st) (pt_pidNext st)
           (upd_nth pid S O (pt_numTerms st))
           (upd_nth pid (fun c => (c + nl)%nat) O (pt_numLocs st))
           (pt_totLocs st + nl)%nat (S (pt_n st))
  | None =>
      let pid := pt_pidNext st in   (* pidNext++; pidPlus1 = pidNext; pid = pidPlus1 - 1 *)
      mkPT (pt_dict st ++ [(t_bytes tm, pid)]) (pt_keys st ++ [t_bytes tm]) (S pid)
           (upd_nth pid S O (pt_numTerms st ++ [O]))
           (upd_nth pid (fun c => (c + nl)%nat) O (pt_numLocs st ++ [O]))
           (pt_totLocs st + nl)%nat (S (pt_n st))
  end.

Record Prep := mkPrep {
  p_flds : Flds;
  p_pidNext : nat;
  p_totLocs : nat;
  p_totTFs : nat;
  p_numTerms : list nat;
  p_numLocs : list nat }.

(* the body of result.EachField in prepareDictsForDocument *)
Definition prep_field (p : Prep) (f : Field) : Prep :=
  let '(fl, fid) := getOrDefineField (p_flds p) (f_name f) in
  let i := N.to_nat fid in
  let st := fold_left prep_term (f_terms f)
              (mkPT (nth i (Dicts fl) []) (nth i (DictKeys fl) [])
                    (p_pidNext p) (p_numTerms p) (p_numLocs p) (p_totLocs p) O) in
  mkPrep (mkFlds (FieldsInv fl) (set_nth i (pt_dict st) (Dicts fl))
                 (set_nth i (pt_keys st) (DictKeys fl)))      (* s.DictKeys[fieldID] = dictKeys *)
         (pt_pidNext st) (pt_totLocs st) (p_totTFs p + pt_n st)%nat
         (pt_numTerms st) (pt_numLocs st).

(* the loop of prepareDicts over prepareDictsForDocument *)
Definition prepare_dicts (fl : Flds) (b : Batch) : Prep :=
  fold_left (fun p d => fold_left prep_field d p) b (mkPrep fl O O O [] []).

(* ------------------------------------------------------------------ *)
(* processDocuments                                                    *)
(* ------------------------------------------------------------------ *)
Definition TokFreq := (N * list Loc)%type.          (* tokenFreq: frequency, Locations *)
Notation TFs := (list (bytes * TokFreq)) (only parsing).   (* tokenFrequencies *)
Definition interimFreqNorm := (N * (N * nat))%type. (* freq, norm bits, numLocs *)

(* existingTf, exists := existingFreqs[tfk]; if exists {...} else {...} *)
Fixpoint tf_add (tfs : TFs) (tm : Term) : TFs :=
  match tfs with
  | [] => [(t_bytes tm, (t_freq tm, t_locs tm))]
  | (k, (fr, ls)) :: r =>
      if beq k (t_bytes tm) then (k, (fr + t_freq tm, ls ++ t_locs tm)) :: r
      else (k, (fr, ls)) :: tf_add r tm
  end.

(* visitField of processDocument *)
Definition visit_field (st : Flds * list N * list TFs) (f : Field) : Flds * list N * list TFs :=
  let '(fl, lens, tfs) := st in
  let '(fl', fid) := getOrDefineField fl (f_name f) in
  let i := N.to_nat fid in
  (fl', set_nth i (nth i lens 0 + f_len f) lens,
        set_nth i (fold_left tf_add (f_terms f) (nth i tfs [])) tfs).

Section Process.
  Variable norm : bytes -> N -> N.
  (* the order in which "for term, tf := range tfs" delivers the entries of the
     map of (document, field id) *)
  Variable perm : N -> nat -> TFs -> TFs.
  (* the two families of slices, abstract in their implementation: the model
     proper instantiates them with Arr/arr_append *)
  Context {AF AL : Type}.
  Variable appendF : AF -> nat -> interimFreqNorm -> AF.
  Variable appendL : AL -> nat -> ELoc -> AL.

  Record Interim := mkInterim {
    i_flds : Flds;
    i_postings : list (list N);    (* Postings *)
    i_fn : AF;                     (* FreqNorms + freqNormsBacking *)
    i_locs : AL }.                 (* Locs + locsBacking *)

  (* the body of "for _, loc := range tf.Locations".  The local header
     [locs] is written back by s.Locs[pid] = locs after the loop; nothing reads
     s.Locs[pid] in between, so it is updated in place here. *)
  Definition emit_loc (pid fid : nat) (st : Flds * AL) (l : Loc) : Flds * AL :=
    let '(fl', locf) :=
      match l_field l with
      | [] => (fst st, N.of_nat fid)
      | nm => getOrDefineField (fst st) nm
      end in
    (fl', appendL (snd st) pid (locf, (l_pos l, (l_start l, l_end l)))).

  (* the body of "for term, tf := range tfs".  A term missing from dict would
     give pid = 2^64-1 and an index panic; Builder_Proofs.dict_lookup_defined
     shows that the lookup always succeeds. *)
  Definition emit_term (docNum : N) (fid : nat) (dict : list (bytes * nat)) (nrm : N)
             (st : Interim) (e : bytes * TokFreq) : Interim :=
    let pid := opt_default O (assoc (fst e) dict) in
    let r := fold_left (emit_loc pid fid) (snd (snd e)) (i_flds st, i_locs st) in
    mkInterim (fst r)
              (upd_nth pid (bm_add docNum) [] (i_postings st))
              (appendF (i_fn st) pid (fst (snd e), (nrm, length (snd (snd e)))))
              (snd r).

  (* the body of "for fieldID, tfs := range fieldTFs" *)
  Definition emit_field (docNum : N) (lens : list N) (tfs : list TFs)
             (st : Interim) (fid : nat) : Interim :=
    let dict := nth fid (Dicts (i_flds st)) [] in
    let nrm := norm (nth fid (FieldsInv (i_flds st)) []) (nth fid lens 0) in
    fold_left (emit_term docNum fid dict nrm) (perm docNum fid (nth fid tfs [])) st.

  (* processDocument; fieldLens and fieldTFs arrive cleared, of length numFields *)
  Definition process_document (numFields : nat) (st : Interim) (nd : N * Doc) : Interim :=
    let r := fold_left visit_field (snd nd)
               (i_flds st, repeat 0 numFields, repeat [] numFields) in
    fold_left (emit_field (fst nd) (snd (fst r)) (snd r))
              (seq 0 numFields)
              (mkInterim (fst (fst r)) (i_postings st) (i_fn st) (i_locs st)).

  (* processDocuments *)
  Definition process_documents (st : Interim) (b : Batch) : Interim :=
    fold_left (process_document (length (FieldsInv (i_flds st)))) (number_from 0 b) st.
End Process.
Arguments Interim AF AL : clear implicits.
Arguments mkInterim {AF AL} i_flds i_postings i_fn i_locs.
Arguments i_flds {AF AL} i.
Arguments i_postings {AF AL} i.
Arguments i_fn {AF AL} i.
Arguments i_locs {AF AL} i.

(* ------------------------------------------------------------------ *)
(* convert: the in-memory phase as a whole                             *)
(* ------------------------------------------------------------------ *)
Definition prepared (b : Batch) : Prep := prepare_dicts (convert_fields b) b.

(* the state processDocuments starts from: Postings/FreqNorms/Locs sized and
   carved by prepareDicts, every DictKeys[i] sorted *)
Definition initial (b : Batch) : Interim (Arr interimFreqNorm) (Arr ELoc) :=
  let p := prepared b in
  mkInterim
    (mkFlds (FieldsInv (p_flds p)) (Dicts (p_flds p)) (map (isort ble) (DictKeys (p_flds p))))
    (repeat [] (p_pidNext p))
    (arr_make (p_totTFs p) (p_numTerms p))
    (arr_make (p_totLocs p) (p_numLocs p)).

Definition convert_inmem (norm : bytes -> N -> N) (perm : N -> nat -> TFs -> TFs) (b : Batch)
  : Interim (Arr interimFreqNorm) (Arr ELoc) :=
  process_documents norm perm arr_append arr_append (initial b) b.

(* ------------------------------------------------------------------ *)
(* writeDictsTermField: the walk over one postings list                *)
(* ------------------------------------------------------------------ *)
Definition zeroFN : interimFreqNorm := (0, (0, O)).
Definition zeroLoc : ELoc := (0, (0, (0, 0))).

(* for postingsItr.HasNext() { freqNorm := freqNorms[freqNormOffset];
     locs[locOffset : locOffset+freqNorm.numLocs]; locOffset += numLocs; freqNormOffset++ }
   [fns] is freqNorms[freqNormOffset:], [locs] is locs[locOffset:cap].
   Running out of freq/norm entries is an index panic in Go (here: stop). *)
Fixpoint walk (docs : list N) (fns : list (option interimFreqNorm)) (locs : list (option ELoc))
  : list EPosting :=
  match docs with
  | [] => []
  | d :: docs' =>
      match fns with
      | [] => []
      | o :: fns' =>
          let '(fr, (nm, nl)) := opt_default zeroFN o in
          (d, (fr, (nm, map (opt_default zeroLoc) (firstn nl locs))))
            :: walk docs' fns' (skipn nl locs)
      end
  end.

Definition term_postings (s : Interim (Arr interimFreqNorm) (Arr ELoc))
           (dict : list (bytes * nat)) (term : bytes) : list EPosting :=
  let pid := opt_default O (assoc term dict) in      (* pid := dict[term] - 1 *)
  walk (nth pid (i_postings s) []) (slice_elems (i_fn s) pid) (slice_cap (i_locs s) pid).

(* for fieldID, terms := range s.DictKeys { for _, term := range terms { ... } } *)
Definition build_postings_model (norm : bytes -> N -> N) (perm : N -> nat -> TFs -> TFs) (b : Batch)
  : list (bytes * list (bytes * list EPosting)) :=
  let s := convert_inmem norm perm b in
  let fl := i_flds s in
  map (fun fid =>
         (nth fid (FieldsInv fl) [],
          map (fun term => (term, term_postings s (nth fid (Dicts fl) []) term))
              (nth fid (DictKeys fl) [])))
      (seq 0 (length (DictKeys fl))).

(* SegmentOps.v - executable models of two functions of /repo/segment.go,
   statement by statement:

   (A) Segment.DocsMatchingTerms (with Dictionary.postingsList of dict.go and
       PostingsList.OrInto of posting.go), the loop that caches the dictionary
       of the last field and Ors every postings list into one roaring bitmap;
   (B) Segment.dictionary, the segment mutex s.m and the FST cache s.fieldFSTs.

   Everything is computable and structurally recursive.  Proofs are in
   proofs/SegmentOps_Proofs.v. *)
From Ice Require Export Base Spec Dict.

(* ================================================================== *)
(* (A) DocsMatchingTerms                                               *)
(* ================================================================== *)

(* The segment as far as DocsMatchingTerms sees it: fieldsMap + dictLocs + the
   FST of every field.  One entry per field name of fieldsMap:
     Some m : dictLocs[fieldID] > 0, m is the (sorted) map term -> FST value;
     None   : dictLocs[fieldID] == 0 (no FST was written for the field).      *)
Definition seg_dicts := list (bytes * option (list (bytes * FstVal))).

(* what Segment.dictionary hands back *)
Inductive DictRef :=
| NoDict                                  (* nil *Dictionary: fieldsMap[field] == 0 *)
| EmptyDict                               (* &Dictionary{..} with fst == nil, fstReader == nil *)
| DictOf (m : list (bytes * FstVal)).     (* &Dictionary{..} with a loaded FST *)

(* fieldIDPlus1 := s.fieldsMap[field]  (Go string equality = byte equality) *)
Fixpoint fields_lookup (dicts : seg_dicts) (field : bytes)
  : option (option (list (bytes * FstVal))) :=
  match dicts with
  | [] => None                                           (* fieldIDPlus1 == 0 *)
  | (f, d) :: rest => if beq field f then Some d else fields_lookup rest field
  end.

(* the pointer Segment.dictionary returns when no storage read fails *)
Definition dictionary_of (dicts : seg_dicts) (field : bytes) : DictRef :=
  match fields_lookup dicts field with
  | None => NoDict                 (* if fieldIDPlus1 > 0 {..} not taken: return rv (= nil), nil *)
  | Some None => EmptyDict         (* dictStart == 0: rv without fst / fstReader *)
  | Some (Some m) => DictOf m      (* dictStart > 0: rv.fst, rv.fstReader set *)
  end.

(* Segment.dictionary as DocsMatchingTerms sees it.  Storage is only touched
   when dictStart > 0 (the two s.data.Read and vellum.Load, see part (B)); the
   oracle [fails field] says that this lookup returns (nil, err). *)
Definition dictionary_lookup (dicts : seg_dicts) (fails : bytes -> bool) (field : bytes)
  : result DictRef :=
  match fields_lookup dicts field with
  | None => Ok NoDict                                   (* return rv, nil   with rv == nil *)
  | Some None => Ok EmptyDict                           (* dictStart == 0: no read at all *)
  | Some (Some m) => if fails field then Err            (* return nil, err *)
                     else Ok (DictOf m)
  end.

(* d.fstReader.Get(term): the value of the first (only) entry with that key *)
Fixpoint fst_get (m : list (bytes * FstVal)) (term : bytes) : option FstVal :=
  match m with
  | [] => None
  | (k, v) :: rest => if beq k term then Some v else fst_get rest term
  end.

(* dict.go: func (d *Dictionary) postingsList(term, nil, emptyPostingsList).
   rv == emptyPostingsList on entry (DocsMatchingTerms resets it every
   iteration), except == nil.  PostingsList.read of a general list also reads
   the storage; that read is taken to succeed here (see the header of
   SegmentOps_Proofs.v). *)
Definition postings_list (d : DictRef) (term : bytes) : result PL :=
  match d with
  | NoDict => Panic                      (* d.fstReader on a nil *Dictionary: nil dereference *)
  | EmptyDict => Ok pl_zero              (* if d.fstReader == nil { return emptyPostingsList, nil } *)
  | DictOf m =>
      match fst_get m term with          (* postingsOffset, exists, err := d.fstReader.Get(term) *)
      | None => Ok pl_zero               (* if !exists { return emptyPostingsList, nil } *)
      | Some v => Ok (pl_read pl_zero v) (* postingsListFromOffset: rv = &PostingsList{}; rv.read(..) *)
      end
  end.

(* The receiver bitmap.  A roaring bitmap is a finite set of numbers; it is
   kept here in its canonical form - ascending, without repetition - after
   every operation (what Bitmap.ToArray() would return at that moment), not as
   a bag that is normalised at the end.  Add and Or are the set operations. *)
Definition bm_new : list N := [].                                          (* roaring.New() *)
Definition bm_add (d : N) (rv : list N) : list N := sort_dedup_N (d :: rv).    (* receiver.Add(d) *)
Definition bm_or (docs rv : list N) : list N := sort_dedup_N (docs ++ rv).     (* receiver.Or(p.postings) *)

(* posting.go: func (p *PostingsList) OrInto(receiver *roaring.Bitmap) *)
Definition or_into (p : PL) (rv : list N) : list N :=
  if negb (pl_norm1 p =? 0)              (* if p.normBits1Hit != 0 { *)
  then bm_add (pl_doc1 p) rv             (*   receiver.Add(uint32(p.docNum1Hit)); return } *)
  else match pl_postings p with          (* if p.postings != nil { *)
       | Some docs => bm_or docs rv      (*   receiver.Or(p.postings) } *)
       | None => rv
       end.

(* The loop  for i, term := range terms { .. }.
   [first] is  i == 0;  [lastField], [dict], [rv] are the Go variables.
   [skip_nil = true] is the code of /repo; [skip_nil = false] is the pinned
   version without   if dict == nil { continue }. *)
Fixpoint dmt_loop (skip_nil : bool) (dicts : seg_dicts) (fails : bytes -> bool)
         (terms : list (bytes * bytes)) (first : bool)
         (lastField : bytes) (dict : DictRef) (rv : list N) : result (list N) :=
  match terms with
  | [] => Ok rv                                          (* loop ends; return rv, nil *)
  | (thisField, term) :: rest =>                         (* thisField := term.Field() *)
      (* if i == 0 || thisField != lastField {
           dict, err = s.dictionary(term.Field())
           if err != nil { return nil, err }
           lastField = thisField } *)
      let looked :=
        if first || negb (beq thisField lastField)
        then match dictionary_lookup dicts fails thisField with
             | Ok d => Ok (thisField, d)
             | Err => Err
             | Panic => Panic
             | Block => Block
             | OutOfFuel => OutOfFuel
             end
        else Ok (lastField, dict) in
      match looked with
      | Err => Err                                       (* return nil, err *)
      | Panic => Panic
      | Block => Block
      | OutOfFuel => OutOfFuel
      | Ok (lastField', dict') =>
          match dict', skip_nil with
          | NoDict, true =>                              (* if dict == nil { continue } *)
              dmt_loop skip_nil dicts fails rest false lastField' dict' rv
          | _, _ =>
              (* postingsList := emptyPostingsList
                 postingsList, err = dict.postingsList(term.Term(), nil, postingsList)
                 if err != nil { return nil, err } *)
              match postings_list dict' term with
              | Ok pl =>
                  (* postingsList.OrInto(rv) *)
                  dmt_loop skip_nil dicts fails rest false lastField' dict' (or_into pl rv)
              | Err => Err
              | Panic => Panic
              | Block => Block
              | OutOfFuel => OutOfFuel
              end
          end
      end
  end.

(* func (s *Segment) DocsMatchingTerms(terms []segment.Term) ( *roaring.Bitmap, error ) *)
Definition docs_matching_gen (skip_nil : bool) (dicts : seg_dicts) (fails : bytes -> bool)
           (terms : list (bytes * bytes)) : result (list N) :=
  let rv := bm_new in                                    (* rv := roaring.New() *)
  match dicts with
  | [] => Ok rv                                          (* if len(s.fieldsMap) > 0 {..} not taken *)
  | _ :: _ =>
      (* var err error; var lastField string; var dict *Dictionary *)
      dmt_loop skip_nil dicts fails terms true [] NoDict rv
  end.                                                   (* return rv, nil *)

Definition docs_matching := docs_matching_gen true.
Definition docs_matching_prefix := docs_matching_gen false.   (* pinned: no nil check *)

(* ---- what the function is expected to deliver ---- *)

(* the FST value of (field, term), if the field has a dictionary holding the term *)
Definition term_val (dicts : seg_dicts) (f t : bytes) : option FstVal :=
  match dictionary_of dicts f with
  | DictOf m => fst_get m t
  | _ => None
  end.

(* the documents of an FST value *)
Definition fst_docs (v : FstVal) : list N :=
  match v with V1Hit d _ => [d] | VGen docs => docs end.

(* ... as OrInto sees them: a 1-hit value is recognised by normBits1Hit != 0 *)
Definition orinto_docs (v : FstVal) : list N :=
  match v with
  | V1Hit d nb => if nb =? 0 then [] else [d]
  | VGen docs => docs
  end.

Definition term_docs (dicts : seg_dicts) (ft : bytes * bytes) : list N :=
  match term_val dicts (fst ft) (snd ft) with Some v => fst_docs v | None => [] end.
Definition term_docs_orinto (dicts : seg_dicts) (ft : bytes * bytes) : list N :=
  match term_val dicts (fst ft) (snd ft) with Some v => orinto_docs v | None => [] end.

(* all documents of all listed terms, before normalisation *)
Definition all_docs (dicts : seg_dicts) (terms : list (bytes * bytes)) : list N :=
  flat_map' (term_docs dicts) terms.
Definition all_docs_orinto (dicts : seg_dicts) (terms : list (bytes * bytes)) : list N :=
  flat_map' (term_docs_orinto dicts) terms.

(* every 1-hit value carries non-zero norm bits (what the writers produce: the
   norm of a field of positive length; the same side condition as Dict_Proofs) *)
Definition val_wf (v : FstVal) : bool :=
  match v with V1Hit _ nb => negb (nb =? 0) | VGen _ => true end.
Definition dicts_wf (dicts : seg_dicts) : bool :=
  forallb (fun fd => match snd fd with
                     | None => true
                     | Some m => forallb (fun kv => val_wf (snd kv)) m
                     end) dicts.

(* ---- the dictionaries of an abstract segment ---- *)

(* the FST value written for (f, t): the documents of its postings; the 1-hit
   form when the term has exactly one posting, the writer chose it ([use1]) and
   the norm bits are not 0 *)
Definition aseg_val (A : ASeg) (use1 : bytes -> bytes -> bool) (f t : bytes) : FstVal :=
  match o_postings A f t with
  | [(d, (_, (nm, _)))] => if use1 f t && negb (nm =? 0) then V1Hit d nm else VGen [d]
  | ps => VGen (map fst ps)
  end.

(* one entry per field; a field without terms may have no FST at all ([nofst]:
   dictLoc 0, e.g. every field of a segment without documents) *)
Definition aseg_dict (A : ASeg) (use1 : bytes -> bytes -> bool) (nofst : bytes -> bool)
           (f : bytes) : option (list (bytes * FstVal)) :=
  match o_terms A f with
  | [] => if nofst f then None else Some []
  | ts => Some (map (fun t => (t, aseg_val A use1 f t)) ts)
  end.

Definition dicts_of_aseg (A : ASeg) (use1 : bytes -> bytes -> bool) (nofst : bytes -> bool)
  : seg_dicts :=
  map (fun f => (f, aseg_dict A use1 nofst f)) (as_fields A).

(* ================================================================== *)
(* (B) Segment.dictionary: the mutex and the FST cache                 *)
(* ================================================================== *)

(* s.m, s.fieldFSTs (fieldID -> the loaded FST, as a token) and the number of
   storage reads issued so far (the index of the next read for the oracle) *)
Record dstate := mkDS { locked : bool; cache : list (N * N); nreads : nat }.

Definition ds_init : dstate := mkDS false [] O.

(* rv.fst, ok = s.fieldFSTs[rv.fieldID] *)
Fixpoint fsts_get (c : list (N * N)) (k : N) : option N :=
  match c with
  | [] => None
  | (k', v) :: rest => if k' =? k then Some v else fsts_get rest k
  end.

(* s.fieldFSTs[k] = v  (a Go map assignment replaces an older entry) *)
Definition fsts_set (c : list (N * N)) (k v : N) : list (N * N) :=
  (k, v) :: filter (fun p => negb (fst p =? k)) c.

Definition ds_lock (st : dstate) : dstate := mkDS true (cache st) (nreads st).     (* s.m.Lock()  *)
Definition ds_unlock (st : dstate) : dstate := mkDS false (cache st) (nreads st).  (* s.m.Unlock() *)
Definition ds_read (st : dstate) : dstate := mkDS (locked st) (cache st) (S (nreads st)).
Definition ds_store (st : dstate) (k v : N) : dstate :=
  mkDS (locked st) (fsts_set (cache st) k v) (nreads st).

Section DictionaryCall.
  Variable F : N -> N.              (* what loading the FST of a field id yields (pure: immutable bytes) *)
  Variable loads_ok : N -> bool.    (* vellum.Load of that field's bytes succeeds *)
  Variable ok : nat -> bool.        (* the k-th s.data.Read succeeds *)

  (* func (s *Segment) dictionary(field string) (rv *Dictionary, err error), for a
     field with fieldIDPlus1 > 0; [hasDict] is  dictStart > 0.
     [unlock_on_read_err = true] is the code of /repo; [false] is the pinned
     version whose two read-error returns keep the mutex.
     After the final Unlock the code calls rv.fst.Reader(); vellum's FST.Reader
     has no failing path, it is taken to succeed. *)
  Definition dictionary_gen (unlock_on_read_err : bool)
             (st : dstate) (fieldID : N) (hasDict : bool) : dstate * result (option N) :=
    if hasDict then                                      (* if dictStart > 0 { *)
      if locked st then (st, Block) else                 (* s.m.Lock() on a held mutex: forever *)
      let st1 := ds_lock st in                           (* s.m.Lock() *)
      match fsts_get (cache st1) fieldID with            (* if rv.fst, ok = s.fieldFSTs[rv.fieldID]; !ok { *)
      | Some fst => (ds_unlock st1, Ok (Some fst))       (* (cached) s.m.Unlock(); ..; return rv, nil *)
      | None =>
          (* vellumLenData, err = s.data.Read(dictStart, dictStart+MaxVarintLen64) *)
          let r1 := ok (nreads st1) in
          let st2 := ds_read st1 in
          if negb r1 then                                (* if err != nil { *)
            ((if unlock_on_read_err then ds_unlock st2   (*   s.m.Unlock()   [absent in the pinned version] *)
              else st2), Err)                            (*   return nil, err } *)
          else
          (* fstBytes, err = s.data.Read(dictStart+read, dictStart+read+vellumLen) *)
          let r2 := ok (nreads st2) in
          let st3 := ds_read st2 in
          if negb r2 then                                (* if err != nil { *)
            ((if unlock_on_read_err then ds_unlock st3   (*   s.m.Unlock()   [absent in the pinned version] *)
              else st3), Err)                            (*   return nil, err } *)
          else
          (* rv.fst, err = vellum.Load(fstBytes) *)
          if negb (loads_ok fieldID) then                (* if err != nil { *)
            (ds_unlock st3, Err)                         (*   s.m.Unlock(); return nil, fmt.Errorf(..) } *)
          else
          let st4 := ds_store st3 fieldID (F fieldID) in (* s.fieldFSTs[rv.fieldID] = rv.fst   } *)
          (ds_unlock st4, Ok (Some (F fieldID)))         (* s.m.Unlock(); rv.fstReader, err = rv.fst.Reader(); return rv, nil *)
      end
    else (st, Ok None).                                  (* dictStart == 0: return rv, nil  without fst *)

  Definition dictionary_call := dictionary_gen true.
  Definition dictionary_call_prefix := dictionary_gen false.

  (* a finite sequence of calls (fieldID, hasDict) by one thread: the state after
     each call and what the call returned *)
  Fixpoint dictionary_trace (unlock_on_read_err : bool) (st : dstate) (calls : list (N * bool))
    : list (dstate * result (option N)) :=
    match calls with
    | [] => []
    | (id, hd) :: rest =>
        let '(st', r) := dictionary_gen unlock_on_read_err st id hd in
        (st', r) :: dictionary_trace unlock_on_read_err st' rest
    end.

  Definition dictionary_results (st : dstate) (calls : list (N * bool))
    : list (result (option N)) :=
    map snd (dictionary_trace true st calls).

  (* the same sequence with a cache that forgets everything before every call *)
  Fixpoint dictionary_results_nocache (st : dstate) (calls : list (N * bool))
    : list (result (option N)) :=
    match calls with
    | [] => []
    | (id, hd) :: rest =>
        let '(st', r) := dictionary_call (mkDS (locked st) [] (nreads st)) id hd in
        r :: dictionary_results_nocache st' rest
    end.
End DictionaryCall.

(* DvWriter.v - the L1 models of the two writers of doc values:
     contentcoder.go  chunkedContentCoder (newChunkedContentCoder, Add,
                      flushContents, Close, Write)
     new.go           writeDictsField / writeDictsTermField (docTermMap and the
                      fdvEncoder loop)
     merge.go         buildMergedDocVals
     docvalues.go     iterateAllDocValues (used by the merger)

   Each definition follows its Go counterpart statement by statement.
   zstd is abstracted away: the data of a chunk is its uncompressed bytes.

   What a flush appends to [final] (metadata header followed by the compressed
   data) is kept as one decoded blob, a DocValues.DvChunk; lengths and offsets
   of the data section are counted in blobs.  Every flush appends exactly one
   blob and a blob is never empty (its metadata starts with the uvarint of the
   number of entries, see [blob_bytes] at the end of the file), so "start >=
   end" in loadDvChunk holds exactly for the chunk numbers that were never
   flushed.  The byte form of the header (delta coded uvarint pairs) is
   modelled separately: [header_bytes] / [parse_header].

   Executable; the theorems are in proofs/DvWriter_Proofs.v. *)
From Ice Require Export Base Spec Chunk DocValues Varint.

(* ------------------------------------------------------------------ *)
(* chunkedContentCoder                                                  *)
(* ------------------------------------------------------------------ *)
Record Coder := mkCoder {
  cc_chunkSize : N;              (* chunkSize *)
  cc_currChunk : N;              (* currChunk *)
  cc_chunkLens : list N;         (* chunkLens, in blobs *)
  cc_meta : list (N * N);        (* chunkMeta: (DocNum, DocDvOffset) *)
  cc_buf : bytes;                (* chunkBuf *)
  cc_out : list DvChunk }.       (* final (or, in progressiveWrite mode, what
                                    has been written to w): the flushed blobs
                                    in the order of the flushes *)

(* a[i] = x on a slice; None = index out of range *)
Fixpoint set_at {A} (i : nat) (x : A) (l : list A) : option (list A) :=
  match l, i with
  | [], _ => None
  | _ :: r, O => Some (x :: r)
  | y :: r, S i' => match set_at i' x r with Some r' => Some (y :: r') | None => None end
  end.

(* newChunkedContentCoder(chunkSize, maxDocNum, w, progressiveWrite):
     total := maxDocNum/chunkSize + 1         (integer divide by zero panics)
     chunkLens: make([]uint64, total), chunkMeta: make([]metaData, 0, total)
   The memory limit of make is not modelled; the callers' uint64(n-1) wrap for
   n = 0 is modelled at the call sites. *)
Definition cc_new (chunkSize maxDocNum : N) : result Coder :=
  if chunkSize =? 0 then Panic
  else Ok (mkCoder chunkSize 0 (repeat 0 (N.to_nat (maxDocNum / chunkSize + 1))) [] [] []).

(* flushContents:
     chunkMetaBuf <- uvarint(len(chunkMeta)) then the delta coded pairs
     final = append(final, chunkMetaBuf.Bytes()...)
     final = append(final, compressed(chunkBuf)...)
     chunkLens[currChunk] = len(compressed) + len(metaData)    (may panic)
     if progressiveWrite { w.Write(final); final = final[:0] }
   Either way the data section grows by one blob.  Neither chunkMeta nor
   chunkBuf is reset here (Add does that). *)
Definition cc_flush (c : Coder) : result Coder :=
  match set_at (N.to_nat (cc_currChunk c)) 1 (cc_chunkLens c) with
  | None => Panic
  | Some lens =>
      Ok (mkCoder (cc_chunkSize c) (cc_currChunk c) lens (cc_meta c) (cc_buf c)
                  (cc_out c ++ [mkDvChunk (cc_meta c) (cc_buf c)]))
  end.

(* Add(docNum, vals):
     chunk := docNum / c.chunkSize
     if chunk != c.currChunk {
       flushContents(); chunkBuf.Reset(); chunkMetaBuf.Reset();
       chunkMeta = chunkMeta[:0]; currChunk = chunk }
     dvOffset := chunkBuf.Len(); dvSize := chunkBuf.Write(vals)
     chunkMeta = append(chunkMeta, metaData{docNum, dvOffset + dvSize}) *)
Definition cc_add (c : Coder) (docNum : N) (vals : bytes) : result Coder :=
  if cc_chunkSize c =? 0 then Panic
  else
    let chunk := docNum / cc_chunkSize c in
    do c1 <- (if chunk =? cc_currChunk c then Ok c
              else do c' <- cc_flush c;
                   Ok (mkCoder (cc_chunkSize c') chunk (cc_chunkLens c') [] [] (cc_out c')));
    let dvOffset := lenN (cc_buf c1) in
    let dvSize := lenN vals in
    Ok (mkCoder (cc_chunkSize c1) (cc_currChunk c1) (cc_chunkLens c1)
                (cc_meta c1 ++ [(docNum, dvOffset + dvSize)])
                (cc_buf c1 ++ vals) (cc_out c1)).

(* Close *)
Definition cc_close (c : Coder) : result Coder := cc_flush c.

(* Write emits the data section, then modifyLengthsToEndOffsets(chunkLens) as
   uvarints, their byte length and the number of chunks.  A reader gets, for
   chunk number k, the part of the data section between the end offsets k-1
   and k (readChunkBoundary); loadDvChunk treats start >= end as an empty
   chunk.  [cut_chunks] is this view for all chunk numbers: it cuts the data
   section by the running sums of the lengths. *)
Definition dv_empty_chunk : DvChunk := mkDvChunk [] [].

Fixpoint cut_chunks (lens : list N) (final : list DvChunk) : list DvChunk :=
  match lens with
  | [] => []
  | l :: lens' =>
      (match firstn (N.to_nat l) final with
       | [] => dv_empty_chunk
       | b :: _ => b
       end) :: cut_chunks lens' (skipn (N.to_nat l) final)
  end.

Definition cc_chunks (c : Coder) : list DvChunk := cut_chunks (cc_chunkLens c) (cc_out c).

(* a sequence of Add calls *)
Fixpoint cc_adds (c : Coder) (entries : list (N * bytes)) : result Coder :=
  match entries with
  | [] => Ok c
  | (d, b) :: r => do c1 <- cc_add c d b; cc_adds c1 r
  end.

(* new; Add ...; Close; Write and what a reader then sees per chunk number *)
Definition cc_run (chunkSize maxDocNum : N) (entries : list (N * bytes)) : result (list DvChunk) :=
  do c0 <- cc_new chunkSize maxDocNum;
  do c1 <- cc_adds c0 entries;
  do c2 <- cc_close c1;
  Ok (cc_chunks c2).

(* ------------------------------------------------------------------ *)
(* the builder: new.go writeDictsField / writeDictsTermField            *)
(* ------------------------------------------------------------------ *)
(* docTermMap[docNum] = append(append(docTermMap[docNum], term...), termSeparator);
   docTermMap has len(s.results) entries, an index beyond that panics *)
Fixpoint dtm_append (m : list bytes) (docNum : nat) (term : bytes) : result (list bytes) :=
  match m, docNum with
  | [], _ => Panic
  | x :: m', O => Ok ((x ++ term ++ [termSeparator]) :: m')
  | x :: m', S n => do r <- dtm_append m' n term; Ok (x :: r)
  end.

(* writeDictsTermField: postingsItr := postingsBS.Iterator();
   for postingsItr.HasNext() { docNum := postingsItr.Next(); ...; docTermMap[docNum] = ... } *)
Fixpoint dtm_term (term : bytes) (postings : list N) (m : list bytes) : result (list bytes) :=
  match postings with
  | [] => Ok m
  | d :: ps => do m1 <- dtm_append m (N.to_nat d) term; dtm_term term ps m1
  end.

(* writeDictsField: for _, term := range terms { writeDictsTermField(...) },
   terms = s.DictKeys[fieldID], already sorted *)
Fixpoint dtm_terms (terms : list (bytes * list N)) (m : list bytes) : result (list bytes) :=
  match terms with
  | [] => Ok m
  | (t, ps) :: r => do m1 <- dtm_term t ps m; dtm_terms r m1
  end.

(* for docNum, docTerms := range docTermMap {
     if len(docTerms) > 0 { fdvEncoder.Add(uint64(docNum), docTerms) } } *)
Fixpoint dv_add_docs (c : Coder) (docs : list (N * bytes)) : result Coder :=
  match docs with
  | [] => Ok c
  | (d, b) :: r =>
      do c1 <- (match b with [] => Ok c | _ => cc_add c d b end);
      dv_add_docs c1 r
  end.

(* the doc-value part of writeDictsField for one field.
     docTermMap = make([][]byte, len(s.results))       (or the reset old one)
     for terms ...                                      dtm_terms
     fdvEncoder := newChunkedContentCoder(1024, uint64(len(s.results)-1), s.w, false)
     if s.IncludeDocValues[fieldID] { adds; Close; Write } else fieldNotUninverted
   numDocs = len(s.results); for numDocs = 0 the maximal document number wraps
   to 2^64-1 and make([]uint64, 2^54+1) panics (makeslice: len out of range).
   None = the field has no doc values (fieldNotUninverted). *)
Definition build_dv (incl : bool) (numDocs : N) (terms : list (bytes * list N))
  : result (option (list DvChunk)) :=
  do m <- dtm_terms terms (repeat [] (N.to_nat numDocs));
  if numDocs =? 0 then Panic
  else
    do c0 <- cc_new dv_chunk_docs (numDocs - 1);
    if incl then
      do c1 <- dv_add_docs c0 (number_from 0 m);
      do c2 <- cc_close c1;
      Ok (Some (cc_chunks c2))
    else Ok None.

(* what the builder holds for a field when it reaches writeDictsField:
   DictKeys[fieldID] (sorted) and for each term its postings bitmap
   (Builder_Proofs: exactly the documents of o_postings) *)
Definition dv_field_terms (A : ASeg) (f : bytes) : list (bytes * list N) :=
  map (fun t => (t, map fst (o_postings A f t))) (o_terms A f).

(* ------------------------------------------------------------------ *)
(* the merger: docvalues.go iterateAllDocValues, merge.go buildMergedDocVals *)
(* ------------------------------------------------------------------ *)
(* the visitor closure of buildMergedDocVals:
     if newDocNums[segmentI][docNum] == docDropped { return nil }
     fdvEncoder.Add(newDocNums[segmentI][docNum], terms) *)
Definition merge_dv_visit (tbl : list N) (c : Coder) (docNum : N) (terms : bytes) : result Coder :=
  match nthN tbl (N.to_nat docNum) with
  | None => Panic                                   (* index out of range *)
  | Some nd => if nd =? docDropped then Ok c else cc_add c nd terms
  end.

(* start := uint64(0)
   for _, entry := range di.curChunkHeader {
     visitor(entry.DocNum, uncompressed[start:entry.DocDvOffset]); start = entry.DocDvOffset }
   The slice expression panics for start > end or end > cap(uncompressed);
   the model panics already for end > len(uncompressed). *)
Fixpoint merge_dv_header (tbl : list N) (data : bytes) (h : list (N * N)) (start : N) (c : Coder)
  : result Coder :=
  match h with
  | [] => Ok c
  | (d, e) :: h' =>
      if (start <=? e) && (e <=? lenN data) then
        do c1 <- merge_dv_visit tbl c d (firstn (N.to_nat (e - start)) (skipn (N.to_nat start) data));
        merge_dv_header tbl data h' e c1
      else Panic
  end.

(* iterateAllDocValues: for i := 0; i < len(di.chunkOffsets); i++ {
     loadDvChunk(i); if curChunkData == nil || len(curChunkHeader) == 0 { continue }
     uncompress; the header loop with start reset to 0 }
   A chunk that was never flushed has nil data, a chunk flushed without
   entries has an empty header: both are skipped. *)
Fixpoint merge_dv_chunks (tbl : list N) (chunks : list DvChunk) (c : Coder) : result Coder :=
  match chunks with
  | [] => Ok c
  | ck :: r =>
      do c1 <- (match dvc_header ck with
                | [] => Ok c
                | h => merge_dv_header tbl (dvc_data ck) h 0 c
                end);
      merge_dv_chunks tbl r c1
  end.

(* for segmentI, seg := range segmentsInFocus {
     if dvIter, exists := seg.fieldDvReaders[fieldIDPlus1-1]; exists && dvIter != nil {
       fdvReadersAvailable = true; iterateAllDocValues(...) } }
   An input is (the chunks its reader sees, or None when it has no reader for
   the field; newDocNums[segmentI]).  The bool is fdvReadersAvailable. *)
Fixpoint merge_dv_inputs (ins : list (option (list DvChunk) * list N)) (c : Coder) (avail : bool)
  : result (Coder * bool) :=
  match ins with
  | [] => Ok (c, avail)
  | (None, _) :: r => merge_dv_inputs r c avail
  | (Some chunks, tbl) :: r =>
      do c1 <- merge_dv_chunks tbl chunks c;
      merge_dv_inputs r c1 true
  end.

(* buildMergedDocVals:
     fdvEncoder := newChunkedContentCoder(1024, newSegDocCount-1, w, true)
     the loop over segmentsInFocus
     if fdvReadersAvailable { Close; Write } else fieldNotUninverted
   newSegDocCount = 0 would wrap as in the builder (mergeToWriter does not
   call persistMergedRest then).  None = fieldNotUninverted. *)
Definition merge_dv (newSegDocCount : N) (ins : list (option (list DvChunk) * list N))
  : result (option (list DvChunk)) :=
  if newSegDocCount =? 0 then Panic
  else
    do c0 <- cc_new dv_chunk_docs (newSegDocCount - 1);
    do (c1, avail) <- merge_dv_inputs ins c0 false;
    if avail then
      do c2 <- cc_close c1;
      Ok (Some (cc_chunks c2))
    else Ok None.

(* ------------------------------------------------------------------ *)
(* the bytes of a blob: flushContents' header and loadDvChunk's parser  *)
(* ------------------------------------------------------------------ *)
(* uint64 subtraction and addition *)
Definition sub64 (a b : N) : N := (a + two64 - b mod two64) mod two64.
Definition add64 (a b : N) : N := wrap64 (a + b).

(* writeUvarints(&chunkMetaBuf, meta.DocNum-diffDocNum, meta.DocDvOffset-diffDvOffset);
   diffDocNum = meta.DocNum; diffDvOffset = meta.DocDvOffset *)
Fixpoint header_pairs (diffDocNum diffDvOffset : N) (meta : list (N * N)) : bytes :=
  match meta with
  | [] => []
  | (d, o) :: m =>
      put_uvarint (sub64 d diffDocNum) ++ put_uvarint (sub64 o diffDvOffset) ++ header_pairs d o m
  end.

(* PutUvarint(len(chunkMeta)) then the pairs *)
Definition header_bytes (meta : list (N * N)) : bytes :=
  put_uvarint (lenN meta) ++ header_pairs 0 0 meta.

(* what flushContents appends to final *)
Definition blob_bytes (c : DvChunk) : bytes := header_bytes (dvc_header c) ++ dvc_data c.

(* loadDvChunk: numDocs, then numDocs pairs with DocNum += diffDocNum,
   DocDvOffset += diffDvOffset; the rest is the (compressed) data.
   None = a varint that cannot be read. *)
Fixpoint parse_pairs (n : nat) (diffDocNum diffDvOffset : N) (s : bytes) : option (list (N * N) * bytes) :=
  match n with
  | O => Some ([], s)
  | S n' =>
      match read_uvarint s with
      | Some (Some a, s1) =>
          match read_uvarint s1 with
          | Some (Some b, s2) =>
              let d := add64 a diffDocNum in
              let o := add64 b diffDvOffset in
              match parse_pairs n' d o s2 with
              | Some (h, rest) => Some ((d, o) :: h, rest)
              | None => None
              end
          | _ => None
          end
      | _ => None
      end
  end.

Definition parse_header (s : bytes) : option (list (N * N) * bytes) :=
  match read_uvarint s with
  | Some (Some n, s1) => parse_pairs (N.to_nat n) 0 0 s1
  | _ => None
  end.

Definition parse_blob (s : bytes) : option DvChunk :=
  match parse_header s with
  | Some (h, dat) => Some (mkDvChunk h dat)
  | None => None
  end.

(* Container.v - byte-exact, executable models ("L0") of the index structures of
   an ice segment's data section, each writer paired with its reader:

     (A) the fields section        write.go persistFields / load.go loadFields
     (B) the stored-field trailer  documentcoder.go chunkedDocumentCoder.Write,
         and the stored index      new.go writeStoredFields, merge.go mergeStoredAndRemap /
                                   load.go loadStoredFieldChunk, read.go getDocStoredOffsetsOnly
     (C) the doc-value locations   merge.go writeDvLocs, new.go writeDicts /
                                   segment.go loadDvReaders
     (D) the doc-value trailer     contentcoder.go chunkedContentCoder.Write /
                                   docvalues.go loadFieldDocValueReader

   The models follow the Go code statement by statement.  Go's uint64 values are
   numbers in N with an explicit wrap64 on every operation that can wrap; Go's
   int values are numbers in Z (wrap_int on conversions).  Readers return
   [result]: Err for a Go error, Panic for a run-time panic.  No proofs here. *)
From Coq Require Import ZArith.
From Ice Require Export Base Varint Chunk Footer Stored.

(* ------------------------------------------------------------------ *)
(* Go integers                                                         *)

Definition two63 : N := 9223372036854775808.

(* a mathematical integer brought into the range of Go's int (int64) *)
Definition wrap_int (z : Z) : Z :=
  ((z + 9223372036854775808) mod 18446744073709551616 - 9223372036854775808)%Z.
(* int(x) for a uint64 x; uint64(z) for an int z *)
Definition int_of_u64 (x : N) : Z := wrap_int (Z.of_N x).
Definition u64_of_int (z : Z) : N := Z.to_N (z mod 18446744073709551616)%Z.
(* a - b on uint64 (both operands below two64) *)
Definition u64_sub (a b : N) : N := wrap64 (a + two64 - b).

(* ------------------------------------------------------------------ *)
(* segment.Data.Read(start, end)                                       *)

(* On memory-backed data this is mem[start:end] (legal up to cap(mem), a panic
   beyond); on file-backed data it is ReadAt on a section reader, an error when
   the range runs past the end of the data section.  The model takes the
   stricter, file-backed behaviour: every range that is not inside the data is
   an error. *)
Definition data_read (d : bytes) (s e : N) : result bytes :=
  if (e <=? lenN d) && (s <=? e)
  then Ok (firstn (N.to_nat (e - s)) (skipn (N.to_nat s) d))
  else Err.

(* the same with Go int arguments: a negative offset is an error as well *)
Definition data_read_int (d : bytes) (s e : Z) : result bytes :=
  if (s <? 0)%Z || (e <? 0)%Z then Err else data_read d (Z.to_N s) (Z.to_N e).

(* ------------------------------------------------------------------ *)
(* encoding/binary.Uvarint(buf) = (value, n)                           *)

(* n = 0: buf ended inside the varint; n < 0: overflow, -n bytes were looked at *)
Fixpoint go_uvarint_aux (buf : bytes) (i shift acc : N) : N * Z :=
  match buf with
  | [] => (0, 0%Z)
  | b :: rest =>
      if i =? 10 then (0, (- (Z.of_N i + 1))%Z)
      else if b <? 128 then
        if (i =? 9) && (1 <? b) then (0, (- (Z.of_N i + 1))%Z)
        else (N.lor acc (N.shiftl b shift), (Z.of_N i + 1)%Z)
      else go_uvarint_aux rest (i + 1) (shift + 7) (N.lor acc (N.shiftl (N.land b 127) shift))
  end.
Definition go_uvarint (buf : bytes) : N * Z := go_uvarint_aux buf 0 0 0.

(* ================================================================== *)
(* (A) the fields section                                              *)

(* one field: dictionary location, name, number of documents, number of tokens *)
Definition field_rec := (N * bytes * N * N)%type.

(* persistFields, body of the first loop:
     writeUvarints(w, dictLocs[fieldID], uint64(len(fieldName)))
     w.Write([]byte(fieldName))
     writeUvarints(w, fieldDocs[fieldID], fieldFreqs[fieldID]) *)
Definition field_record (f : field_rec) : bytes :=
  let '(dictLoc, name, docs, freqs) := f in
  put_uvarint dictLoc ++ put_uvarint (lenN name) ++ name ++ put_uvarint docs ++ put_uvarint freqs.

Definition fields_records (fields : list field_rec) : bytes := flat_map' field_record fields.

(* fieldsOffsets = append(fieldsOffsets, uint64(w.Count())) before each record *)
Fixpoint fields_offsets (count : N) (fields : list field_rec) : list N :=
  match fields with
  | [] => []
  | f :: fields' => count :: fields_offsets (count + lenN (field_record f)) fields'
  end.

(* second loop: binary.Write(w, binary.BigEndian, fieldsOffsets[fieldID]) *)
Definition fields_index (offs : list N) : bytes := flat_map' (be_bytes 8) offs.

(* persistFields with w.Count() = base on entry: (bytes written, rv) where
   rv = uint64(w.Count()) after the records *)
Definition persist_fields (base : N) (fields : list field_rec) : bytes * N :=
  let recs := fields_records fields in
  (recs ++ fields_index (fields_offsets base fields), base + lenN recs).

(* loadFields, the part of the loop body after addr has been read *)
Definition load_field_at (data : bytes) (addr : N) : result field_rec :=
  let fieldsIndexEnd := lenN data in
  (* dictLocData, err := s.data.Read(int(addr), int(fieldsIndexEnd)) *)
  do dictLocData <- data_read_int data (int_of_u64 addr) (int_of_u64 fieldsIndexEnd);
  (* dictLoc, read := binary.Uvarint(dictLocData); n := uint64(read) *)
  let '(dictLoc, read) := go_uvarint dictLocData in
  let n := u64_of_int read in
  (* nameLenData, err := s.data.Read(int(addr+n), int(fieldsIndexEnd)) *)
  do nameLenData <- data_read_int data (int_of_u64 (wrap64 (addr + n))) (int_of_u64 fieldsIndexEnd);
  (* nameLen, read = binary.Uvarint(nameLenData); n += uint64(read) *)
  let '(nameLen, read) := go_uvarint nameLenData in
  let n := wrap64 (n + u64_of_int read) in
  (* nameData, err := s.data.Read(int(addr+n), int(addr+n+nameLen)); n += nameLen *)
  do nameData <- data_read_int data (int_of_u64 (wrap64 (addr + n)))
                                    (int_of_u64 (wrap64 (addr + n + nameLen)));
  let n := wrap64 (n + nameLen) in
  (* fieldDocData, err := s.data.Read(int(addr+n), int(fieldsIndexEnd)) *)
  do fieldDocData <- data_read_int data (int_of_u64 (wrap64 (addr + n))) (int_of_u64 fieldsIndexEnd);
  (* fieldDocVal, read := binary.Uvarint(fieldDocData); n += uint64(read) *)
  let '(fieldDocVal, read) := go_uvarint fieldDocData in
  let n := wrap64 (n + u64_of_int read) in
  (* fieldFreqData, err := s.data.Read(int(addr+n), int(fieldsIndexEnd)) *)
  do fieldFreqData <- data_read_int data (int_of_u64 (wrap64 (addr + n))) (int_of_u64 fieldsIndexEnd);
  (* fieldFreqVal, _ := binary.Uvarint(fieldFreqData) *)
  let '(fieldFreqVal, _) := go_uvarint fieldFreqData in
  Ok (dictLoc, nameData, fieldDocVal, fieldFreqVal).

(* loadFields: for s.footer.fieldsIndexOffset+(fileAddrWidth*fieldID) < fieldsIndexEnd.
   The loop count depends on the data, hence the fuel. *)
Fixpoint load_fields_loop (fuel : nat) (data : bytes) (fieldsIndexOffset fieldID : N)
  : result (list field_rec) :=
  let p := wrap64 (fieldsIndexOffset + wrap64 (8 * fieldID)) in
  if p <? lenN data then
    match fuel with
    | O => OutOfFuel
    | S fuel' =>
        (* addrData, err := s.data.Read(int(p), int(p+fileAddrWidth)) *)
        do addrData <- data_read_int data (int_of_u64 p) (int_of_u64 (wrap64 (p + 8)));
        (* addr := binary.BigEndian.Uint64(addrData) *)
        let addr := be_value addrData 0 in
        do f <- load_field_at data addr;
        (* fieldID++ *)
        do rest <- load_fields_loop fuel' data fieldsIndexOffset (wrap64 (fieldID + 1));
        Ok (f :: rest)
    end
  else Ok [].

(* the records in the order of the field ids: s.dictLocs and s.fieldsInv are
   appended to, one element per iteration *)
Definition load_fields_raw (data : bytes) (fieldsIndexOffset : N) : result (list field_rec) :=
  load_fields_loop (S (length data)) data fieldsIndexOffset 0.

(* s.fieldDocs[uint16(fieldID)] = fieldDocVal and s.fieldFreqs[uint16(fieldID)] =
   fieldFreqVal: Go maps keyed by the truncated field id.  A map is an
   association list, newest binding first; a missing key reads as 0.  The map
   updates do not influence the loop, so they are replayed after it. *)
Definition u16 (x : N) : N := x mod 65536.
Fixpoint map_put_all (i : N) (vals : list N) (m : list (N * N)) : list (N * N) :=
  match vals with
  | [] => m
  | v :: vals' => map_put_all (i + 1) vals' ((u16 i, v) :: m)
  end.
Fixpoint map_get (k : N) (m : list (N * N)) : N :=
  match m with
  | [] => 0
  | (k', v) :: m' => if k =? k' then v else map_get k m'
  end.

(* the segment's view of its fields after loadFields: field i has
   dictLocs[i], fieldsInv[i], fieldDocs[uint16(i)], fieldFreqs[uint16(i)].
   (s.fieldsMap[name] = uint16(fieldID+1) is not modelled: it wraps to 0, "no
   such field", for the 65536th field.) *)
Definition fields_view (raw : list field_rec) : list field_rec :=
  let fieldDocs := map_put_all 0 (map (fun f => snd (fst f)) raw) [] in
  let fieldFreqs := map_put_all 0 (map (fun f => snd f) raw) [] in
  map (fun p => let '(i, (dictLoc, name, _, _)) := p in
                (dictLoc, name, map_get (u16 i) fieldDocs, map_get (u16 i) fieldFreqs))
      (number_from 0 raw).

Definition load_fields (data : bytes) (fieldsIndexOffset : N) : result (list field_rec) :=
  do raw <- load_fields_raw data fieldsIndexOffset;
  Ok (fields_view raw).

(* ================================================================== *)
(* (B) the stored-field trailer and the stored index                   *)

(* chunkedDocumentCoder.Write after the final flush: c.offsets (it starts with
   0 and has one end offset per flushed block) as uvarints, uint32(wn),
   uint32(len(c.offsets)) *)
Definition stored_trailer (offsets : list N) : bytes :=
  let ov := put_uvarints offsets in
  ov ++ be_bytes 4 (wrap32 (lenN ov)) ++ be_bytes 4 (wrap32 (lenN offsets)).

(* writeStoredFields / mergeStoredAndRemap: binary.Write(w, BigEndian, docStoredOffset)
   for every document; storedIndexOffset = w.Count() before the first *)
Definition stored_index (docOffsets : list N) : bytes := flat_map' (be_bytes 8) docOffsets.

(* chunkedDocumentCoder: c.offsets is 0 :: coder_offsets 0 blocks, where blocks
   has one entry per flush: newChunkedDocumentCoder appends 0, every flush
   appends c.bytes after writing its compressed block, and the flush at the
   start of Write appends once more even when nothing is buffered (that entry
   of blocks is then empty).  An empty batch gives blocks = [[]], offsets [0; 0]. *)
Fixpoint coder_offsets (bytes_written : N) (blocks : list bytes) : list N :=
  match blocks with
  | [] => []
  | b :: blocks' => (bytes_written + lenN b) :: coder_offsets (bytes_written + lenN b) blocks'
  end.

(* loadStoredFieldChunk, the loop
     for i := 0; i < int(chunkNum); i++ {
       offsetata, err = s.data.Read(chunkOffsetPos+offset, chunkOffsetPos+offset+binary.MaxVarintLen64)
       s.storedFieldChunkOffsets[i], read = binary.Uvarint(offsetata)
       offset += read }
   (no check of read: a truncated or overflowing varint is silently taken as 0) *)
Fixpoint load_chunk_offsets_loop (n : nat) (data : bytes) (chunkOffsetPos offset : Z)
  : result (list N) :=
  match n with
  | O => Ok []
  | S n' =>
      do offsetata <- data_read_int data (wrap_int (chunkOffsetPos + offset))
                                         (wrap_int (chunkOffsetPos + offset + 10));
      let '(v, read) := go_uvarint offsetata in
      do rest <- load_chunk_offsets_loop n' data chunkOffsetPos (wrap_int (offset + read));
      Ok (v :: rest)
  end.

Definition load_stored_chunk_offsets (data : bytes) (storedIndexOffset : N) : result (list N) :=
  (* chunkOffsetPos := int(s.footer.storedIndexOffset - uint64(sizeOfUint32)) *)
  let chunkOffsetPos := int_of_u64 (u64_sub storedIndexOffset 4) in
  (* chunkData, err := s.data.Read(chunkOffsetPos, chunkOffsetPos+sizeOfUint32) *)
  do chunkData <- data_read_int data chunkOffsetPos (wrap_int (chunkOffsetPos + 4));
  (* chunkNum := binary.BigEndian.Uint32(chunkData) *)
  let chunkNum := be_value chunkData 0 in
  (* chunkOffsetPos -= sizeOfUint32 *)
  let chunkOffsetPos := wrap_int (chunkOffsetPos - 4) in
  do chunkData <- data_read_int data chunkOffsetPos (wrap_int (chunkOffsetPos + 4));
  (* chunkOffsetsLen := binary.BigEndian.Uint32(chunkData) *)
  let chunkOffsetsLen := be_value chunkData 0 in
  (* chunkOffsetPos -= int(chunkOffsetsLen) *)
  let chunkOffsetPos := wrap_int (chunkOffsetPos - Z.of_N chunkOffsetsLen) in
  load_chunk_offsets_loop (N.to_nat chunkNum) data chunkOffsetPos 0.

(* getDocStoredOffsetsOnly: (indexOffset, storedOffset) *)
Definition doc_stored_offset (data : bytes) (storedIndexOffset docNum : N) : result (N * N) :=
  (* indexOffset = s.footer.storedIndexOffset + (fileAddrWidth * docNum) *)
  let indexOffset := wrap64 (storedIndexOffset + wrap64 (8 * docNum)) in
  (* storedOffsetData, err := s.data.Read(int(indexOffset), int(indexOffset+fileAddrWidth)) *)
  do storedOffsetData <- data_read_int data (int_of_u64 indexOffset)
                                            (int_of_u64 (wrap64 (indexOffset + 8)));
  (* storedOffset = binary.BigEndian.Uint64(storedOffsetData) *)
  Ok (indexOffset, be_value storedOffsetData 0).

(* ================================================================== *)
(* (D) the per-field doc-value trailer                                 *)

Definition fieldNotUninverted : N := 18446744073709551615.   (* math.MaxUint64 *)

(* chunkedContentCoder.Write after c.final: the chunk end offsets as uvarints,
   the length of that block (uint64), the number of chunks (uint64) *)
Definition dv_trailer (chunkOffsets : list N) : bytes :=
  let ov := put_uvarints chunkOffsets in
  ov ++ be_bytes 8 (wrap64 (lenN ov)) ++ be_bytes 8 (wrap64 (lenN chunkOffsets)).

(* the whole of Write: c.final, then the trailer of
   modifyLengthsToEndOffsets(c.chunkLens) *)
Definition content_write (final : bytes) (chunkLens : list N) : bytes :=
  final ++ dv_trailer (end_offsets 0 chunkLens).

(* loadFieldDocValueReader, the loop
     for i := 0; i < int(numChunks); i++ {
       locData, err := s.data.Read(int(chunkOffsetsPosition+offset),
                                   int(chunkOffsetsPosition+offset+binary.MaxVarintLen64))
       loc, read := binary.Uvarint(locData)
       if read <= 0 { return error }
       fdvIter.chunkOffsets[i] = loc
       offset += uint64(read) } *)
Fixpoint load_dv_chunk_offsets_loop (n : nat) (data : bytes) (chunkOffsetsPosition offset : N)
  : result (list N) :=
  match n with
  | O => Ok []
  | S n' =>
      let p := wrap64 (chunkOffsetsPosition + offset) in
      do locData <- data_read_int data (int_of_u64 p) (int_of_u64 (wrap64 (p + 10)));
      let '(loc, read) := go_uvarint locData in
      if (read <=? 0)%Z then Err
      else
        do rest <- load_dv_chunk_offsets_loop n' data chunkOffsetsPosition
                     (wrap64 (offset + u64_of_int read));
        Ok (loc :: rest)
  end.

(* loadFieldDocValueReader: None = no reader (the field has no doc values),
   Some (dvDataLoc, chunkOffsets) otherwise *)
Definition load_field_dv_reader (data : bytes) (fieldDvLocStart fieldDvLocEnd : N)
  : result (option (N * list N)) :=
  if fieldDvLocStart =? fieldNotUninverted then Ok None
  else if 16 <? u64_sub fieldDvLocEnd fieldDvLocStart then
    (* numChunksData, err := s.data.Read(int(fieldDvLocEnd-fieldDvEndWidth), int(fieldDvLocEnd)) *)
    do numChunksData <- data_read_int data (int_of_u64 (u64_sub fieldDvLocEnd 8))
                                           (int_of_u64 fieldDvLocEnd);
    let numChunks := be_value numChunksData 0 in
    (* chunkOffsetsLenData, err := s.data.Read(int(fieldDvLocEnd-16), int(fieldDvLocEnd-8)) *)
    do chunkOffsetsLenData <- data_read_int data (int_of_u64 (u64_sub fieldDvLocEnd 16))
                                                 (int_of_u64 (u64_sub fieldDvLocEnd 8));
    let chunkOffsetsLen := be_value chunkOffsetsLenData 0 in
    (* chunkOffsetsPosition = (fieldDvLocEnd - 16) - chunkOffsetsLen *)
    let chunkOffsetsPosition := u64_sub (u64_sub fieldDvLocEnd 16) chunkOffsetsLen in
    (* chunkOffsets: make([]uint64, int(numChunks)) panics on a negative length *)
    let count := int_of_u64 numChunks in
    if (count <? 0)%Z then Panic
    else
      do offs <- load_dv_chunk_offsets_loop (Z.to_nat count) data chunkOffsetsPosition 0;
      (* fdvIter.dvDataLoc = fieldDvLocStart *)
      Ok (Some (fieldDvLocStart, offs))
  else Err.

(* ================================================================== *)
(* (C) the doc-value location index                                    *)

(* writeDvLocs / the tail of writeDicts: per field the uvarints of
   fieldDvLocsStart[i] and fieldDvLocsEnd[i]; both are fieldNotUninverted for a
   field without doc values.  The returned offset is w.Count() on entry. *)
Definition write_dv_locs (locs : list (N * N)) : bytes :=
  flat_map' (fun p => put_uvarint (fst p) ++ put_uvarint (snd p)) locs.

(* loadDvReaders, the loop over s.fieldsInv; per_field is what is done with the
   two locations of a field (in Go: loadFieldDocValueReader) *)
Fixpoint load_dv_locs_loop {A} (per_field : N -> N -> result A) (nfields : nat)
         (data : bytes) (docValueOffset read : N) : result (list A) :=
  match nfields with
  | O => Ok []
  | S nfields' =>
      let p := wrap64 (docValueOffset + read) in
      (* fieldLocStartData, err := s.data.Read(int(docValueOffset+read), int(docValueOffset+read+MaxVarintLen64)) *)
      do fieldLocStartData <- data_read_int data (int_of_u64 p) (int_of_u64 (wrap64 (p + 10)));
      (* fieldLocStart, n = binary.Uvarint(fieldLocStartData); if n <= 0 { error }; read += uint64(n) *)
      let '(fieldLocStart, n) := go_uvarint fieldLocStartData in
      if (n <=? 0)%Z then Err
      else
        let read := wrap64 (read + u64_of_int n) in
        let p := wrap64 (docValueOffset + read) in
        do fieldLocEndData <- data_read_int data (int_of_u64 p) (int_of_u64 (wrap64 (p + 10)));
        let '(fieldLocEnd, n) := go_uvarint fieldLocEndData in
        if (n <=? 0)%Z then Err
        else
          let read := wrap64 (read + u64_of_int n) in
          (* fieldDvReader, err := s.loadFieldDocValueReader(field, fieldLocStart, fieldLocEnd) *)
          do r <- per_field fieldLocStart fieldLocEnd;
          do rest <- load_dv_locs_loop per_field nfields' data docValueOffset read;
          Ok (r :: rest)
  end.

(* loadDvReaders: nothing is read when the footer says there are no doc values
   or no documents *)
Definition load_dv_with {A} (per_field : N -> N -> result A) (data : bytes)
           (docValueOffset numDocs : N) (nfields : nat) : result (list A) :=
  if (docValueOffset =? fieldNotUninverted) || (numDocs =? 0) then Ok []
  else load_dv_locs_loop per_field nfields data docValueOffset 0.

(* only the locations *)
Definition load_dv_locs (data : bytes) (docValueOffset numDocs : N) (nfields : nat)
  : result (list (N * N)) :=
  load_dv_with (fun s e => Ok (s, e)) data docValueOffset numDocs nfields.

(* the real thing: one optional reader per field *)
Definition load_dv_readers (data : bytes) (docValueOffset numDocs : N) (nfields : nat)
  : result (list (option (N * list N))) :=
  load_dv_with (load_field_dv_reader data) data docValueOffset numDocs nfields.

(* ================================================================== *)
(* the data section of a segment as new.go convert / merge.go mergeToWriter
   lay it out: compressed stored blocks, stored trailer, stored index,
   dictionaries with postings and doc values (opaque here), doc-value
   locations, fields section.  The 44-byte footer follows in the file but is
   sliced off by load (data.Slice(0, data.Len()-footerLen)).  Returns the data
   and the three footer offsets (stored index, fields index, doc values).
   Without documents there are no dictionaries and no locations (dicts = [],
   locs = []) and the footer's docValueOffset is 0 (builder) or
   fieldNotUninverted (merger) instead; loadDvReaders then reads nothing. *)
Definition segment_data (blocks : list bytes) (docOffsets : list N) (dicts : bytes)
           (locs : list (N * N)) (fields : list field_rec) : bytes * (N * N * N) :=
  let stored := flat_map' (fun b => b) blocks ++ stored_trailer (0 :: coder_offsets 0 blocks) in
  let storedIndexOffset := lenN stored in
  let upto_dv := stored ++ stored_index docOffsets ++ dicts in
  let docValueOffset := lenN upto_dv in
  let upto_fields := upto_dv ++ write_dv_locs locs in
  let '(fbytes, fieldsIndexOffset) := persist_fields (lenN upto_fields) fields in
  (upto_fields ++ fbytes, (storedIndexOffset, fieldsIndexOffset, docValueOffset)).

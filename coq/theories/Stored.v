(* Stored.v - the L1 model of stored fields: the record layout written by
   encodeStoredFieldValues / chunkedDocumentCoder.Add (new.go, merge.go,
   write.go, documentcoder.go) and the reader getDocStoredOffsets /
   visitDocument (read.go, segment.go).  Blocks are uncompressed byte strings. *)
From Ice Require Export Base Varint.

Definition block_docs : N := 128.     (* defaultDocumentChunkSize *)

(* the stored values of one document: (field id, value) in field-id order *)
Definition SVals := list (N * bytes).

(* encodeStoredFieldValues: per value the triple fieldID, running offset, length *)
Fixpoint stored_meta (curr : N) (vals : SVals) : bytes :=
  match vals with
  | [] => []
  | (fid, v) :: vals' => put_uvarints [fid; curr; lenN v] ++ stored_meta (curr + lenN v) vals'
  end.
Definition stored_data (vals : SVals) : bytes := flat_map' snd vals.

(* chunkedDocumentCoder.Add: len(meta) len(data) meta data *)
Definition stored_record (vals : SVals) : bytes :=
  let m := stored_meta 0 vals in
  let d := stored_data vals in
  put_uvarint (lenN m) ++ put_uvarint (lenN d) ++ m ++ d.

(* a block and the in-block offset of each of its documents (Size() before Add) *)
Fixpoint block_of (docs : list SVals) : bytes :=
  match docs with [] => [] | d :: docs' => stored_record d ++ block_of docs' end.
Fixpoint block_offsets (acc : N) (docs : list SVals) : list N :=
  match docs with
  | [] => []
  | d :: docs' => acc :: block_offsets (acc + lenN (stored_record d)) docs'
  end.

(* encoding/binary.Uvarint on a window: (value, bytes read); read = 0 when the
   window ends inside the varint; overflow is a later slice panic (read < 0) *)
Fixpoint uvarint_window (buf : bytes) (i shift acc : N) : result (N * N) :=
  match buf with
  | [] => Ok (0, 0)
  | b :: rest =>
      if 10 <=? i then Panic
      else if b <? 128 then
        if (i =? 9) && (1 <? b) then Panic
        else Ok (N.lor acc (N.shiftl b shift), i + 1)
      else uvarint_window rest (i + 1) (shift + 7) (N.lor acc (N.shiftl (N.land b 127) shift))
  end.

Definition slice (b : bytes) (lo hi : N) : result bytes :=
  if (lo <=? hi) && (hi <=? lenN b) then Ok (firstn (N.to_nat (hi - lo)) (skipn (N.to_nat lo) b))
  else Panic.

(* getDocStoredOffsets after the repair: the 10-byte look-ahead is clamped to
   the decompressed block *)
Definition stored_lens (block : bytes) (off : N) : result (N * N * N) :=
  let blen := lenN block in
  do w1 <- slice block off (N.min (off + 10) blen);
  do (metaLen, r1) <- uvarint_window w1 0 0 0;
  do w2 <- slice block (off + r1) (N.min (off + r1 + 10) blen);
  do (dataLen, r2) <- uvarint_window w2 0 0 0;
  Ok (metaLen, dataLen, r1 + r2).

(* the loop of visitDocument over the meta bytes (binary.ReadUvarint on a
   bytes.Reader: io.EOF at a clean end stops, a truncated varint is an error);
   the visitor returns false on its [stop]-th call *)
Fixpoint visit_meta (fuel : nat) (meta data : bytes) (fields : list bytes)
         (stop : option N) (seen : N) : result (list (bytes * bytes)) :=
  match meta with
  | [] => Ok []
  | _ =>
    match fuel with
    | O => OutOfFuel
    | S f =>
      match read_uvarint meta with
      | Some (Some fid, m1) =>
        match read_uvarint m1 with
        | Some (Some off, m2) =>
          match read_uvarint m2 with
          | Some (Some l, m3) =>
              do v <- slice data off (off + l);
              match nthN fields (N.to_nat fid) with
              | None => Panic
              | Some name =>
                  let seen' := seen + 1 in
                  let continue := match stop with Some k => negb (k <=? seen') | None => true end in
                  if continue then
                    do rest <- visit_meta f m3 data fields stop seen';
                    Ok ((name, v) :: rest)
                  else Ok [(name, v)]
              end
          | _ => Err
          end
        | _ => Err
        end
      | _ => Err
      end
    end
  end.

(* visitDocument for a document that exists: its block and in-block offset *)
Definition visit_stored (block : bytes) (off : N) (fields : list bytes) (stop : option N)
  : result (list (bytes * bytes)) :=
  do (ml, dl, n) <- stored_lens block off;
  do meta <- slice block (off + n) (off + n + ml);
  do data <- slice block (off + n + ml) (off + n + ml + dl);
  visit_meta (length meta) meta data fields stop 0.

(* ---- the pre-fix reader, kept for the refutation witness (Refuted_prefix) ----
   the window [off, off+10) is sliced beyond len into the capacity of the reused
   buffer: legal up to cap, a panic beyond; stale bytes fill [len, cap) *)
Definition stored_lens_prefix (block stale : bytes) (off : N) : result (N * N * N) :=
  let buf := block ++ stale in
  do w1 <- slice buf off (off + 10);
  do (metaLen, r1) <- uvarint_window w1 0 0 0;
  do w2 <- slice buf (off + r1) (off + r1 + 10);
  do (dataLen, r2) <- uvarint_window w2 0 0 0;
  Ok (metaLen, dataLen, r1 + r2).

(* Base.v - byte strings, lexicographic order, sorting, small list utilities.
   Everything is executable (vm_compute / extraction).  No proofs here. *)
From Coq Require Export List NArith Bool.
Export ListNotations.
Open Scope N_scope.

Definition byte := N.            (* a byte is an N below 256 *)
Definition bytes := list N.

(* Go's uint64 wrap-around, written explicitly wherever the code can wrap *)
Definition two64 : N := 18446744073709551616.
Definition two32 : N := 4294967296.
Definition wrap64 (x : N) : N := x mod two64.
Definition wrap32 (x : N) : N := x mod two32.

(* ---- equality and lexicographic comparison of byte strings ---- *)
Fixpoint beq (a b : bytes) : bool :=
  match a, b with
  | [], [] => true
  | x :: a', y :: b' => (x =? y) && beq a' b'
  | _, _ => false
  end.

Fixpoint bcmp (a b : bytes) : comparison :=
  match a, b with
  | [], [] => Eq
  | [], _ :: _ => Lt
  | _ :: _, [] => Gt
  | x :: a', y :: b' =>
      match x ?= y with
      | Eq => bcmp a' b'
      | c => c
      end
  end.

Definition blt (a b : bytes) : bool := match bcmp a b with Lt => true | _ => false end.
Definition ble (a b : bytes) : bool := match bcmp a b with Gt => false | _ => true end.

Fixpoint is_prefix (p s : bytes) : bool :=
  match p, s with
  | [], _ => true
  | x :: p', y :: s' => (x =? y) && is_prefix p' s'
  | _ :: _, [] => false
  end.

(* ---- insertion sort with a boolean "less or equal", stable ---- *)
Section Sort.
  Context {A : Type} (le : A -> A -> bool).
  Fixpoint insert_sorted (x : A) (l : list A) : list A :=
    match l with
    | [] => [x]
    | y :: l' => if le x y then x :: l else y :: insert_sorted x l'
    end.
  Fixpoint isort (l : list A) : list A :=
    match l with
    | [] => []
    | x :: l' => insert_sorted x (isort l')
    end.
End Sort.

(* remove adjacent duplicates *)
Section Dedup.
  Context {A : Type} (eqb : A -> A -> bool).
  Fixpoint dedup_adj (l : list A) : list A :=
    match l with
    | [] => []
    | x :: l' =>
        match l' with
        | [] => [x]
        | y :: _ => if eqb x y then dedup_adj l' else x :: dedup_adj l'
        end
    end.
  Fixpoint mem (x : A) (l : list A) : bool :=
    match l with
    | [] => false
    | y :: l' => eqb x y || mem x l'
    end.
End Dedup.

Definition sort_bytes (l : list bytes) : list bytes := isort ble l.
Definition sort_dedup_bytes (l : list bytes) : list bytes := dedup_adj beq (sort_bytes l).

(* sorted, duplicate free list of numbers (a roaring bitmap seen as a set) *)
Definition sort_dedup_N (l : list N) : list N := dedup_adj N.eqb (isort N.leb l).
Definition memN (x : N) (l : list N) : bool := mem N.eqb x l.

Fixpoint sumN (l : list N) : N :=
  match l with [] => 0 | x :: l' => x + sumN l' end.

Definition lenN {A} (l : list A) : N := N.of_nat (length l).

Fixpoint nthN {A} (l : list A) (n : nat) : option A :=
  match l, n with
  | [], _ => None
  | x :: _, O => Some x
  | _ :: l', S n' => nthN l' n'
  end.

Fixpoint index_of (x : bytes) (l : list bytes) (i : N) : option N :=
  match l with
  | [] => None
  | y :: l' => if beq x y then Some i else index_of x l' (i + 1)
  end.

Definition opt_default {A} (d : A) (o : option A) : A :=
  match o with Some x => x | None => d end.

Fixpoint flat_map' {A B} (f : A -> list B) (l : list A) : list B :=
  match l with [] => [] | x :: l' => f x ++ flat_map' f l' end.

(* numbered list: pairs (index, element) starting from i *)
Fixpoint number_from {A} (i : N) (l : list A) : list (N * A) :=
  match l with [] => [] | x :: l' => (i, x) :: number_from (i + 1) l' end.

(* ---- the result type used by the algorithmic models ---- *)
Inductive result (A : Type) : Type :=
| Ok (v : A)
| Err          (* the Go function returned a non-nil error *)
| Panic        (* index out of range, nil dereference, slice bounds *)
| Block        (* blocked forever on a mutex *)
| OutOfFuel.   (* model artefact; excluded by every theorem *)
Arguments Ok {A} v.
Arguments Err {A}.
Arguments Panic {A}.
Arguments Block {A}.
Arguments OutOfFuel {A}.

Definition rbind {A B} (r : result A) (f : A -> result B) : result B :=
  match r with
  | Ok v => f v
  | Err => Err
  | Panic => Panic
  | Block => Block
  | OutOfFuel => OutOfFuel
  end.
Notation "'do' x <- r ; k" := (rbind r (fun x => k))
  (at level 200, x pattern, r at level 100, k at level 200, right associativity).

(* ---- flat wire encoding used by the correspondence check ---- *)
(* a byte string on the wire: length then bytes *)
Definition w_bytes (b : bytes) : list N := lenN b :: b.
Definition w_list {A} (f : A -> list N) (l : list A) : list N :=
  lenN l :: flat_map' f l.
Definition w_bool (b : bool) : list N := [if b then 1 else 0].

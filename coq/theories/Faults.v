(* Faults.v - two readers under per-read storage failures (property C19).

   Storage is an oracle [ok : nat -> bool]: the k-th storage read (s.data.Read /
   d.data.Read) of a run succeeds iff [ok k].  A read counter is threaded
   through the reader state; a failed read counts as a read.  The property's
   own fault model is "fails from some point on" ([fails_from k0]); the models
   are written for an arbitrary oracle.

   A function under faults returns [fres S A]: unlike Base.result, the error
   outcome carries the (partially updated) state the Go object is left in,
   because the object stays in use after the error was reported.

   (A) docvalues.go: loadDvChunk / visitDocumentFieldTerms for one field.
       [dvf_load] follows the REPAIRED loadDvChunk (/repo 4e8037d: curChunkNum
       is set to math.MaxInt64 before the cached header is resized and
       overwritten); [dvf_load_prefix] is the code before that repair.
   (B) posting.go: PostingsIterator.loadChunk and nextAtOrAfter.
       [itf_loadChunk] follows the REPAIRED loadChunk (/repo a3bc44f: a failed
       location load clears freqNormReader.curChunkBytes);
       [itf_loadChunk_prefix] is the code before that repair.

   Everything is executable and structurally recursive.  Proofs are in
   proofs/Faults_Proofs.v. *)
From Ice Require Export Base Varint Chunk Spec DocValues Postings.

(* ------------------------------------------------------------------ *)
(* storage oracle, outcomes                                             *)
(* ------------------------------------------------------------------ *)
Definition oracle := nat -> bool.
Definition no_faults : oracle := fun _ => true.
Definition fails_from (k0 : nat) : oracle := fun k => Nat.ltb k k0.        (* the property's fault model *)
Definition fails_only_at (k0 : nat) : oracle := fun k => negb (Nat.eqb k k0). (* a transient failure *)
Definition monotone (ok : oracle) : Prop := forall k, ok k = false -> ok (S k) = false.

Inductive fres (S A : Type) : Type :=
| FOk (s : S) (v : A)
| FErr (s : S)        (* non-nil error; the object is left in state s *)
| FPanic.
Arguments FOk {S A} s v.
Arguments FErr {S A} s.
Arguments FPanic {S A}.

Definition fbind {S A B} (r : fres S A) (f : S -> A -> fres S B) : fres S B :=
  match r with
  | FOk s v => f s v
  | FErr s => FErr s
  | FPanic => FPanic
  end.

(* what the caller of one API call observes *)
Inductive outcome (A : Type) : Type := OOk (v : A) | OErr | OPanic.
Arguments OOk {A} v.
Arguments OErr {A}.
Arguments OPanic {A}.

(* ================================================================== *)
(* (A) the doc-value reader                                            *)
(* ================================================================== *)

(* The reader state: DocValues.DvReader, the part of curChunkHeader's backing
   array beyond its length (cap - len entries: they come back into view when the
   slice is re-sliced to a larger numDocs), and the read counter. *)
Record DvF := mkDvF {
  df_r : DvReader;
  df_spare : list (N * N);
  df_k : nat }.

Definition dvf_open (chunks : list DvChunk) (k : nat) : DvF := mkDvF (dv_open chunks) [] k.

(* if cap(di.curChunkHeader) < numDocs { make([]metaData, numDocs) }   -- zero entries, cap = len
   else { di.curChunkHeader = di.curChunkHeader[:numDocs] }             -- old entries stay in place *)
Definition dvf_resize (h spare : list (N * N)) (n : nat) : list (N * N) * list (N * N) :=
  let backing := h ++ spare in
  if Nat.ltb (length backing) n then (repeat (0, 0) n, [])
  else (firstn n backing, skipn n backing).

Inductive fill_res : Type :=
| FillOk (h : list (N * N)) (k : nat)
| FillErr (h : list (N * N)) (k : nat)     (* a read failed: the header as it stands *)
| FillPanic.                               (* index out of range (excluded: the header was resized to numDocs) *)

(* the loop  for i := 0; i < numDocs; i++ { read DocNum; header[i].DocNum = ..;
                                            read DocDvOffset; header[i].DocDvOffset = .. }
   [new] = the entries still to be read, [slots] = header[i:], the slots not yet
   overwritten.  Two reads per entry; the first failure returns with the header
   as overwritten so far: entries before i are new, entry i is untouched (first
   read failed) or has the new DocNum and the OLD DocDvOffset (second read
   failed), later entries are untouched. *)
Fixpoint dvf_fill (ok : oracle) (new slots : list (N * N)) (k : nat) : fill_res :=
  match new with
  | [] => FillOk slots k
  | (d, e) :: new' =>
      match slots with
      | [] => FillPanic
      | x :: slots' =>
          if ok k then
            if ok (S k) then
              match dvf_fill ok new' slots' (S (S k)) with
              | FillOk h k' => FillOk ((d, e) :: h) k'
              | FillErr h k' => FillErr ((d, e) :: h) k'
              | FillPanic => FillPanic
              end
            else FillErr ((d, snd x) :: slots') (S (S k))
          else FillErr (x :: slots') (S k)
      end
  end.

(* start >= end in loadDvChunk: the chunk occupies no bytes.  The writer
   (chunkedContentCoder) flushes chunk 0 and every chunk that has a document,
   so a chunk without documents occupies no bytes unless it is chunk 0, which
   is stored as the one byte "0 documents" followed by empty data. *)
Definition dvf_zero_len (chunk : N) (c : DvChunk) : bool :=
  match dvc_header c with
  | [] => negb (chunk =? 0)
  | _ => false
  end.

(* curChunkData after a complete load.  DocValues.dv_load records None for an
   empty header (nil and an empty slice are not distinguished there: the data
   is only sliced after a header hit); this keeps the two models equal. *)
Definition dvf_data_of (c : DvChunk) : option bytes :=
  match dvc_header c with
  | [] => None
  | _ => Some (dvc_data c)
  end.

(* loadDvChunk, effect by effect.  [fixed = true] is the repaired code. *)
Definition dvf_load_gen (fixed : bool) (ok : oracle) (s : DvF) (chunk : N) : fres DvF unit :=
  let r := df_r s in
  match nthN (dr_chunks r) (N.to_nat chunk) with
  | None => FPanic                                   (* readChunkBoundary: index out of range *)
  | Some c =>
      if dvf_zero_len chunk c then
        (* header[:0], data nil, curChunkNum = chunk, uncompressed[:0]; no read *)
        FOk (mkDvF (mkDvReader (dr_chunks r) chunk [] None) (dr_header r ++ df_spare s) (df_k s)) tt
      else
        let k := df_k s in
        if negb (ok k) then
          FErr (mkDvF r (df_spare s) (S k))          (* numDocs read failed: nothing touched *)
        else
          (* repaired code: di.curChunkNum = math.MaxInt64 *)
          let cur1 := if fixed then maxInt64 else dr_cur r in
          let '(h0, sp) := dvf_resize (dr_header r) (df_spare s) (length (dvc_header c)) in
          match dvf_fill ok (dvc_header c) h0 (S k) with
          | FillPanic => FPanic
          | FillErr h k1 =>
              FErr (mkDvF (mkDvReader (dr_chunks r) cur1 h (dr_data r)) sp k1)
          | FillOk h k1 =>
              if ok k1 then                          (* the read of the chunk data *)
                FOk (mkDvF (mkDvReader (dr_chunks r) chunk h (dvf_data_of c)) sp (S k1)) tt
              else
                FErr (mkDvF (mkDvReader (dr_chunks r) cur1 h (dr_data r)) sp (S k1))
          end
  end.

Definition dvf_load : oracle -> DvF -> N -> fres DvF unit := dvf_load_gen true.
Definition dvf_load_prefix : oracle -> DvF -> N -> fres DvF unit := dvf_load_gen false.

(* visitDocumentFieldTerms for one field:
     if docInChunk != dvr.curChunkNumber() { err := dvr.loadDvChunk(..); if err != nil { return dvs, err } }
     _ = dvr.visitDocValues(localDocNum, visitor)
   [vl] is the model of visitDocValues on the cached chunk. *)
Definition dvf_visit_with (load : DvF -> N -> fres DvF unit)
           (vl : DvReader -> bytes -> N -> result (list (bytes * bytes)))
           (s : DvF) (field : bytes) (docNum : N) : fres DvF (list (bytes * bytes)) :=
  let chunk := docNum / dv_chunk_docs in
  fbind (if chunk =? dr_cur (df_r s) then FOk s tt else load s chunk)
        (fun s1 _ =>
           match vl (df_r s1) field docNum with
           | Ok out => FOk s1 out
           | Err => FOk s1 []        (* the error of visitDocValues is discarded: `_ =` *)
           | _ => FPanic
           end).

Definition dvf_visit (ok : oracle) : DvF -> bytes -> N -> fres DvF (list (bytes * bytes)) :=
  dvf_visit_with (dvf_load ok) dv_visit_loaded.

(* ---- sort.Search as Go executes it ----
   DocValues.dv_locs models sort.Search by "the first entry with DocNum >=
   docNum", which is what binary search returns on an ascending header.  A
   half-overwritten header (pre-fix code) need not be ascending, so the pre-fix
   model searches exactly as sort.Search does:
     i, j := 0, n;  for i < j { h := int(uint(i+j) >> 1); if !f(h) { i = h + 1 } else { j = h } };  return i *)
Fixpoint search_loop (fuel : nat) (f : nat -> bool) (i j : nat) : nat :=
  match fuel with
  | O => i
  | S fu =>
      if Nat.ltb i j then
        let h := Nat.div2 (i + j) in
        if f h then search_loop fu f i h else search_loop fu f (S h) j
      else i
  end.
Definition sort_search (n : nat) (f : nat -> bool) : nat := search_loop (S n) f 0 n.

(* getDocValueLocs + readDocValueBoundary *)
Definition dv_locs_bin (h : list (N * N)) (docNum : N) : option (N * N) :=
  let i := sort_search (length h)
             (fun i => match nthN h i with Some (d, _) => docNum <=? d | None => false end) in
  match nthN h i with
  | Some (d, e) =>
      if d =? docNum then
        Some (match i with
              | O => 0
              | S i' => match nthN h i' with Some (_, e') => e' | None => 0 end
              end, e)
      else None
  | None => None
  end.

(* DocValues.dv_visit_loaded with the search above *)
Definition dv_visit_loaded_bin (r : DvReader) (field : bytes) (docNum : N) : result (list (bytes * bytes)) :=
  match dv_locs_bin (dr_header r) docNum with
  | None => Ok []
  | Some (s, e) =>
      if s =? e then Ok []
      else match dr_data r with
           | None => Panic
           | Some dat =>
               if (s <=? e) && (e <=? lenN dat)
               then Ok (map (fun t => (field, t))
                            (split_terms [] (firstn (N.to_nat (e - s)) (skipn (N.to_nat s) dat))))
               else Panic
           end
  end.

(* the pre-fix reader, searching as Go does *)
Definition dvf_visit_prefix (ok : oracle) : DvF -> bytes -> N -> fres DvF (list (bytes * bytes)) :=
  dvf_visit_with (dvf_load_prefix ok) dv_visit_loaded_bin.
(* the pre-fix reader with the linear-scan model of the search *)
Definition dvf_visit_prefix_lin (ok : oracle) : DvF -> bytes -> N -> fres DvF (list (bytes * bytes)) :=
  dvf_visit_with (dvf_load_prefix ok) dv_visit_loaded.

(* the repaired reader, searching as Go does (Faults_Proofs.dvf_visit_bin_eq:
   equal to dvf_visit on every state the repaired reader can be in) *)
Definition dvf_visit_bin (ok : oracle) : DvF -> bytes -> N -> fres DvF (list (bytes * bytes)) :=
  dvf_visit_with (dvf_load ok) dv_visit_loaded_bin.

(* a sequence of VisitDocumentValues calls on one DocumentValueReader; the
   reader stays in use after an error; a panic ends the run *)
Fixpoint dvf_run_with (visit : DvF -> bytes -> N -> fres DvF (list (bytes * bytes)))
         (s : DvF) (field : bytes) (visits : list N) : list (outcome (list (bytes * bytes))) :=
  match visits with
  | [] => []
  | n :: visits' =>
      match visit s field n with
      | FOk s' out => OOk out :: dvf_run_with visit s' field visits'
      | FErr s' => OErr :: dvf_run_with visit s' field visits'
      | FPanic => [OPanic]
      end
  end.
Definition dvf_run (ok : oracle) := dvf_run_with (dvf_visit ok).
Definition dvf_run_prefix (ok : oracle) := dvf_run_with (dvf_visit_prefix ok).

(* ================================================================== *)
(* (B) the postings iterator                                           *)
(* ================================================================== *)
Record ItF := mkItF { if_it : It; if_k : nat }.
Definition with_it (s : ItF) (i : It) : ItF := mkItF i (if_k s).

(* chunkedIntDecoder.loadChunk: no read for termNotEncoded; an error without a
   read for a chunk that does not exist; otherwise exactly one storage read.
   On any error the decoder is unchanged. *)
Inductive lres : Type := LOk (d : Dec) (k : nat) | LErr (k : nat).

Definition decf_load (ok : oracle) (d : Dec) (chunk : N) (k : nat) : lres :=
  match d_chunks d with
  | None => LOk (mkDec None (d_cur d) []) k
  | Some cks =>
      match nthN cks (N.to_nat chunk) with
      | None => LErr k
      | Some b => if ok k then LOk (mkDec (Some cks) b b) (S k) else LErr (S k)
      end
  end.

(* i.freqNormReader.curChunkBytes = nil   (the memUvarintReader is not touched) *)
Definition dec_forget (d : Dec) : Dec := mkDec (d_chunks d) [] (d_r d).

Definition set_loaded (i : It) (chunk : N) (fr lr : Dec) : It :=
  mkIt (it_norm1 i) (it_doc1 i) (it_all i) (it_actual i) (it_clean i) (it_cs i) chunk
       fr lr (it_fn i) (it_locs i) (it_fields i).

(* PostingsIterator.loadChunk.  [fixed = true] is the repaired code. *)
Definition itf_loadChunk_gen (fixed : bool) (ok : oracle) (s : ItF) (chunk : N) : fres ItF unit :=
  let i := if_it s in
  match (if it_fn i then decf_load ok (it_fr i) chunk (if_k s) else LOk (it_fr i) (if_k s)) with
  | LErr k1 => FErr (mkItF i k1)
  | LOk fr k1 =>
      match (if it_locs i then decf_load ok (it_lr i) chunk k1 else LOk (it_lr i) k1) with
      | LErr k2 =>
          (* the freq/norm reader has already moved to this chunk *)
          FErr (mkItF (set_fr i (if fixed && it_fn i then dec_forget fr else fr)) k2)
      | LOk lr k2 => FOk (mkItF (set_loaded i chunk fr lr) k2) tt     (* i.currChunk = chunk *)
      end
  end.

Definition itf_loadChunk : oracle -> ItF -> N -> fres ItF unit := itf_loadChunk_gen true.
Definition itf_loadChunk_prefix : oracle -> ItF -> N -> fres ItF unit := itf_loadChunk_gen false.

(* the parts of the iterator that touch no storage, named (they are the tails
   of Postings.next_at_or_after and Postings.currChunkNext) *)
Definition it_finish (i1 : It) (n : N) : result (It * option APosting) :=
  if negb (it_fn i1) then Ok (i1, Some (n, (0, (0, []))))
  else if negb (it_norm1 i1 =? 0) then Ok (i1, Some (n, (1, (wrap32 (it_norm1 i1), []))))
  else
    do (fhl, fr1) <- read_uv (it_fr i1);
    do (nb, fr2) <- read_uv fr1;
    let i2 := set_fr i1 fr2 in
    let freq := N.shiftr fhl 1 in
    if it_locs i2 && N.odd fhl then
      do (nlb, lr1) <- read_uv (it_lr i2);
      do (ls, lr2) <- read_locs (N.to_nat freq) (it_fields i2) lr1 (dec_len lr1) nlb;
      Ok (set_lr i2 lr2, Some (n, (freq, (wrap32 nb, ls))))
    else Ok (i2, Some (n, (freq, (wrap32 nb, [])))).

Definition it_ccn_tail (i1 : It) : result It :=
  do (fhl, fr1) <- read_uv (it_fr i1);
  do fr2 <- skip_uv fr1;
  let i2 := set_fr i1 fr2 in
  if it_locs i2 && N.odd fhl then
    do (nb, lr1) <- read_uv (it_lr i2);
    Ok (set_lr i2 (dec_skip_bytes lr1 nb))
  else Ok i2.

(* a step without storage access.  A decoding error (malformed varint, cannot
   happen on an encoded list) is reported with the state before the step. *)
Definition lift_it {A} (s : ItF) (r : result (It * A)) : fres ItF A :=
  match r with
  | Ok (i, v) => FOk (with_it s i) v
  | Err => FErr s
  | _ => FPanic
  end.
Definition lift_it0 (s : ItF) (r : result It) : fres ItF unit :=
  match r with
  | Ok i => FOk (with_it s i) tt
  | Err => FErr s
  | _ => FPanic
  end.

Definition itf_load_if (fixed : bool) (ok : oracle) (cond : bool) (s : ItF) (c : N) : fres ItF unit :=
  if cond then itf_loadChunk_gen fixed ok s c else FOk s tt.

(* currChunkNext *)
Definition itf_ccn (fixed : bool) (ok : oracle) (s : ItF) (nChunk : N) : fres ItF unit :=
  fbind (itf_load_if fixed ok (need_load (if_it s) nChunk) s nChunk)
        (fun s1 _ => lift_it0 s1 (it_ccn_tail (if_it s1))).

Fixpoint itf_repeat_ccn (fixed : bool) (ok : oracle) (k : nat) (s : ItF) (nChunk : N) : fres ItF unit :=
  match k with
  | O => FOk s tt
  | S k' => fbind (itf_ccn fixed ok s nChunk) (fun s' _ => itf_repeat_ccn fixed ok k' s' nChunk)
  end.

(* the lock-step loop of the exclusion path.  As in Postings.sync_all the
   cursors are written back by the caller, so after an error INSIDE this loop
   the state carries the cursors from before the call (Go has advanced them):
   the theorems about error states are stated for the clean path, where the
   error state is exact. *)
Fixpoint itf_sync_all (fixed : bool) (ok : oracle) (s : ItF) (n nChunk reach : N) (all : list N)
  : fres ItF (list N) :=
  match all with
  | [] => FPanic
  | a :: all' =>
      if a =? n then FOk s all'
      else
        fbind (if it_fn (if_it s) && (reach <=? a) then itf_ccn fixed ok s nChunk else FOk s tt)
              (fun s' _ => itf_sync_all fixed ok s' n nChunk reach all')
  end.

(* nextDocNumAtOrAfter / nextDocNumAtOrAfterClean: Postings.next_docnum with
   every loadChunk replaced by the load under faults.  In the clean path the
   cursor has been advanced before the first load, and stays advanced when the
   load fails. *)
Definition itf_next_docnum (fixed : bool) (ok : oracle) (s : ItF) (atOrAfter : N) : fres ItF (option N) :=
  let i := if_it s in
  if negb (it_norm1 i =? 0) then
    if it_doc1 i =? docNum1HitFinished then FOk s None
    else if it_doc1 i <? atOrAfter then FOk (with_it s (set_doc1 i docNum1HitFinished)) None
    else FOk (with_it s (set_doc1 i docNum1HitFinished)) (Some (it_doc1 i))
  else
    match it_actual i with
    | [] => FOk s None
    | n0 :: rest0 =>
        if it_cs i =? 0 then FPanic
        else if it_clean i then
          if negb (it_fn i) then
            match drop_lt (wrap32 atOrAfter) (it_actual i) with
            | [] => FOk (with_it s (set_cursors i [] [])) None
            | n :: rest => FOk (with_it s (set_cursors i rest rest)) (Some n)
            end
          else
            let '(n, nChunk, same, rest) :=
              clean_scan (it_cs i) atOrAfter n0 (n0 / it_cs i) O rest0 in
            let s1 := with_it s (set_cursors i rest rest) in
            if n <? atOrAfter then FOk s1 None
            else
              fbind (itf_repeat_ccn fixed ok same s1 nChunk) (fun s2 _ =>
              fbind (itf_load_if fixed ok (need_load (if_it s2) nChunk) s2 nChunk) (fun s3 _ =>
              FOk s3 (Some n)))
        else
          match drop_lt (wrap32 atOrAfter) (it_actual i) with
          | [] => FOk (with_it s (set_cursors i (it_all i) [])) None
          | n :: rest =>
              let nChunk := n / it_cs i in
              let reach := wrap32 (nChunk * it_cs i) in
              fbind (itf_sync_all fixed ok s n nChunk reach (it_all i)) (fun s1 all' =>
              let s2 := with_it s1 (set_cursors (if_it s1) all' rest) in
              fbind (itf_load_if fixed ok (it_fn (if_it s2) && need_load (if_it s2) nChunk) s2 nChunk)
                    (fun s3 _ => FOk s3 (Some n)))
          end
    end.

(* nextAtOrAfter *)
Definition itf_naa (fixed : bool) (ok : oracle) (s : ItF) (atOrAfter : N) : fres ItF (option APosting) :=
  fbind (itf_next_docnum fixed ok s atOrAfter) (fun s1 o =>
    match o with
    | None => FOk s1 None
    | Some n => lift_it s1 (it_finish (if_it s1) n)
    end).

Definition itf_step (fixed : bool) (ok : oracle) (s : ItF) (op : iter_op) : fres ItF (option APosting) :=
  match op with
  | INext => itf_naa fixed ok s 0
  | IAdvance d => itf_naa fixed ok s d
  end.

(* Next() on the repaired and on the pre-fix iterator *)
Definition itf_next (ok : oracle) (s : ItF) : fres ItF (option APosting) := itf_naa true ok s 0.
Definition itf_next_prefix (ok : oracle) (s : ItF) : fres ItF (option APosting) := itf_naa false ok s 0.

(* a sequence of calls on one iterator; the iterator stays in use after an
   error; a panic ends the run *)
Fixpoint itf_run_gen (fixed : bool) (ok : oracle) (s : ItF) (ops : list iter_op)
  : list (outcome (option APosting)) :=
  match ops with
  | [] => []
  | op :: ops' =>
      match itf_step fixed ok s op with
      | FOk s' o => OOk o :: itf_run_gen fixed ok s' ops'
      | FErr s' => OErr :: itf_run_gen fixed ok s' ops'
      | FPanic => [OPanic]
      end
  end.
Definition itf_run := itf_run_gen true.
Definition itf_run_prefix := itf_run_gen false.

(* ------------------------------------------------------------------ *)
(* examples                                                             *)
(* ------------------------------------------------------------------ *)
Definition fx_field : bytes := [102].
(* documents 0..2 in chunk 0, 1024..1026 in chunk 1, term strings of different lengths *)
Definition fx_entries : list (N * bytes) :=
  [ (0, dv_bytes [[97]]); (1, dv_bytes [[98; 98]]); (2, dv_bytes [[99; 99; 99]]);
    (1024, dv_bytes [[120; 120; 120; 120]]); (1025, dv_bytes [[116]]); (1026, dv_bytes [[117; 117]]) ].
Definition fx_chunks : list DvChunk := dv_chunks 2 fx_entries.

(* no fault: the three answers *)
Example fx_dv_no_fault :
  dvf_run no_faults (dvf_open fx_chunks 0) fx_field [1024; 0; 1025]
  = [OOk [(fx_field, [120; 120; 120; 120])]; OOk [(fx_field, [97])]; OOk [(fx_field, [116])]].
Proof. vm_compute. reflexivity. Qed.

(* the load of chunk 1 takes reads 0..7; the load of chunk 0 fails at its 4th
   read (read 11): error, then the repaired reader reloads (and fails again
   under fails_from; succeeds under a transient failure) *)
Example fx_dv_fixed_fails_from :
  dvf_run (fails_from 11) (dvf_open fx_chunks 0) fx_field [1024; 0; 1025; 1]
  = [OOk [(fx_field, [120; 120; 120; 120])]; OErr; OErr; OErr].
Proof. vm_compute. reflexivity. Qed.
Example fx_dv_fixed_transient :
  dvf_run (fails_only_at 11) (dvf_open fx_chunks 0) fx_field [1024; 0; 1025; 1]
  = [OOk [(fx_field, [120; 120; 120; 120])]; OErr; OOk [(fx_field, [116])]; OOk [(fx_field, [98; 98])]].
Proof. vm_compute. reflexivity. Qed.

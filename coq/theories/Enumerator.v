(* Enumerator.v - executable model of /repo/enumerator.go (the k-way merge of the
   per-segment vellum iterators that drives persistMergedRestField in merge.go).

   The model follows the Go code statement by statement.  Every definition names
   the Go function it mirrors.

   ---- what a vellum iterator looks like from enumerator.go ---------------------
   merge.go:setupActiveForField creates every iterator with
   dict.fst.Iterator(nil, nil), i.e. a FRESH FSTIterator (vellum newIterator),
   positioned on the first key.  The enumerator only ever calls Current() and
   Next() on it, and calls Next() only on iterators that are positioned on a real
   key.  Its observable state is therefore the list of remaining (key, value)
   pairs (strictly ascending keys), head = current position.

   Go separates a nil slice from an empty non-nil slice in exactly one place of
   enumerator.go, the test `key == nil && m.currVs[i] == 0`; everywhere else
   (len(key) == 0, bytes.Compare, and bytes.Equal / append in merge.go) nil and
   empty behave alike.  A Go []byte is modelled as [gokey = option bytes]:
   None = nil, Some b = non-nil slice with content b.

   What vellum v1.0.7 FSTIterator.Current() really returns (fst_iterator.go, and
   confirmed by running it):
     * positioned on a non-empty key k with value v : (k, v), k non-nil;
     * a fresh iterator positioned on the EMPTY key "" (a real term) with value v:
       (nil, v) - Current returns i.keysStack, and on a fresh iterator
       keysStack = (nil)[:0] = nil.  So the empty term arrives as key == nil and
       is told apart from "no key" only by v <> 0;
     * exhausted (Next returned ErrIteratorDone): next() has popped the stacks
       back to the root state.  If the root is not final, Current() = (nil, 0).
       If the root IS final - i.e. the FST contains the empty key, with output v0 -
       Current() returns ("", v0) AGAIN (keysStack truncated to length 0; non-nil
       unless "" is the only key, both have len 0).  This is the reason for
       updateMatches(skipEmptyKey = true) in enumerator.Next.
   [vit_root] is that final output of the root state: Some v0 iff the iterator's
   FST contains "" (with value v0).

   FST values are never 0 for a real term: new.go:848 and merge.go:500 insert a
   term only `if postingsOffset > 0`; a value is either a file offset > 0 or a
   1-hit encoding with the top bit set.  The theorems carry this as a hypothesis
   (only needed for the empty key); [Enumerator_Proofs.empty_key_zero_value_refuted]
   shows what enumerator.go does without it. *)
From Ice Require Export Base.

(* ---- Go byte slices with nil ---- *)
Definition gokey := option bytes.
(* the content, as seen by bytes.Compare / bytes.Equal / append(.., key...) *)
Definition key_bytes (k : gokey) : bytes := match k with Some b => b | None => [] end.
(* key == nil *)
Definition key_is_nil (k : gokey) : bool := match k with None => true | Some _ => false end.
(* len(key) == 0 *)
Definition key_len0 (k : gokey) : bool := match key_bytes k with [] => true | _ :: _ => false end.

(* ---- vellum.Iterator ---- *)
Definition vitr := list (bytes * N).      (* remaining pairs, head = current *)

(* final output of the FST's root state: Some v iff the FST maps "" to v.
   Computed on the fresh iterator (keys ascending, so "" can only be first). *)
Definition vit_root (it : vitr) : option N :=
  match it with
  | ([], v) :: _ => Some v
  | _ => None
  end.

(* FSTIterator.Current() *)
Definition vit_current (root : option N) (it : vitr) : gokey * N :=
  match it with
  | ([], v) :: _ => (None, v)             (* fresh iterator on "": keysStack is nil *)
  | (k, v) :: _ => (Some k, v)
  | [] => match root with
          | Some v0 => (Some [], v0)      (* back on the final root state *)
          | None => (None, 0)
          end
  end.

(* FSTIterator.Next() on an iterator positioned on a key; ErrIteratorDone is
   "the result is []".  Errors other than ErrIteratorDone come from decoding the
   FST bytes and are not modelled (Next's early `return err`). *)
Definition vit_next (it : vitr) : vitr := tl it.

(* ---- type enumerator struct ---- *)
Record enumerator := mkEnum {
  e_itrs : list vitr;              (* itrs   []vellum.Iterator *)
  e_roots : list (option N);       (* immutable part of itrs[i]: see vit_root *)
  e_currKs : list gokey;           (* currKs [][]byte *)
  e_currVs : list N;               (* currVs []uint64 *)
  e_lowK : gokey;                  (* lowK    []byte *)
  e_lowIdxs : list nat;            (* lowIdxs []int *)
  e_lowCurr : nat }.               (* lowCurr int *)

(* l[i] = x *)
Fixpoint set_nth {A} (l : list A) (i : nat) (x : A) : list A :=
  match l, i with
  | [], _ => []
  | _ :: l', O => x :: l'
  | y :: l', S i' => y :: set_nth l' i' x
  end.

(* one iteration of the loop `for i, key := range m.currKs` of updateMatches,
   on the loop state (m.lowK, m.lowIdxs) *)
Definition um_step (skipEmptyKey : bool) (currKs : list gokey) (currVs : list N)
           (st : gokey * list nat) (i : nat) : gokey * list nat :=
  let '(lowK, lowIdxs) := st in
  let key := nth i currKs None in
  if (key_is_nil key && (nth i currVs 0 =? 0))      (* in case of empty iterator *)
     || (key_len0 key && skipEmptyKey)              (* skip empty keys *)
  then st                                           (* continue *)
  else
    let cmp := bcmp (key_bytes key) (key_bytes lowK) in
    if (match cmp with Lt => true | _ => false end) || Nat.eqb (length lowIdxs) 0
    then (key, [i])                                 (* reached a new low *)
    else match cmp with
         | Eq => (lowK, lowIdxs ++ [i])
         | _ => st
         end.

(* func (m *enumerator) updateMatches(skipEmptyKey bool) *)
Definition update_matches (skipEmptyKey : bool) (e : enumerator) : enumerator :=
  let '(lowK, lowIdxs) :=
    fold_left (um_step skipEmptyKey (e_currKs e) (e_currVs e))
              (seq 0 (length (e_currKs e)))
              (None, [])                            (* lowK = nil; lowIdxs = lowIdxs[:0] *)
  in mkEnum (e_itrs e) (e_roots e) (e_currKs e) (e_currVs e) lowK lowIdxs 0.

(* the test `m.lowK == nil && len(m.lowIdxs) == 0` of newEnumerator and Next *)
Definition enum_done (e : enumerator) : bool :=
  key_is_nil (e_lowK e) && Nat.eqb (length (e_lowIdxs e)) 0.

(* func newEnumerator(itrs) returning ( *enumerator, error ); the boolean is
   err == vellum.ErrIteratorDone.  [roots] describes the iterators' FSTs. *)
Definition enum_new_with (roots : list (option N)) (itrs : list vitr) : enumerator * bool :=
  let cur := map (fun p => vit_current (fst p) (snd p)) (combine roots itrs) in
  let rv := mkEnum itrs roots (map fst cur) (map snd cur) None [] 0 in
  let rv := update_matches false rv in
  (rv, enum_done rv).

(* newEnumerator over fresh vellum iterators (what merge.go passes) *)
Definition enum_new (itrs : list vitr) : enumerator * bool :=
  enum_new_with (map vit_root itrs) itrs.

(* newEnumerator over idealised iterators whose Current() is (nil, 0) once
   exhausted, whatever the FST contains (e.g. enumerator_test.go's testIterator) *)
Definition enum_new_ideal (itrs : list vitr) : enumerator * bool :=
  enum_new_with (repeat None (length itrs)) itrs.

(* func (m *enumerator) Current() (key []byte, index int, val uint64) *)
Definition enum_current (e : enumerator) : gokey * nat * N :=
  if Nat.ltb (e_lowCurr e) (length (e_lowIdxs e)) then
    let index := nth (e_lowCurr e) (e_lowIdxs e) O in
    (e_lowK e, index, nth index (e_currVs e) 0)
  else (e_lowK e, O, 0).

(* func (m *enumerator) GetLowIdxsAndValues() (lowIdxs []int, values []uint64) *)
Definition enum_low_idxs_and_values (e : enumerator) : list nat * list N :=
  (e_lowIdxs e, map (fun idx => nth idx (e_currVs e) 0) (e_lowIdxs e)).

(* body of `for _, vi := range m.lowIdxs` in Next:
   m.itrs[vi].Next(); m.currKs[vi], m.currVs[vi] = m.itrs[vi].Current() *)
Definition advance_one (e : enumerator) (vi : nat) : enumerator :=
  let it' := vit_next (nth vi (e_itrs e) []) in
  let kv := vit_current (nth vi (e_roots e) None) it' in
  mkEnum (set_nth (e_itrs e) vi it') (e_roots e)
         (set_nth (e_currKs e) vi (fst kv)) (set_nth (e_currVs e) vi (snd kv))
         (e_lowK e) (e_lowIdxs e) (e_lowCurr e).

(* func (m *enumerator) Next() error; the boolean is err == ErrIteratorDone *)
Definition enum_next (e : enumerator) : enumerator * bool :=
  let e1 := mkEnum (e_itrs e) (e_roots e) (e_currKs e) (e_currVs e)
                   (e_lowK e) (e_lowIdxs e) (S (e_lowCurr e)) in      (* m.lowCurr++ *)
  let e2 :=
    if Nat.leb (length (e_lowIdxs e1)) (e_lowCurr e1) then
      (* move all the current low iterators forwards, then
         "can skip any empty keys encountered at this point" *)
      update_matches true (fold_left advance_one (e_lowIdxs e1) e1)
    else e1 in
  (e2, enum_done e2).

(* func (m *enumerator) Close(): closes every iterator, no effect on the result *)
Definition enum_close (e : enumerator) : unit := tt.

(* The loop of merge.go:persistMergedRestField,
     enumerator, err := newEnumerator(itrs)
     for err == nil { term, itrI, postingsOffset := enumerator.Current(); ...;
                      err = enumerator.Next() }
   collecting what the loop body sees.  The term is recorded by content
   (merge.go uses it only through bytes.Equal, append and vellum Insert).
   [enum_run_low] also records GetLowIdxsAndValues() at every step
   (prepareNewTerm calls it whenever the term changes). *)
Fixpoint enum_run_low (fuel : nat) (e : enumerator)
  : list ((bytes * nat * N) * (list nat * list N)) :=
  match fuel with
  | O => []
  | S f =>
      let '(k, i, v) := enum_current e in
      let low := enum_low_idxs_and_values e in
      let '(e', done) := enum_next e in
      ((key_bytes k, i, v), low) :: (if done then [] else enum_run_low f e')
  end.

Fixpoint enum_run (fuel : nat) (e : enumerator) : list (bytes * nat * N) :=
  match fuel with
  | O => []
  | S f =>
      let '(k, i, v) := enum_current e in
      let '(e', done) := enum_next e in
      (key_bytes k, i, v) :: (if done then [] else enum_run f e')
  end.

(* the whole loop, starting from newEnumerator *)
Definition enum_start_run (start : enumerator * bool) (fuel : nat) : list (bytes * nat * N) :=
  let '(e, done) := start in if done then [] else enum_run fuel e.
Definition enum_start_run_low (start : enumerator * bool) (fuel : nat) :=
  let '(e, done) := start in if done then [] else enum_run_low fuel e.

Definition enum_run_new (fuel : nat) (itrs : list vitr) : list (bytes * nat * N) :=
  enum_start_run (enum_new itrs) fuel.
Definition enum_run_low_new (fuel : nat) (itrs : list vitr) :=
  enum_start_run_low (enum_new itrs) fuel.

(* total number of pairs: [enum_run_new (total_pairs its) its] never runs out of fuel *)
Fixpoint total_pairs (its : list vitr) : nat :=
  match its with [] => O | l :: r => (length l + total_pairs r)%nat end.

(* ---- specification: all (key, iterator index, value), by key then index ---- *)
Fixpoint triples_from (i : nat) (its : list vitr) : list (bytes * nat * N) :=
  match its with
  | [] => []
  | l :: r => map (fun p => (fst p, i, snd p)) l ++ triples_from (S i) r
  end.
Definition all_triples (its : list vitr) := triples_from O its.

Definition triple_le (a b : bytes * nat * N) : bool :=
  match bcmp (fst (fst a)) (fst (fst b)) with
  | Lt => true
  | Eq => Nat.leb (snd (fst a)) (snd (fst b))
  | Gt => false
  end.
Definition spec_triples (its : list vitr) : list (bytes * nat * N) :=
  isort triple_le (all_triples its).

(* the iterators that contain key k (ascending), and their values for k *)
Definition has_key (k : bytes) (l : vitr) : bool := existsb (fun p => beq (fst p) k) l.
Definition lookup_key (k : bytes) (l : vitr) : N :=
  match find (fun p => beq (fst p) k) l with Some p => snd p | None => 0 end.
Definition idxs_with (k : bytes) (its : list vitr) : list nat :=
  filter (fun j => has_key k (nth j its [])) (seq 0 (length its)).
Definition vals_with (k : bytes) (its : list vitr) : list N :=
  map (fun j => lookup_key k (nth j its [])) (idxs_with k its).

(* Crc32.v - hash/crc32 with the IEEE polynomial, table driven, as Go computes it:
   crc32.Update(crc, IEEETable, p) = ^simpleUpdate(^crc, tab, p). *)
From Ice Require Export Base.

Definition crc_poly : N := 3988292384.        (* 0xEDB88320 *)
Definition mask32 : N := 4294967295.

Fixpoint crc_bits (n : nat) (c : N) : N :=
  match n with
  | O => c
  | S n' => crc_bits n' (if N.odd c then N.lxor (N.shiftr c 1) crc_poly else N.shiftr c 1)
  end.

Definition crc_table : list N :=
  Eval vm_compute in map (fun i => crc_bits 8 (N.of_nat i)) (seq 0 256).

Definition crc_step (c : N) (b : N) : N :=
  N.lxor (nth (N.to_nat (N.land (N.lxor c b) 255)) crc_table 0) (N.shiftr c 8).

(* simpleUpdate *)
Definition crc_raw (c : N) (p : bytes) : N := fold_left crc_step p c.

(* crc32.Update *)
Definition crc_update (c : N) (p : bytes) : N :=
  N.lxor (crc_raw (N.lxor c mask32) p) mask32.

Definition crc32 (p : bytes) : N := crc_update 0 p.

(* Spec.v - the readable specification of ice.
   Input documents, the abstract segment (what the API can observe), what a
   batch implies, what a merge must produce, and every observation as a total
   function of an abstract segment.  No cursor machines, no encodings. *)
From Ice Require Export Base.

(* ------------------------------------------------------------------ *)
(* Input: analysed documents                                           *)
(* ------------------------------------------------------------------ *)
Record Loc := mkLoc { l_field : bytes; l_pos : N; l_start : N; l_end : N }.
Record Term := mkTerm { t_bytes : bytes; t_freq : N; t_locs : list Loc }.
Record Field := mkField {
  f_name : bytes; f_len : N; f_store : bool; f_dv : bool;
  f_value : bytes; f_terms : list Term }.
Definition Doc := list Field.
Definition Batch := list Doc.

Definition id_name : bytes := [95; 105; 100].   (* "_id" *)
Definition docDropped : N := 9223372036854775807. (* math.MaxInt64 *)

(* ------------------------------------------------------------------ *)
(* The abstract segment                                                *)
(* ------------------------------------------------------------------ *)
Definition ALoc := (bytes * (N * (N * N)))%type.    (* field name, pos, start, end *)
Definition ATerm := (bytes * (N * list ALoc))%type. (* term, frequency, locations *)

Record ADocField := mkADF {
  adf_name : bytes;
  adf_norm : N;                 (* float32 bit pattern *)
  adf_terms : list ATerm;       (* sorted by term, no duplicates *)
  adf_dv : bool }.              (* this document has a doc-value entry for the field *)

Record ADoc := mkADoc {
  ad_fields : list ADocField;           (* the fields the document carries, in field-list order *)
  ad_stored : list (bytes * bytes) }.   (* (field name, value), field-list order then input order *)

Record ASeg := mkASeg {
  as_fields : list bytes;
  as_docs : list ADoc;
  as_stats : list (bytes * (N * N)) }.  (* per field: (documents, total term frequency) *)

(* ------------------------------------------------------------------ *)
(* What a batch implies                                                *)
(* ------------------------------------------------------------------ *)
Section Build.
  Variable norm : bytes -> N -> N.

  Definition batch_field_names (b : Batch) : list bytes :=
    flat_map' (fun d => map f_name d) b.

  Definition field_list (names : list bytes) : list bytes :=
    id_name :: sort_dedup_bytes (filter (fun n => negb (beq n id_name)) names).

  Definition resolve_loc (fname : bytes) (l : Loc) : ALoc :=
    ((match l_field l with [] => fname | n => n end), (l_pos l, (l_start l, l_end l))).

  (* add one input term to the rolled-up terms of a (document, field) *)
  Fixpoint add_term (fname : bytes) (t : Term) (acc : list ATerm) : list ATerm :=
    match acc with
    | [] => [(t_bytes t, (t_freq t, map (resolve_loc fname) (t_locs t)))]
    | (k, (fr, ls)) :: acc' =>
        if beq k (t_bytes t)
        then (k, (fr + t_freq t, ls ++ map (resolve_loc fname) (t_locs t))) :: acc'
        else (k, (fr, ls)) :: add_term fname t acc'
    end.

  Definition roll_up (fname : bytes) (insts : list Field) : list ATerm :=
    isort (fun a b => ble (fst a) (fst b))
      (fold_left (fun acc t => add_term fname t acc)
                 (flat_map' f_terms insts) []).

  Definition instances (fname : bytes) (d : Doc) : list Field :=
    filter (fun f => beq (f_name f) fname) d.

  Definition dv_flag (b : Batch) (fname : bytes) : bool :=
    existsb (fun d => existsb (fun f => beq (f_name f) fname && f_dv f) d) b.

  Definition abs_doc_field (b : Batch) (d : Doc) (fname : bytes) : list ADocField :=
    match instances fname d with
    | [] => []
    | insts =>
        let ts := roll_up fname insts in
        [ mkADF fname (norm fname (sumN (map f_len insts))) ts
                (dv_flag b fname && negb (match ts with [] => true | _ => false end)) ]
    end.

  Definition abs_stored (fields : list bytes) (d : Doc) : list (bytes * bytes) :=
    flat_map' (fun fname =>
                 map (fun f => (fname, f_value f))
                     (filter f_store (instances fname d))) fields.

  Definition abs_doc (b : Batch) (fields : list bytes) (d : Doc) : ADoc :=
    mkADoc (flat_map' (abs_doc_field b d) fields) (abs_stored fields d).

  Definition built_stats (b : Batch) (fname : bytes) : N * N :=
    (lenN (filter (fun d => negb (match instances fname d with [] => true | _ => false end)) b),
     sumN (map (fun d => sumN (map f_len (instances fname d))) b)).

  Definition abs_of_batch (b : Batch) : ASeg :=
    let fields := field_list (batch_field_names b) in
    mkASeg fields (map (abs_doc b fields) b)
           (map (fun f => (f, built_stats b f)) fields).
End Build.

(* ------------------------------------------------------------------ *)
(* What a merge must produce                                           *)
(* ------------------------------------------------------------------ *)
Definition survivors (A : ASeg) (drops : list N) : list ADoc :=
  map snd (filter (fun p => negb (memN (fst p) drops)) (number_from 0 (as_docs A))).

(* old -> new table of one input whose first survivor gets number [base] *)
Fixpoint renumber (n : nat) (i : N) (drops : list N) (next : N) : list N :=
  match n with
  | O => []
  | S n' =>
      if memN i drops then docDropped :: renumber n' (i + 1) drops next
      else next :: renumber n' (i + 1) drops (next + 1)
  end.

Definition count_live (A : ASeg) (drops : list N) : N :=
  lenN (survivors A drops).

Fixpoint merge_docnums (ins : list (ASeg * list N)) (base : N) : list (list N) :=
  match ins with
  | [] => []
  | (A, dr) :: ins' =>
      renumber (length (as_docs A)) 0 dr base
        :: merge_docnums ins' (base + count_live A dr)
  end.

Definition doc_field (d : ADoc) (fname : bytes) : option ADocField :=
  find (fun df => beq (adf_name df) fname) (ad_fields d).

Definition doc_terms (d : ADoc) (fname : bytes) : list ATerm :=
  match doc_field d fname with Some df => adf_terms df | None => [] end.

Definition merged_stats (docs : list ADoc) (fname : bytes) : N * N :=
  (lenN (filter (fun d => negb (match doc_terms d fname with [] => true | _ => false end)) docs),
   sumN (map (fun d => sumN (map (fun t => fst (snd t)) (doc_terms d fname))) docs)).

Definition merge_spec (ins : list (ASeg * list N)) : ASeg * list (list N) :=
  let fields := field_list (flat_map' (fun p => as_fields (fst p)) ins) in
  let docs := flat_map' (fun p => survivors (fst p) (snd p)) ins in
  (mkASeg fields docs (map (fun f => (f, merged_stats docs f)) fields),
   merge_docnums ins 0).

(* ------------------------------------------------------------------ *)
(* Observations                                                        *)
(* ------------------------------------------------------------------ *)
Definition o_fields (A : ASeg) : list bytes := as_fields A.
Definition o_count (A : ASeg) : N := lenN (as_docs A).
Definition known_field (A : ASeg) (f : bytes) : bool := mem beq f (as_fields A).

(* one posting: document, frequency, norm bits, locations *)
Definition APosting := (N * (N * (N * list ALoc)))%type.

Definition doc_posting (f t : bytes) (nd : N * ADoc) : list APosting :=
  match doc_field (snd nd) f with
  | None => []
  | Some df =>
      match find (fun at_ => beq (fst at_) t) (adf_terms df) with
      | None => []
      | Some (_, (fr, ls)) => [(fst nd, (fr, (adf_norm df, ls)))]
      end
  end.

Definition o_postings (A : ASeg) (f t : bytes) : list APosting :=
  if known_field A f then flat_map' (doc_posting f t) (number_from 0 (as_docs A)) else [].

Definition live (except : list N) (p : APosting) : bool := negb (memN (fst p) except).

Definition o_postings_except (A : ASeg) (f t : bytes) (except : list N) : list APosting :=
  filter (live except) (o_postings A f t).

(* what an iterator delivers for one posting under the flags *)
Definition deliver (inclFN inclLocs : bool) (p : APosting) : APosting :=
  let '(d, (fr, (nm, ls))) := p in
  (d, (if inclFN then fr else 0, (if inclFN then nm else 0, if inclLocs then ls else []))).

(* terms of a field, ascending, each once *)
Definition o_terms (A : ASeg) (f : bytes) : list bytes :=
  if known_field A f
  then sort_dedup_bytes (flat_map' (fun d => map fst (doc_terms d f)) (as_docs A))
  else [].

(* key range [lo, hi) with optional bounds and an optional prefix automaton *)
Definition in_range (lo hi pre : option bytes) (k : bytes) : bool :=
  (match lo with None => true | Some l => ble l k end) &&
  (match hi with None => true | Some h => blt k h end) &&
  (match pre with None => true | Some p => is_prefix p k end).

Definition o_dict (A : ASeg) (f : bytes) (lo hi pre : option bytes) : list (bytes * N) :=
  map (fun t => (t, lenN (o_postings A f t)))
      (filter (in_range lo hi pre) (o_terms A f)).

Definition o_contains (A : ASeg) (f t : bytes) : bool := mem beq t (o_terms A f).

Definition o_stored (A : ASeg) (n : N) : list (bytes * bytes) :=
  match nthN (as_docs A) (N.to_nat n) with
  | Some d => ad_stored d
  | None => []
  end.

(* the visitor is called until it returns false: the first [stop] values are
   seen when the visitor answers false on its [stop]-th call *)
Definition o_stored_stop (A : ASeg) (n : N) (stop : option N) : list (bytes * bytes) :=
  match stop with
  | None => o_stored A n
  | Some k => firstn (N.to_nat k) (o_stored A n)
  end.

Definition o_dv_field (d : ADoc) (f : bytes) : list (bytes * bytes) :=
  match doc_field d f with
  | Some df => if adf_dv df then map (fun t => (f, fst t)) (adf_terms df) else []
  | None => []
  end.

Definition o_dv (A : ASeg) (fields : list bytes) (n : N) : list (bytes * bytes) :=
  match nthN (as_docs A) (N.to_nat n) with
  | Some d => flat_map' (fun f => if known_field A f then o_dv_field d f else []) fields
  | None => []
  end.

Definition o_stats (A : ASeg) (f : bytes) : N * (N * N) :=
  match find (fun p => beq (fst p) f) (as_stats A) with
  | Some (_, (dc, fq)) => (o_count A, (dc, fq))
  | None => (0, (0, 0))
  end.

Definition o_docsmatching (A : ASeg) (terms : list (bytes * bytes)) : list N :=
  sort_dedup_N (flat_map' (fun ft => map fst (o_postings A (fst ft) (snd ft))) terms).

(* Iterator specification: a cursor over the live postings *)
Fixpoint drop_below (d : N) (l : list APosting) : list APosting :=
  match l with
  | [] => []
  | p :: l' => if fst p <? d then drop_below d l' else l
  end.

Inductive iter_op := INext | IAdvance (d : N).

Definition spec_step (st : list APosting) (op : iter_op) : list APosting * option APosting :=
  let st' := match op with INext => st | IAdvance d => drop_below d st end in
  match st' with
  | [] => ([], None)
  | p :: rest => (rest, Some p)
  end.

Fixpoint spec_run (st : list APosting) (ops : list iter_op) : list (option APosting) :=
  match ops with
  | [] => []
  | op :: ops' => let '(st', o) := spec_step st op in o :: spec_run st' ops'
  end.

(* ------------------------------------------------------------------ *)
(* Input contract                                                       *)
(* ------------------------------------------------------------------ *)
Definition max62 : N := 4611686018427387904.
Definition valid_loc (names : list bytes) (l : Loc) : bool :=
  (match l_field l with [] => true | n => mem beq n names end) &&
  (l_pos l <? max62) && (l_start l <? max62) && (l_end l <? max62).
Definition valid_term (names : list bytes) (dv : bool) (t : Term) : bool :=
  (lenN (t_locs t) <=? t_freq t) && (t_freq t <? max62) &&
  forallb (valid_loc names) (t_locs t) &&
  (negb dv || negb (memN 255 (t_bytes t))).
Definition valid_batch (b : Batch) : bool :=
  let names := batch_field_names b in
  (lenN (field_list names) <? 65535) &&
  forallb (fun d => forallb (fun f =>
     (f_len f <? max62) &&
     forallb (valid_term names (dv_flag b (f_name f))) (f_terms f)) d) b.
Definition valid_drops (A : ASeg) (drops : list N) : bool :=
  forallb (fun d => d <? o_count A) drops.

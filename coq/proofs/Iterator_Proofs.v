(* Iterator_Proofs.v - the postings iterator of Postings.v refines the
   cursor specification of Spec.v (spec_step / spec_run). *)
From Coq Require Import List NArith Bool Lia Sorting.Sorted.
From Ice Require Import Base Varint Chunk Spec Postings.
From IceProofs Require Import Sort_Proofs Varint_Proofs.
Import ListNotations.
Open Scope N_scope.
Require Import ZifyBool ZifyN ZifyNat.

Definition resolve_name (fields : list bytes) (l : ELoc) : ALoc := (nth (N.to_nat (fst l)) fields [], snd l).
Definition resolve_posting (fields : list bytes) (p : EPosting) : APosting :=
  (ep_doc p, (ep_freq p, (ep_norm p, map (resolve_name fields) (ep_locs p)))).
Definition wf_loc (nfields : nat) (l : ELoc) : Prop :=
  let '(f, (p, (s, e))) := l in (N.to_nat f < nfields)%nat /\ f < two64 /\ p < two64 /\ s < two64 /\ e < two64.
Definition wf_posting (nfields : nat) (p : EPosting) : Prop :=
  ep_doc p < two32 /\ ep_freq p < 9223372036854775808 (* 2^63 *) /\ ep_norm p < two32 /\
  (length (ep_locs p) <= N.to_nat (ep_freq p))%nat /\ Forall (wf_loc nfields) (ep_locs p) /\
  sumN (map loc_size (ep_locs p)) < two64.
Definition wf_postings (nfields : nat) (ps : list EPosting) : Prop :=
  StronglySorted (fun p q => ep_doc p < ep_doc q) ps /\ Forall (wf_posting nfields) ps.
Definition live_opt (except : option (list N)) (d : N) : bool :=
  match except with None => true | Some ex => negb (memN d ex) end.
Definition wf_ops (ops : list iter_op) : Prop :=
  Forall (fun op => match op with IAdvance d => d < two32 | INext => True end) ops.
Definition spec_out (inclFN inclLocs : bool) (st : list APosting) (ops : list iter_op) : list (option APosting) :=
  map (option_map (deliver inclFN inclLocs)) (spec_run st ops).

(* ================================================================== *)
(* (A) byte level                                                      *)
(* ================================================================== *)

Lemma rbind_ok {A B} (v : A) (f : A -> result B) : rbind (Ok v) f = f v.
Proof. reflexivity. Qed.

Lemma lenN_app {A} (a b : list A) : lenN (a ++ b) = lenN a + lenN b.
Proof. unfold lenN. rewrite app_length. lia. Qed.

Lemma lenN_nil {A} : lenN (@nil A) = 0.
Proof. reflexivity. Qed.

Lemma two32_lt_two64 : two32 < two64.
Proof. reflexivity. Qed.

Lemma wrap32_small (x : N) : x < two32 -> wrap32 x = x.
Proof. intros H. unfold wrap32. apply N.mod_small. exact H. Qed.

Lemma read_uv_put (ch : option (list bytes)) (cu : bytes) (x : N) (rest : bytes) :
  x < two64 -> read_uv (mkDec ch cu (put_uvarint x ++ rest)) = Ok (x, mkDec ch cu rest).
Proof.
  intros H. unfold read_uv. cbn [d_r d_chunks d_cur].
  rewrite read_put_uvarint by exact H. reflexivity.
Qed.

Lemma skip_uv_put (ch : option (list bytes)) (cu : bytes) (x : N) (rest : bytes) :
  x < two64 -> skip_uv (mkDec ch cu (put_uvarint x ++ rest)) = Ok (mkDec ch cu rest).
Proof.
  intros H. unfold skip_uv. cbn [d_r d_chunks d_cur].
  rewrite skip_put_uvarint by exact H. reflexivity.
Qed.

Definition two63 : N := 9223372036854775808.

Lemma enc_fhl (f : N) (h : bool) :
  f < two63 -> encodeFreqHasLocs f h = 2 * f + (if h then 1 else 0).
Proof.
  intros Hf. unfold encodeFreqHasLocs.
  rewrite N.shiftl_mul_pow2. change (2 ^ 1) with 2.
  rewrite wrap64_small by (unfold two63, two64 in *; lia).
  replace (f * 2) with (N.double f) by (rewrite N.double_spec; lia).
  destruct h.
  - replace (2 * f + 1) with (N.succ_double f) by (rewrite N.succ_double_spec; lia).
    destruct f; reflexivity.
  - rewrite N.lor_0_r, N.double_spec. lia.
Qed.

Lemma enc_fhl_lt (f : N) (h : bool) : f < two63 -> encodeFreqHasLocs f h < two64.
Proof.
  intros Hf. rewrite enc_fhl by exact Hf. unfold two63, two64 in *. destruct h; lia.
Qed.

Lemma enc_fhl_odd (f : N) (h : bool) : f < two63 -> N.odd (encodeFreqHasLocs f h) = h.
Proof.
  intros Hf. rewrite enc_fhl by exact Hf.
  rewrite N.add_comm, N.odd_add_mul_2. destruct h; reflexivity.
Qed.

Lemma enc_fhl_shiftr (f : N) (h : bool) : f < two63 -> N.shiftr (encodeFreqHasLocs f h) 1 = f.
Proof.
  intros Hf. rewrite enc_fhl by exact Hf.
  rewrite N.shiftr_div_pow2. change (2 ^ 1) with 2.
  symmetry. apply (N.div_unique _ 2 f (if h then 1 else 0)); destruct h; lia.
Qed.

Lemma num_uvarint_bytes_pos (x : N) : 0 < num_uvarint_bytes x.
Proof.
  unfold num_uvarint_bytes. cbn [num_uvarint_bytes_fuel].
  destruct (x <? 128); lia.
Qed.

Lemma loc_size_pos (l : ELoc) : 0 < loc_size l.
Proof.
  destruct l as (f, (p, (s, e))). unfold loc_size, loc_values. cbn [map sumN].
  pose proof (num_uvarint_bytes_pos f). lia.
Qed.

Lemma loc_bytes_len (nf : nat) (l : ELoc) : wf_loc nf l -> lenN (loc_bytes l) = loc_size l.
Proof.
  destruct l as (f, (p, (s, e))). intros (H0 & H1 & H2 & H3 & H4).
  unfold loc_bytes, loc_size, loc_values. apply put_uvarints_length.
  repeat constructor; assumption.
Qed.

Lemma locs_bytes_len (nf : nat) (ls : list ELoc) :
  Forall (wf_loc nf) ls -> lenN (flat_map' loc_bytes ls) = sumN (map loc_size ls).
Proof.
  induction 1 as [| l ls Hl Hls IH]; [reflexivity |].
  cbn [flat_map' map sumN]. rewrite lenN_app, IH, (loc_bytes_len nf l Hl). reflexivity.
Qed.

Lemma nthN_nth {A} (l : list A) (d : A) : forall n, (n < length l)%nat -> nthN l n = Some (nth n l d).
Proof.
  induction l as [| x l IH]; intros n Hn; cbn [length] in Hn; [lia |].
  destruct n as [| n]; cbn [nthN nth]; [reflexivity |]. apply IH. lia.
Qed.

Lemma loc_bytes_app (f p s e : N) (tail : bytes) :
  loc_bytes (f, (p, (s, e))) ++ tail
  = put_uvarint f ++ put_uvarint p ++ put_uvarint s ++ put_uvarint e ++ tail.
Proof.
  unfold loc_bytes, put_uvarints, loc_values. cbn [flat_map'].
  rewrite app_nil_r, <- !app_assoc. reflexivity.
Qed.

Lemma read_locs_ok (fields : list bytes) (ch : option (list bytes)) (cu rest : bytes) :
  forall (locs : list ELoc) (fuel : nat) (consumed startLen nb : N),
    Forall (wf_loc (length fields)) locs -> (length locs <= fuel)%nat ->
    startLen = consumed + lenN (flat_map' loc_bytes locs ++ rest) ->
    nb = consumed + lenN (flat_map' loc_bytes locs) ->
    read_locs fuel fields (mkDec ch cu (flat_map' loc_bytes locs ++ rest)) startLen nb
    = Ok (map (resolve_name fields) locs, mkDec ch cu rest).
Proof.
  induction locs as [| l locs IH]; intros fuel consumed startLen nb Hwf Hlen Hs Hn.
  - cbn [flat_map' app map] in *. rewrite lenN_nil in Hn.
    assert (E : (startLen - dec_len (mkDec ch cu rest) <? nb) = false).
    { unfold dec_len. cbn [d_r]. lia. }
    destruct fuel; cbn [read_locs]; rewrite E; reflexivity.
  - apply Forall_cons_iff in Hwf. destruct Hwf as [Hl Hls].
    cbn [length] in Hlen. destruct fuel as [| fuel]; [lia |].
    cbn [flat_map' map] in *. rewrite <- app_assoc in *.
    pose proof (loc_bytes_len _ _ Hl) as Hbl. pose proof (loc_size_pos l) as Hpos.
    rewrite !lenN_app in Hs, Hn.
    cbn [read_locs].
    assert (E : (startLen - dec_len (mkDec ch cu (loc_bytes l ++ flat_map' loc_bytes locs ++ rest)) <? nb) = true).
    { unfold dec_len. cbn [d_r]. rewrite !lenN_app in *. lia. }
    rewrite E.
    destruct l as (f, (p, (s, e))). destruct Hl as (Hf & Hf' & Hp & Hs' & He).
    rewrite loc_bytes_app.
    rewrite read_uv_put by assumption. rewrite rbind_ok.
    rewrite read_uv_put by assumption. rewrite rbind_ok.
    rewrite read_uv_put by assumption. rewrite rbind_ok.
    rewrite read_uv_put by assumption. rewrite rbind_ok.
    rewrite (nthN_nth fields []) by exact Hf.
    rewrite (IH fuel (consumed + lenN (loc_bytes (f, (p, (s, e)))))).
    + reflexivity.
    + exact Hls.
    + lia.
    + rewrite ?lenN_app in *. lia.
    + rewrite ?lenN_app in *. lia.
Qed.

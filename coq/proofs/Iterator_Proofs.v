(* Iterator_Proofs.v - the postings iterator of Postings.v refines the
   cursor specification of Spec.v (spec_step / spec_run). *)
From Coq Require Import List Arith NArith Bool Lia Sorting.Sorted.
From Ice Require Import Base Varint Chunk Spec Postings.
From IceProofs Require Import Sort_Proofs Varint_Proofs.
Import ListNotations.
Open Scope N_scope.
Require Import ZifyBool ZifyN ZifyNat.

Definition resolve_name (fields : list bytes) (l : ELoc) : ALoc := (nth (N.to_nat (fst l)) fields [], snd l).
Definition resolve_posting (fields : list bytes) (p : EPosting) : APosting :=
  (ep_doc p, (ep_freq p, (ep_norm p, map (resolve_name fields) (ep_locs p)))).
Definition wf_loc (nfields : nat) (l : ELoc) : Prop :=
  let '(f, (p, (s, e))) := l in (N.to_nat f < nfields)%nat /\ f < two64 /\ p < two64 /\ s < two64 /\ e < two64.
Definition wf_posting (nfields : nat) (p : EPosting) : Prop :=
  ep_doc p < two32 /\ ep_freq p < 9223372036854775808 (* 2^63 *) /\ ep_norm p < two32 /\
  (length (ep_locs p) <= N.to_nat (ep_freq p))%nat /\ Forall (wf_loc nfields) (ep_locs p) /\
  sumN (map loc_size (ep_locs p)) < two64.
Definition wf_postings (nfields : nat) (ps : list EPosting) : Prop :=
  StronglySorted (fun p q => ep_doc p < ep_doc q) ps /\ Forall (wf_posting nfields) ps.
Definition live_opt (except : option (list N)) (d : N) : bool :=
  match except with None => true | Some ex => negb (memN d ex) end.
Definition wf_ops (ops : list iter_op) : Prop :=
  Forall (fun op => match op with IAdvance d => d < two32 | INext => True end) ops.
Definition spec_out (inclFN inclLocs : bool) (st : list APosting) (ops : list iter_op) : list (option APosting) :=
  map (option_map (deliver inclFN inclLocs)) (spec_run st ops).

(* ================================================================== *)
(* (A) byte level                                                      *)
(* ================================================================== *)

Lemma rbind_ok {A B} (v : A) (f : A -> result B) : rbind (Ok v) f = f v.
Proof. reflexivity. Qed.

Lemma lenN_app {A} (a b : list A) : lenN (a ++ b) = lenN a + lenN b.
Proof. unfold lenN. rewrite app_length. lia. Qed.

Lemma lenN_nil {A} : lenN (@nil A) = 0.
Proof. reflexivity. Qed.

Lemma two32_lt_two64 : two32 < two64.
Proof. reflexivity. Qed.

Lemma wrap32_small (x : N) : x < two32 -> wrap32 x = x.
Proof. intros H. unfold wrap32. apply N.mod_small. exact H. Qed.

Lemma read_uv_put (ch : option (list bytes)) (cu : bytes) (x : N) (rest : bytes) :
  x < two64 -> read_uv (mkDec ch cu (put_uvarint x ++ rest)) = Ok (x, mkDec ch cu rest).
Proof.
  intros H. unfold read_uv. cbn [d_r d_chunks d_cur].
  rewrite read_put_uvarint by exact H. reflexivity.
Qed.

Lemma skip_uv_put (ch : option (list bytes)) (cu : bytes) (x : N) (rest : bytes) :
  x < two64 -> skip_uv (mkDec ch cu (put_uvarint x ++ rest)) = Ok (mkDec ch cu rest).
Proof.
  intros H. unfold skip_uv. cbn [d_r d_chunks d_cur].
  rewrite skip_put_uvarint by exact H. reflexivity.
Qed.

Definition two63 : N := 9223372036854775808.

Lemma enc_fhl (f : N) (h : bool) :
  f < two63 -> encodeFreqHasLocs f h = 2 * f + (if h then 1 else 0).
Proof.
  intros Hf. unfold encodeFreqHasLocs.
  rewrite N.shiftl_mul_pow2. change (2 ^ 1) with 2.
  rewrite wrap64_small by (unfold two63, two64 in *; lia).
  replace (f * 2) with (N.double f) by (rewrite N.double_spec; lia).
  destruct h.
  - replace (2 * f + 1) with (N.succ_double f) by (rewrite N.succ_double_spec; lia).
    destruct f; reflexivity.
  - rewrite N.lor_0_r, N.double_spec. lia.
Qed.

Lemma enc_fhl_lt (f : N) (h : bool) : f < two63 -> encodeFreqHasLocs f h < two64.
Proof.
  intros Hf. rewrite enc_fhl by exact Hf. unfold two63, two64 in *. destruct h; lia.
Qed.

Lemma enc_fhl_odd (f : N) (h : bool) : f < two63 -> N.odd (encodeFreqHasLocs f h) = h.
Proof.
  intros Hf. rewrite enc_fhl by exact Hf.
  rewrite N.add_comm, N.odd_add_mul_2. destruct h; reflexivity.
Qed.

Lemma enc_fhl_shiftr (f : N) (h : bool) : f < two63 -> N.shiftr (encodeFreqHasLocs f h) 1 = f.
Proof.
  intros Hf. rewrite enc_fhl by exact Hf.
  rewrite N.shiftr_div_pow2. change (2 ^ 1) with 2.
  symmetry. apply (N.div_unique _ 2 f (if h then 1 else 0)); destruct h; lia.
Qed.

Lemma num_uvarint_bytes_pos (x : N) : 0 < num_uvarint_bytes x.
Proof.
  unfold num_uvarint_bytes. cbn [num_uvarint_bytes_fuel].
  destruct (x <? 128); lia.
Qed.

Lemma loc_size_pos (l : ELoc) : 0 < loc_size l.
Proof.
  destruct l as (f, (p, (s, e))). unfold loc_size, loc_values. cbn [map sumN].
  pose proof (num_uvarint_bytes_pos f). lia.
Qed.

Lemma loc_bytes_len (nf : nat) (l : ELoc) : wf_loc nf l -> lenN (loc_bytes l) = loc_size l.
Proof.
  destruct l as (f, (p, (s, e))). intros (H0 & H1 & H2 & H3 & H4).
  unfold loc_bytes, loc_size, loc_values. apply put_uvarints_length.
  repeat constructor; assumption.
Qed.

Lemma locs_bytes_len (nf : nat) (ls : list ELoc) :
  Forall (wf_loc nf) ls -> lenN (flat_map' loc_bytes ls) = sumN (map loc_size ls).
Proof.
  induction 1 as [| l ls Hl Hls IH]; [reflexivity |].
  cbn [flat_map' map sumN]. rewrite lenN_app, IH, (loc_bytes_len nf l Hl). reflexivity.
Qed.

Lemma nthN_nth {A} (l : list A) (d : A) : forall n, (n < length l)%nat -> nthN l n = Some (nth n l d).
Proof.
  induction l as [| x l IH]; intros n Hn; cbn [length] in Hn; [lia |].
  destruct n as [| n]; cbn [nthN nth]; [reflexivity |]. apply IH. lia.
Qed.

Lemma loc_bytes_app (f p s e : N) (tail : bytes) :
  loc_bytes (f, (p, (s, e))) ++ tail
  = put_uvarint f ++ put_uvarint p ++ put_uvarint s ++ put_uvarint e ++ tail.
Proof.
  unfold loc_bytes, put_uvarints, loc_values. cbn [flat_map'].
  rewrite app_nil_r, <- !app_assoc. reflexivity.
Qed.

Lemma read_locs_ok (fields : list bytes) (ch : option (list bytes)) (cu rest : bytes) :
  forall (locs : list ELoc) (fuel : nat) (consumed startLen nb : N),
    Forall (wf_loc (length fields)) locs -> (length locs <= fuel)%nat ->
    startLen = consumed + lenN (flat_map' loc_bytes locs ++ rest) ->
    nb = consumed + lenN (flat_map' loc_bytes locs) ->
    read_locs fuel fields (mkDec ch cu (flat_map' loc_bytes locs ++ rest)) startLen nb
    = Ok (map (resolve_name fields) locs, mkDec ch cu rest).
Proof.
  induction locs as [| l locs IH]; intros fuel consumed startLen nb Hwf Hlen Hs Hn.
  - cbn [flat_map' app map] in *. rewrite lenN_nil in Hn.
    assert (E : (startLen - dec_len (mkDec ch cu rest) <? nb) = false).
    { unfold dec_len. cbn [d_r]. lia. }
    destruct fuel; cbn [read_locs]; rewrite E; reflexivity.
  - apply Forall_cons_iff in Hwf. destruct Hwf as [Hl Hls].
    cbn [length] in Hlen. destruct fuel as [| fuel]; [lia |].
    cbn [flat_map' map] in *. rewrite <- app_assoc in *.
    pose proof (loc_bytes_len _ _ Hl) as Hbl. pose proof (loc_size_pos l) as Hpos.
    rewrite !lenN_app in Hs, Hn.
    cbn [read_locs].
    assert (E : (startLen - dec_len (mkDec ch cu (loc_bytes l ++ flat_map' loc_bytes locs ++ rest)) <? nb) = true).
    { unfold dec_len. cbn [d_r]. rewrite !lenN_app in *. lia. }
    rewrite E.
    destruct l as (f, (p, (s, e))). destruct Hl as (Hf & Hf' & Hp & Hs' & He).
    rewrite loc_bytes_app.
    rewrite read_uv_put by assumption. rewrite rbind_ok.
    rewrite read_uv_put by assumption. rewrite rbind_ok.
    rewrite read_uv_put by assumption. rewrite rbind_ok.
    rewrite read_uv_put by assumption. rewrite rbind_ok.
    rewrite (nthN_nth fields []) by exact Hf.
    rewrite (IH fuel (consumed + lenN (loc_bytes (f, (p, (s, e)))))).
    + reflexivity.
    + exact Hls.
    + lia.
    + rewrite ?lenN_app in *. lia.
    + rewrite ?lenN_app in *. lia.
Qed.

Lemma skipn_exact {A} (a b : list A) (n : N) : lenN a = n -> skipn (N.to_nat n) (a ++ b) = b.
Proof.
  intros H. unfold lenN in H. subst n. rewrite Nat2N.id.
  rewrite skipn_app, skipn_all, Nat.sub_diag. reflexivity.
Qed.

Lemma loc_entry_has (p : EPosting) : ep_hasLocs p = true ->
  loc_entry p = put_uvarint (sumN (map loc_size (ep_locs p))) ++ flat_map' loc_bytes (ep_locs p).
Proof.
  unfold ep_hasLocs, loc_entry. destruct (ep_locs p); [discriminate | reflexivity].
Qed.

Lemma loc_entry_hasnt (p : EPosting) : ep_hasLocs p = false -> loc_entry p = [] /\ ep_locs p = [].
Proof.
  unfold ep_hasLocs, loc_entry. destruct (ep_locs p); [split; reflexivity | discriminate].
Qed.

Lemma freq_entry_nonempty (p : EPosting) (rest : bytes) : freq_entry p ++ rest <> [].
Proof.
  unfold freq_entry. intros H. apply app_eq_nil in H. destruct H as [H _].
  apply app_eq_nil in H. destruct H as [H _]. exact (put_uvarint_nonempty _ H).
Qed.

(* ================================================================== *)
(* (B) chunk streams and sortedness                                    *)
(* ================================================================== *)

Lemma CS_cons enc cs c p l :
  chunk_stream enc cs c (p :: l) = (if ep_doc p / cs =? c then enc p else []) ++ chunk_stream enc cs c l.
Proof. reflexivity. Qed.

Lemma CS_cons_in enc cs c p l : ep_doc p / cs = c ->
  chunk_stream enc cs c (p :: l) = enc p ++ chunk_stream enc cs c l.
Proof. intros H. rewrite CS_cons. subst c. rewrite N.eqb_refl. reflexivity. Qed.

Lemma CS_cons_out enc cs c p l : ep_doc p / cs <> c ->
  chunk_stream enc cs c (p :: l) = chunk_stream enc cs c l.
Proof.
  intros H. rewrite CS_cons. apply N.eqb_neq in H. rewrite H. reflexivity.
Qed.

Lemma CS_app enc cs c a b :
  chunk_stream enc cs c (a ++ b) = chunk_stream enc cs c a ++ chunk_stream enc cs c b.
Proof.
  induction a as [| p a IH]; [reflexivity |].
  cbn [app]. rewrite !CS_cons, IH, app_assoc. reflexivity.
Qed.

Lemma CS_other enc cs c a : Forall (fun p => ep_doc p / cs <> c) a -> chunk_stream enc cs c a = [].
Proof.
  induction 1 as [| p a Hp Ha IH]; [reflexivity |].
  rewrite CS_cons_out by exact Hp. exact IH.
Qed.

Lemma CS_all_empty enc cs c a : Forall (fun p => enc p = []) a -> chunk_stream enc cs c a = [].
Proof.
  induction 1 as [| p a Hp Ha IH]; [reflexivity |].
  rewrite CS_cons, Hp, IH. destruct (_ =? _); reflexivity.
Qed.

Lemma nthN_map_seq {A} (f : nat -> A) : forall n s c, (c < n)%nat -> nthN (map f (seq s n)) c = Some (f (s + c)%nat).
Proof.
  induction n as [| n IH]; intros s c Hc; [lia |].
  cbn [seq map]. destruct c as [| c]; cbn [nthN].
  - rewrite Nat.add_0_r. reflexivity.
  - rewrite IH by lia. f_equal. f_equal. lia.
Qed.

Lemma nthN_chunks enc cs total ps c : (N.to_nat c < total)%nat ->
  nthN (chunks_of enc cs total ps) (N.to_nat c) = Some (chunk_stream enc cs c ps).
Proof.
  intros H. unfold chunks_of. rewrite nthN_map_seq by exact H.
  cbn [Nat.add]. rewrite N2Nat.id. reflexivity.
Qed.

Lemma sorted_app_inv {A} (R : A -> A -> Prop) (a b : list A) :
  StronglySorted R (a ++ b) -> StronglySorted R b /\ forall x y, In x a -> In y b -> R x y.
Proof.
  induction a as [| z a IH]; cbn [app]; intros H.
  - split; [exact H | intros x y []].
  - inversion H as [| ? ? Hs Hf]; subst. destruct (IH Hs) as [Hb Hab].
    split; [exact Hb |]. intros x y [Hx | Hx] Hy.
    + subst x. rewrite Forall_forall in Hf. apply Hf. apply in_or_app. right. exact Hy.
    + apply Hab; assumption.
Qed.

Lemma sorted_map_doc (ps : list EPosting) :
  StronglySorted (fun p q => ep_doc p < ep_doc q) ps -> StronglySorted N.lt (map ep_doc ps).
Proof.
  induction 1 as [| p ps Hs IH Hf]; cbn [map]; constructor; [exact IH |].
  rewrite Forall_forall in *. intros x Hx. apply in_map_iff in Hx.
  destruct Hx as (q & <- & Hq). apply Hf. exact Hq.
Qed.

Lemma filter_true {A} (l : list A) : filter (fun _ => true) l = l.
Proof. induction l as [| x l IH]; cbn [filter]; [| rewrite IH]; reflexivity. Qed.

Lemma filter_map_comm {A B} (f : A -> B) (g : B -> bool) (l : list A) :
  filter g (map f l) = map f (filter (fun x => g (f x)) l).
Proof.
  induction l as [| x l IH]; [reflexivity |]. cbn [map filter].
  destruct (g (f x)); cbn [map]; rewrite IH; reflexivity.
Qed.

(* ---- the decoding tail of next_at_or_after, named ---- *)
Definition finish (i1 : It) (n : N) : result (It * option APosting) :=
  if negb (it_fn i1) then Ok (i1, Some (n, (0, (0, []))))
  else if negb (it_norm1 i1 =? 0) then Ok (i1, Some (n, (1, (wrap32 (it_norm1 i1), []))))
  else
    do (fhl, fr1) <- read_uv (it_fr i1);
    do (nb, fr2) <- read_uv fr1;
    let i2 := set_fr i1 fr2 in
    let freq := N.shiftr fhl 1 in
    if it_locs i2 && N.odd fhl then
      do (nlb, lr1) <- read_uv (it_lr i2);
      do (ls, lr2) <- read_locs (N.to_nat freq) (it_fields i2) lr1 (dec_len lr1) nlb;
      Ok (set_lr i2 lr2, Some (n, (freq, (wrap32 nb, ls))))
    else Ok (i2, Some (n, (freq, (wrap32 nb, [])))).

Lemma naa_unfold (i : It) (d : N) :
  next_at_or_after i d
  = do (i1, o) <- next_docnum i d;
    match o with None => Ok (i1, None) | Some n => finish i1 n end.
Proof. reflexivity. Qed.

Definition ccn_tail (i1 : It) : result It :=
  do (fhl, fr1) <- read_uv (it_fr i1);
  do fr2 <- skip_uv fr1;
  let i2 := set_fr i1 fr2 in
  if it_locs i2 && N.odd fhl then
    do (nb, lr1) <- read_uv (it_lr i2);
    Ok (set_lr i2 (dec_skip_bytes lr1 nb))
  else Ok i2.

Lemma ccn_unfold (i : It) (c : N) :
  currChunkNext i c
  = do i1 <- (if need_load i c then it_loadChunk i c else Ok i); ccn_tail i1.
Proof. reflexivity. Qed.

Definition d_of (op : iter_op) : N := match op with INext => 0 | IAdvance d => d end.

Lemma it_step_d_of (i : It) (op : iter_op) : it_step i op = next_at_or_after i (d_of op).
Proof. destruct op; reflexivity. Qed.

Lemma drop_below_0 (st : list APosting) : drop_below 0 st = st.
Proof.
  destruct st as [| p st]; [reflexivity |]. cbn [drop_below].
  replace (fst p <? 0) with false by lia. reflexivity.
Qed.

Lemma spec_step_d_of (st : list APosting) (op : iter_op) :
  spec_step st op = spec_step st (IAdvance (d_of op)).
Proof. destruct op; [| reflexivity]. unfold spec_step, d_of. rewrite drop_below_0. reflexivity. Qed.

(* ================================================================== *)
(* counts and the 1-hit encoding                                       *)
(* ================================================================== *)

Lemma filter_length_split {A} (f : A -> bool) (l : list A) :
  (length (filter f l) + length (filter (fun x => negb (f x)) l) = length l)%nat.
Proof.
  induction l as [| x l IH]; [reflexivity |]. cbn [filter].
  destruct (f x); cbn [negb length]; lia.
Qed.

Theorem count_refines (cs : N) (total : nat) (ps : list EPosting) (except : option (list N)) :
  pl_count (encode_gen cs total ps) except
  = lenN (filter (fun p => live_opt except (ep_doc p)) ps).
Proof.
  unfold encode_gen, pl_count. destruct except as [ex |]; cbn [live_opt].
  - rewrite filter_map_comm. unfold lenN. rewrite !map_length.
    pose proof (filter_length_split (fun x => memN (ep_doc x) ex) ps) as H. cbv beta in H. lia.
  - rewrite filter_true. unfold lenN. rewrite map_length. reflexivity.
Qed.

Theorem count_refines_1hit (doc nb : N) (except : option (list N)) :
  pl_count (E1Hit doc nb) except = lenN (filter (fun d => live_opt except d) [doc]).
Proof.
  unfold pl_count. destruct except as [ex |]; cbn [live_opt filter]; [| reflexivity].
  destruct (memN doc ex); reflexivity.
Qed.

Lemma spec_out_nil (a b : bool) (ops : list iter_op) : spec_out a b [] ops = map (fun _ => None) ops.
Proof.
  unfold spec_out. induction ops as [| op ops IH]; [reflexivity |].
  cbn [spec_run]. replace (spec_step [] op) with (@nil APosting, @None APosting) by (destruct op; reflexivity).
  cbn [map option_map]. rewrite IH. reflexivity.
Qed.

Lemma run_finished_1hit nb a b cl cs cur fr lr fn locs fields (ops : list iter_op) :
  nb <> 0 ->
  it_run (mkIt nb docNum1HitFinished a b cl cs cur fr lr fn locs fields) ops = Ok (map (fun _ => None) ops).
Proof.
  intros Hnb. apply N.eqb_neq in Hnb.
  induction ops as [| op ops IH]; [reflexivity |].
  cbn [it_run]. rewrite it_step_d_of, naa_unfold. unfold next_docnum.
  cbn [it_norm1 it_doc1]. rewrite Hnb. cbn [negb]. rewrite N.eqb_refl.
  rewrite !rbind_ok. rewrite IH. reflexivity.
Qed.

Theorem iter_refines_1hit (doc nb : N) (except : option (list N)) (inclFN inclLocs : bool)
        (fields : list bytes) (old : option It) (ops : list iter_op) :
  nb <> 0 -> nb < two32 -> doc < two32 ->
  it_run (it_init (E1Hit doc nb) except inclFN inclLocs fields old) ops
  = Ok (spec_out inclFN inclLocs
          (filter (fun p => live_opt except (fst p)) [(doc, (1, (nb, [])))]) ops).
Proof.
  intros Hnb Hnb32 Hdoc.
  unfold it_init. cbn [filter fst].
  assert (Hlive : (match except with Some ex => if memN doc ex then docNum1HitFinished else doc | None => doc end)
                  = if live_opt except doc then doc else docNum1HitFinished).
  { destruct except as [ex |]; cbn [live_opt]; [destruct (memN doc ex) |]; reflexivity. }
  rewrite Hlive. clear Hlive.
  destruct (live_opt except doc).
  2:{ rewrite run_finished_1hit by exact Hnb. rewrite spec_out_nil. reflexivity. }
  destruct ops as [| op ops]; [reflexivity |].
  cbn [it_run]. rewrite it_step_d_of, naa_unfold. unfold next_docnum.
  cbn [it_norm1 it_doc1]. pose proof Hnb as Hnb'. apply N.eqb_neq in Hnb'. rewrite Hnb'. cbn [negb].
  assert (Hfin : (doc =? docNum1HitFinished) = false).
  { apply N.eqb_neq. unfold docNum1HitFinished, two32 in *. lia. }
  rewrite Hfin.
  unfold spec_out. cbn [spec_run]. rewrite spec_step_d_of. unfold spec_step. cbn [drop_below fst].
  destruct (doc <? d_of op).
  - rewrite !rbind_ok. unfold set_doc1. cbn [it_norm1 it_doc1 it_all it_actual it_clean it_cs it_cur it_fr it_lr it_fn it_locs it_fields].
    rewrite run_finished_1hit by exact Hnb.
    cbn [map option_map].
    pose proof (spec_out_nil inclFN inclLocs ops) as Hnil; unfold spec_out in Hnil; rewrite Hnil. reflexivity.
  - rewrite !rbind_ok. unfold set_doc1. cbn [it_norm1 it_doc1 it_all it_actual it_clean it_cs it_cur it_fr it_lr it_fn it_locs it_fields].
    unfold finish. cbn [it_norm1 it_doc1 it_all it_actual it_clean it_cs it_cur it_fr it_lr it_fn it_locs it_fields].
    rewrite Hnb'. cbn [negb].
    rewrite wrap32_small by exact Hnb32.
    cbn [map option_map].
    change (spec_run _ ops) with (spec_run (@nil APosting) ops).
    pose proof (spec_out_nil inclFN inclLocs ops) as Hnil; unfold spec_out in Hnil; rewrite Hnil.
    cbn [deliver].
    destruct inclFN; cbn [negb]; rewrite rbind_ok, run_finished_1hit by exact Hnb; rewrite rbind_ok;
      destruct inclLocs; reflexivity.
Qed.

(* ================================================================== *)
(* (C) the general encoding                                            *)
(* ================================================================== *)

Section Gen.
  Variables (fields : list bytes) (ps : list EPosting) (cs : N) (total : nat) (inclLocs : bool).
  Hypothesis Hwf : wf_postings (length fields) ps.
  Hypothesis Hcs : 0 < cs.
  Hypothesis Htot : forall p, In p ps -> (N.to_nat (ep_doc p / cs) < total)%nat.

  Definition fch : list bytes := chunks_of freq_entry cs total ps.
  Definition lch : option (list bytes) :=
    if existsb ep_hasLocs ps then Some (chunks_of loc_entry cs total ps) else None.

  Notation chk p := (ep_doc p / cs).
  Notation CSf := (chunk_stream freq_entry cs).
  Notation CSl := (chunk_stream loc_entry cs).
  Notation mk a b cl cur fr lr := (mkIt 0 0 a b cl cs cur fr lr true inclLocs fields).

  Definition DecOK (fr lr : Dec) : Prop :=
    d_chunks fr = Some fch /\ (inclLocs = true -> d_chunks lr = lch).
  Definition Rd (c : N) (suf : list EPosting) (fr lr : Dec) : Prop :=
    DecOK fr lr /\ dec_isNil fr = false /\ d_r fr = CSf c suf /\ (inclLocs = true -> d_r lr = CSl c suf).
  Definition Mid (c : N) (suf : list EPosting) (cur : N) (fr lr : Dec) : Prop :=
    (cur = c /\ Rd c suf fr lr) \/
    (DecOK fr lr /\ (cur <> c \/ dec_isNil fr = true) /\ CSf c ps = CSf c suf /\ CSl c ps = CSl c suf).
  Definition Inv (suf : list EPosting) (cur : N) (fr lr : Dec) : Prop :=
    forall p, In p suf -> Mid (chk p) suf cur fr lr.

  Lemma wf_in (p : EPosting) : In p ps -> wf_posting (length fields) p.
  Proof. destruct Hwf as [_ H]. rewrite Forall_forall in H. apply H. Qed.

  Lemma mid_skip c p suf cur fr lr : Mid c (p :: suf) cur fr lr -> chk p <> c -> Mid c suf cur fr lr.
  Proof.
    intros [(Hc & Hd & Hn & Hf & Hl) | (Hd & Hc & Hf & Hl)] Hne.
    - left. split; [exact Hc |]. split; [exact Hd |]. split; [exact Hn |].
      rewrite CS_cons_out in Hf by exact Hne. split; [exact Hf |].
      intros HL. rewrite (Hl HL). apply CS_cons_out. exact Hne.
    - right. rewrite CS_cons_out in Hf, Hl by exact Hne.
      split; [exact Hd |]. split; [exact Hc |]. split; assumption.
  Qed.

  Lemma no_locs_stream c suf : existsb ep_hasLocs ps = false -> (forall p, In p suf -> In p ps) -> CSl c suf = [].
  Proof.
    intros He Hsub. apply CS_all_empty. apply Forall_forall. intros p Hp.
    apply loc_entry_hasnt.
    destruct (ep_hasLocs p) eqn:E; [| reflexivity].
    assert (existsb ep_hasLocs ps = true) by (apply existsb_exists; exists p; auto).
    congruence.
  Qed.

  Lemma load_ok a b cl cur fr lr c suf :
    DecOK fr lr -> (N.to_nat c < total)%nat ->
    CSf c ps = CSf c suf -> CSl c ps = CSl c suf -> CSf c suf <> [] ->
    exists fr' lr', it_loadChunk (mk a b cl cur fr lr) c = Ok (mk a b cl c fr' lr') /\ Rd c suf fr' lr'.
  Proof.
    intros [Hdf Hdl] Hc Hf Hl Hne.
    unfold it_loadChunk. cbn [it_fn it_fr it_locs it_lr it_norm1 it_doc1 it_all it_actual it_clean it_cs it_fields].
    unfold dec_load at 1. rewrite Hdf. unfold fch at 1. rewrite nthN_chunks by exact Hc. rewrite rbind_ok.
    destruct inclLocs eqn:EL.
    - unfold dec_load. rewrite (Hdl eq_refl). unfold lch at 1.
      destruct (existsb ep_hasLocs ps) eqn:EX.
      + rewrite nthN_chunks by exact Hc. rewrite rbind_ok.
        eexists _, _. split; [reflexivity |].
        unfold Rd, DecOK. cbn [d_chunks d_r d_cur]. rewrite EL.
        repeat split.
        * intros _. unfold lch. rewrite EX. reflexivity.
        * unfold dec_isNil. cbn [d_cur]. rewrite Hf. destruct (CSf c suf); [congruence | reflexivity].
        * exact Hf.
        * intros _. exact Hl.
      + rewrite rbind_ok. eexists _, _. split; [reflexivity |].
        unfold Rd, DecOK. cbn [d_chunks d_r d_cur]. rewrite EL.
        repeat split.
        * intros _. unfold lch. rewrite EX. reflexivity.
        * unfold dec_isNil. cbn [d_cur]. rewrite Hf. destruct (CSf c suf); [congruence | reflexivity].
        * exact Hf.
        * intros _. rewrite <- Hl. symmetry. apply no_locs_stream; auto.
    - rewrite rbind_ok. eexists _, _. split; [reflexivity |].
      unfold Rd, DecOK. cbn [d_chunks d_r d_cur]. rewrite EL.
      repeat split; try discriminate.
      + unfold dec_isNil. cbn [d_cur]. rewrite Hf. destruct (CSf c suf); [congruence | reflexivity].
      + exact Hf.
  Qed.

  Lemma ensure_loaded a b cl cur fr lr c p suf :
    Mid c (p :: suf) cur fr lr -> chk p = c -> In p ps ->
    exists fr' lr',
      (if need_load (mk a b cl cur fr lr) c then it_loadChunk (mk a b cl cur fr lr) c else Ok (mk a b cl cur fr lr))
      = Ok (mk a b cl c fr' lr') /\ Rd c (p :: suf) fr' lr'.
  Proof.
    intros [(Hc & HR) | (Hd & Hc & Hf & Hl)] Hp Hin.
    - exists fr, lr. subst cur. split; [| exact HR].
      unfold need_load. cbn [it_cur it_fr]. rewrite N.eqb_refl.
      destruct HR as (_ & Hn & _). rewrite Hn. reflexivity.
    - assert (E : need_load (mk a b cl cur fr lr) c = true).
      { unfold need_load. cbn [it_cur it_fr]. destruct Hc as [Hc | Hc].
        - apply N.eqb_neq in Hc. rewrite Hc. reflexivity.
        - rewrite Hc. apply orb_true_r. }
      rewrite E. apply load_ok; try assumption.
      + subst c. apply Htot. exact Hin.
      + rewrite CS_cons_in by exact Hp. apply freq_entry_nonempty.
  Qed.

  Lemma skip_entry a b cl c p suf fr lr :
    Rd c (p :: suf) fr lr -> chk p = c -> wf_posting (length fields) p ->
    exists fr' lr', ccn_tail (mk a b cl c fr lr) = Ok (mk a b cl c fr' lr') /\ Rd c suf fr' lr'.
  Proof.
    intros ((Hdf & Hdl) & Hn & Hf & Hl) Hp (Hdoc & Hfreq & Hnorm & Hlen & Hlocs & Hsum).
    destruct fr as [fc fcu fr0]. destruct lr as [lc lcu lr0].
    cbn [d_chunks d_r d_cur] in *. unfold dec_isNil in Hn. cbn [d_cur] in Hn.
    rewrite CS_cons_in in Hf by exact Hp. unfold freq_entry in Hf. rewrite <- app_assoc in Hf. subst fr0.
    unfold ccn_tail. cbn [it_fr].
    pose proof two32_lt_two64 as H3264.
    rewrite read_uv_put by (apply enc_fhl_lt; exact Hfreq). rewrite rbind_ok.
    rewrite skip_uv_put by lia. rewrite rbind_ok.
    cbv zeta. unfold set_fr.
    cbn [it_fr it_lr it_locs it_norm1 it_doc1 it_all it_actual it_clean it_cs it_cur it_fn it_fields].
    rewrite enc_fhl_odd by exact Hfreq.
    destruct (ep_hasLocs p) eqn:EH.
    - rewrite andb_true_r. destruct inclLocs eqn:EL.
      + specialize (Hl eq_refl). rewrite CS_cons_in in Hl by exact Hp.
        rewrite loc_entry_has in Hl by exact EH. rewrite <- app_assoc in Hl. subst lr0.
        rewrite read_uv_put by exact Hsum. rewrite rbind_ok.
        unfold set_lr, dec_skip_bytes, skip_bytes.
        cbn [it_fr it_lr it_locs it_norm1 it_doc1 it_all it_actual it_clean it_cs it_cur it_fn it_fields d_chunks d_cur d_r].
        rewrite skipn_exact by (eapply locs_bytes_len; exact Hlocs).
        eexists _, _. split; [reflexivity |].
        unfold Rd, DecOK, dec_isNil. cbn [d_chunks d_r d_cur]. rewrite EL. repeat split; auto.
      + eexists _, _. split; [reflexivity |].
        unfold Rd, DecOK, dec_isNil. cbn [d_chunks d_r d_cur]. rewrite EL. repeat split; auto; discriminate.
    - rewrite andb_false_r.
      eexists _, _. split; [reflexivity |].
      unfold Rd, DecOK, dec_isNil. cbn [d_chunks d_r d_cur]. repeat split; auto.
      intros HL. rewrite (Hl HL). rewrite CS_cons_in by exact Hp.
      destruct (loc_entry_hasnt p EH) as [E _]. rewrite E. reflexivity.
  Qed.

  Lemma ccn_ok a b cl cur fr lr c p suf :
    Mid c (p :: suf) cur fr lr -> chk p = c -> In p ps ->
    exists fr' lr', currChunkNext (mk a b cl cur fr lr) c = Ok (mk a b cl c fr' lr') /\ Rd c suf fr' lr'.
  Proof.
    intros HM Hp Hin. rewrite ccn_unfold.
    destruct (ensure_loaded a b cl cur fr lr c p suf HM Hp Hin) as (fr1 & lr1 & E & HR).
    rewrite E, rbind_ok. apply (skip_entry a b cl c p suf fr1 lr1 HR Hp). apply wf_in. exact Hin.
  Qed.

  Lemma read_posting a b cl c p suf fr lr :
    Rd c (p :: suf) fr lr -> chk p = c -> wf_posting (length fields) p ->
    exists fr' lr', finish (mk a b cl c fr lr) (ep_doc p)
                    = Ok (mk a b cl c fr' lr', Some (deliver true inclLocs (resolve_posting fields p)))
                    /\ Rd c suf fr' lr'.
  Proof.
    intros ((Hdf & Hdl) & Hn & Hf & Hl) Hp (Hdoc & Hfreq & Hnorm & Hlen & Hlocs & Hsum).
    destruct fr as [fc fcu fr0]. destruct lr as [lc lcu lr0].
    cbn [d_chunks d_r d_cur] in *. unfold dec_isNil in Hn. cbn [d_cur] in Hn.
    rewrite CS_cons_in in Hf by exact Hp. unfold freq_entry in Hf. rewrite <- app_assoc in Hf. subst fr0.
    unfold finish. cbn [it_fr it_fn it_norm1 negb]. change (0 =? 0) with true. cbn [negb].
    pose proof two32_lt_two64 as H3264.
    rewrite read_uv_put by (apply enc_fhl_lt; exact Hfreq). rewrite rbind_ok.
    rewrite read_uv_put by lia. rewrite rbind_ok.
    cbv zeta. unfold set_fr.
    cbn [it_fr it_lr it_locs it_norm1 it_doc1 it_all it_actual it_clean it_cs it_cur it_fn it_fields].
    rewrite enc_fhl_odd by exact Hfreq. rewrite enc_fhl_shiftr by exact Hfreq.
    rewrite wrap32_small by exact Hnorm.
    unfold resolve_posting, deliver.
    destruct (ep_hasLocs p) eqn:EH.
    - rewrite andb_true_r. destruct inclLocs eqn:EL.
      + specialize (Hl eq_refl). rewrite CS_cons_in in Hl by exact Hp.
        rewrite loc_entry_has in Hl by exact EH. rewrite <- app_assoc in Hl. subst lr0.
        rewrite read_uv_put by exact Hsum. rewrite rbind_ok.
        rewrite (read_locs_ok fields lc lcu (CSl c suf) (ep_locs p) (N.to_nat (ep_freq p)) 0); try assumption.
        * rewrite rbind_ok. unfold set_lr.
          cbn [it_fr it_lr it_locs it_norm1 it_doc1 it_all it_actual it_clean it_cs it_cur it_fn it_fields].
          eexists _, _. split; [reflexivity |].
          unfold Rd, DecOK, dec_isNil. cbn [d_chunks d_r d_cur]. rewrite EL. repeat split; auto.
        * unfold dec_len. cbn [d_r]. lia.
        * rewrite (locs_bytes_len _ _ Hlocs). lia.
      + eexists _, _. split; [reflexivity |].
        unfold Rd, DecOK, dec_isNil. cbn [d_chunks d_r d_cur]. rewrite EL. repeat split; auto; discriminate.
    - rewrite andb_false_r. destruct (loc_entry_hasnt p EH) as [E1 E2]. rewrite E2. cbn [map].
      eexists _, _. split; [destruct inclLocs; reflexivity |].
      unfold Rd, DecOK, dec_isNil. cbn [d_chunks d_r d_cur]. repeat split; auto.
      intros HL. rewrite (Hl HL). rewrite CS_cons_in by exact Hp. rewrite E1. reflexivity.
  Qed.

  (* ---- pure list facts: targets of Advance ---- *)
  Definition lpP (lp : N -> bool) (d : N) (q : EPosting) : Prop := lp (ep_doc q) = false \/ ep_doc q < d.
  Notation stf lp suf := (filter (fun p : APosting => lp (fst p)) (map (resolve_posting fields) suf)).

  Lemma spec_hit lp d p' suf' : forall sk,
    Forall (lpP lp d) sk -> lp (ep_doc p') = true -> d <= ep_doc p' ->
    spec_step (stf lp (sk ++ p' :: suf')) (IAdvance d) = (stf lp suf', Some (resolve_posting fields p')).
  Proof.
    intros sk Hsk Hlp Hd. induction Hsk as [| q sk Hq Hsk IH].
    - cbn [app map filter]. change (fst (resolve_posting fields p')) with (ep_doc p'). rewrite Hlp.
      unfold spec_step. cbn [drop_below]. change (fst (resolve_posting fields p')) with (ep_doc p').
      replace (ep_doc p' <? d) with false by lia. reflexivity.
    - cbn [app map filter]. change (fst (resolve_posting fields q)) with (ep_doc q).
      destruct (lp (ep_doc q)) eqn:E; [| exact IH].
      destruct Hq as [Hq | Hq]; [congruence |].
      rewrite <- IH. unfold spec_step. cbn [drop_below].
      change (fst (resolve_posting fields q)) with (ep_doc q).
      replace (ep_doc q <? d) with true by lia. reflexivity.
  Qed.

  Lemma spec_miss lp d : forall suf,
    Forall (lpP lp d) suf -> spec_step (stf lp suf) (IAdvance d) = ([], None).
  Proof.
    intros suf Hsuf. induction Hsuf as [| q sk Hq Hsk IH]; [reflexivity |].
    cbn [app map filter]. change (fst (resolve_posting fields q)) with (ep_doc q).
    destruct (lp (ep_doc q)) eqn:E; [| exact IH].
    destruct Hq as [Hq | Hq]; [congruence |].
    rewrite <- IH. unfold spec_step. cbn [drop_below].
    change (fst (resolve_posting fields q)) with (ep_doc q).
    replace (ep_doc q <? d) with true by lia. reflexivity.
  Qed.

  Lemma drop_lt_decomp lp d : forall suf,
    (Forall (lpP lp d) suf /\ drop_lt d (filter lp (map ep_doc suf)) = [])
    \/ (exists sk p' suf', suf = sk ++ p' :: suf' /\ Forall (lpP lp d) sk /\ lp (ep_doc p') = true /\
                            d <= ep_doc p' /\
                            drop_lt d (filter lp (map ep_doc suf)) = ep_doc p' :: filter lp (map ep_doc suf')).
  Proof.
    induction suf as [| q suf IH].
    - left. split; [constructor | reflexivity].
    - cbn [map filter]. destruct (lp (ep_doc q)) eqn:E.
      + cbn [drop_lt]. destruct (ep_doc q <? d) eqn:E2.
        * destruct IH as [[H1 H2] | (sk & p' & suf' & H1 & H2 & H3 & H4 & H5)].
          -- left. split; [constructor; [right; lia | exact H1] | exact H2].
          -- right. exists (q :: sk), p', suf'. subst suf. split; [reflexivity |].
             split; [constructor; [right; lia | exact H2] |]. auto.
        * right. exists [], q, suf. split; [reflexivity |]. split; [constructor |].
          split; [exact E |]. split; [lia | reflexivity].
      + destruct IH as [[H1 H2] | (sk & p' & suf' & H1 & H2 & H3 & H4 & H5)].
        * left. split; [constructor; [left; exact E | exact H1] | exact H2].
        * right. exists (q :: sk), p', suf'. subst suf. split; [reflexivity |].
          split; [constructor; [left; exact E | exact H2] |]. auto.
  Qed.

  Lemma chk_mono (a b : N) : a <= b -> a / cs <= b / cs.
  Proof. intros H. apply N.div_le_mono; lia. Qed.

  Lemma clean_scan_spec d : forall rest_ps p skipped n nChunk same rest,
    StronglySorted (fun a b => ep_doc a < ep_doc b) (p :: rest_ps) ->
    Forall (fun q => chk q = chk p) skipped -> Forall (fun q => ep_doc q < d) skipped ->
    clean_scan cs d (ep_doc p) (chk p) (length skipped) (map ep_doc rest_ps) = (n, nChunk, same, rest) ->
    exists mid skipped' p' rest_ps',
      skipped ++ p :: rest_ps = mid ++ skipped' ++ p' :: rest_ps' /\ n = ep_doc p' /\ nChunk = chk p' /\
      same = length skipped' /\ rest = map ep_doc rest_ps' /\
      Forall (fun q => chk q = nChunk) skipped' /\ Forall (fun q => chk q <> nChunk) mid /\
      Forall (fun q => ep_doc q < d) (mid ++ skipped') /\ (ep_doc p' < d -> rest_ps' = []).
  Proof.
    induction rest_ps as [| q rest_ps IH]; intros p skipped n nChunk same rest Hs Hc Hd H.
    - cbn [map clean_scan] in H. inversion H; subst.
      exists [], skipped, p, []. cbn [app]. repeat split; auto.
    - cbn [map clean_scan] in H.
      inversion Hs as [| ? ? Hs' Hf]; subst. rewrite Forall_forall in Hf.
      destruct (ep_doc p <? d) eqn:E.
      + destruct (chk q =? chk p) eqn:EC.
        * apply N.eqb_eq in EC.
          replace (S (length skipped)) with (length (skipped ++ [p])) in H
            by (rewrite app_length; cbn [length]; lia).
          apply IH in H.
          -- destruct H as (mid & sk' & p' & rest' & H1 & H2).
             exists mid, sk', p', rest'. split; [| exact H2].
             rewrite <- H1, <- app_assoc. reflexivity.
          -- exact Hs'.
          -- apply Forall_app. split; [| constructor; [auto | constructor]].
             eapply Forall_impl; [| exact Hc]. cbv beta. intros x Hx. congruence.
          -- apply Forall_app. split; [exact Hd | constructor; [lia | constructor]].
        * apply N.eqb_neq in EC.
          change O with (length (@nil EPosting)) in H.
          apply IH in H; [| exact Hs' | constructor | constructor].
          destruct H as (mid & sk' & p' & rest' & H1 & H2 & H3 & H4 & H5 & H6 & H7 & H8 & H9).
          cbn [app] in H1.
          exists (skipped ++ p :: mid), sk', p', rest'.
          split; [rewrite <- app_assoc; cbn [app]; rewrite <- H1; reflexivity |].
          do 5 (split; [assumption |]).
          assert (Hin : In p' (q :: rest_ps)).
          { rewrite H1. apply in_or_app. right. apply in_or_app. right. left. reflexivity. }
          assert (Hqp : chk q <= chk p').
          { destruct Hin as [<- | Hin]; [lia |]. apply chk_mono.
            inversion Hs' as [| ? ? _ Hf']; subst. rewrite Forall_forall in Hf'.
            specialize (Hf' _ Hin). lia. }
          assert (Hpq : chk p <= chk q).
          { apply chk_mono. specialize (Hf q (or_introl eq_refl)). lia. }
          split; [| split; [| exact H9]].
          -- apply Forall_app. split.
             ++ eapply Forall_impl; [| exact Hc]. cbv beta. intros x Hx. lia.
             ++ constructor; [lia | subst nChunk; exact H7].
          -- rewrite <- app_assoc. cbn [app]. apply Forall_app. split; [exact Hd |].
             constructor; [lia | exact H8].
      + inversion H; subst.
        exists [], skipped, p, (q :: rest_ps). cbn [app]. repeat split; auto. lia.
  Qed.

  Lemma mid_skip_many c : forall m s cur fr lr,
    Forall (fun q => chk q <> c) m -> Mid c (m ++ s) cur fr lr -> Mid c s cur fr lr.
  Proof.
    induction m as [| q m IH]; intros s cur fr lr Hm HM; [exact HM |].
    inversion Hm; subst. apply IH; [assumption |]. eapply mid_skip; eassumption.
  Qed.

  Lemma repeat_ccn_ok a b cl c : forall sk s cur fr lr,
    Forall (fun q => chk q = c) sk -> (forall q, In q sk -> In q ps) ->
    Mid c (sk ++ s) cur fr lr ->
    exists cur' fr' lr', repeat_ccn (length sk) (mk a b cl cur fr lr) c = Ok (mk a b cl cur' fr' lr')
                         /\ Mid c s cur' fr' lr'.
  Proof.
    induction sk as [| q sk IH]; intros s cur fr lr Hc Hin HM.
    - exists cur, fr, lr. split; [reflexivity | exact HM].
    - inversion Hc; subst. cbn [length repeat_ccn app] in *.
      destruct (ccn_ok a b cl cur fr lr (chk q) q (sk ++ s) HM eq_refl (Hin q (or_introl eq_refl)))
        as (fr1 & lr1 & E & HR).
      rewrite E, rbind_ok.
      apply IH; [assumption | intros x Hx; apply Hin; right; exact Hx |].
      left. split; [reflexivity | exact HR].
  Qed.

  Lemma inv_after pre p' suf' fr lr :
    ps = pre ++ p' :: suf' -> Rd (chk p') suf' fr lr -> Inv suf' (chk p') fr lr.
  Proof.
    intros Hps HR q Hq.
    destruct (N.eq_dec (chk q) (chk p')) as [e | ne].
    - left. rewrite e. split; [reflexivity | exact HR].
    - right. destruct HR as (Hd & _). split; [exact Hd |]. split; [left; congruence |].
      destruct Hwf as [Hsort _]. rewrite Hps in Hsort.
      destruct (sorted_app_inv _ _ _ Hsort) as [Hs2 Hlt].
      inversion Hs2 as [| ? ? _ Hf]; subst. rewrite Forall_forall in Hf.
      assert (Hpq : chk p' <= chk q) by (apply chk_mono; specialize (Hf _ Hq); lia).
      assert (Hpre : Forall (fun x => chk x <> chk q) (pre ++ [p'])).
      { apply Forall_app. split; [| constructor; [lia | constructor]].
        apply Forall_forall. intros x Hx.
        assert (chk x <= chk p') by (apply chk_mono; specialize (Hlt x p' Hx (or_introl eq_refl)); lia).
        lia. }
      replace (pre ++ p' :: suf') with ((pre ++ [p']) ++ suf') in Hps
        by (rewrite <- app_assoc; reflexivity).
      rewrite Hps, (CS_app freq_entry), (CS_app loc_entry).
      rewrite (CS_other freq_entry _ _ _ Hpre), (CS_other loc_entry _ _ _ Hpre). split; reflexivity.
  Qed.

  Lemma decomp_facts pre sk p' suf' :
    ps = pre ++ sk ++ p' :: suf' ->
    In p' ps /\ (forall q, In q sk -> In q ps /\ ep_doc q < ep_doc p') /\ ps = (pre ++ sk) ++ p' :: suf'.
  Proof.
    intros Hps. rewrite app_assoc in Hps.
    split; [rewrite Hps; apply in_or_app; right; left; reflexivity |].
    split; [| exact Hps].
    intros q Hq. split.
    - rewrite Hps. apply in_or_app. left. apply in_or_app. right. exact Hq.
    - destruct Hwf as [Hsort _]. rewrite Hps in Hsort.
      destruct (sorted_app_inv _ _ _ Hsort) as [_ Hlt].
      apply Hlt; [apply in_or_app; right; exact Hq | left; reflexivity].
  Qed.

  Lemma sync_ok a b cl p' suf' : ep_doc p' < two32 ->
    forall sk cur fr lr,
    (forall q, In q sk -> In q ps /\ ep_doc q < ep_doc p') ->
    Mid (chk p') (sk ++ p' :: suf') cur fr lr ->
    exists cur' fr' lr',
      sync_all (mk a b cl cur fr lr) (ep_doc p') (chk p') (wrap32 (chk p' * cs)) (map ep_doc (sk ++ p' :: suf'))
      = Ok (mk a b cl cur' fr' lr', map ep_doc suf') /\ Mid (chk p') (p' :: suf') cur' fr' lr'.
  Proof.
    intros H32.
    assert (Hreach : wrap32 (chk p' * cs) = chk p' * cs).
    { apply wrap32_small. pose proof (N.mul_div_le (ep_doc p') cs). lia. }
    rewrite Hreach.
    induction sk as [| q sk IH]; intros cur fr lr Hsk HM.
    - cbn [app map sync_all]. rewrite N.eqb_refl. exists cur, fr, lr. split; [reflexivity | exact HM].
    - cbn [app map sync_all]. destruct (Hsk q (or_introl eq_refl)) as [Hin Hlt].
      replace (ep_doc q =? ep_doc p') with false by lia.
      cbn [it_fn andb].
      assert (Hsk' : forall x, In x sk -> In x ps /\ ep_doc x < ep_doc p')
        by (intros x Hx; apply Hsk; right; exact Hx).
      destruct (chk p' * cs <=? ep_doc q) eqn:E.
      + assert (Hc : chk q = chk p').
        { apply N.leb_le in E.
          assert (chk p' <= chk q) by (apply N.div_le_lower_bound; lia).
          assert (chk q <= chk p') by (apply chk_mono; lia). lia. }
        cbn [app] in HM.
        destruct (ccn_ok a b cl cur fr lr (chk p') q (sk ++ p' :: suf') HM Hc Hin) as (fr1 & lr1 & E1 & HR).
        rewrite E1, rbind_ok. apply IH; [exact Hsk' |].
        left. split; [reflexivity | exact HR].
      + rewrite rbind_ok. apply IH; [exact Hsk' |].
        cbn [app] in HM. eapply mid_skip; [exact HM |].
        apply N.leb_gt in E.
        assert (chk q < chk p') by (apply N.div_lt_upper_bound; lia). lia.
  Qed.

  Lemma nd_excl lp d pre suf cur fr lr :
    d < two32 -> ps = pre ++ suf -> Inv suf cur fr lr ->
    (Forall (lpP lp d) suf /\
     exists al', next_docnum (mk (map ep_doc suf) (filter lp (map ep_doc suf)) false cur fr lr) d
                 = Ok (mk al' [] false cur fr lr, None))
    \/ exists sk p' suf' fr' lr',
         suf = sk ++ p' :: suf' /\ Forall (lpP lp d) sk /\ lp (ep_doc p') = true /\ d <= ep_doc p' /\
         next_docnum (mk (map ep_doc suf) (filter lp (map ep_doc suf)) false cur fr lr) d
         = Ok (mk (map ep_doc suf') (filter lp (map ep_doc suf')) false (chk p') fr' lr', Some (ep_doc p')) /\
         Rd (chk p') (p' :: suf') fr' lr'.
  Proof.
    intros Hd Hps HI.
    unfold next_docnum.
    cbn [it_norm1 it_doc1 it_all it_actual it_clean it_cs it_cur it_fr it_lr it_fn it_locs it_fields].
    change (0 =? 0) with true. cbn [negb]. rewrite (wrap32_small d Hd).
    replace (cs =? 0) with false by lia.
    destruct (drop_lt_decomp lp d suf) as [[HF HD] | (sk & p' & suf' & Hsuf & HF & Hlp & Hd' & HD)].
    - left. split; [exact HF |].
      destruct (filter lp (map ep_doc suf)) as [| n0 rest0].
      + eexists. reflexivity.
      + rewrite HD. unfold set_cursors.
        cbn [it_norm1 it_doc1 it_all it_actual it_clean it_cs it_cur it_fr it_lr it_fn it_locs it_fields].
        eexists. reflexivity.
    - right. exists sk, p', suf'.
      destruct (filter lp (map ep_doc suf)) as [| n0 rest0] eqn:Eac; [discriminate HD |].
      rewrite HD. subst suf.
      destruct (decomp_facts _ _ _ _ Hps) as (Hin & Hsk & Hps').
      assert (HM : Mid (chk p') (sk ++ p' :: suf') cur fr lr)
        by (apply HI; apply in_or_app; right; left; reflexivity).
      pose proof (wf_in p' Hin) as Hwfp.
      assert (H32 : ep_doc p' < two32) by (destruct Hwfp as (H & _); exact H).
      destruct (sync_ok (map ep_doc (sk ++ p' :: suf')) (n0 :: rest0) false p' suf' H32 sk cur fr lr Hsk HM)
        as (cur1 & fr1 & lr1 & E1 & HM1).
      rewrite E1, rbind_ok. cbv beta iota. unfold set_cursors.
      cbn [it_norm1 it_doc1 it_all it_actual it_clean it_cs it_cur it_fr it_lr it_fn it_locs it_fields andb].
      destruct (ensure_loaded (map ep_doc suf') (filter lp (map ep_doc suf')) false cur1 fr1 lr1
                              (chk p') p' suf' HM1 eq_refl Hin) as (fr2 & lr2 & E2 & HR).
      rewrite E2, rbind_ok.
      exists fr2, lr2. do 4 (split; [auto |]). split; [reflexivity | exact HR].
  Qed.

  Lemma nd_clean d pre suf al cur fr lr :
    ps = pre ++ suf -> Inv suf cur fr lr ->
    (Forall (fun q => ep_doc q < d) suf /\
     exists al', next_docnum (mk al (map ep_doc suf) true cur fr lr) d = Ok (mk al' [] true cur fr lr, None))
    \/ exists sk p' suf' fr' lr',
         suf = sk ++ p' :: suf' /\ Forall (fun q => ep_doc q < d) sk /\ d <= ep_doc p' /\
         next_docnum (mk al (map ep_doc suf) true cur fr lr) d
         = Ok (mk (map ep_doc suf') (map ep_doc suf') true (chk p') fr' lr', Some (ep_doc p')) /\
         Rd (chk p') (p' :: suf') fr' lr'.
  Proof.
    intros Hps HI.
    destruct suf as [| p0 rest_ps].
    { left. split; [constructor |]. exists al. reflexivity. }
    unfold next_docnum.
    cbn [map it_norm1 it_doc1 it_all it_actual it_clean it_cs it_cur it_fr it_lr it_fn it_locs it_fields].
    change (0 =? 0) with true. cbn [negb].
    replace (cs =? 0) with false by lia.
    destruct (clean_scan cs d (ep_doc p0) (chk p0) 0 (map ep_doc rest_ps)) as [[[n nChunk] same] rest] eqn:ES.
    assert (Hsort : StronglySorted (fun a b => ep_doc a < ep_doc b) (p0 :: rest_ps)).
    { destruct Hwf as [Hsort _]. rewrite Hps in Hsort. apply (sorted_app_inv _ _ _ Hsort). }
    apply (clean_scan_spec d rest_ps p0 [] n nChunk same rest Hsort (Forall_nil _) (Forall_nil _)) in ES.
    destruct ES as (mid & sk' & p' & rest' & H1 & H2 & H3 & H4 & H5 & H6 & H7 & H8 & H9).
    cbn [app] in H1. subst n nChunk same rest.
    unfold set_cursors.
    cbn [it_norm1 it_doc1 it_all it_actual it_clean it_cs it_cur it_fr it_lr it_fn it_locs it_fields].
    destruct (ep_doc p' <? d) eqn:E.
    - left. assert (Hr : rest' = []) by (apply H9; lia). subst rest'. split.
      + rewrite H1, app_assoc. apply Forall_app. split; [exact H8 | constructor; [lia | constructor]].
      + eexists. reflexivity.
    - right.
      assert (H1' : p0 :: rest_ps = (mid ++ sk') ++ p' :: rest') by (rewrite <- app_assoc; exact H1).
      rewrite H1 in Hps, HI.
      rewrite (app_assoc mid) in Hps.
      destruct (decomp_facts _ _ _ _ Hps) as (Hin & Hsk & Hps').
      assert (HM : Mid (chk p') (mid ++ sk' ++ p' :: rest') cur fr lr)
        by (apply HI; apply in_or_app; right; apply in_or_app; right; left; reflexivity).
      apply mid_skip_many in HM; [| exact H7].
      destruct (repeat_ccn_ok (map ep_doc rest') (map ep_doc rest') true (chk p') sk' (p' :: rest') cur fr lr H6)
        as (cur1 & fr1 & lr1 & E1 & HM1); [| exact HM |].
      { intros q Hq. apply Hsk. apply in_or_app. right. exact Hq. }
      rewrite E1, rbind_ok.
      destruct (ensure_loaded (map ep_doc rest') (map ep_doc rest') true cur1 fr1 lr1
                              (chk p') p' rest' HM1 eq_refl Hin) as (fr2 & lr2 & E2 & HR).
      rewrite E2, rbind_ok.
      exists (mid ++ sk'), p', rest', fr2, lr2.
      split; [exact H1' |]. split; [exact H8 |]. split; [lia |]. split; [reflexivity | exact HR].
  Qed.

  (* ---- cursor invariant, both modes ---- *)
  Definition Cur (mode : option (N -> bool)) (suf : list EPosting) (al ac : list N) (cl : bool) : Prop :=
    match mode with
    | None => cl = true /\ ac = map ep_doc suf
    | Some lp => cl = false /\ al = map ep_doc suf /\ ac = filter lp (map ep_doc suf)
    end.
  Definition lp_of (mode : option (N -> bool)) : N -> bool :=
    match mode with None => fun _ => true | Some lp => lp end.

  Lemma nd_any mode d pre suf al ac cl cur fr lr :
    d < two32 -> ps = pre ++ suf -> Inv suf cur fr lr -> Cur mode suf al ac cl ->
    (Forall (lpP (lp_of mode) d) suf /\
     exists al', next_docnum (mk al ac cl cur fr lr) d = Ok (mk al' [] cl cur fr lr, None))
    \/ exists sk p' suf' fr' lr' al' ac',
         suf = sk ++ p' :: suf' /\ Forall (lpP (lp_of mode) d) sk /\ lp_of mode (ep_doc p') = true /\
         d <= ep_doc p' /\
         next_docnum (mk al ac cl cur fr lr) d = Ok (mk al' ac' cl (chk p') fr' lr', Some (ep_doc p')) /\
         Rd (chk p') (p' :: suf') fr' lr' /\ Cur mode suf' al' ac' cl.
  Proof.
    intros Hd Hps HI HC. destruct mode as [lp |]; cbn [Cur lp_of] in *.
    - destruct HC as (-> & -> & ->).
      destruct (nd_excl lp d pre suf cur fr lr Hd Hps HI)
        as [[HF HE] | (sk & p' & suf' & fr' & lr' & H1 & H2 & H3 & H4 & H5 & H6)].
      + left. split; assumption.
      + right. exists sk, p', suf', fr', lr', (map ep_doc suf'), (filter lp (map ep_doc suf')).
        repeat (split; [assumption |]). repeat split; reflexivity.
    - destruct HC as (-> & ->).
      destruct (nd_clean d pre suf al cur fr lr Hps HI)
        as [[HF HE] | (sk & p' & suf' & fr' & lr' & H1 & H2 & H4 & H5 & H6)].
      + left. split; [| exact HE]. eapply Forall_impl; [| exact HF]. intros q Hq. right. exact Hq.
      + right. exists sk, p', suf', fr', lr', (map ep_doc suf'), (map ep_doc suf').
        split; [exact H1 |]. split; [eapply Forall_impl; [| exact H2]; intros q Hq; right; exact Hq |].
        split; [reflexivity |]. repeat (split; [assumption |]). split; reflexivity.
  Qed.

  Lemma run_exhausted d1 al cl c0 cur fr lr fn lo fl (ops : list iter_op) :
    it_run (mkIt 0 d1 al [] cl c0 cur fr lr fn lo fl) ops = Ok (map (fun _ => None) ops).
  Proof.
    induction ops as [| op ops IH]; [reflexivity |].
    cbn [it_run]. rewrite it_step_d_of, naa_unfold. unfold next_docnum.
    cbn [it_norm1 it_actual]. change (0 =? 0) with true. cbn [negb].
    rewrite ?rbind_ok. cbv beta iota. rewrite ?rbind_ok. cbv beta iota. rewrite IH. reflexivity.
  Qed.

  Lemma wf_ops_d (op : iter_op) (ops : list iter_op) : wf_ops (op :: ops) -> d_of op < two32 /\ wf_ops ops.
  Proof.
    intros H. inversion H as [| ? ? H1 H2]; subst. split; [| exact H2].
    destruct op; [reflexivity | exact H1].
  Qed.

  Lemma run_ok mode : forall ops pre suf al ac cl cur fr lr,
    wf_ops ops -> ps = pre ++ suf -> Inv suf cur fr lr -> Cur mode suf al ac cl ->
    it_run (mk al ac cl cur fr lr) ops = Ok (spec_out true inclLocs (stf (lp_of mode) suf) ops).
  Proof.
    induction ops as [| op ops IH]; intros pre suf al ac cl cur fr lr Hops Hps HI HC; [reflexivity |].
    destruct (wf_ops_d _ _ Hops) as [Hd Hops'].
    cbn [it_run]. rewrite it_step_d_of, naa_unfold.
    unfold spec_out. cbn [spec_run]. rewrite spec_step_d_of.
    destruct (nd_any mode (d_of op) pre suf al ac cl cur fr lr Hd Hps HI HC)
      as [[HF (al' & E)] | (sk & p' & suf' & fr' & lr' & al' & ac' & H1 & H2 & H3 & H4 & E & HR & HC')].
    - rewrite E, rbind_ok. cbv beta iota. rewrite rbind_ok. cbv beta iota.
      rewrite run_exhausted, rbind_ok.
      rewrite (spec_miss (lp_of mode) (d_of op) suf HF).
      cbn [map option_map].
      pose proof (spec_out_nil true inclLocs ops) as Hnil. unfold spec_out in Hnil. rewrite Hnil.
      reflexivity.
    - rewrite E, rbind_ok. cbv beta iota.
      subst suf. destruct (decomp_facts _ _ _ _ Hps) as (Hin & Hsk & Hps').
      destruct (read_posting al' ac' cl (chk p') p' suf' fr' lr' HR eq_refl (wf_in p' Hin))
        as (fr2 & lr2 & E2 & HR2).
      rewrite E2, rbind_ok. cbv beta iota.
      rewrite (spec_hit (lp_of mode) (d_of op) p' suf' sk H2 H3 H4).
      rewrite (IH (pre ++ sk ++ [p']) suf' al' ac' cl (chk p') fr2 lr2 Hops').
      + rewrite rbind_ok. reflexivity.
      + rewrite Hps'. rewrite <- !app_assoc. reflexivity.
      + eapply inv_after; [exact Hps' | exact HR2].
      + exact HC'.
  Qed.

  Lemma inv_init cur fr lr : DecOK fr lr -> dec_isNil fr = true -> Inv ps cur fr lr.
  Proof.
    intros Hd Hn p Hp. right. split; [exact Hd |]. split; [right; exact Hn |]. split; reflexivity.
  Qed.

  (* ---- includeFreqNorm = false: only the cursors move ---- *)
  Notation mkn a b cl cur fr lr := (mkIt 0 0 a b cl cs cur fr lr false inclLocs fields).

  Lemma sync_nf al ac cl cur fr lr n c reach rest : forall sk,
    Forall (fun a => a <> n) sk ->
    sync_all (mkn al ac cl cur fr lr) n c reach (sk ++ n :: rest) = Ok (mkn al ac cl cur fr lr, rest).
  Proof.
    induction sk as [| a sk IH]; intros Hsk; cbn [app sync_all].
    - rewrite N.eqb_refl. reflexivity.
    - inversion Hsk as [| ? ? Ha Hsk']; subst.
      apply N.eqb_neq in Ha. rewrite Ha. cbn [it_fn andb]. rewrite rbind_ok. apply IH. exact Hsk'.
  Qed.

  Lemma nd_any_nf mode d pre suf al ac cl cur fr lr :
    d < two32 -> ps = pre ++ suf -> Cur mode suf al ac cl ->
    (Forall (lpP (lp_of mode) d) suf /\
     exists al', next_docnum (mkn al ac cl cur fr lr) d = Ok (mkn al' [] cl cur fr lr, None))
    \/ exists sk p' suf' al' ac',
         suf = sk ++ p' :: suf' /\ Forall (lpP (lp_of mode) d) sk /\ lp_of mode (ep_doc p') = true /\
         d <= ep_doc p' /\
         next_docnum (mkn al ac cl cur fr lr) d = Ok (mkn al' ac' cl cur fr lr, Some (ep_doc p')) /\
         Cur mode suf' al' ac' cl.
  Proof.
    intros Hd Hps HC. unfold next_docnum.
    cbn [it_norm1 it_doc1 it_all it_actual it_clean it_cs it_cur it_fr it_lr it_fn it_locs it_fields].
    change (0 =? 0) with true. cbn [negb]. rewrite (wrap32_small d Hd).
    replace (cs =? 0) with false by lia.
    destruct mode as [lp |]; cbn [Cur lp_of] in *.
    - destruct HC as (-> & -> & ->).
      destruct (drop_lt_decomp lp d suf) as [[HF HD] | (sk & p' & suf' & Hsuf & HF & Hlp & Hd' & HD)].
      + left. split; [exact HF |].
        destruct (filter lp (map ep_doc suf)) as [| n0 rest0].
        * eexists. reflexivity.
        * rewrite HD. unfold set_cursors.
          cbn [it_norm1 it_doc1 it_all it_actual it_clean it_cs it_cur it_fr it_lr it_fn it_locs it_fields].
          eexists. reflexivity.
      + right. exists sk, p', suf', (map ep_doc suf'), (filter lp (map ep_doc suf')).
        destruct (filter lp (map ep_doc suf)) as [| n0 rest0] eqn:Eac; [discriminate HD |].
        rewrite HD. subst suf.
        destruct (decomp_facts _ _ _ _ Hps) as (Hin & Hsk & Hps').
        rewrite map_app. cbn [map].
        rewrite sync_nf.
        * rewrite rbind_ok. cbv beta iota. unfold set_cursors.
          cbn [it_norm1 it_doc1 it_all it_actual it_clean it_cs it_cur it_fr it_lr it_fn it_locs it_fields andb].
          rewrite rbind_ok.
          do 4 (split; [auto |]). split; [reflexivity |]. repeat split; reflexivity.
        * apply Forall_forall. intros a Ha. apply in_map_iff in Ha. destruct Ha as (q & <- & Hq).
          destruct (Hsk q Hq) as [_ Hlt]. lia.
    - destruct HC as (-> & ->).
      destruct (drop_lt_decomp (fun _ => true) d suf)
        as [[HF HD] | (sk & p' & suf' & Hsuf & HF & Hlp & Hd' & HD)]; rewrite !filter_true in HD.
      + left. split; [exact HF |].
        destruct (map ep_doc suf) as [| n0 rest0].
        * eexists. reflexivity.
        * rewrite HD. unfold set_cursors.
          cbn [it_norm1 it_doc1 it_all it_actual it_clean it_cs it_cur it_fr it_lr it_fn it_locs it_fields].
          eexists. reflexivity.
      + right. exists sk, p', suf', (map ep_doc suf'), (map ep_doc suf').
        destruct (map ep_doc suf) as [| n0 rest0] eqn:Eac; [discriminate HD |].
        rewrite HD. unfold set_cursors.
        cbn [it_norm1 it_doc1 it_all it_actual it_clean it_cs it_cur it_fr it_lr it_fn it_locs it_fields].
        do 4 (split; [auto |]). split; [reflexivity |]. split; reflexivity.
  Qed.

  Lemma run_ok_nf mode : inclLocs = false -> forall ops pre suf al ac cl cur fr lr,
    wf_ops ops -> ps = pre ++ suf -> Cur mode suf al ac cl ->
    it_run (mkn al ac cl cur fr lr) ops = Ok (spec_out false inclLocs (stf (lp_of mode) suf) ops).
  Proof.
    intros HL.
    induction ops as [| op ops IH]; intros pre suf al ac cl cur fr lr Hops Hps HC; [reflexivity |].
    destruct (wf_ops_d _ _ Hops) as [Hd Hops'].
    cbn [it_run]. rewrite it_step_d_of, naa_unfold.
    unfold spec_out. cbn [spec_run]. rewrite spec_step_d_of.
    destruct (nd_any_nf mode (d_of op) pre suf al ac cl cur fr lr Hd Hps HC)
      as [[HF (al' & E)] | (sk & p' & suf' & al' & ac' & H1 & H2 & H3 & H4 & E & HC')].
    - rewrite E, rbind_ok. cbv beta iota. rewrite rbind_ok. cbv beta iota.
      rewrite run_exhausted, rbind_ok.
      rewrite (spec_miss (lp_of mode) (d_of op) suf HF).
      cbn [map option_map].
      pose proof (spec_out_nil false inclLocs ops) as Hnil. unfold spec_out in Hnil. rewrite Hnil.
      reflexivity.
    - rewrite E, rbind_ok. cbv beta iota.
      subst suf. destruct (decomp_facts _ _ _ _ Hps) as (Hin & Hsk & Hps').
      unfold finish. cbn [it_fn negb]. rewrite rbind_ok. cbv beta iota.
      rewrite (spec_hit (lp_of mode) (d_of op) p' suf' sk H2 H3 H4).
      rewrite (IH (pre ++ sk ++ [p']) suf' al' ac' cl cur fr lr Hops').
      + rewrite rbind_ok. cbn [map option_map]. unfold resolve_posting at 1. cbn [deliver].
        rewrite HL. reflexivity.
      + rewrite Hps'. rewrite <- !app_assoc. reflexivity.
      + exact HC'.
  Qed.

End Gen.

(* ================================================================== *)
(* the refinement theorems                                             *)
(* ================================================================== *)

Lemma sorted_filter {A} (R : A -> A -> Prop) (f : A -> bool) (l : list A) :
  StronglySorted R l -> StronglySorted R (filter f l).
Proof.
  induction 1 as [| a l Hs IH Hf]; cbn [filter]; [constructor |].
  destruct (f a); [| exact IH]. constructor; [exact IH |].
  rewrite Forall_forall in *. intros x Hx. apply filter_In in Hx. apply Hf. apply Hx.
Qed.

Lemma abm_filter (all abm : list N) :
  StronglySorted N.lt all -> StronglySorted N.lt abm -> (forall d, In d abm -> In d all) ->
  abm = filter (fun d => memN d abm) all.
Proof.
  intros Hall Habm Hsub. apply strict_sorted_N_ext.
  - exact Habm.
  - apply sorted_filter. exact Hall.
  - intros x. rewrite filter_In, memN_In. split; [intros H; split; auto | intros [_ H]; exact H].
Qed.

Lemma init_dec_ok (ps : list EPosting) (cs : N) (total : nat) (inclLocs : bool) (old : option It) :
  let fr0 := match old with Some o => dec_reset (it_fr o) | None => dec_fresh end in
  let lr0 := match old with Some o => dec_reset (it_lr o) | None => dec_fresh end in
  DecOK ps cs total inclLocs (dec_open fr0 (Some (chunks_of freq_entry cs total ps)))
        (if inclLocs then dec_open lr0 (if existsb ep_hasLocs ps then Some (chunks_of loc_entry cs total ps) else None)
         else lr0)
  /\ dec_isNil (dec_open fr0 (Some (chunks_of freq_entry cs total ps))) = true.
Proof.
  cbv zeta. split; [split |].
  - reflexivity.
  - intros ->. reflexivity.
  - destruct old; reflexivity.
Qed.

Theorem iter_refines_nofreq (fields : list bytes) (ps : list EPosting) (cs : N) (total : nat)
        (except : option (list N)) (old : option It) (ops : list iter_op) :
  wf_postings (length fields) ps -> 0 < cs ->
  (forall p, In p ps -> (N.to_nat (ep_doc p / cs) < total)%nat) -> wf_ops ops ->
  it_run (it_init (encode_gen cs total ps) except false false fields old) ops
  = Ok (spec_out false false
          (filter (fun p => live_opt except (fst p)) (map (resolve_posting fields) ps)) ops).
Proof.
  intros Hwf Hcs Htot Hops.
  unfold encode_gen, it_init. destruct except as [ex |].
  - apply (run_ok_nf fields ps cs total false Hwf Hcs Htot (Some (fun d => negb (memN d ex))) eq_refl ops [] ps);
      [exact Hops | reflexivity |].
    cbn [Cur]. repeat split; reflexivity.
  - apply (run_ok_nf fields ps cs total false Hwf Hcs Htot None eq_refl ops [] ps);
      [exact Hops | reflexivity |].
    cbn [Cur]. split; reflexivity.
Qed.

Theorem iter_refines (fields : list bytes) (ps : list EPosting) (cs : N) (total : nat)
        (except : option (list N)) (inclFN inclLocs : bool) (old : option It) (ops : list iter_op) :
  wf_postings (length fields) ps -> 0 < cs ->
  (forall p, In p ps -> (N.to_nat (ep_doc p / cs) < total)%nat) ->
  (inclLocs = true -> inclFN = true) -> wf_ops ops ->
  it_run (it_init (encode_gen cs total ps) except inclFN inclLocs fields old) ops
  = Ok (spec_out inclFN inclLocs
          (filter (fun p => live_opt except (fst p)) (map (resolve_posting fields) ps)) ops).
Proof.
  intros Hwf Hcs Htot Hfl Hops.
  destruct inclFN.
  2:{ destruct inclLocs; [specialize (Hfl eq_refl); discriminate |].
      apply iter_refines_nofreq; assumption. }
  destruct (init_dec_ok ps cs total inclLocs old) as [Hdec Hnil]. cbv zeta in Hdec, Hnil.
  unfold encode_gen, it_init. destruct except as [ex |].
  - apply (run_ok fields ps cs total inclLocs Hwf Hcs Htot (Some (fun d => negb (memN d ex))) ops [] ps);
      [exact Hops | reflexivity | |].
    + apply inv_init; assumption.
    + cbn [Cur]. repeat split; reflexivity.
  - apply (run_ok fields ps cs total inclLocs Hwf Hcs Htot None ops [] ps);
      [exact Hops | reflexivity | |].
    + apply inv_init; assumption.
    + cbn [Cur]. split; reflexivity.
Qed.

Theorem iter_refines_replaced (fields : list bytes) (ps : list EPosting) (cs : N) (total : nat)
        (except : option (list N)) (inclFN inclLocs : bool) (old : option It) (abm : list N) (ops : list iter_op) :
  wf_postings (length fields) ps -> 0 < cs ->
  (forall p, In p ps -> (N.to_nat (ep_doc p / cs) < total)%nat) ->
  (inclLocs = true -> inclFN = true) -> wf_ops ops ->
  StronglySorted N.lt abm -> (forall d, In d abm -> In d (map ep_doc ps)) ->
  it_run (it_replace (it_init (encode_gen cs total ps) except inclFN inclLocs fields old) abm) ops
  = Ok (spec_out inclFN inclLocs
          (filter (fun p => memN (fst p) abm) (map (resolve_posting fields) ps)) ops).
Proof.
  intros Hwf Hcs Htot Hfl Hops Habm Hsub.
  assert (HC : Cur (Some (fun d => memN d abm)) ps (map ep_doc ps) abm false).
  { cbn [Cur]. split; [reflexivity |]. split; [reflexivity |].
    apply abm_filter; [| exact Habm | exact Hsub].
    apply sorted_map_doc. apply Hwf. }
  destruct inclFN.
  - destruct (init_dec_ok ps cs total inclLocs old) as [Hdec Hnil]. cbv zeta in Hdec, Hnil.
    unfold encode_gen, it_init, it_replace.
    destruct except as [ex |];
      cbn [it_norm1 it_doc1 it_all it_actual it_clean it_cs it_cur it_fr it_lr it_fn it_locs it_fields];
      (apply (run_ok fields ps cs total inclLocs Hwf Hcs Htot (Some (fun d => memN d abm)) ops [] ps);
       [exact Hops | reflexivity | apply inv_init; assumption | exact HC]).
  - destruct inclLocs; [specialize (Hfl eq_refl); discriminate |].
    unfold encode_gen, it_init, it_replace.
    destruct except as [ex |];
      cbn [it_norm1 it_doc1 it_all it_actual it_clean it_cs it_cur it_fr it_lr it_fn it_locs it_fields];
      (apply (run_ok_nf fields ps cs total false Hwf Hcs Htot (Some (fun d => memN d abm)) eq_refl ops [] ps);
       [exact Hops | reflexivity | exact HC]).
Qed.

(* ================================================================== *)
(* non-vacuity                                                         *)
(* ================================================================== *)

Definition ex_fields : list bytes := [[95; 105; 100]; [98]].
Definition ex_ps : list EPosting :=
  [ (0, (2, (1065353216, [(0, (1, (0, 5))); (1, (3, (10, 15)))])));
    (2, (1, (1056964608, [])));
    (3, (3, (1050000000, [(1, (2, (4, 300)))])));
    (7, (1, (1065353216, [(0, (200, (1000, 1005)))])));
    (9, (4, (1040000000, []))) ].
Definition ex_ops : list iter_op := [INext; IAdvance 3; INext; IAdvance 20; INext].

Definition ex_expected : list (option APosting) :=
  [ Some (0, (2, (1065353216, [([95; 105; 100], (1, (0, 5))); ([98], (3, (10, 15)))])));
    Some (7, (1, (1065353216, [([95; 105; 100], (200, (1000, 1005)))])));
    Some (9, (4, (1040000000, [])));
    None; None ].

Example ex_wf : wf_postings 2 ex_ps.
Proof.
  split.
  - repeat constructor.
  - unfold ex_ps. repeat (apply Forall_cons || apply Forall_nil);
      unfold wf_posting, wf_loc, ep_doc, ep_freq, ep_norm, ep_locs; cbn [fst snd length map];
      repeat (apply Forall_cons || apply Forall_nil || split); try (vm_compute; reflexivity); vm_compute; lia.
Qed.

Example ex_hyps :
  0 < 2 /\ (forall p, In p ex_ps -> (N.to_nat (ep_doc p / 2) < 5)%nat) /\ wf_ops ex_ops.
Proof.
  split; [reflexivity |]. split.
  - intros p Hp. cbn [ex_ps In] in Hp.
    repeat (destruct Hp as [<- | Hp]; [vm_compute; lia |]). destruct Hp.
  - repeat constructor.
Qed.

Example ex_both_sides :
  it_run (it_init (encode_gen 2 5 ex_ps) (Some [3]) true true ex_fields None) ex_ops = Ok ex_expected
  /\ spec_out true true
       (filter (fun p => live_opt (Some [3]) (fst p)) (map (resolve_posting ex_fields) ex_ps)) ex_ops
     = ex_expected.
Proof. split; vm_compute; reflexivity. Qed.

(* the same equation obtained from the theorem *)
Example ex_by_theorem :
  it_run (it_init (encode_gen 2 5 ex_ps) (Some [3]) true true ex_fields None) ex_ops
  = Ok (spec_out true true
          (filter (fun p => live_opt (Some [3]) (fst p)) (map (resolve_posting ex_fields) ex_ps)) ex_ops).
Proof.
  destruct ex_hyps as (H1 & H2 & H3).
  apply (iter_refines ex_fields ex_ps 2 5 (Some [3]) true true None ex_ops ex_wf H1 H2 (fun _ => eq_refl) H3).
Qed.


(* IntCoder_Proofs.v - the chunkedIntCoder of IntCoder.v writes, for every chunk,
   exactly the byte stream that Postings.chunks_of describes, and the reader
   side (newChunkedIntDecoder / loadChunk) finds it again. *)
From Coq Require Import List Arith NArith ZArith Bool Lia Sorting.Sorted.
From Ice Require Import Base Varint Chunk Postings IntCoder.
From IceProofs Require Import Varint_Proofs Iterator_Proofs.
Import ListNotations.
Open Scope N_scope.
Require Import ZifyBool ZifyN ZifyNat.
(* quotients stay opaque atoms for lia: only their monotonicity is used *)

(* ================================================================== *)
(* lists                                                               *)
(* ================================================================== *)

Lemma list_set_app (pre : list N) : forall (x : N) (post : list N) (v : N),
  list_set (pre ++ x :: post) (length pre) v = Some (pre ++ v :: post).
Proof.
  induction pre as [| y pre IH]; intros x post v.
  - reflexivity.
  - cbn [app length list_set]. rewrite IH. reflexivity.
Qed.

Lemma lenN_app {A} (a b : list A) : lenN (a ++ b) = lenN a + lenN b.
Proof. unfold lenN. rewrite app_length. lia. Qed.

Lemma firstn_all_zero (n : nat) : forall l : list N,
  Forall (eq 0) l -> (n <= length l)%nat -> firstn n l = repeat 0 n.
Proof.
  induction n as [| n IH]; intros l Hz Hl.
  - reflexivity.
  - destruct l as [| x l]; [cbn [length] in Hl; lia |].
    inversion Hz as [| ? ? Hx Hz']; subst.
    cbn [firstn repeat]. f_equal. apply IH; [exact Hz' |]. cbn [length] in Hl. lia.
Qed.

Lemma concat_repeat_nil {A} (n : nat) : concat (repeat (@nil A) n) = [].
Proof. induction n as [| n IH]; [reflexivity |]. cbn [repeat concat]. exact IH. Qed.

Lemma map_lenN_repeat_nil (n : nat) : map (@lenN N) (repeat [] n) = repeat 0 n.
Proof. induction n as [| n IH]; [reflexivity |]. cbn [repeat map]. rewrite IH. reflexivity. Qed.

Lemma nth_split_at {A} (d : A) (l : list A) : forall k, (k < length l)%nat ->
  l = firstn k l ++ nth k l d :: skipn (S k) l.
Proof.
  induction l as [| x l IH]; intros k Hk.
  - cbn [length] in Hk. lia.
  - destruct k as [| k].
    + reflexivity.
    + cbn [firstn nth skipn app]. f_equal. apply IH. cbn [length] in Hk. lia.
Qed.

Lemma firstn_S_nth {A} (d : A) (l : list A) : forall k, (k < length l)%nat ->
  firstn (S k) l = firstn k l ++ [nth k l d].
Proof.
  induction l as [| x l IH]; intros k Hk.
  - cbn [length] in Hk. lia.
  - destruct k as [| k].
    + reflexivity.
    + change (firstn (S (S k)) (x :: l)) with (x :: firstn (S k) l).
      rewrite IH by (cbn [length] in Hk; lia). reflexivity.
Qed.

Lemma nth_map_seq {A} (f : nat -> A) (d : A) : forall n s k, (k < n)%nat ->
  nth k (map f (seq s n)) d = f (s + k)%nat.
Proof.
  induction n as [| n IH]; intros s k Hk; [lia |].
  destruct k as [| k].
  - cbn [seq map nth]. f_equal. lia.
  - cbn [seq map nth]. rewrite IH by lia. f_equal. lia.
Qed.

Lemma sorted_weaken {A} (R R' : A -> A -> Prop) (l : list A) :
  (forall a b, R a b -> R' a b) -> StronglySorted R l -> StronglySorted R' l.
Proof.
  intros HR H. induction H as [| a l Hs IH Hf].
  - constructor.
  - constructor; [exact IH |]. eapply Forall_impl; [| exact Hf]. intros b. apply HR.
Qed.

Lemma sorted_app {A} (R : A -> A -> Prop) (a b : list A) :
  StronglySorted R a -> StronglySorted R b -> (forall x y, In x a -> In y b -> R x y) ->
  StronglySorted R (a ++ b).
Proof.
  intros Ha Hb Hab. induction Ha as [| x a Hs IH Hf].
  - exact Hb.
  - cbn [app]. constructor.
    + apply IH. intros u v Hu Hv. apply Hab; [right; exact Hu | exact Hv].
    + apply Forall_app. split; [exact Hf |].
      apply Forall_forall. intros y Hy. apply Hab; [left; reflexivity | exact Hy].
Qed.

Lemma flat_map'_app {A B} (f : A -> list B) (a b : list A) :
  flat_map' f (a ++ b) = flat_map' f a ++ flat_map' f b.
Proof.
  induction a as [| x a IH]; [reflexivity |].
  cbn [app flat_map']. rewrite IH, app_assoc. reflexivity.
Qed.

Lemma flat_map'_map {A B C} (g : A -> B) (f : B -> list C) (l : list A) :
  flat_map' f (map g l) = flat_map' (fun x => f (g x)) l.
Proof. induction l as [| x l IH]; [reflexivity |]. cbn [map flat_map']. rewrite IH. reflexivity. Qed.

Lemma flat_map'_flat_map' {A B C} (g : A -> list B) (f : B -> list C) (l : list A) :
  flat_map' f (flat_map' g l) = flat_map' (fun x => flat_map' f (g x)) l.
Proof.
  induction l as [| x l IH]; [reflexivity |].
  cbn [flat_map']. rewrite flat_map'_app, IH. reflexivity.
Qed.

Lemma flat_map'_ext_in {A B} (f g : A -> list B) (l : list A) :
  (forall x, In x l -> f x = g x) -> flat_map' f l = flat_map' g l.
Proof.
  induction l as [| x l IH]; intros H; [reflexivity |].
  cbn [flat_map']. rewrite (H x (or_introl eq_refl)). f_equal.
  apply IH. intros y Hy. apply H. right. exact Hy.
Qed.

Lemma flat_map'_nil_iff {A B} (f : A -> list B) (l : list A) :
  flat_map' f l = [] <-> (forall x, In x l -> f x = []).
Proof.
  induction l as [| x l IH].
  - split; [intros _ y [] | reflexivity].
  - cbn [flat_map']. split.
    + intros H. apply app_eq_nil in H. destruct H as [Hx Hl].
      intros y [Hy | Hy]; [subst; exact Hx | apply IH; assumption].
    + intros H. rewrite (H x (or_introl eq_refl)). cbn [app]. apply IH.
      intros y Hy. apply H. right. exact Hy.
Qed.

Lemma concat_nil_iff {A} (l : list (list A)) : concat l = [] <-> (forall x, In x l -> x = []).
Proof.
  induction l as [| x l IH].
  - split; [intros _ y [] | reflexivity].
  - cbn [concat]. split.
    + intros H. apply app_eq_nil in H. destruct H as [Hx Hl].
      intros y [Hy | Hy]; [subst; reflexivity | apply IH; assumption].
    + intros H. rewrite (H x (or_introl eq_refl)). cbn [app]. apply IH.
      intros y Hy. apply H. right. exact Hy.
Qed.

(* ================================================================== *)
(* end offsets cut a concatenation back into its pieces                *)
(* ================================================================== *)

Lemma nthN_end_offsets (chunks : list bytes) : forall acc k, (k < length chunks)%nat ->
  nthN (end_offsets acc (map (@lenN N) chunks)) k = Some (acc + lenN (concat (firstn (S k) chunks))).
Proof.
  induction chunks as [| ch chunks IH]; intros acc k Hk.
  - cbn [length] in Hk. lia.
  - cbn [map end_offsets]. destruct k as [| k].
    + cbn [nthN firstn concat]. rewrite app_nil_r. reflexivity.
    + cbn [nthN]. rewrite IH by (cbn [length] in Hk; lia).
      change (firstn (S (S k)) (ch :: chunks)) with (ch :: firstn (S k) chunks).
      cbn [concat]. rewrite lenN_app. f_equal. lia.
Qed.

Lemma boundary_end_offsets (chunks : list bytes) (k : nat) : (k < length chunks)%nat ->
  readChunkBoundary k (modify_lengths_to_end_offsets (map (@lenN N) chunks))
  = Some (lenN (concat (firstn k chunks)), lenN (concat (firstn (S k) chunks))).
Proof.
  intros Hk. unfold readChunkBoundary, modify_lengths_to_end_offsets.
  rewrite nthN_end_offsets by exact Hk. destruct k as [| k].
  - reflexivity.
  - rewrite nthN_end_offsets by lia. reflexivity.
Qed.

Lemma slice_middle (a b c : bytes) : slice (a ++ b ++ c) (lenN a) (lenN a + lenN b) = b.
Proof.
  unfold slice, lenN.
  replace (N.to_nat (N.of_nat (length a))) with (length a + 0)%nat by lia.
  rewrite skipn_app. rewrite skipn_all2 by lia.
  replace (length a + 0 - length a)%nat with 0%nat by lia. cbn [skipn app].
  replace (N.to_nat (N.of_nat (length a) + N.of_nat (length b) - N.of_nat (length a)))
    with (length b + 0)%nat by lia.
  rewrite firstn_app_2. cbn [firstn]. apply app_nil_r.
Qed.

Lemma length_modify (lens : list N) : length (modify_lengths_to_end_offsets lens) = length lens.
Proof.
  unfold modify_lengths_to_end_offsets. generalize 0.
  induction lens as [| x lens IH]; intros acc; [reflexivity |].
  cbn [end_offsets length]. rewrite IH. reflexivity.
Qed.

(* the k-th piece of a concatenation, found through the end offsets of the
   lengths, whatever follows the concatenation *)
Lemma slice_chunks (chunks : list bytes) (rest : bytes) (k : nat) : (k < length chunks)%nat ->
  exists s e,
    readChunkBoundary k (modify_lengths_to_end_offsets (map (@lenN N) chunks)) = Some (s, e) /\
    s <= e /\ e <= lenN (concat chunks ++ rest) /\
    slice (concat chunks ++ rest) s e = nth k chunks [].
Proof.
  intros Hk.
  exists (lenN (concat (firstn k chunks))), (lenN (concat (firstn (S k) chunks))).
  split; [apply boundary_end_offsets; exact Hk |].
  rewrite (@firstn_S_nth bytes [] chunks k Hk), concat_app. cbn [concat]. rewrite app_nil_r.
  rewrite lenN_app.
  assert (Hc : concat chunks
               = concat (firstn k chunks) ++ nth k chunks [] ++ concat (skipn (S k) chunks)).
  { rewrite (@nth_split_at bytes [] chunks k Hk) at 1. rewrite concat_app. reflexivity. }
  rewrite Hc. rewrite <- !app_assoc.
  split; [lia |]. split.
  - rewrite !lenN_app. lia.
  - apply slice_middle.
Qed.

(* ================================================================== *)
(* (c) the header written by Write is read back by newChunkedIntDecoder *)
(* ================================================================== *)

Lemma read_uvarints_n_many (n : nat) : forall s, read_uvarints_n n s = read_many n s.
Proof.
  induction n as [| n IH]; intros s; [reflexivity |].
  cbn [read_uvarints_n read_many].
  destruct (read_uvarint s) as [[[v |] s'] |]; [rewrite IH | |]; reflexivity.
Qed.

Theorem header_roundtrip (c : coder) (rest : bytes) :
  let offs := modify_lengths_to_end_offsets (co_chunkLens c) in
  lenN offs < two64 -> Forall (fun x => x < two64) offs ->
  decoder_open (coder_write c ++ rest) = Some (offs, co_final c ++ rest).
Proof.
  intros offs Hn Hoffs. unfold decoder_open, coder_write. fold offs.
  rewrite <- !app_assoc. rewrite read_put_uvarint by exact Hn.
  rewrite read_uvarints_n_many. unfold lenN. rewrite Nat2N.id.
  apply read_put_uvarints. exact Hoffs.
Qed.

Lemma end_offsets_le (chunks : list bytes) : forall acc,
  Forall (fun x => x <= acc + lenN (concat chunks)) (end_offsets acc (map (@lenN N) chunks)).
Proof.
  induction chunks as [| ch chunks IH]; intros acc; cbn [map end_offsets concat].
  - constructor.
  - rewrite lenN_app. constructor; [lia |].
    eapply Forall_impl; [| apply IH]. cbn beta. intros x Hx. lia.
Qed.

(* ================================================================== *)
(* the coder                                                           *)
(* ================================================================== *)

Definition entry := (N * list N)%type.
Definition le_doc (a b : entry) : Prop := fst a <= fst b.

Lemma ES_cons cs c (e : entry) es :
  entries_stream cs c (e :: es)
  = (if fst e / cs =? c then put_uvarints (snd e) else []) ++ entries_stream cs c es.
Proof. reflexivity. Qed.

Lemma ES_other cs c (es : list entry) :
  Forall (fun e => fst e / cs <> c) es -> entries_stream cs c es = [].
Proof.
  intros H. unfold entries_stream. apply flat_map'_nil_iff. intros e He.
  rewrite Forall_forall in H. specialize (H e He).
  destruct (N.eqb_spec (fst e / cs) c) as [E | E]; [contradiction | reflexivity].
Qed.

Section ZSTD.
  Variables zc zd : bytes -> bytes.
  Hypothesis zd_zc : forall b, zd (zc b) = b.
  Hypothesis zc_nil : zc [] = [].
  Hypothesis zc_nonnil : forall b, b <> [] -> zc b <> [].

  Lemma zd_nil : zd [] = [].
  Proof. rewrite <- zc_nil at 1. apply zd_zc. Qed.

  Lemma zc_nil_iff (b : bytes) : zc b = [] <-> b = [].
  Proof.
    split; [| intros ->; exact zc_nil].
    intros H. destruct b as [| x b]; [reflexivity |].
    exfalso. apply (zc_nonnil (x :: b)); [discriminate | exact H].
  Qed.

  (* the compressed chunks s, s+1, ..., s+n-1 of a list of entries *)
  Definition zchunks (cs : N) (es : list entry) (s n : nat) : list bytes :=
    map (fun k => zc (entries_stream cs (N.of_nat k) es)) (seq s n).

  Lemma zchunks_nil cs s n : zchunks cs [] s n = repeat [] n.
  Proof.
    unfold zchunks. revert s. induction n as [| n IH]; intros s; [reflexivity |].
    cbn [seq map repeat]. rewrite IH. f_equal. exact zc_nil.
  Qed.

  Lemma zchunks_empty cs (es : list entry) : forall n s,
    Forall (fun e => N.of_nat (s + n) <= fst e / cs) es -> zchunks cs es s n = repeat [] n.
  Proof.
    unfold zchunks. induction n as [| n IH]; intros s H; [reflexivity |].
    cbn [seq map repeat]. rewrite IH.
    - f_equal. rewrite ES_other; [exact zc_nil |].
      eapply Forall_impl; [| exact H]. cbn beta. intros e He. lia.
    - eapply Forall_impl; [| exact H]. cbn beta. intros e He. lia.
  Qed.

  Lemma zchunks_skip cs (e : entry) (es : list entry) : forall n s,
    fst e / cs < N.of_nat s -> zchunks cs (e :: es) s n = zchunks cs es s n.
  Proof.
    unfold zchunks. intros n s H. apply map_ext_in. intros k Hk. apply in_seq in Hk.
    rewrite ES_cons. destruct (N.eqb_spec (fst e / cs) (N.of_nat k)) as [E | E]; [lia | reflexivity].
  Qed.

  Lemma zchunks_app cs es s n m : zchunks cs es s (n + m) = zchunks cs es s n ++ zchunks cs es (s + n) m.
  Proof. unfold zchunks. rewrite seq_app, map_app. reflexivity. Qed.

  Lemma close_at (f : bytes) (cs : N) (b : bytes) (pre : list N) (x : N) (post : list N) :
    coder_close zc (mkCoder f cs b (pre ++ x :: post) (N.of_nat (length pre)))
    = Ok (mkCoder (f ++ zc b) cs b (pre ++ lenN (zc b) :: post) (lenN (pre ++ x :: post))).
  Proof.
    unfold coder_close. cbn [co_chunkBuf co_chunkLens co_currChunk co_final co_chunkSize].
    rewrite Nat2N.id, list_set_app. do 2 f_equal.
    unfold lenN. rewrite !app_length. reflexivity.
  Qed.

  (* the Add loop followed by Close, from a coder that is in the middle of
     chunk j with [b] in its buffer, [pre] the lengths of the chunks before j,
     and S n slots still zero *)
  Lemma adds_close (cs : N) : 0 < cs -> forall (es : list entry) (j n : nat) (f b : bytes) (pre : list N),
    StronglySorted (fun a a' : entry => fst a / cs <= fst a' / cs) es ->
    Forall (fun e => N.of_nat j <= fst e / cs < N.of_nat (j + S n)) es ->
    length pre = j ->
    exists b',
      (do c2 <- coder_adds zc (mkCoder f cs b (pre ++ repeat 0 (S n)) (N.of_nat j)) es; coder_close zc c2)
      = Ok (mkCoder (f ++ zc (b ++ entries_stream cs (N.of_nat j) es) ++ concat (zchunks cs es (S j) n))
                    cs b'
                    (pre ++ lenN (zc (b ++ entries_stream cs (N.of_nat j) es))
                         :: map (@lenN N) (zchunks cs es (S j) n))
                    (N.of_nat (j + S n))).
  Proof.
    intros Hcs. induction es as [| e es IH]; intros j n f b pre Hsort Hrange Hpre.
    - exists b. cbn [coder_adds rbind]. subst j. cbn [repeat]. rewrite close_at.
      rewrite zchunks_nil, concat_repeat_nil, map_lenN_repeat_nil.
      unfold entries_stream. cbn [flat_map']. rewrite !app_nil_r.
      do 2 f_equal. unfold lenN. rewrite app_length. cbn [length]. rewrite repeat_length. lia.
    - inversion Hsort as [| ? ? Hsort' Hle]; subst.
      inversion Hrange as [| ? ? He Hrange']; subst.
      cbn [coder_adds]. unfold coder_add at 1.
      cbn [co_chunkSize co_currChunk co_final co_chunkBuf co_chunkLens].
      destruct (N.eqb_spec cs 0) as [Ez | _]; [lia |].
      destruct (N.eqb_spec (fst e / cs) (N.of_nat (length pre))) as [Ej | Ej]; cbn [negb rbind].
      + (* same chunk *)
        cbn [co_chunkSize co_currChunk co_final co_chunkBuf co_chunkLens].
        destruct (IH (length pre) n f (b ++ add_bytes (snd e)) pre Hsort' Hrange' eq_refl) as [b' Hb'].
        exists b'. rewrite Hb'. rewrite ES_cons. rewrite Ej, N.eqb_refl.
        rewrite zchunks_skip by lia. unfold add_bytes. rewrite <- !app_assoc. reflexivity.
      + (* a later chunk: Close, then start chunk j' *)
        set (j := length pre) in *.
        remember (N.to_nat (fst e / cs)) as j' eqn:Ej'.
        assert (Hj' : fst e / cs = N.of_nat j') by lia.
        assert (Hlt : (j < j' < j + S n)%nat) by lia.
        set (d := (j' - j - 1)%nat).
        set (n' := (n - d - 1)%nat).
        assert (Hn : n = (d + S n')%nat) by (unfold d, n'; lia).
        change (repeat 0 (S n)) with (0 :: repeat 0 n).
        unfold j at 1. rewrite close_at. cbn [rbind co_chunkSize co_currChunk co_final co_chunkBuf co_chunkLens].
        rewrite Hj'.
        assert (Hrange2 : Forall (fun a : entry => N.of_nat j' <= fst a / cs < N.of_nat (j' + S n')) es).
        { rewrite Forall_forall in *. intros a Ha. specialize (Hle a Ha). specialize (Hrange' a Ha).
          cbn beta in *. lia. }
        assert (Hlens : pre ++ lenN (zc b) :: repeat 0 n
                        = (pre ++ lenN (zc b) :: repeat 0 d) ++ repeat 0 (S n')).
        { rewrite Hn, repeat_app, <- app_assoc. reflexivity. }
        rewrite Hlens.
        assert (Hpre2 : length (pre ++ lenN (zc b) :: repeat 0 d) = j').
        { rewrite app_length. cbn [length]. rewrite repeat_length. fold j. unfold d. lia. }
        destruct (IH j' n' (f ++ zc b) ([] ++ add_bytes (snd e)) (pre ++ lenN (zc b) :: repeat 0 d)
                     Hsort' Hrange2 Hpre2) as [b' Hb'].
        exists b'. rewrite Hb'. clear Hb' IH.
        (* the streams of e :: es *)
        assert (Hj0 : entries_stream cs (N.of_nat j) (e :: es) = []).
        { apply ES_other. constructor; [lia |].
          eapply Forall_impl; [| exact Hrange2]. cbn beta. intros a Ha. lia. }
        rewrite Hj0, app_nil_r.
        rewrite Hn, zchunks_app.
        rewrite (zchunks_empty cs (e :: es) d (S j)).
        2:{ constructor; [lia |]. eapply Forall_impl; [| exact Hrange2]. cbn beta. intros a Ha. lia. }
        replace (S j + d)%nat with j' by (unfold d; lia).
        assert (Hz : zchunks cs (e :: es) j' (S n')
                     = zc (add_bytes (snd e) ++ entries_stream cs (N.of_nat j') es) :: zchunks cs es (S j') n').
        { unfold zchunks at 1. cbn [seq map]. rewrite ES_cons, Hj', N.eqb_refl.
          f_equal. fold (zchunks cs (e :: es) (S j') n'). apply zchunks_skip. lia. }
        rewrite Hz. rewrite concat_app, concat_repeat_nil. cbn [app concat].
        rewrite map_app, map_lenN_repeat_nil. cbn [map].
        rewrite <- !app_assoc. cbn [app].
        do 2 f_equal. lia.
  Qed.

  (* ---- coders that may start a term ---- *)
  Definition is_reset (c : coder) : Prop :=
    co_final c = [] /\ co_chunkBuf c = [] /\ co_currChunk c = 0 /\ Forall (eq 0) (co_chunkLens c).

  Lemma reset_is_reset (c : coder) : is_reset (coder_reset c).
  Proof.
    unfold is_reset, coder_reset. cbn [co_final co_chunkBuf co_currChunk co_chunkLens].
    repeat split. apply Forall_forall. intros x Hx. apply in_map_iff in Hx.
    destruct Hx as [y [Hy _]]. exact Hy.
  Qed.

  Lemma new_is_reset (cs m : N) (c : coder) : coder_new cs m = Ok c -> is_reset c.
  Proof.
    unfold coder_new. destruct (cs =? 0); [discriminate |]. intros H. injection H as <-.
    unfold is_reset. cbn [co_final co_chunkBuf co_currChunk co_chunkLens].
    repeat split. apply Forall_forall. intros x Hx. apply repeat_spec in Hx. symmetry. exact Hx.
  Qed.

  (* Write turns the lengths into offsets in place; Reset makes the coder
     reusable all the same *)
  Lemma reset_after_write (c : coder) :
    is_reset (coder_reset (coder_after_write c)) /\
    length (co_chunkLens (coder_reset (coder_after_write c))) = length (co_chunkLens c).
  Proof.
    split; [apply reset_is_reset |].
    unfold coder_reset, coder_after_write. cbn [co_chunkLens]. rewrite map_length. apply length_modify.
  Qed.

  Lemma setChunkSize_reset (c0 : coder) (cs m : N) : is_reset c0 -> 0 < cs ->
    coder_setChunkSize c0 cs m = Ok (mkCoder [] cs [] (repeat 0 (N.to_nat (total_chunks cs m))) 0).
  Proof.
    intros [Hf [Hb [Hc Hz]]] Hcs. unfold coder_setChunkSize.
    destruct (N.eqb_spec cs 0) as [E | _]; [lia |].
    rewrite Hf, Hb, Hc. do 2 f_equal.
    destruct (Nat.ltb_spec (length (co_chunkLens c0)) (N.to_nat (total_chunks cs m))) as [Hl | Hl].
    - reflexivity.
    - apply firstn_all_zero; assumption.
  Qed.

  (* ---- the whole term: what final and chunkLens hold after Close ---- *)
  Theorem run_term_from_chunks (c0 : coder) (cs m : N) (es : list entry) :
    is_reset c0 -> 0 < cs -> m / cs + 1 < two64 ->
    StronglySorted le_doc es -> Forall (fun e => fst e <= m) es ->
    let total := N.to_nat (m / cs + 1) in
    exists c,
      run_term_from zc c0 cs m es = Ok c /\
      co_final c = concat (zchunks cs es 0 total) /\
      co_chunkLens c = map (@lenN N) (zchunks cs es 0 total) /\
      co_chunkSize c = cs /\
      co_currChunk c = N.of_nat total.
  Proof.
    intros Hr Hcs Hw Hsort Hmax. cbv zeta.
    remember (N.to_nat (m / cs + 1)) as total eqn:Etot.
    unfold run_term_from. rewrite (setChunkSize_reset c0 cs m Hr Hcs). cbn [rbind].
    assert (Ht : total_chunks cs m = m / cs + 1).
    { unfold total_chunks, num_chunks. apply wrap64_small. exact Hw. }
    rewrite Ht, <- Etot.
    destruct total as [| n]; [lia |].
    assert (Hsort' : StronglySorted (fun a a' : entry => fst a / cs <= fst a' / cs) es).
    { eapply sorted_weaken; [| exact Hsort]. intros a a' Ha. unfold le_doc in Ha.
      apply N.div_le_mono; lia. }
    assert (Hrange : Forall (fun e : entry => N.of_nat 0 <= fst e / cs < N.of_nat (0 + S n)) es).
    { eapply Forall_impl; [| exact Hmax]. cbn beta. intros e He.
      assert (Hd : fst e / cs <= m / cs) by (apply N.div_le_mono; lia).
      revert Hd Etot. generalize (fst e / cs) (m / cs). intros q1 q2 Hd Etot. lia. }
    destruct (adds_close cs Hcs es 0 n [] [] [] Hsort' Hrange eq_refl) as [b' Hb'].
    cbn [app] in Hb'. change (N.of_nat 0) with 0 in Hb'. rewrite Hb'.
    eexists. split; [reflexivity |].
    cbn [co_final co_chunkLens co_chunkSize co_currChunk].
    unfold zchunks at 3 4. cbn [seq map concat]. change (N.of_nat 0) with 0.
    repeat split.
  Qed.

  Theorem run_term_chunks (cs m : N) (es : list entry) :
    0 < cs -> m / cs + 1 < two64 ->
    StronglySorted le_doc es -> Forall (fun e => fst e <= m) es ->
    let total := N.to_nat (m / cs + 1) in
    exists c,
      run_term zc cs m es = Ok c /\
      co_final c = concat (zchunks cs es 0 total) /\
      co_chunkLens c = map (@lenN N) (zchunks cs es 0 total) /\
      co_chunkSize c = cs /\
      co_currChunk c = N.of_nat total.
  Proof.
    intros Hcs Hw Hsort Hmax. unfold run_term.
    destruct (coder_new legacyChunkMode m) as [c0 | | | |] eqn:Enew;
      try (unfold coder_new in Enew; cbn in Enew; discriminate).
    cbn [rbind]. apply run_term_from_chunks; try assumption.
    eapply new_is_reset. exact Enew.
  Qed.

  (* ---- (a) every chunk is found again and decompresses to its stream ---- *)
  Lemma chunks_decode (c : coder) (cs : N) (es : list entry) (total : nat) (rest : bytes) :
    co_final c = concat (zchunks cs es 0 total) ->
    co_chunkLens c = map (@lenN N) (zchunks cs es 0 total) ->
    length (co_chunkLens c) = total /\
    forall k, (k < total)%nat ->
      decoder_chunk zd (modify_lengths_to_end_offsets (co_chunkLens c)) (co_final c ++ rest) k
      = Ok (entries_stream cs (N.of_nat k) es).
  Proof.
    intros Hf Hl.
    assert (Hlen : length (zchunks cs es 0 total) = total).
    { unfold zchunks. rewrite map_length, seq_length. reflexivity. }
    assert (Hlen2 : length (co_chunkLens c) = total) by (rewrite Hl, map_length; exact Hlen).
    split; [exact Hlen2 |].
    intros k Hk. unfold decoder_chunk. rewrite length_modify, Hlen2, Hl, Hf.
    destruct (Nat.leb_spec total k) as [Hge | _]; [lia |].
    destruct (slice_chunks (zchunks cs es 0 total) rest k) as [s [e [Hb [Hse [He Hs]]]]];
      [rewrite Hlen; exact Hk |].
    rewrite Hb.
    destruct (N.ltb_spec e s) as [H1 | _]; [lia |].
    destruct (N.ltb_spec (lenN (concat (zchunks cs es 0 total) ++ rest)) e) as [H2 | _]; [lia |].
    cbn [orb]. rewrite Hs. unfold zchunks. rewrite nth_map_seq by exact Hk.
    cbn [Nat.add]. rewrite zd_zc. reflexivity.
  Qed.

  Theorem coder_chunks_from (c0 : coder) (cs m : N) (es : list entry) (rest : bytes) :
    is_reset c0 -> 0 < cs -> m / cs + 1 < two64 ->
    StronglySorted le_doc es -> Forall (fun e => fst e <= m) es ->
    exists c,
      run_term_from zc c0 cs m es = Ok c /\
      length (co_chunkLens c) = N.to_nat (m / cs + 1) /\
      forall k, (k < N.to_nat (m / cs + 1))%nat ->
        decoder_chunk zd (modify_lengths_to_end_offsets (co_chunkLens c)) (co_final c ++ rest) k
        = Ok (flat_map' (fun e => if fst e / cs =? N.of_nat k then put_uvarints (snd e) else []) es).
  Proof.
    intros Hr Hcs Hw Hsort Hmax.
    destruct (run_term_from_chunks c0 cs m es Hr Hcs Hw Hsort Hmax) as [c [Hrun [Hf [Hl _]]]].
    exists c. split; [exact Hrun |]. exact (chunks_decode c cs es _ rest Hf Hl).
  Qed.

  Theorem coder_chunks (cs m : N) (es : list entry) (rest : bytes) :
    0 < cs -> m / cs + 1 < two64 ->
    StronglySorted le_doc es -> Forall (fun e => fst e <= m) es ->
    exists c,
      run_term zc cs m es = Ok c /\
      length (co_chunkLens c) = N.to_nat (m / cs + 1) /\
      forall k, (k < N.to_nat (m / cs + 1))%nat ->
        decoder_chunk zd (modify_lengths_to_end_offsets (co_chunkLens c)) (co_final c ++ rest) k
        = Ok (flat_map' (fun e => if fst e / cs =? N.of_nat k then put_uvarints (snd e) else []) es).
  Proof.
    intros Hcs Hw Hsort Hmax.
    destruct (run_term_chunks cs m es Hcs Hw Hsort Hmax) as [c [Hrun [Hf [Hl _]]]].
    exists c. split; [exact Hrun |]. exact (chunks_decode c cs es _ rest Hf Hl).
  Qed.

  (* a chunk no Add fell into has length 0: zc [] = [] *)
  Theorem empty_chunk_len (cs m : N) (es : list entry) (c : coder) (k : nat) :
    0 < cs -> m / cs + 1 < two64 ->
    StronglySorted le_doc es -> Forall (fun e => fst e <= m) es ->
    run_term zc cs m es = Ok c -> (k < N.to_nat (m / cs + 1))%nat ->
    Forall (fun e => fst e / cs <> N.of_nat k) es ->
    nth k (co_chunkLens c) 0 = 0.
  Proof.
    intros Hcs Hw Hsort Hmax Hrun Hk Hno.
    destruct (run_term_chunks cs m es Hcs Hw Hsort Hmax) as [c' [Hrun' [_ [Hl _]]]].
    rewrite Hrun in Hrun'. injection Hrun' as <-.
    rewrite Hl. unfold zchunks. rewrite map_map, nth_map_seq by exact Hk.
    cbn [Nat.add]. rewrite ES_other by exact Hno. rewrite zc_nil. reflexivity.
  Qed.

  (* ---- (d) FinalSize() == 0 exactly when nothing was added ---- *)
  Lemma put_uvarints_nil_iff (vals : list N) : put_uvarints vals = [] <-> vals = [].
  Proof.
    split; [| intros ->; reflexivity].
    destruct vals as [| v vals]; [reflexivity |].
    unfold put_uvarints. cbn [flat_map']. intros H. apply app_eq_nil in H.
    destruct H as [H _]. exfalso. exact (put_uvarint_nonempty v H).
  Qed.

  Lemma final_nil_iff (cs : N) (es : list entry) (total : nat) :
    Forall (fun e => (N.to_nat (fst e / cs) < total)%nat) es ->
    (concat (zchunks cs es 0 total) = [] <-> Forall (fun e => snd e = []) es).
  Proof.
    intros Hrange. rewrite concat_nil_iff. split.
    - intros H. apply Forall_forall. intros e He.
      rewrite Forall_forall in Hrange. specialize (Hrange e He).
      assert (Hz : zc (entries_stream cs (N.of_nat (N.to_nat (fst e / cs))) es) = []).
      { apply H. unfold zchunks.
        apply (in_map (fun k => zc (entries_stream cs (N.of_nat k) es))).
        apply in_seq. revert Hrange. generalize (N.to_nat (fst e / cs)). intros q Hq. lia. }
      apply (proj1 (zc_nil_iff _)) in Hz. unfold entries_stream in Hz.
      pose proof (proj1 (flat_map'_nil_iff _ _) Hz e He) as Hz'. clear Hz. rename Hz' into Hz.
      cbn beta in Hz.
      rewrite N2Nat.id, N.eqb_refl in Hz. apply put_uvarints_nil_iff. exact Hz.
    - intros H x Hx. unfold zchunks in Hx. apply in_map_iff in Hx. destruct Hx as [k [<- _]].
      apply (proj2 (zc_nil_iff _)). unfold entries_stream. apply (proj2 (flat_map'_nil_iff _ _)). intros e He.
      rewrite Forall_forall in H. rewrite (H e He).
      destruct (fst e / cs =? N.of_nat k); reflexivity.
  Qed.

  Theorem finalSize_zero_iff (cs m : N) (es : list entry) (c : coder) :
    0 < cs -> m / cs + 1 < two64 ->
    StronglySorted le_doc es -> Forall (fun e => fst e <= m) es ->
    run_term zc cs m es = Ok c ->
    (coder_finalSize c = 0 <-> Forall (fun e => snd e = []) es).
  Proof.
    intros Hcs Hw Hsort Hmax Hrun.
    destruct (run_term_chunks cs m es Hcs Hw Hsort Hmax) as [c' [Hrun' [Hf _]]].
    rewrite Hrun in Hrun'. injection Hrun' as <-.
    assert (Hsz : coder_finalSize c = 0 <-> co_final c = []).
    { unfold coder_finalSize, lenN. destruct (co_final c); cbn [length]; split; intros H;
        try reflexivity; try discriminate; lia. }
    rewrite Hsz, Hf. apply final_nil_iff.
    eapply Forall_impl; [| exact Hmax]. cbn beta. intros e He.
    assert (Hd : fst e / cs <= m / cs) by (apply N.div_le_mono; lia).
    revert Hd. generalize (fst e / cs) (m / cs). intros q1 q2 Hd. lia.
  Qed.

  (* a coder that received no Add has FinalSize 0 (writeAt then returns
     termNotEncoded and writes nothing); no side condition is needed: if the
     run does not panic, final is empty *)
  Theorem finalSize_zero_no_adds (cs m : N) (c : coder) :
    run_term zc cs m [] = Ok c -> co_final c = [] /\ coder_writeAt c 77 = (0, []).
  Proof.
    unfold run_term, run_term_from, coder_new, coder_setChunkSize.
    change (legacyChunkMode =? 0) with false. cbn [rbind co_final co_chunkBuf co_currChunk co_chunkLens].
    destruct (cs =? 0); [discriminate |]. cbn [rbind coder_adds]. unfold coder_close.
    cbn [co_final co_chunkBuf co_currChunk co_chunkLens co_chunkSize]. rewrite zc_nil.
    match goal with |- context [list_set ?l ?i ?v] => destruct (list_set l i v) as [lens |] end;
      [| discriminate].
    intros H. injection H as <-. split; reflexivity.
  Qed.

  (* ---- (b) the two coders of a postings list ---- *)
  Definition le_pdoc (p q : EPosting) : Prop := ep_doc p <= ep_doc q.

  Lemma nth_chunks_of enc cs total ps k : (k < total)%nat ->
    nth k (chunks_of enc cs total ps) [] = chunk_stream enc cs (N.of_nat k) ps.
  Proof. intros Hk. unfold chunks_of. rewrite nth_map_seq by exact Hk. reflexivity. Qed.

  Lemma freq_stream cs k ps : entries_stream cs k (freq_adds ps) = chunk_stream freq_entry cs k ps.
  Proof.
    unfold entries_stream, freq_adds, chunk_stream. rewrite flat_map'_map.
    apply flat_map'_ext_in. intros p _. cbn [fst snd].
    destruct (ep_doc p / cs =? k); [| reflexivity].
    unfold freq_entry, put_uvarints. cbn [flat_map']. rewrite app_nil_r. reflexivity.
  Qed.

  Lemma freq_adds_sorted ps : StronglySorted le_pdoc ps -> StronglySorted le_doc (freq_adds ps).
  Proof.
    intros H. unfold freq_adds. induction H as [| p ps Hs IH Hf].
    - constructor.
    - cbn [map]. constructor; [exact IH |].
      apply Forall_forall. intros e He. apply in_map_iff in He. destruct He as [q [<- Hq]].
      rewrite Forall_forall in Hf. exact (Hf q Hq).
  Qed.

  Lemma freq_adds_max m ps : Forall (fun p => ep_doc p <= m) ps -> Forall (fun e : entry => fst e <= m) (freq_adds ps).
  Proof.
    intros H. apply Forall_forall. intros e He. unfold freq_adds in He.
    apply in_map_iff in He. destruct He as [q [<- Hq]]. rewrite Forall_forall in H. exact (H q Hq).
  Qed.

  Theorem freq_chunks_correct (cs m : N) (ps : list EPosting) (rest : bytes) :
    0 < cs -> m / cs + 1 < two64 ->
    StronglySorted le_pdoc ps -> Forall (fun p => ep_doc p <= m) ps ->
    let total := N.to_nat (m / cs + 1) in
    exists c,
      run_term zc cs m (freq_adds ps) = Ok c /\
      length (co_chunkLens c) = total /\
      forall k, (k < total)%nat ->
        decoder_chunk zd (modify_lengths_to_end_offsets (co_chunkLens c)) (co_final c ++ rest) k
        = Ok (nth k (chunks_of freq_entry cs total ps) []).
  Proof.
    intros Hcs Hw Hsort Hmax total.
    destruct (coder_chunks cs m (freq_adds ps) rest Hcs Hw (freq_adds_sorted ps Hsort) (freq_adds_max m ps Hmax))
      as [c [Hrun [Hlen Hk]]].
    exists c. split; [exact Hrun |]. split; [exact Hlen |].
    intros k Hlt. rewrite (Hk k Hlt), nth_chunks_of by exact Hlt.
    f_equal. apply freq_stream.
  Qed.

  Lemma in_flat_map' {A B} (f : A -> list B) (l : list A) (y : B) :
    In y (flat_map' f l) <-> exists x, In x l /\ In y (f x).
  Proof.
    induction l as [| a l IH]; cbn [flat_map' In].
    - split; [intros [] | intros [x [[] _]]].
    - rewrite in_app_iff, IH. split.
      + intros [H | [x [Hx Hy]]]; [exists a; split; [left; reflexivity | exact H] | exists x; split; [right; exact Hx | exact Hy]].
      + intros [x [[-> | Hx] Hy]]; [left; exact Hy | right; exists x; split; assumption].
  Qed.

  Lemma loc_adds_of_doc (p : EPosting) (e : entry) : In e (loc_adds_of p) -> fst e = ep_doc p.
  Proof.
    unfold loc_adds_of. destruct (ep_locs p) as [| l ls]; [intros [] |].
    intros [<- | H]; [reflexivity |].
    apply in_map_iff in H. destruct H as [l' [<- _]]. reflexivity.
  Qed.

  Lemma sorted_all {A} (R : A -> A -> Prop) (l : list A) :
    (forall x y, In x l -> In y l -> R x y) -> StronglySorted R l.
  Proof.
    induction l as [| a l IH]; intros H; constructor.
    - apply IH. intros x y Hx Hy. apply H; right; assumption.
    - apply Forall_forall. intros y Hy. apply H; [left; reflexivity | right; exact Hy].
  Qed.

  Lemma loc_adds_sorted ps : StronglySorted le_pdoc ps -> StronglySorted le_doc (loc_adds ps).
  Proof.
    intros H. unfold loc_adds. induction H as [| p ps Hs IH Hf].
    - constructor.
    - cbn [flat_map']. apply sorted_app; [| exact IH |].
      + apply sorted_all. intros x y Hx Hy. unfold le_doc.
        rewrite (loc_adds_of_doc p x Hx), (loc_adds_of_doc p y Hy). lia.
      + intros x y Hx Hy. apply in_flat_map' in Hy. destruct Hy as [q [Hq Hy]].
        unfold le_doc. rewrite (loc_adds_of_doc p x Hx), (loc_adds_of_doc q y Hy).
        rewrite Forall_forall in Hf. exact (Hf q Hq).
  Qed.

  Lemma loc_adds_max m ps : Forall (fun p => ep_doc p <= m) ps -> Forall (fun e : entry => fst e <= m) (loc_adds ps).
  Proof.
    intros H. apply Forall_forall. intros e He. unfold loc_adds in He.
    apply in_flat_map' in He. destruct He as [q [Hq He]].
    rewrite (loc_adds_of_doc q e He). rewrite Forall_forall in H. exact (H q Hq).
  Qed.

  Lemma loc_stream cs k ps : entries_stream cs k (loc_adds ps) = chunk_stream loc_entry cs k ps.
  Proof.
    unfold entries_stream, loc_adds, chunk_stream. rewrite flat_map'_flat_map'.
    apply flat_map'_ext_in. intros p _.
    unfold loc_adds_of, loc_entry. destruct (ep_locs p) as [| l ls].
    - cbn [flat_map']. destruct (ep_doc p / cs =? k); reflexivity.
    - cbn [flat_map' fst snd]. rewrite flat_map'_map. cbn [fst snd].
      destruct (ep_doc p / cs =? k).
      + unfold put_uvarints at 1. cbn [flat_map']. rewrite app_nil_r. reflexivity.
      + cbn [app]. apply flat_map'_nil_iff. reflexivity.
  Qed.

  Theorem loc_chunks_correct (cs m : N) (ps : list EPosting) (rest : bytes) :
    0 < cs -> m / cs + 1 < two64 ->
    StronglySorted le_pdoc ps -> Forall (fun p => ep_doc p <= m) ps ->
    let total := N.to_nat (m / cs + 1) in
    exists c,
      run_term zc cs m (loc_adds ps) = Ok c /\
      length (co_chunkLens c) = total /\
      (coder_finalSize c = 0 <-> existsb ep_hasLocs ps = false) /\
      forall k, (k < total)%nat ->
        decoder_chunk zd (modify_lengths_to_end_offsets (co_chunkLens c)) (co_final c ++ rest) k
        = Ok (nth k (chunks_of loc_entry cs total ps) []).
  Proof.
    intros Hcs Hw Hsort Hmax total.
    pose proof (loc_adds_sorted ps Hsort) as Hs. pose proof (loc_adds_max m ps Hmax) as Hm.
    destruct (coder_chunks cs m (loc_adds ps) rest Hcs Hw Hs Hm) as [c [Hrun [Hlen Hk]]].
    exists c. split; [exact Hrun |]. split; [exact Hlen |]. split.
    - rewrite (finalSize_zero_iff cs m (loc_adds ps) c Hcs Hw Hs Hm Hrun).
      clear. induction ps as [| p ps IH].
      + split; [reflexivity | constructor].
      + cbn [existsb]. unfold loc_adds in *. cbn [flat_map'].
        rewrite Forall_app, IH, orb_false_iff.
        assert (Hp : Forall (fun e : entry => snd e = []) (loc_adds_of p) <-> ep_hasLocs p = false).
        { unfold loc_adds_of, ep_hasLocs. destruct (ep_locs p) as [| l ls].
          - split; [reflexivity | constructor].
          - split; [| discriminate]. intros H. inversion H as [| ? ? H1 _]. discriminate H1. }
        rewrite Hp. reflexivity.
    - intros k Hlt. rewrite (Hk k Hlt), nth_chunks_of by exact Hlt.
      f_equal. apply loc_stream.
  Qed.

  (* writer and reader composed: what Write emitted for a term, followed by
     anything, is opened and every chunk is loaded back *)
  Theorem term_roundtrip (cs m : N) (es : list entry) (rest : bytes) :
    0 < cs -> m / cs + 1 < two64 ->
    StronglySorted le_doc es -> Forall (fun e => fst e <= m) es ->
    exists c,
      run_term zc cs m es = Ok c /\
      (lenN (co_final c) < two64 ->
       exists offs data,
         decoder_open (coder_write c ++ rest) = Some (offs, data) /\
         length offs = N.to_nat (m / cs + 1) /\
         forall k, (k < N.to_nat (m / cs + 1))%nat ->
           decoder_chunk zd offs data k = Ok (entries_stream cs (N.of_nat k) es)).
  Proof.
    intros Hcs Hw Hsort Hmax.
    destruct (run_term_chunks cs m es Hcs Hw Hsort Hmax) as [c [Hrun [Hf [Hl _]]]].
    exists c. split; [exact Hrun |]. intros Hsz.
    destruct (chunks_decode c cs es _ rest Hf Hl) as [Hlen Hk].
    exists (modify_lengths_to_end_offsets (co_chunkLens c)), (co_final c ++ rest).
    split; [| split; [rewrite length_modify; exact Hlen | exact Hk]].
    apply header_roundtrip.
    - unfold lenN. rewrite length_modify, Hlen. lia.
    - rewrite Hl. unfold modify_lengths_to_end_offsets.
      eapply Forall_impl; [| apply end_offsets_le]. cbn beta. intros x Hx.
      rewrite <- Hf in Hx. lia.
  Qed.

  (* ---- the two written streams are the EncPL that the iterator theorem consumes ---- *)
  Definition decode_all (offs : list N) (data : bytes) : list bytes :=
    map (fun k => match decoder_chunk zd offs data k with Ok b => b | _ => [] end) (seq 0 (length offs)).

  (* what a reader gets back from the two coders of a term; the location
     stream is absent exactly when writeAt returned termNotEncoded *)
  Definition read_back (cs : N) (docs : list N) (cf cl : coder) : EncPL :=
    EGen docs cs
      (decode_all (modify_lengths_to_end_offsets (co_chunkLens cf)) (co_final cf))
      (if coder_finalSize cl =? 0 then None
       else Some (decode_all (modify_lengths_to_end_offsets (co_chunkLens cl)) (co_final cl))).

  Lemma decode_all_chunks enc cs total ps offs data :
    length offs = total ->
    (forall k, (k < total)%nat ->
       decoder_chunk zd offs data k = Ok (nth k (chunks_of enc cs total ps) [])) ->
    decode_all offs data = chunks_of enc cs total ps.
  Proof.
    intros Hlen H. unfold decode_all. rewrite Hlen. unfold chunks_of at 1.
    apply map_ext_in. intros k Hk. apply in_seq in Hk.
    rewrite H by lia. apply nth_chunks_of. lia.
  Qed.

  Theorem writer_encodes_gen (cs m : N) (ps : list EPosting) :
    0 < cs -> m / cs + 1 < two64 ->
    StronglySorted le_pdoc ps -> Forall (fun p => ep_doc p <= m) ps ->
    exists cf cl,
      run_term zc cs m (freq_adds ps) = Ok cf /\
      run_term zc cs m (loc_adds ps) = Ok cl /\
      read_back cs (map ep_doc ps) cf cl = encode_gen cs (N.to_nat (m / cs + 1)) ps.
  Proof.
    intros Hcs Hw Hsort Hmax.
    destruct (freq_chunks_correct cs m ps [] Hcs Hw Hsort Hmax) as [cf [Hrf [Hlf Hkf]]].
    destruct (loc_chunks_correct cs m ps [] Hcs Hw Hsort Hmax) as [cl [Hrl [Hll [Hsz Hkl]]]].
    cbv zeta in *. rewrite app_nil_r in Hkf, Hkl.
    exists cf, cl. split; [exact Hrf |]. split; [exact Hrl |].
    unfold read_back, encode_gen. f_equal.
    - apply decode_all_chunks; [rewrite length_modify; exact Hlf | exact Hkf].
    - destruct (N.eqb_spec (coder_finalSize cl) 0) as [E | E].
      + rewrite (proj1 Hsz E). reflexivity.
      + destruct (existsb ep_hasLocs ps) eqn:Ex.
        * f_equal. apply decode_all_chunks; [rewrite length_modify; exact Hll | exact Hkl].
        * exfalso. apply E. apply Hsz. reflexivity.
  Qed.

  (* end to end: iterating over what the coders wrote returns the postings
     (Iterator_Proofs.iter_refines on the written encoding) *)
  Theorem written_postings_iterate (fields : list bytes) (ps : list EPosting) (cs m : N)
          (except : option (list N)) (inclFN inclLocs : bool) (old : option It) (ops : list iter_op) :
    wf_postings (length fields) ps -> 0 < cs -> m / cs + 1 < two64 ->
    Forall (fun p => ep_doc p <= m) ps ->
    (inclLocs = true -> inclFN = true) -> wf_ops ops ->
    exists cf cl,
      run_term zc cs m (freq_adds ps) = Ok cf /\
      run_term zc cs m (loc_adds ps) = Ok cl /\
      it_run (it_init (read_back cs (map ep_doc ps) cf cl) except inclFN inclLocs fields old) ops
      = Ok (spec_out inclFN inclLocs
              (filter (fun p => live_opt except (fst p)) (map (resolve_posting fields) ps)) ops).
  Proof.
    intros Hwf Hcs Hw Hmax Hfl Hops.
    assert (Hsort : StronglySorted le_pdoc ps).
    { eapply sorted_weaken; [| exact (proj1 Hwf)]. intros p q Hpq. cbn beta in Hpq. unfold le_pdoc. lia. }
    destruct (writer_encodes_gen cs m ps Hcs Hw Hsort Hmax) as [cf [cl [Hrf [Hrl Henc]]]].
    exists cf, cl. split; [exact Hrf |]. split; [exact Hrl |].
    rewrite Henc. apply iter_refines; try assumption.
    intros p Hp. rewrite Forall_forall in Hmax. specialize (Hmax p Hp).
    assert (Hd : ep_doc p / cs <= m / cs) by (apply N.div_le_mono; lia).
    revert Hd. generalize (ep_doc p / cs) (m / cs). intros q1 q2 Hd. lia.
  Qed.
End ZSTD.

(* ================================================================== *)
(* (e) a small postings list with identity compression                 *)
(* ================================================================== *)

Definition ex_ps : list EPosting :=
  [ (0, (1, (1065353216, [])));
    (2, (2, (1060439283, [(0, (1, (0, 3))); (1, (5, (20, 23)))])));
    (3, (1, (1065353216, [(0, (300, (4000, 4005)))])));
    (7, (3, (1058262330, []))) ].

Definition idz (b : bytes) : bytes := b.

Definition ex_decode (c : coder) (rest : bytes) : option (list (result bytes)) :=
  match decoder_open (coder_write c ++ rest) with
  | Some (offs, data) => Some (map (decoder_chunk idz offs data) (seq 0 (length offs)))
  | None => None
  end.

Example ex_freq_chunks :
  match run_term idz 2 8 (freq_adds ex_ps) with
  | Ok c => co_chunkLens c = [6; 12; 0; 6; 0] /\
            ex_decode c [9; 9; 9] = Some (map Ok (chunks_of freq_entry 2 5 ex_ps))
  | _ => False
  end.
Proof. vm_compute. split; reflexivity. Qed.

Example ex_loc_chunks :
  match run_term idz 2 8 (loc_adds ex_ps) with
  | Ok c => ex_decode c [9; 9; 9] = Some (map Ok (chunks_of loc_entry 2 5 ex_ps)) /\
            coder_writeAt c 1000 = (1000, coder_write c)
  | _ => False
  end.
Proof. vm_compute. split; reflexivity. Qed.

(* documents must not exceed maxDocNum: the Close after the offending Add panics *)
Example ex_doc_beyond_max : run_term idz 2 8 (freq_adds ex_ps ++ [(10, [1; 1])]) = Panic.
Proof. vm_compute. reflexivity. Qed.

(* a second Close always panics (the sentinel) *)
Example ex_double_close :
  (do c <- run_term idz 2 8 (freq_adds ex_ps); coder_close idz c) = Panic.
Proof. vm_compute. reflexivity. Qed.

(* Stored_Proofs.v - the stored-field record: binary.Uvarint on a window reads back
   PutUvarint, the clamped look-ahead of getDocStoredOffsets always holds the
   length varints, and visitDocument returns exactly the values of the record
   at any position of the decompressed block (C06). *)
From Coq Require Import List NArith Bool Lia.
From Ice Require Import Base Varint Stored.
From IceProofs Require Import Varint_Proofs.
Import ListNotations.
Open Scope N_scope.
Require Import ZifyBool ZifyN ZifyNat.

Lemma two64_val : two64 = 18446744073709551616.
Proof. reflexivity. Qed.

Lemma lenN_app {A} (a b : list A) : lenN (a ++ b) = lenN a + lenN b.
Proof. unfold lenN. rewrite app_length. lia. Qed.

Lemma lenN_nil {A} : lenN (@nil A) = 0.
Proof. reflexivity. Qed.

Lemma lenN_cons {A} (x : A) l : lenN (x :: l) = 1 + lenN l.
Proof. unfold lenN. cbn [length]. lia. Qed.

(* ---------------- uvarint_window on a complete varint ---------------- *)

Lemma idx_small (x i acc : N) :
  acc + x * 2 ^ (7 * i) < two64 -> (i = 0 \/ 1 <= x) -> i <= 9.
Proof.
  intros Hb Hx.
  destruct (N.le_gt_cases i 9) as [H | H]; [exact H | exfalso].
  assert (Hx1 : 1 <= x) by lia.
  assert (Hp : 2 ^ 70 <= 2 ^ (7 * i)) by (apply N.pow_le_mono_r; lia).
  assert (E : 2 ^ 70 = 1180591620717411303424) by reflexivity.
  rewrite E in Hp.
  pose proof (N.mul_le_mono_r 1 x (2 ^ (7 * i)) Hx1).
  rewrite two64_val in Hb. lia.
Qed.

Lemma uvw_last (x i acc : N) (rest : bytes) :
  x < 128 -> acc < 2 ^ (7 * i) -> acc + x * 2 ^ (7 * i) < two64 -> (i = 0 \/ 1 <= x) ->
  uvarint_window (x :: rest) i (7 * i) acc = Ok (acc + x * 2 ^ (7 * i), i + 1).
Proof.
  intros Hx Hacc Hb Hs.
  pose proof (idx_small x i acc Hb Hs) as Hi.
  cbn [uvarint_window].
  replace (10 <=? i) with false by lia.
  replace (x <? 128) with true by lia.
  assert (Hov : (i =? 9) && (1 <? x) = false).
  { destruct (N.eq_dec i 9) as [E | E].
    - subst i. change (2 ^ (7 * 9)) with 9223372036854775808 in Hb.
      rewrite two64_val in Hb.
      replace (1 <? x) with false by lia. apply andb_false_r.
    - replace (i =? 9) with false by lia. reflexivity. }
  rewrite Hov.
  rewrite N.shiftl_mul_pow2, lor_disjoint by exact Hacc. reflexivity.
Qed.

Lemma uvw_fuel (fuel : nat) :
  forall x i acc rest,
    x < 128 ^ N.of_nat (S fuel) ->
    acc < 2 ^ (7 * i) ->
    acc + x * 2 ^ (7 * i) < two64 ->
    (i = 0 \/ 1 <= x) ->
    uvarint_window (put_uvarint_fuel fuel x ++ rest) i (7 * i) acc
    = Ok (acc + x * 2 ^ (7 * i), i + lenN (put_uvarint_fuel fuel x)).
Proof.
  induction fuel as [| f IH]; intros x i acc rest Hx Hacc Hb Hs.
  - cbn [put_uvarint_fuel app].
    change (128 ^ N.of_nat 1) with 128 in Hx.
    rewrite (N.mod_small x 128) by exact Hx.
    apply uvw_last; assumption.
  - cbn [put_uvarint_fuel].
    destruct (x <? 128) eqn:E.
    + cbn [app]. apply uvw_last; try assumption. lia.
    + pose proof (idx_small x i acc Hb Hs) as Hi.
      cbn [app uvarint_window].
      pose proof (mod128_lt x) as Hm.
      pose proof (div_mod_128 x) as Hdm.
      pose proof (pow2_pos (7 * i)) as Hp.
      replace (10 <=? i) with false by lia.
      replace (x mod 128 + 128 <? 128) with false by lia.
      rewrite land_127.
      rewrite N.shiftl_mul_pow2.
      assert (Hsplit : x * 2 ^ (7 * i)
                       = x mod 128 * 2 ^ (7 * i) + x / 128 * (128 * 2 ^ (7 * i))).
      { transitivity ((128 * (x / 128) + x mod 128) * 2 ^ (7 * i));
          [f_equal; exact Hdm | ring]. }
      assert (Hq : 1 <= x / 128).
      { apply N.div_le_lower_bound; [discriminate | lia]. }
      clear Hdm.
      rewrite lor_disjoint by exact Hacc.
      replace (7 * i + 7) with (7 * (i + 1)) by lia.
      assert (Hp7 : 2 ^ (7 * (i + 1)) = 128 * 2 ^ (7 * i)).
      { replace (7 * (i + 1)) with (7 * i + 7) by lia. apply pow2_add7. }
      rewrite IH.
      * rewrite Hp7. rewrite lenN_cons. f_equal. f_equal; lia.
      * rewrite pow128_succ in Hx.
        apply N.div_lt_upper_bound; [discriminate | exact Hx].
      * rewrite Hp7.
        assert (x mod 128 * 2 ^ (7 * i) <= 127 * 2 ^ (7 * i))
          by (apply N.mul_le_mono_r; lia).
        lia.
      * rewrite Hp7. lia.
      * right. exact Hq.
Qed.

Lemma two64_lt_pow128_11 : two64 <= 128 ^ N.of_nat 11.
Proof. vm_compute. discriminate. Qed.

Theorem uvarint_window_put (x : N) (rest : bytes) :
  x < two64 -> uvarint_window (put_uvarint x ++ rest) 0 0 0 = Ok (x, lenN (put_uvarint x)).
Proof.
  intros Hx. unfold put_uvarint.
  change (uvarint_window (put_uvarint_fuel 10 x ++ rest) 0 0 0)
    with (uvarint_window (put_uvarint_fuel 10 x ++ rest) 0 (7 * 0) 0).
  rewrite uvw_fuel.
  - change (2 ^ (7 * 0)) with 1. f_equal. f_equal; lia.
  - eapply N.lt_le_trans; [exact Hx | apply two64_lt_pow128_11].
  - change (2 ^ (7 * 0)) with 1. lia.
  - change (2 ^ (7 * 0)) with 1. lia.
  - left. reflexivity.
Qed.

Lemma put_uvarint_fuel_length_sharp (fuel : nat) :
  forall x k, x < 128 ^ N.of_nat (S k) -> (length (put_uvarint_fuel fuel x) <= S k)%nat.
Proof.
  induction fuel as [| f IH]; intros x k Hx; cbn [put_uvarint_fuel].
  - cbn [length]. lia.
  - destruct (x <? 128) eqn:E.
    + cbn [length]. lia.
    + cbn [length]. destruct k as [| k'].
      * change (128 ^ N.of_nat 1) with 128 in Hx. lia.
      * specialize (IH (x / 128) k').
        assert (x / 128 < 128 ^ N.of_nat (S k')).
        { rewrite pow128_succ in Hx.
          apply N.div_lt_upper_bound; [discriminate | exact Hx]. }
        lia.
Qed.

Lemma put_uvarint_length_10 (x : N) : x < two64 -> (length (put_uvarint x) <= 10)%nat.
Proof.
  intros Hx. apply (put_uvarint_fuel_length_sharp 10 x 9).
  eapply N.lt_le_trans; [exact Hx |]. vm_compute. discriminate.
Qed.

(* ---------------- slices of appended lists ---------------- *)

Lemma slice_mid (blk a b c : bytes) (lo hi : N) :
  blk = a ++ b ++ c -> lo = lenN a -> hi = lenN a + lenN b ->
  slice blk lo hi = Ok b.
Proof.
  intros -> -> ->. unfold slice.
  rewrite !lenN_app.
  replace (lenN a <=? lenN a + lenN b) with true by lia.
  replace (lenN a + lenN b <=? lenN a + (lenN b + lenN c)) with true by lia.
  cbn [andb]. f_equal.
  replace (N.to_nat (lenN a)) with (length a + 0)%nat by (unfold lenN; lia).
  rewrite skipn_app. rewrite skipn_all2 by lia.
  replace (length a + 0 - length a)%nat with 0%nat by lia.
  cbn [skipn app].
  replace (N.to_nat (lenN a + lenN b - lenN a)) with (length b + 0)%nat by (unfold lenN; lia).
  rewrite firstn_app_2. cbn [firstn]. apply app_nil_r.
Qed.

(* the clamped 10-byte window holds the whole varint that starts at its origin *)
Lemma slice_window (blk a p q : bytes) (lo : N) :
  blk = a ++ p ++ q -> lo = lenN a -> (length p <= 10)%nat ->
  exists rest', slice blk lo (N.min (lo + 10) (lenN blk)) = Ok (p ++ rest').
Proof.
  intros -> -> Hp. unfold slice.
  rewrite !lenN_app.
  replace (lenN a <=? N.min (lenN a + 10) (lenN a + (lenN p + lenN q))) with true by lia.
  replace (N.min (lenN a + 10) (lenN a + (lenN p + lenN q)) <=? lenN a + (lenN p + lenN q))
    with true by lia.
  cbn [andb].
  replace (N.to_nat (lenN a)) with (length a + 0)%nat by (unfold lenN; lia).
  rewrite skipn_app. rewrite skipn_all2 by lia.
  replace (length a + 0 - length a)%nat with 0%nat by lia.
  cbn [skipn app].
  set (n := N.to_nat (N.min (lenN a + 10) (lenN a + (lenN p + lenN q)) - lenN a)).
  assert (Hn : (length p <= n)%nat) by (unfold n, lenN; lia).
  rewrite firstn_app. rewrite firstn_all2 by exact Hn.
  eexists. reflexivity.
Qed.

Lemma stored_lens_ok (blk pre tail : bytes) (m d : N) :
  m < two64 -> d < two64 ->
  blk = pre ++ put_uvarint m ++ put_uvarint d ++ tail ->
  stored_lens blk (lenN pre) = Ok (m, d, lenN (put_uvarint m) + lenN (put_uvarint d)).
Proof.
  intros Hm Hd Hblk. unfold stored_lens.
  destruct (slice_window blk pre (put_uvarint m) (put_uvarint d ++ tail) (lenN pre) Hblk eq_refl
              (put_uvarint_length_10 m Hm)) as [r1 E1].
  rewrite E1. cbn [rbind].
  rewrite uvarint_window_put by exact Hm. cbn [rbind].
  destruct (slice_window blk (pre ++ put_uvarint m) (put_uvarint d) tail
              (lenN pre + lenN (put_uvarint m))) as [r2 E2].
  { rewrite Hblk, <- app_assoc. reflexivity. }
  { rewrite lenN_app. reflexivity. }
  { apply put_uvarint_length_10, Hd. }
  rewrite E2. cbn [rbind].
  rewrite uvarint_window_put by exact Hd. cbn [rbind]. reflexivity.
Qed.

Definition wf_svals (nfields : nat) (vals : SVals) : Prop :=
  Forall (fun p => (N.to_nat (fst p) < nfields)%nat /\ fst p < two64) vals /\
  lenN (stored_data vals) < two64 /\ lenN (stored_meta 0 vals) < two64.
Definition resolve_vals (fields : list bytes) (vals : SVals) : list (bytes * bytes) :=
  map (fun p => (nth (N.to_nat (fst p)) fields [], snd p)) vals.
Definition take_stop (stop : option N) (l : list (bytes * bytes)) : list (bytes * bytes) :=
  match stop with
  | None => l
  | Some k => firstn (N.to_nat (N.max k 1)) l
  end.

Definition take_from (stop : option N) (seen : N) (l : list (bytes * bytes)) : list (bytes * bytes) :=
  match stop with
  | None => l
  | Some k => firstn (N.to_nat (N.max (k - seen) 1)) l
  end.

Lemma take_from_0 stop l : take_from stop 0 l = take_stop stop l.
Proof. destruct stop as [k |]; [| reflexivity]. unfold take_from, take_stop. now rewrite N.sub_0_r. Qed.

Lemma nthN_nth {A} (d : A) : forall (l : list A) n, (n < length l)%nat -> nthN l n = Some (nth n l d).
Proof.
  induction l as [| x l IH]; intros n Hn; cbn [length] in Hn.
  - lia.
  - destruct n as [| n]; cbn [nthN nth]; [reflexivity |]. apply IH. lia.
Qed.

Lemma visit_meta_step f meta data fields stop seen :
  meta <> [] ->
  visit_meta (S f) meta data fields stop seen =
      match read_uvarint meta with
      | Some (Some fid, m1) =>
        match read_uvarint m1 with
        | Some (Some off, m2) =>
          match read_uvarint m2 with
          | Some (Some l, m3) =>
              do v <- slice data off (off + l);
              match nthN fields (N.to_nat fid) with
              | None => Panic
              | Some name =>
                  let seen' := seen + 1 in
                  let continue := match stop with Some k => negb (k <=? seen') | None => true end in
                  if continue then
                    do rest <- visit_meta f m3 data fields stop seen';
                    Ok ((name, v) :: rest)
                  else Ok [(name, v)]
              end
          | _ => Err
          end
        | _ => Err
        end
      | _ => Err
      end.
Proof. destruct meta; [congruence | reflexivity]. Qed.

Lemma stored_meta_cons curr fid v vals :
  stored_meta curr ((fid, v) :: vals) =
  put_uvarint fid ++ put_uvarint curr ++ put_uvarint (lenN v) ++ stored_meta (curr + lenN v) vals.
Proof.
  cbn [stored_meta]. unfold put_uvarints. cbn [flat_map'].
  rewrite app_nil_r, <- !app_assoc. reflexivity.
Qed.

Lemma visit_meta_ok (fields : list bytes) (stop : option N) :
  forall (vals : SVals) (fuel : nat) (data dpre dpost : bytes) (seen : N),
    Forall (fun p => (N.to_nat (fst p) < length fields)%nat /\ fst p < two64) vals ->
    data = dpre ++ stored_data vals ++ dpost ->
    lenN dpre + lenN (stored_data vals) < two64 ->
    (length (stored_meta (lenN dpre) vals) <= fuel)%nat ->
    visit_meta fuel (stored_meta (lenN dpre) vals) data fields stop seen
    = Ok (take_from stop seen (resolve_vals fields vals)).
Proof.
  induction vals as [| [fid v] vals IH]; intros fuel data dpre dpost seen Hf Hdata Hlen Hfuel.
  - cbn [stored_meta resolve_vals map]. destruct fuel; cbn [visit_meta];
      (destruct stop; cbn [take_from]; [rewrite firstn_nil |]; reflexivity).
  - inversion Hf as [| p ps [Hfid1 Hfid2] Hf' ]; subst p ps. cbn [fst] in Hfid1, Hfid2.
    unfold stored_data in Hlen, Hdata. cbn [flat_map' snd] in Hlen, Hdata.
    fold (stored_data vals) in Hlen, Hdata.
    rewrite lenN_app in Hlen.
    rewrite stored_meta_cons in Hfuel |- *.
    pose proof (put_uvarint_nonempty fid) as Hne.
    destruct fuel as [| f].
    { exfalso. destruct (put_uvarint fid); [congruence | cbn [app length] in Hfuel; lia]. }
    rewrite visit_meta_step.
    2:{ destruct (put_uvarint fid); [congruence | discriminate]. }
    rewrite read_put_uvarint by exact Hfid2.
    rewrite read_put_uvarint by lia.
    rewrite read_put_uvarint by lia.
    rewrite (slice_mid data dpre v (stored_data vals ++ dpost)).
    2:{ rewrite Hdata, <- app_assoc. reflexivity. }
    2:{ reflexivity. }
    2:{ reflexivity. }
    cbn [rbind].
    rewrite (nthN_nth ([] : bytes)) by exact Hfid1.
    cbn zeta.
    replace (lenN dpre + lenN v) with (lenN (dpre ++ v)) by apply lenN_app.
    assert (Hrest : forall seen', visit_meta f (stored_meta (lenN (dpre ++ v)) vals) data fields stop seen'
                    = Ok (take_from stop seen' (resolve_vals fields vals))).
    { intros seen'. apply (IH f data (dpre ++ v) dpost seen').
      - exact Hf'.
      - rewrite Hdata, <- !app_assoc. reflexivity.
      - rewrite lenN_app. lia.
      - rewrite lenN_app. rewrite !app_length in Hfuel.
        destruct (put_uvarint fid); [congruence | cbn [length] in Hfuel; lia]. }
    cbn [resolve_vals map fst snd]. fold (resolve_vals fields vals).
    destruct stop as [k |]; cbn [take_from].
    + destruct (k <=? seen + 1) eqn:Ek; cbn [negb].
      * replace (N.to_nat (N.max (k - seen) 1)) with 1%nat by lia.
        cbn [firstn]. reflexivity.
      * rewrite Hrest. cbn [rbind take_from].
        replace (N.to_nat (N.max (k - seen) 1)) with (S (N.to_nat (N.max (k - (seen + 1)) 1))) by lia.
        cbn [firstn]. reflexivity.
    + rewrite Hrest. cbn [rbind take_from]. reflexivity.
Qed.

Theorem stored_record_visit (fields : list bytes) (pre post : bytes) (vals : SVals) (stop : option N) :
  wf_svals (length fields) vals ->
  visit_stored (pre ++ stored_record vals ++ post) (lenN pre) fields stop
  = Ok (take_stop stop (resolve_vals fields vals)).
Proof.
  intros (Hf & Hd & Hm).
  unfold visit_stored, stored_record.
  set (m := stored_meta 0 vals) in *. set (d := stored_data vals) in *.
  set (pm := put_uvarint (lenN m)). set (pd := put_uvarint (lenN d)).
  set (blk := pre ++ (pm ++ pd ++ m ++ d) ++ post).
  rewrite (stored_lens_ok blk pre (m ++ d ++ post) (lenN m) (lenN d) Hm Hd).
  2:{ unfold blk, pm, pd. rewrite <- !app_assoc. reflexivity. }
  cbn [rbind]. fold pm pd.
  rewrite (slice_mid blk (pre ++ pm ++ pd) m (d ++ post)).
  2:{ unfold blk. rewrite <- !app_assoc. reflexivity. }
  2:{ rewrite !lenN_app. reflexivity. }
  2:{ rewrite !lenN_app. reflexivity. }
  cbn [rbind].
  rewrite (slice_mid blk (pre ++ pm ++ pd ++ m) d post).
  2:{ unfold blk. rewrite <- !app_assoc. reflexivity. }
  2:{ rewrite !lenN_app. lia. }
  2:{ rewrite !lenN_app. lia. }
  cbn [rbind].
  rewrite <- take_from_0.
  unfold m. change 0 with (lenN (@nil N)).
  apply (visit_meta_ok fields stop vals (length (stored_meta (lenN (@nil N)) vals)) d [] []).
  - exact Hf.
  - cbn [app]. rewrite app_nil_r. reflexivity.
  - rewrite lenN_nil. fold d. lia.
  - lia.
Qed.

Theorem block_offsets_length (docs : list SVals) (acc : N) : length (block_offsets acc docs) = length docs.
Proof.
  revert acc. induction docs as [| d docs IH]; intros acc; cbn [block_offsets length].
  - reflexivity.
  - now rewrite IH.
Qed.

Lemma block_split : forall (docs : list SVals) (i : nat) (vals : SVals) (acc : N),
  nth_error docs i = Some vals ->
  block_of docs = block_of (firstn i docs) ++ stored_record vals ++ block_of (skipn (S i) docs) /\
  nth i (block_offsets acc docs) 0 = acc + lenN (block_of (firstn i docs)).
Proof.
  induction docs as [| d docs IH]; intros i vals acc Hn.
  - destruct i; discriminate.
  - destruct i as [| i]; cbn [nth_error] in Hn.
    + injection Hn as ->. cbn [firstn skipn block_of block_offsets nth app].
      split; [reflexivity |]. rewrite lenN_nil. lia.
    + destruct (IH i vals (acc + lenN (stored_record d)) Hn) as [E1 E2].
      cbn [firstn skipn block_of block_offsets nth].
      split.
      * rewrite <- app_assoc. f_equal. exact E1.
      * rewrite E2, lenN_app. lia.
Qed.

Theorem block_visit (fields : list bytes) (docs : list SVals) (i : nat) (vals : SVals) (stop : option N) :
  Forall (wf_svals (length fields)) docs -> nth_error docs i = Some vals ->
  visit_stored (block_of docs) (nth i (block_offsets 0 docs) 0) fields stop
  = Ok (take_stop stop (resolve_vals fields vals)).
Proof.
  intros Hall Hn.
  destruct (block_split docs i vals 0 Hn) as [E1 E2].
  rewrite E2, E1, N.add_0_l.
  apply stored_record_visit.
  rewrite Forall_forall in Hall. apply Hall. eapply nth_error_In, Hn.
Qed.

Theorem empty_doc_record : stored_record [] = [0; 0].
Proof. reflexivity. Qed.

Theorem stored_prefix_refuted :
  exists block off, (exists vals, block = [5;5;5] ++ stored_record vals /\ off = 3) /\
    stored_lens_prefix block [] off = Panic /\
    (exists r, stored_lens block off = Ok r).
Proof.
  exists [5;5;5;0;0], 3. split; [| split].
  - exists []. split; reflexivity.
  - vm_compute. reflexivity.
  - eexists. vm_compute. reflexivity.
Qed.

(* with spare capacity the pre-fix reader succeeds on the same block: the outcome
   depends on the buffer's history *)
Example stored_prefix_spare_capacity :
  exists r, stored_lens_prefix [5;5;5;0;0] [9;9;9;9;9;9;9;9;9;9] 3 = Ok r.
Proof. eexists. vm_compute. reflexivity. Qed.

Definition ex_fields : list bytes := [[97]; [98; 99]; [100]].
Definition ex_docs : list SVals := [ [(0, [1; 2; 3]); (2, [])] ; [] ].

Example block_visit_example :
  visit_stored (block_of ex_docs) (nth 0 (block_offsets 0 ex_docs) 0) ex_fields None
    = Ok [([97], [1; 2; 3]); ([100], [])] /\
  visit_stored (block_of ex_docs) (nth 1 (block_offsets 0 ex_docs) 0) ex_fields None
    = Ok [] /\
  visit_stored (block_of ex_docs) (nth 0 (block_offsets 0 ex_docs) 0) ex_fields (Some 1)
    = Ok [([97], [1; 2; 3])].
Proof. vm_compute. repeat split; reflexivity. Qed.

(* DocsMatching_Proofs.v - properties of Spec.o_docsmatching (the specification of
   Segment.DocsMatchingTerms) and of Spec.o_postings. *)
From Coq Require Import List NArith Bool Lia Sorting Permutation.
From Coq Require Import ZifyBool ZifyN ZifyNat.
From Ice Require Import Base Spec.
From IceProofs Require Import Sort_Proofs.
Import ListNotations.
Open Scope N_scope.

(* ------------------------------------------------------------------ *)
(* small list utilities                                                *)
(* ------------------------------------------------------------------ *)

Lemma nthN_nth_error {X} (l : list X) (n : nat) : nthN l n = nth_error l n.
Proof.
  revert n; induction l as [|x l IH]; intros [|n]; cbn [nthN nth_error]; auto.
Qed.

Lemma flat_map'_In {X Y} (f : X -> list Y) (l : list X) (y : Y) :
  In y (flat_map' f l) <-> exists x, In x l /\ In y (f x).
Proof.
  induction l as [|a l IH]; cbn [flat_map' In].
  - split; [tauto | intros [x [[] _]]].
  - rewrite in_app_iff, IH. split.
    + intros [H | [x [H1 H2]]].
      * exists a; auto.
      * exists x; auto.
    + intros [x [[-> | H1] H2]]; [left; assumption | right; exists x; auto].
Qed.

Lemma flat_map'_app {X Y} (f : X -> list Y) (l1 l2 : list X) :
  flat_map' f (l1 ++ l2) = flat_map' f l1 ++ flat_map' f l2.
Proof.
  induction l1 as [|a l1 IH]; cbn [flat_map' app]; auto.
  rewrite IH, app_assoc; reflexivity.
Qed.

Lemma number_from_In {X} (l : list X) (b i : N) (x : X) :
  In (i, x) (number_from b l) <->
  exists k : nat, i = b + N.of_nat k /\ nth_error l k = Some x.
Proof.
  revert b; induction l as [|a l IH]; intros b; cbn [number_from In].
  - split; [tauto | intros [[|k] [_ H]]; discriminate H].
  - rewrite IH. split.
    + intros [H | [k [H1 H2]]].
      * inversion H; subst. exists O. split; [lia | reflexivity].
      * exists (S k). split; [lia | exact H2].
    + intros [[|k] [H1 H2]]; cbn [nth_error] in H2.
      * left. inversion H2; subst. f_equal. lia.
      * right. exists k. split; [lia | exact H2].
Qed.

(* ------------------------------------------------------------------ *)
(* postings                                                            *)
(* ------------------------------------------------------------------ *)

Definition doc_has_term (A : ASeg) (f t : bytes) (d : N) : Prop :=
  known_field A f = true /\
  exists doc df, nthN (as_docs A) (N.to_nat d) = Some doc /\ d < o_count A /\
                 doc_field doc f = Some df /\
                 exists v, find (fun at_ => beq (fst at_) t) (adf_terms df) = Some v.

(* one document yields at most one posting, numbered by the document *)
Lemma doc_posting_docs (f t : bytes) (i : N) (doc : ADoc) (d : N) :
  In d (map fst (doc_posting f t (i, doc))) <->
  d = i /\ exists df, doc_field doc f = Some df /\
           exists v, find (fun at_ => beq (fst at_) t) (adf_terms df) = Some v.
Proof.
  unfold doc_posting. cbn [fst snd].
  destruct (doc_field doc f) as [df|].
  - destruct (find (fun at_ => beq (fst at_) t) (adf_terms df)) as [[k [fr ls]]|] eqn:Ef.
    + cbn [map In fst]. split.
      * intros [<- | []]. split; [reflexivity|].
        exists df. split; [reflexivity|]. rewrite Ef. eexists; reflexivity.
      * intros [-> _]. left; reflexivity.
    + cbn [map In]. split; [tauto|].
      intros [_ [df' [E [v Hv]]]]. inversion E; subst df'.
      rewrite Ef in Hv. discriminate Hv.
  - cbn [map In]. split; [tauto|].
    intros [_ [df' [E _]]]. discriminate E.
Qed.

Theorem postings_docs_iff (A : ASeg) (f t : bytes) (d : N) :
  In d (map fst (o_postings A f t)) <-> doc_has_term A f t d.
Proof.
  unfold o_postings, doc_has_term.
  destruct (known_field A f) eqn:Ek.
  2:{ cbn [map In]. split; [tauto | intros [H _]; discriminate H]. }
  split.
  - intros H. split; [reflexivity|].
    apply in_map_iff in H. destruct H as [p [Hp Hin]].
    apply flat_map'_In in Hin. destruct Hin as [[i doc] [Hnum Hdp]].
    assert (Hd : In d (map fst (doc_posting f t (i, doc)))).
    { apply in_map_iff. exists p; auto. }
    apply doc_posting_docs in Hd. destruct Hd as [-> [df [Hdf Hv]]].
    apply number_from_In in Hnum. destruct Hnum as [k [Hi Hk]].
    exists doc, df.
    assert (Hto : N.to_nat i = k) by lia.
    split; [|split; [|split]]; auto.
    + rewrite nthN_nth_error, Hto. exact Hk.
    + assert (Hlt : (k < length (as_docs A))%nat).
      { apply nth_error_Some. rewrite Hk. discriminate. }
      unfold o_count, lenN. lia.
  - intros [_ [doc [df [Hn [Hlt [Hdf Hv]]]]]].
    rewrite nthN_nth_error in Hn.
    assert (Hd : In d (map fst (doc_posting f t (d, doc)))).
    { apply doc_posting_docs. split; [reflexivity|]. exists df; auto. }
    apply in_map_iff in Hd. destruct Hd as [p [Hp Hin]].
    apply in_map_iff. exists p. split; [exact Hp|].
    apply flat_map'_In. exists (d, doc). split; [|exact Hin].
    apply number_from_In. exists (N.to_nat d). split; [lia | exact Hn].
Qed.

(* ------------------------------------------------------------------ *)
(* DocsMatchingTerms                                                   *)
(* ------------------------------------------------------------------ *)

Theorem docsmatching_In (A : ASeg) (terms : list (bytes * bytes)) (d : N) :
  In d (o_docsmatching A terms) <-> exists f t, In (f, t) terms /\ doc_has_term A f t d.
Proof.
  unfold o_docsmatching. rewrite sort_dedup_N_In, flat_map'_In. split.
  - intros [[f t] [Hin Hd]]. cbn [fst snd] in Hd.
    exists f, t. split; [exact Hin|]. apply postings_docs_iff; exact Hd.
  - intros [f [t [Hin Hd]]]. exists (f, t). split; [exact Hin|].
    cbn [fst snd]. apply postings_docs_iff; exact Hd.
Qed.

Theorem docsmatching_sorted (A : ASeg) (terms : list (bytes * bytes)) :
  strict_sorted_N (o_docsmatching A terms).
Proof. unfold o_docsmatching. apply sort_dedup_N_sorted. Qed.

Theorem docsmatching_order_irrelevant (A : ASeg) (ts1 ts2 : list (bytes * bytes)) :
  (forall x, In x ts1 <-> In x ts2) -> o_docsmatching A ts1 = o_docsmatching A ts2.
Proof.
  intros H. unfold o_docsmatching. apply sort_dedup_N_ext. intros d.
  rewrite !flat_map'_In. split; intros [x [Hx Hd]]; exists x; split; auto; apply H; auto.
Qed.

Theorem docsmatching_unknown_term (A : ASeg) (f t : bytes) (terms : list (bytes * bytes)) :
  o_postings A f t = [] -> o_docsmatching A ((f, t) :: terms) = o_docsmatching A terms.
Proof.
  intros H. unfold o_docsmatching. cbn [flat_map' fst snd].
  rewrite H. reflexivity.
Qed.

Theorem docsmatching_unknown_field (A : ASeg) (f t : bytes) (terms : list (bytes * bytes)) :
  known_field A f = false -> o_docsmatching A ((f, t) :: terms) = o_docsmatching A terms.
Proof.
  intros H. apply docsmatching_unknown_term. unfold o_postings. rewrite H. reflexivity.
Qed.

Theorem docsmatching_nil (A : ASeg) : o_docsmatching A [] = [].
Proof. reflexivity. Qed.

Theorem docsmatching_app (A : ASeg) (ts1 ts2 : list (bytes * bytes)) :
  o_docsmatching A (ts1 ++ ts2) = sort_dedup_N (o_docsmatching A ts1 ++ o_docsmatching A ts2).
Proof.
  unfold o_docsmatching. rewrite flat_map'_app.
  apply sort_dedup_N_ext. intros d.
  rewrite !in_app_iff, !sort_dedup_N_In. reflexivity.
Qed.

Theorem docsmatching_below_count (A : ASeg) terms d :
  In d (o_docsmatching A terms) -> d < o_count A.
Proof.
  intros H. apply docsmatching_In in H.
  destruct H as [f [t [_ [_ [doc [df [_ [Hlt _]]]]]]]]. exact Hlt.
Qed.

(* ------------------------------------------------------------------ *)
(* a worked example                                                    *)
(* ------------------------------------------------------------------ *)

Module DocsMatchingExample.
  Definition fa : bytes := [97].         (* field "a" *)
  Definition fb : bytes := [98].         (* field "b" *)
  Definition fz : bytes := [122].        (* "z": not a field of the segment *)
  Definition tx : bytes := [120].        (* term "x" *)
  Definition ty : bytes := [121].        (* term "y" *)
  Definition tw : bytes := [119].        (* term "w" *)
  Definition tq : bytes := [113].        (* term "q": occurs nowhere *)

  Definition tm (t : bytes) : ATerm := (t, (1, [])).

  (* doc 0: a = {x}        b = {w}
     doc 1: a = {y}
     doc 2: a = {x, y}     b = {w, x}  *)
  Definition doc0 : ADoc :=
    mkADoc [mkADF fa 0 [tm tx] false; mkADF fb 0 [tm tw] false] [].
  Definition doc1 : ADoc :=
    mkADoc [mkADF fa 0 [tm ty] false] [].
  Definition doc2 : ADoc :=
    mkADoc [mkADF fa 0 [tm tx; tm ty] false; mkADF fb 0 [tm tw; tm tx] false] [].

  Definition seg : ASeg :=
    mkASeg [id_name; fa; fb] [doc0; doc1; doc2] [].

  (* two fields mixed, (a,x) repeated, an unknown field z, an unknown term q;
     the entries are given in an order that is not the document order *)
  Example docsmatching_example :
    o_docsmatching seg [(fb, tx); (fa, tx); (fz, tx); (fa, tq); (fa, tx)] = [0; 2].
  Proof. vm_compute; reflexivity. Qed.
End DocsMatchingExample.

(* DvWriter_Proofs.v - the writers of doc values (theories/DvWriter.v):
   the chunked content coder, the builder's docTermMap pass and the merger's
   buildMergedDocVals produce exactly the chunks DocValues.dv_chunks predicts. *)
From Coq Require Import List Arith NArith Bool Lia Sorting Permutation.
From Ice Require Import Base Spec Chunk DocValues Varint Run DvWriter.
From IceProofs Require Import Sort_Proofs DocValues_Proofs Docnums_Proofs MergeAlgebra_Proofs
  Build_Proofs DocsMatching_Proofs Varint_Proofs.
Import ListNotations.
Open Scope N_scope.
Require Import ZifyBool ZifyN ZifyNat.
Arguments N.div : simpl never.
Arguments N.modulo : simpl never.

(* ------------------------------------------------------------------ *)
(* (a) the content coder                                                *)
(* ------------------------------------------------------------------ *)
(* the chunk with number j of a field whose entries are es *)
Definition chunk_at (cs : N) (es : list (N * bytes)) (j : nat) : DvChunk :=
  dv_chunk_of (filter (fun e => fst e / cs =? N.of_nat j) es).

Lemma dv_chunks_chunk_at (n : nat) (es : list (N * bytes)) :
  dv_chunks n es = map (chunk_at dv_chunk_docs es) (seq 0 n).
Proof. reflexivity. Qed.

Lemma set_at_app {A} (x y : A) (L R : list A) :
  set_at (length L) x (L ++ y :: R) = Some (L ++ x :: R).
Proof.
  induction L as [|a L IH]; cbn [length app set_at]; [reflexivity|].
  rewrite IH. reflexivity.
Qed.

Lemma cut_chunks_app (L1 L2 : list N) : forall o1 o2 : list DvChunk,
  length o1 = N.to_nat (sumN L1) ->
  cut_chunks (L1 ++ L2) (o1 ++ o2) = cut_chunks L1 o1 ++ cut_chunks L2 o2.
Proof.
  induction L1 as [|l L1 IH]; intros o1 o2 Hlen; cbn [sumN] in Hlen.
  - destruct o1; [reflexivity | cbn [length] in Hlen; lia].
  - cbn [app cut_chunks].
    assert (Hf : firstn (N.to_nat l) (o1 ++ o2) = firstn (N.to_nat l) o1).
    { rewrite firstn_app. replace (N.to_nat l - length o1)%nat with 0%nat by lia.
      cbn [firstn]. apply app_nil_r. }
    assert (Hs : skipn (N.to_nat l) (o1 ++ o2) = skipn (N.to_nat l) o1 ++ o2).
    { rewrite skipn_app. replace (N.to_nat l - length o1)%nat with 0%nat by lia.
      reflexivity. }
    rewrite Hf, Hs. f_equal. apply IH. rewrite skipn_length. lia.
Qed.

Lemma cut_chunks_zeros (n : nat) : cut_chunks (repeat 0 n) [] = repeat dv_empty_chunk n.
Proof. induction n as [|n IH]; [reflexivity|]. cbn [repeat cut_chunks]. cbn. f_equal. exact IH. Qed.

Lemma build_snoc (l : list (N * bytes)) (d : N) (b : bytes) : forall acc,
  dv_chunk_build (l ++ [(d, b)]) acc =
  (fst (dv_chunk_build l acc) ++ [(d, acc + lenN (snd (dv_chunk_build l acc)) + lenN b)],
   snd (dv_chunk_build l acc) ++ b).
Proof.
  induction l as [|[d0 b0] l IH]; intros acc.
  - cbn [app dv_chunk_build fst snd]. rewrite app_nil_r.
    replace (acc + lenN (@nil N) + lenN b) with (acc + lenN b) by (unfold lenN; cbn [length]; lia).
    reflexivity.
  - cbn [app dv_chunk_build]. rewrite IH.
    destruct (dv_chunk_build l (acc + lenN b0)) as [h dat]. cbn [fst snd app].
    rewrite <- app_assoc.
    replace (acc + lenN (b0 ++ dat) + lenN b) with (acc + lenN b0 + lenN dat + lenN b)
      by (unfold lenN; rewrite app_length; lia).
    reflexivity.
Qed.

Lemma filter_chunk_none (cs k j : N) (done : list (N * bytes)) :
  Forall (fun e => fst e / cs <= k) done -> k < j ->
  filter (fun e => fst e / cs =? j) done = [].
Proof.
  intros H Hlt. induction H as [|e l He _ IH]; [reflexivity|].
  cbn [filter]. destruct (N.eqb_spec (fst e / cs) j); [lia | exact IH].
Qed.

Lemma chunk_at_snoc_other (cs : N) (done : list (N * bytes)) (e : N * bytes) (j : nat) :
  fst e / cs <> N.of_nat j -> chunk_at cs (done ++ [e]) j = chunk_at cs done j.
Proof.
  intros H. unfold chunk_at. rewrite filter_app. cbn [filter].
  destruct (N.eqb_spec (fst e / cs) (N.of_nat j)); [contradiction|].
  rewrite app_nil_r. reflexivity.
Qed.

Record Inv (cs : N) (T : nat) (done : list (N * bytes)) (c : Coder) : Prop := mkInv {
  inv_cs : cc_chunkSize c = cs;
  inv_lt : (N.to_nat (cc_currChunk c) < T)%nat;
  inv_lens : exists L, length L = N.to_nat (cc_currChunk c) /\
       cc_chunkLens c = L ++ repeat 0 (T - length L) /\
       length (cc_out c) = N.to_nat (sumN L) /\
       cut_chunks L (cc_out c) = map (chunk_at cs done) (seq 0 (length L));
  inv_cur : dv_chunk_build (filter (fun e => fst e / cs =? cc_currChunk c) done) 0
            = (cc_meta c, cc_buf c);
  inv_done : Forall (fun e => fst e / cs <= cc_currChunk c) done }.

(* a flush at chunk k followed by m chunk numbers without documents *)
Lemma flush_cut (cs : N) (done : list (N * bytes)) (k : N) (L : list N) (out : list DvChunk)
      (meta : list (N * N)) (buf : bytes) (m : nat) :
  length L = N.to_nat k ->
  length out = N.to_nat (sumN L) ->
  cut_chunks L out = map (chunk_at cs done) (seq 0 (length L)) ->
  dv_chunk_build (filter (fun e => fst e / cs =? k) done) 0 = (meta, buf) ->
  Forall (fun e => fst e / cs <= k) done ->
  cut_chunks (L ++ 1 :: repeat 0 m) (out ++ [mkDvChunk meta buf])
  = map (chunk_at cs done) (seq 0 (length L + 1 + m)).
Proof.
  intros HL Hout Hcut Hcur Hdone.
  rewrite cut_chunks_app by exact Hout. rewrite Hcut.
  rewrite <- Nat.add_assoc, seq_app, map_app. f_equal.
  cbn [Nat.add seq map]. cbn [cut_chunks]. change (N.to_nat 1) with 1%nat.
  cbn [firstn skipn]. f_equal.
  - unfold chunk_at. unfold dv_chunk_of.
    replace (N.of_nat (length L)) with k by lia. rewrite Hcur. reflexivity.
  - rewrite cut_chunks_zeros.
    assert (G : forall s, (length L < s)%nat ->
                map (chunk_at cs done) (seq s m) = repeat dv_empty_chunk m).
    { induction m as [|m IHm]; intros s Hs; [reflexivity|].
      cbn [seq map repeat]. f_equal; [|apply IHm; lia].
      unfold chunk_at. rewrite (filter_chunk_none cs k) by (assumption || lia). reflexivity. }
    symmetry. apply G. lia.
Qed.

Lemma add_step (cs : N) (T : nat) (done : list (N * bytes)) (c : Coder) (d : N) (b : bytes) :
  0 < cs -> Inv cs T done c ->
  cc_currChunk c <= d / cs -> (N.to_nat (d / cs) < T)%nat ->
  exists c', cc_add c d b = Ok c' /\ Inv cs T (done ++ [(d, b)]) c' /\ cc_currChunk c' = d / cs.
Proof.
  intros Hcs [Hsz Hlt [L (HL & Hlens & Hout & Hcut)] Hcur Hdone] Hle Hd.
  unfold cc_add. rewrite Hsz.
  destruct (N.eqb_spec cs 0) as [|_]; [lia|].
  destruct (N.eqb_spec (d / cs) (cc_currChunk c)) as [E|NE].
  - (* same chunk *)
    cbn [rbind]. eexists. split; [reflexivity|]. split; [|cbn [cc_currChunk]; congruence].
    constructor; cbn [cc_chunkSize cc_currChunk cc_chunkLens cc_meta cc_buf cc_out].
    + exact Hsz.
    + exact Hlt.
    + exists L. repeat split; try assumption.
      rewrite Hcut. apply map_ext_in. intros j Hj. apply in_seq in Hj.
      symmetry. apply chunk_at_snoc_other. cbn [fst]. lia.
    + rewrite filter_app. cbn [filter fst].
      destruct (N.eqb_spec (d / cs) (cc_currChunk c)); [|contradiction].
      rewrite build_snoc, Hcur. cbn [fst snd]. rewrite N.add_0_l. reflexivity.
    + apply Forall_app. split; [exact Hdone|]. constructor; [cbn [fst]; lia | constructor].
  - (* a later chunk: flush, reset, move on *)
    unfold cc_flush. rewrite Hlens.
    replace (T - length L)%nat with (S (T - length L - 1)) by lia. cbn [repeat].
    rewrite <- HL. rewrite set_at_app. cbn [rbind].
    cbn [cc_chunkSize cc_currChunk cc_chunkLens cc_meta cc_buf cc_out].
    eexists. split; [reflexivity|]. split; [|reflexivity].
    set (m := (N.to_nat (d / cs) - length L - 1)%nat).
    constructor; cbn [cc_chunkSize cc_currChunk cc_chunkLens cc_meta cc_buf cc_out].
    + exact Hsz.
    + exact Hd.
    + exists (L ++ 1 :: repeat 0 m).
      assert (Hlen' : length (L ++ 1 :: repeat 0 m) = N.to_nat (d / cs)).
      { rewrite app_length. cbn [length]. rewrite repeat_length. unfold m. lia. }
      split; [exact Hlen'|]. split; [|split].
      * rewrite <- app_assoc. f_equal. cbn [app]. f_equal.
        rewrite <- repeat_app. f_equal. rewrite Hlen'. unfold m. lia.
      * rewrite app_length. cbn [length]. rewrite sumN_app. cbn [sumN].
        assert (Z : forall n, sumN (repeat 0 n) = 0).
        { induction n as [|n IHn]; [reflexivity|]. cbn [repeat sumN]. rewrite IHn. reflexivity. }
        rewrite Z. lia.
      * rewrite (flush_cut cs done (cc_currChunk c)); try assumption.
        rewrite Hlen'. replace (length L + 1 + m)%nat with (N.to_nat (d / cs)) by (unfold m; lia).
        apply map_ext_in. intros j Hj. apply in_seq in Hj.
        symmetry. apply chunk_at_snoc_other. cbn [fst]. lia.
    + rewrite filter_app. cbn [filter fst]. rewrite N.eqb_refl.
      rewrite (filter_chunk_none cs (cc_currChunk c)) by (assumption || lia).
      cbn [app dv_chunk_build]. rewrite app_nil_r. reflexivity.
    + apply Forall_app. split.
      * eapply Forall_impl; [|exact Hdone]. cbv beta. intros a Ha. lia.
      * constructor; [cbn [fst]; lia | constructor].
Qed.

Lemma adds_inv (cs : N) (T : nat) : 0 < cs -> forall (rest done : list (N * bytes)) (c : Coder),
  Inv cs T done c -> asc rest ->
  Forall (fun e => cc_currChunk c <= fst e / cs) rest ->
  Forall (fun e => (N.to_nat (fst e / cs) < T)%nat) rest ->
  exists c', cc_adds c rest = Ok c' /\ Inv cs T (done ++ rest) c'.
Proof.
  intros Hcs. induction rest as [|[d b] rest IH]; intros done c HI Hasc Hge Hlt.
  - exists c. rewrite app_nil_r. split; [reflexivity | exact HI].
  - inversion Hasc as [|? ? Hasc' Hall]; subst.
    inversion Hge as [|? ? Hge1 Hge']; subst. inversion Hlt as [|? ? Hlt1 Hlt']; subst.
    cbn [fst] in *.
    destruct (add_step cs T done c d b Hcs HI Hge1 Hlt1) as (c1 & Hadd & HI1 & Hk1).
    cbn [cc_adds]. rewrite Hadd. cbn [rbind].
    destruct (IH (done ++ [(d, b)]) c1 HI1 Hasc') as (c' & Hadds & HI').
    + rewrite Hk1. eapply Forall_impl; [|exact Hall]. cbv beta. cbn [fst]. intros a Ha.
      apply N.div_le_mono; lia.
    + exact Hlt'.
    + exists c'. split; [exact Hadds|]. rewrite <- app_assoc in HI'. exact HI'.
Qed.

Lemma close_inv (cs : N) (T : nat) (done : list (N * bytes)) (c : Coder) :
  Inv cs T done c ->
  exists c', cc_close c = Ok c' /\ cc_chunks c' = map (chunk_at cs done) (seq 0 T).
Proof.
  intros [Hsz Hlt [L (HL & Hlens & Hout & Hcut)] Hcur Hdone].
  unfold cc_close, cc_flush. rewrite Hlens.
  replace (T - length L)%nat with (S (T - length L - 1)) by lia. cbn [repeat].
  rewrite <- HL. rewrite set_at_app.
  eexists. split; [reflexivity|].
  unfold cc_chunks. cbn [cc_chunkLens cc_out].
  rewrite (flush_cut cs done (cc_currChunk c)); try assumption.
  f_equal. f_equal. lia.
Qed.

(* (a) the chunks a reader finds after new; Add ...; Close; Write *)
Theorem coder_chunks (chunkSize maxDocNum : N) (entries : list (N * bytes)) :
  0 < chunkSize -> asc entries -> Forall (fun e => fst e <= maxDocNum) entries ->
  cc_run chunkSize maxDocNum entries =
  Ok (map (chunk_at chunkSize entries) (seq 0 (N.to_nat (maxDocNum / chunkSize + 1)))).
Proof.
  intros Hcs Hasc Hmax. unfold cc_run, cc_new.
  destruct (N.eqb_spec chunkSize 0) as [|_]; [lia|]. cbn [rbind].
  set (T := N.to_nat (maxDocNum / chunkSize + 1)).
  set (c0 := mkCoder chunkSize 0 (repeat 0 T) [] [] []).
  assert (HI0 : Inv chunkSize T [] c0).
  { constructor; cbn [c0 cc_chunkSize cc_currChunk cc_chunkLens cc_meta cc_buf cc_out].
    - reflexivity.
    - unfold T. lia.
    - exists []. cbn [length app seq map cut_chunks sumN]. rewrite Nat.sub_0_r. auto.
    - reflexivity.
    - constructor. }
  destruct (adds_inv chunkSize T Hcs entries [] c0 HI0 Hasc) as (c1 & Hadds & HI1).
  - apply Forall_forall. intros e _. unfold c0. cbn [cc_currChunk]. apply N.le_0_l.
  - eapply Forall_impl; [|exact Hmax]. cbv beta. intros e He. unfold T.
    assert (fst e / chunkSize <= maxDocNum / chunkSize) by (apply N.div_le_mono; lia). lia.
  - rewrite Hadds. cbn [rbind app] in *.
    destruct (close_inv chunkSize T entries c1 HI1) as (c2 & Hclose & Hchunks).
    rewrite Hclose. cbn [rbind]. rewrite Hchunks. reflexivity.
Qed.

Corollary coder_chunks_1024 (maxDocNum : N) (entries : list (N * bytes)) :
  asc entries -> Forall (fun e => fst e <= maxDocNum) entries ->
  cc_run dv_chunk_docs maxDocNum entries =
  Ok (dv_chunks (N.to_nat (maxDocNum / dv_chunk_docs + 1)) entries).
Proof.
  intros Hasc Hmax. rewrite dv_chunks_chunk_at. apply coder_chunks; [reflexivity | assumption..].
Qed.

(* chunk numbers without documents are empty *)
Theorem coder_chunk_empty (chunkSize : N) (entries : list (N * bytes)) (j : nat) :
  Forall (fun e => fst e / chunkSize <> N.of_nat j) entries ->
  chunk_at chunkSize entries j = dv_empty_chunk.
Proof.
  intros H. unfold chunk_at.
  replace (filter (fun e => fst e / chunkSize =? N.of_nat j) entries) with (@nil (N * bytes)); [reflexivity|].
  symmetry. induction H as [|e l He _ IH]; [reflexivity|].
  cbn [filter]. destruct (N.eqb_spec (fst e / chunkSize) (N.of_nat j)); [contradiction | exact IH].
Qed.

(* ------------------------------------------------------------------ *)
(* (c) the merger                                                       *)
(* ------------------------------------------------------------------ *)
Lemma cc_adds_app (l1 l2 : list (N * bytes)) : forall c,
  cc_adds c (l1 ++ l2) = (do c1 <- cc_adds c l1; cc_adds c1 l2).
Proof.
  induction l1 as [|[d b] l1 IH]; intros c; cbn [app cc_adds rbind]; [reflexivity|].
  destruct (cc_add c d b); cbn [rbind]; auto.
Qed.

(* the visitor applied to a list of (document, bytes) *)
Fixpoint visit_all (tbl : list N) (c : Coder) (docs : list (N * bytes)) : result Coder :=
  match docs with
  | [] => Ok c
  | (d, b) :: r => do c1 <- merge_dv_visit tbl c d b; visit_all tbl c1 r
  end.

Lemma visit_all_app (tbl : list N) (l1 l2 : list (N * bytes)) : forall c,
  visit_all tbl c (l1 ++ l2) = (do c1 <- visit_all tbl c l1; visit_all tbl c1 l2).
Proof.
  induction l1 as [|[d b] l1 IH]; intros c; cbn [app visit_all rbind]; [reflexivity|].
  destruct (merge_dv_visit tbl c d b); cbn [rbind]; auto.
Qed.

(* the header loop cuts the data exactly into the documents' byte strings *)
Lemma header_iter (tbl : list N) (docs : list (N * bytes)) : forall acc pre c,
  lenN pre = acc ->
  merge_dv_header tbl (pre ++ snd (dv_chunk_build docs acc)) (fst (dv_chunk_build docs acc)) acc c
  = visit_all tbl c docs.
Proof.
  induction docs as [|[d b] docs IH]; intros acc pre c Hpre; [reflexivity|].
  cbn [dv_chunk_build]. specialize (IH (acc + lenN b) (pre ++ b)).
  destruct (dv_chunk_build docs (acc + lenN b)) as [h dat]. cbn [fst snd] in *.
  cbn [merge_dv_header visit_all].
  replace ((acc <=? acc + lenN b) && (acc + lenN b <=? lenN (pre ++ b ++ dat))) with true.
  2:{ symmetry. apply andb_true_intro. split; apply N.leb_le; [lia|].
      unfold lenN in *. rewrite !app_length. lia. }
  replace (N.to_nat (acc + lenN b - acc)) with (length b) by (unfold lenN; lia).
  replace (N.to_nat acc) with (length pre + 0)%nat by (unfold lenN in Hpre; lia).
  rewrite skipn_app_len. cbn [skipn]. rewrite firstn_app_exact.
  destruct (merge_dv_visit tbl c d b) as [c1| | | |]; cbn [rbind]; try reflexivity.
  rewrite <- IH.
  - rewrite <- app_assoc. reflexivity.
  - unfold lenN in *. rewrite app_length. lia.
Qed.

Lemma chunk_iter (tbl : list N) (docs : list (N * bytes)) (c : Coder) :
  match dvc_header (dv_chunk_of docs) with
  | [] => Ok c
  | h => merge_dv_header tbl (dvc_data (dv_chunk_of docs)) h 0 c
  end = visit_all tbl c docs.
Proof.
  transitivity (merge_dv_header tbl (dvc_data (dv_chunk_of docs)) (dvc_header (dv_chunk_of docs)) 0 c).
  - destruct (dvc_header (dv_chunk_of docs)); reflexivity.
  - rewrite dvc_header_of, dvc_data_of. apply (header_iter tbl docs 0 [] c). reflexivity.
Qed.

Lemma chunks_iter (tbl : list N) (cs : N) (es : list (N * bytes)) (js : list nat) : forall c,
  merge_dv_chunks tbl (map (chunk_at cs es) js) c =
  visit_all tbl c (flat_map' (fun j => filter (fun e => fst e / cs =? N.of_nat j) es) js).
Proof.
  induction js as [|j js IH]; intros c; [reflexivity|].
  cbn [map merge_dv_chunks flat_map']. rewrite visit_all_app.
  unfold chunk_at at 1 2. rewrite chunk_iter.
  destruct (visit_all tbl c _); cbn [rbind]; auto.
Qed.

(* entries sorted by chunk number are the concatenation of their chunks *)
Lemma filter_lt_eq (cs : N) (n : N) (es : list (N * bytes)) :
  StronglySorted (fun a b : N * bytes => fst a / cs <= fst b / cs) es ->
  filter (fun e => fst e / cs <? n) es ++ filter (fun e => fst e / cs =? n) es
  = filter (fun e => fst e / cs <? n + 1) es.
Proof.
  induction 1 as [|e es Hs IH Hall]; [reflexivity|].
  cbn [filter].
  destruct (N.ltb_spec (fst e / cs) n) as [Hlt|Hge].
  - destruct (N.ltb_spec (fst e / cs) (n + 1)); [|lia].
    destruct (N.eqb_spec (fst e / cs) n); [lia|].
    cbn [app]. f_equal. exact IH.
  - assert (Z : filter (fun e0 : N * bytes => fst e0 / cs <? n) es = []).
    { clear IH Hs. induction Hall as [|a l Ha _ IHl]; [reflexivity|].
      cbn [filter]. destruct (N.ltb_spec (fst a / cs) n); [lia | exact IHl]. }
    rewrite Z in *. cbn [app] in *.
    destruct (N.eqb_spec (fst e / cs) n).
    + destruct (N.ltb_spec (fst e / cs) (n + 1)); [|lia]. f_equal. exact IH.
    + destruct (N.ltb_spec (fst e / cs) (n + 1)); [lia|]. exact IH.
Qed.

Lemma asc_chunk_sorted (cs : N) (es : list (N * bytes)) :
  asc es -> StronglySorted (fun a b : N * bytes => fst a / cs <= fst b / cs) es.
Proof.
  induction 1 as [|e es Hs IH Hall]; constructor; [exact IH|].
  eapply Forall_impl; [|exact Hall]. cbv beta. intros a Ha.
  destruct (N.eq_dec cs 0) as [->|Hz].
  - assert (Z : forall x, x / 0 = 0) by (intros [|p]; reflexivity). rewrite !Z. lia.
  - apply N.div_le_mono; lia.
Qed.

Lemma split_by_chunks (cs : N) (es : list (N * bytes)) (n : nat) :
  asc es -> Forall (fun e => fst e / cs < N.of_nat n) es ->
  flat_map' (fun j => filter (fun e => fst e / cs =? N.of_nat j) es) (seq 0 n) = es.
Proof.
  intros Hasc Hall. apply (asc_chunk_sorted cs) in Hasc.
  assert (G : forall m, flat_map' (fun j => filter (fun e => fst e / cs =? N.of_nat j) es) (seq 0 m)
                        = filter (fun e => fst e / cs <? N.of_nat m) es).
  { induction m as [|m IHm].
    - cbn [seq flat_map']. symmetry.
      clear. induction es as [|e es IHes]; [reflexivity|]. cbn [filter].
      change (N.of_nat 0) with 0.
      destruct (N.ltb_spec (fst e / cs) 0) as [H|_]; [apply N.nlt_0_r in H; destruct H | exact IHes].
    - rewrite seq_S, Build_Proofs.flat_map'_app, IHm. cbn [Nat.add flat_map']. rewrite app_nil_r.
      rewrite filter_lt_eq by exact Hasc.
      replace (N.of_nat m + 1) with (N.of_nat (S m)) by lia. reflexivity. }
  rewrite G. clear G Hasc. induction Hall as [|e es He _ IH]; [reflexivity|].
  cbn [filter]. destruct (N.ltb_spec (fst e / cs) (N.of_nat n)); [|lia]. f_equal. exact IH.
Qed.

(* what the visitor hands to Add: the entries that are not dropped, renumbered *)
Definition renum (tbl : list N) (es : list (N * bytes)) : list (N * bytes) :=
  flat_map' (fun e => match nthN tbl (N.to_nat (fst e)) with
                      | Some nd => if nd =? docDropped then [] else [(nd, snd e)]
                      | None => []
                      end) es.

Lemma visit_all_renum (tbl : list N) (es : list (N * bytes)) : forall c,
  Forall (fun e => (N.to_nat (fst e) < length tbl)%nat) es ->
  visit_all tbl c es = cc_adds c (renum tbl es).
Proof.
  induction es as [|[d b] es IH]; intros c Hall; [reflexivity|].
  inversion Hall as [|? ? Hd Hall']; subst. cbn [fst] in Hd.
  unfold renum. cbn [visit_all flat_map' fst snd]. fold (renum tbl es).
  unfold merge_dv_visit.
  destruct (nthN tbl (N.to_nat d)) as [nd|] eqn:E.
  - destruct (nd =? docDropped).
    + cbn [rbind app]. apply IH. exact Hall'.
    + cbn [app cc_adds]. destruct (cc_add c nd b); cbn [rbind]; auto.
  - rewrite Build_Proofs.nthN_nth_error in E. apply nth_error_None in E. lia.
Qed.

(* an input described by its entries: (Some n: it has a reader over n chunks;
   None: no reader, old -> new table, entries) *)
Definition dv_input := (option nat * list N * list (N * bytes))%type.
Definition in_tbl (i : dv_input) : list N := snd (fst i).
Definition in_es (i : dv_input) : list (N * bytes) := snd i.
Definition in_chunks (i : dv_input) : option (list DvChunk) * list N :=
  (match fst (fst i) with Some n => Some (dv_chunks n (in_es i)) | None => None end, in_tbl i).
Definition has_reader (i : dv_input) : bool :=
  match fst (fst i) with Some _ => true | None => false end.
Definition wf_input (i : dv_input) : Prop :=
  match fst (fst i) with
  | None => in_es i = []
  | Some n =>
      asc (in_es i) /\
      Forall (fun e => fst e / dv_chunk_docs < N.of_nat n) (in_es i) /\
      Forall (fun e => (N.to_nat (fst e) < length (in_tbl i))%nat) (in_es i)
  end.
Definition merged_entries (ins : list dv_input) : list (N * bytes) :=
  flat_map' (fun i => renum (in_tbl i) (in_es i)) ins.

Lemma inputs_iter (ins : list dv_input) : Forall wf_input ins -> forall c av,
  merge_dv_inputs (map in_chunks ins) c av =
  (do c1 <- cc_adds c (merged_entries ins); Ok (c1, av || existsb has_reader ins)).
Proof.
  induction 1 as [|[[on tbl] es] ins Hwf _ IH]; intros c av.
  - cbn [map merge_dv_inputs merged_entries flat_map' cc_adds rbind existsb]. rewrite orb_false_r. reflexivity.
  - unfold merged_entries. cbn [map flat_map']. fold (merged_entries ins).
    unfold in_chunks at 1. unfold wf_input, has_reader, in_es, in_tbl in *. cbn [fst snd existsb] in *.
    rewrite cc_adds_app.
    destruct on as [n|].
    + destruct Hwf as (Hasc & Hch & Htbl). cbn [merge_dv_inputs].
      rewrite dv_chunks_chunk_at, chunks_iter, split_by_chunks by assumption.
      rewrite visit_all_renum by assumption.
      destruct (cc_adds c (renum tbl es)) as [c1| | | |]; cbn [rbind]; try reflexivity.
      rewrite IH. cbn [orb]. rewrite orb_true_r. reflexivity.
    + subst es. cbn [merge_dv_inputs renum flat_map' cc_adds rbind orb]. apply IH.
Qed.

Definition nch_of (numDocs : N) : nat := N.to_nat ((numDocs - 1) / dv_chunk_docs + 1).

(* (c), on entries: the merged chunks are the chunks of the surviving entries
   under their new numbers, in (input, document) order *)
Theorem merge_dv_entries_correct (newSegDocCount : N) (ins : list dv_input) :
  0 < newSegDocCount -> Forall wf_input ins ->
  asc (merged_entries ins) -> Forall (fun e => fst e < newSegDocCount) (merged_entries ins) ->
  merge_dv newSegDocCount (map in_chunks ins) =
  Ok (if existsb has_reader ins
      then Some (dv_chunks (nch_of newSegDocCount) (merged_entries ins))
      else None).
Proof.
  intros Hpos Hwf Hasc Hlt. unfold merge_dv.
  destruct (N.eqb_spec newSegDocCount 0) as [|_]; [lia|].
  assert (Hmax : Forall (fun e => fst e <= newSegDocCount - 1) (merged_entries ins)).
  { eapply Forall_impl; [|exact Hlt]. cbv beta. intros e He. lia. }
  assert (Hrun := coder_chunks_1024 (newSegDocCount - 1) (merged_entries ins) Hasc Hmax).
  unfold cc_run, cc_new in *. change (dv_chunk_docs =? 0) with false in *.
  cbn [rbind] in *. rewrite inputs_iter by exact Hwf. cbn [orb].
  destruct (cc_adds _ (merged_entries ins)) as [c1| | | |]; cbn [rbind] in *; try discriminate Hrun.
  destruct (cc_close c1) as [c2| | | |]; cbn [rbind] in *; try discriminate Hrun.
  destruct (existsb has_reader ins); [|reflexivity].
  inversion Hrun as [Hc]. rewrite Hc. reflexivity.
Qed.

(* ---- (c) on abstract segments ---- *)
(* the doc-value bytes of a document for field f, if it has an entry *)
Definition doc_dv (f : bytes) (d : ADoc) : option bytes :=
  match doc_field d f with
  | Some df => if adf_dv df then Some (dv_bytes (map fst (adf_terms df))) else None
  | None => None
  end.
Definition entry_of_doc (f : bytes) (nd : N * ADoc) : list (N * bytes) :=
  match doc_dv f (snd nd) with Some b => [(fst nd, b)] | None => [] end.

Lemma dv_entries_eq (A : ASeg) (f : bytes) :
  dv_entries A f = flat_map' (entry_of_doc f) (number_from 0 (as_docs A)).
Proof.
  unfold dv_entries. apply Build_Proofs.flat_map'_ext_in. intros nd _.
  unfold entry_of_doc, doc_dv. destruct (doc_field (snd nd) f) as [df|]; [|reflexivity].
  destruct (adf_dv df); reflexivity.
Qed.

Lemma entries_asc_gen (f : bytes) (docs : list ADoc) : forall i,
  asc (flat_map' (entry_of_doc f) (number_from i docs)) /\
  Forall (fun e : N * bytes => i <= fst e < i + lenN docs)
         (flat_map' (entry_of_doc f) (number_from i docs)).
Proof.
  induction docs as [|d docs IH]; intros i; cbn [number_from flat_map'].
  - split; constructor.
  - destruct (IH (i + 1)) as [Hs Hf].
    assert (Hf' : Forall (fun e : N * bytes => i <= fst e < i + lenN (d :: docs))
                    (flat_map' (entry_of_doc f) (number_from (i + 1) docs))).
    { eapply Forall_impl; [|exact Hf]. cbv beta. unfold lenN. cbn [length]. intros a Ha. lia. }
    unfold entry_of_doc at 1 3. cbn [fst snd]. destruct (doc_dv f d) as [b|]; cbn [app].
    + split.
      * constructor; [exact Hs|]. eapply Forall_impl; [|exact Hf]. cbv beta. cbn [fst]. intros a Ha. lia.
      * constructor; [|exact Hf']. cbn [fst]. unfold lenN. cbn [length]. lia.
    + split; assumption.
Qed.

Lemma dv_entries_asc (A : ASeg) (f : bytes) : asc (dv_entries A f).
Proof. rewrite dv_entries_eq. apply entries_asc_gen. Qed.

Lemma dv_entries_bound (A : ASeg) (f : bytes) : Forall (fun e => fst e < o_count A) (dv_entries A f).
Proof.
  rewrite dv_entries_eq. destruct (entries_asc_gen f (as_docs A) 0) as [_ H].
  eapply Forall_impl; [|exact H]. cbv beta. unfold o_count. intros a Ha. lia.
Qed.

Lemma renum_app (tbl : list N) (l1 l2 : list (N * bytes)) :
  renum tbl (l1 ++ l2) = renum tbl l1 ++ renum tbl l2.
Proof. apply Build_Proofs.flat_map'_app. Qed.

Lemma nthN_app_len {A} (pre : list A) (x : A) (R : list A) :
  nthN (pre ++ x :: R) (length pre) = Some x.
Proof. induction pre as [|a pre IH]; cbn [app length nthN]; auto. Qed.

Lemma number_from_app {A} (l1 l2 : list A) : forall i,
  number_from i (l1 ++ l2) = number_from i l1 ++ number_from (i + lenN l1) l2.
Proof.
  induction l1 as [|a l1 IH]; intros i; cbn [app number_from].
  - f_equal. unfold lenN. cbn [length]. lia.
  - rewrite IH. f_equal. f_equal. f_equal. unfold lenN. cbn [length]. lia.
Qed.

(* renumbering the entries of an input by its table gives the entries of its
   survivors numbered from the input's base *)
Lemma renum_keep (f : bytes) (dr : list N) (docs : list ADoc) : forall i next pre,
  length pre = N.to_nat i -> next + cnt dr i (length docs) <= docDropped ->
  renum (pre ++ renumber (length docs) i dr next)
        (flat_map' (entry_of_doc f) (number_from i docs))
  = flat_map' (entry_of_doc f) (number_from next (keep dr i docs)).
Proof.
  induction docs as [|d docs IH]; intros i next pre Hpre Hb; [reflexivity|].
  cbn [length renumber number_from flat_map' cnt] in *. rewrite renum_app, keep_cons.
  destruct (memN i dr) eqn:Em.
  - replace (pre ++ docDropped :: renumber (length docs) (i + 1) dr next)
      with ((pre ++ [docDropped]) ++ renumber (length docs) (i + 1) dr next)
      by (rewrite <- app_assoc; reflexivity).
    rewrite IH; [|rewrite app_length; cbn [length]; lia | lia].
    unfold entry_of_doc at 1. cbn [fst snd]. destruct (doc_dv f d); [|reflexivity].
    unfold renum. cbn [flat_map' fst snd]. rewrite <- (app_assoc pre [docDropped]). cbn [app].
    replace (N.to_nat i) with (length pre) by lia. rewrite nthN_app_len.
    rewrite N.eqb_refl. reflexivity.
  - replace (pre ++ next :: renumber (length docs) (i + 1) dr (next + 1))
      with ((pre ++ [next]) ++ renumber (length docs) (i + 1) dr (next + 1))
      by (rewrite <- app_assoc; reflexivity).
    rewrite IH; [|rewrite app_length; cbn [length]; lia | lia].
    cbn [number_from flat_map']. f_equal.
    unfold entry_of_doc. cbn [fst snd]. destruct (doc_dv f d); [|reflexivity].
    unfold renum. cbn [flat_map' fst snd]. rewrite <- (app_assoc pre [next]). cbn [app].
    replace (N.to_nat i) with (length pre) by lia. rewrite nthN_app_len.
    destruct (N.eqb_spec next docDropped); [lia | reflexivity].
Qed.

Definition merged_of (f : bytes) (ins : list (ASeg * list N)) (tbls : list (list N)) : list (N * bytes) :=
  flat_map' (fun p : (ASeg * list N) * list N => renum (snd p) (dv_entries (fst (fst p)) f))
            (combine ins tbls).

Lemma merged_is_entries (f : bytes) (ins : list (ASeg * list N)) : forall base,
  base + total ins <= docDropped ->
  merged_of f ins (merge_docnums ins base)
  = flat_map' (entry_of_doc f)
              (number_from base (flat_map' (fun p => survivors (fst p) (snd p)) ins)).
Proof.
  unfold merged_of.
  induction ins as [|[A dr] ins IH]; intros base Hb; [reflexivity|].
  unfold total in Hb. cbn [map sumN fst snd] in Hb. fold (total ins) in Hb.
  cbn [merge_docnums combine flat_map' fst snd].
  rewrite number_from_app, Build_Proofs.flat_map'_app.
  rewrite IH by (unfold count_live in *; lia).
  f_equal.
  rewrite dv_entries_eq, survivors_keep.
  apply (renum_keep f dr (as_docs A) 0 base []); [reflexivity|].
  rewrite <- count_live_cnt. lia.
Qed.

Theorem merged_entries_spec (f : bytes) (ins : list (ASeg * list N)) :
  o_count (fst (merge_spec ins)) <= docDropped ->
  merged_of f ins (merge_docnums ins 0) = dv_entries (fst (merge_spec ins)) f.
Proof.
  intros H. rewrite docnums_count in H. fold (total ins) in H.
  rewrite merged_is_entries by lia.
  rewrite dv_entries_eq, merge_spec_docs. reflexivity.
Qed.

(* which inputs take part: None = not in focus for the field (no dictionary),
   Some false = in focus without a doc-value reader, Some true = with a reader *)
Fixpoint sel_inputs (f : bytes) (l : list ((ASeg * list N) * list N)) (sel : list (option bool))
  : list dv_input :=
  match l, sel with
  | ((A, dr), tbl) :: l', s :: sel' =>
      (match s with
       | None => []
       | Some r => [((if r then Some (nch_of (o_count A)) else None), tbl, dv_entries A f)]
       end) ++ sel_inputs f l' sel'
  | _, _ => []
  end.

Definition is_reader (s : option bool) : bool :=
  match s with Some true => true | _ => false end.

Lemma div_lt_nch (d n : N) : d < n -> d / dv_chunk_docs < N.of_nat (nch_of n).
Proof.
  intros H. unfold nch_of.
  assert (d / dv_chunk_docs <= (n - 1) / dv_chunk_docs) by (apply N.div_le_mono; [discriminate | lia]).
  lia.
Qed.

Lemma sel_inputs_facts (f : bytes) (ins : list (ASeg * list N)) : forall sel base,
  Forall2 (fun p s => s <> Some true -> dv_entries (fst p) f = []) ins sel ->
  Forall wf_input (sel_inputs f (combine ins (merge_docnums ins base)) sel) /\
  merged_entries (sel_inputs f (combine ins (merge_docnums ins base)) sel)
    = merged_of f ins (merge_docnums ins base) /\
  existsb has_reader (sel_inputs f (combine ins (merge_docnums ins base)) sel) = existsb is_reader sel.
Proof.
  induction ins as [|[A dr] ins IH]; intros sel base H; inversion H as [|? s ? sel' Hs H']; subst.
  - cbn [merge_docnums combine sel_inputs]. repeat split. constructor.
  - cbn [merge_docnums combine sel_inputs]. cbn [fst] in Hs.
    destruct (IH sel' (base + count_live A dr) H') as (Hwf & Hm & He).
    unfold merged_of in *. cbn [merge_docnums combine flat_map' fst snd]. rewrite <- Hm.
    destruct s as [[|]|]; cbn [app existsb is_reader].
    + split; [|split].
      * constructor; [|exact Hwf]. unfold wf_input, in_es, in_tbl. cbn [fst snd].
        split; [apply dv_entries_asc|]. split.
        -- eapply Forall_impl; [|apply dv_entries_bound]. cbv beta. intros e He'.
           apply div_lt_nch. exact He'.
        -- eapply Forall_impl; [|apply dv_entries_bound]. cbv beta. intros e He'.
           rewrite renumber_length. unfold o_count, lenN in He'. lia.
      * unfold merged_entries. cbn [flat_map']. reflexivity.
      * reflexivity.
    + rewrite Hs by discriminate. split; [|split].
      * constructor; [reflexivity | exact Hwf].
      * unfold merged_entries. cbn [flat_map']. reflexivity.
      * cbn [has_reader fst orb]. exact He.
    + rewrite Hs by discriminate. split; [exact Hwf|]. split; [reflexivity | exact He].
Qed.

(* (c) the merged chunks are the chunks the layout model predicts for the
   merged segment *)
Theorem merge_dv_correct (f : bytes) (ins : list (ASeg * list N)) (sel : list (option bool)) :
  let M := fst (merge_spec ins) in
  Forall2 (fun p s => s <> Some true -> dv_entries (fst p) f = []) ins sel ->
  0 < o_count M -> o_count M <= docDropped ->
  merge_dv (o_count M) (map in_chunks (sel_inputs f (combine ins (merge_docnums ins 0)) sel))
  = Ok (if existsb is_reader sel
        then Some (dv_chunks (nch_of (o_count M)) (dv_entries M f))
        else None).
Proof.
  intros M Hsel Hpos Hmax.
  destruct (sel_inputs_facts f ins sel 0 Hsel) as (Hwf & Hm & He).
  rewrite merged_entries_spec in Hm by exact Hmax. fold M in Hm.
  rewrite merge_dv_entries_correct; try assumption.
  - rewrite He, Hm. reflexivity.
  - rewrite Hm. apply dv_entries_asc.
  - rewrite Hm. apply dv_entries_bound.
Qed.

(* ------------------------------------------------------------------ *)
(* (b) the builder                                                      *)
(* ------------------------------------------------------------------ *)
(* the document numbers i, i+1, ..., i+n-1 *)
Fixpoint nseq (i : N) (n : nat) : list N :=
  match n with O => [] | S n' => i :: nseq (i + 1) n' end.

Lemma nseq_ge (n : nat) : forall i, Forall (fun d => i <= d) (nseq i n).
Proof.
  induction n as [|n IH]; intros i; cbn [nseq]; constructor; [lia|].
  eapply Forall_impl; [|apply IH]. cbv beta. intros a Ha. lia.
Qed.

Lemma repeat_nseq {A} (x : A) (n : nat) : forall i, repeat x n = map (fun _ => x) (nseq i n).
Proof. induction n as [|n IH]; intros i; cbn [repeat nseq map]; [reflexivity|]. f_equal. apply IH. Qed.

Lemma number_from_nseq {A} (G : N -> A) (n : nat) : forall i,
  number_from i (map G (nseq i n)) = map (fun d => (d, G d)) (nseq i n).
Proof. induction n as [|n IH]; intros i; cbn [nseq map number_from]; [reflexivity|]. f_equal. apply IH. Qed.

Lemma nseq_number_from {A} (l : list A) : forall i, nseq i (length l) = map fst (number_from i l).
Proof. induction l as [|a l IH]; intros i; cbn [length nseq number_from map fst]; [reflexivity|]. f_equal. apply IH. Qed.

Lemma dtm_append_spec (x : bytes) (n : nat) : forall i k (F : N -> bytes), (k < n)%nat ->
  dtm_append (map F (nseq i n)) k x =
  Ok (map (fun d => if d =? i + N.of_nat k then F d ++ x ++ [termSeparator] else F d) (nseq i n)).
Proof.
  induction n as [|n IH]; intros i k F Hk; [lia|].
  cbn [nseq map]. destruct k as [|k]; cbn [dtm_append].
  - replace (i + N.of_nat 0) with i by lia. rewrite N.eqb_refl. f_equal. f_equal.
    apply map_ext_in. intros d Hd.
    pose proof (nseq_ge n (i + 1)) as G. rewrite Forall_forall in G. specialize (G d Hd).
    destruct (N.eqb_spec d i); [lia | reflexivity].
  - rewrite IH by lia. cbn [rbind].
    destruct (N.eqb_spec i (i + N.of_nat (S k))); [lia|]. f_equal. f_equal.
    apply map_ext. intros d. replace (i + 1 + N.of_nat k) with (i + N.of_nat (S k)) by lia. reflexivity.
Qed.

Lemma dtm_term_spec (t : bytes) (n : nat) (ps : list N) : forall F : N -> bytes,
  NoDup ps -> Forall (fun p => (N.to_nat p < n)%nat) ps ->
  dtm_term t ps (map F (nseq 0 n)) =
  Ok (map (fun d => if memN d ps then F d ++ t ++ [termSeparator] else F d) (nseq 0 n)).
Proof.
  induction ps as [|p ps IH]; intros F Hnd Hlt.
  - reflexivity.
  - inversion Hnd as [|? ? Hni Hnd']; subst. inversion Hlt as [|? ? Hp Hlt']; subst.
    cbn [dtm_term]. rewrite dtm_append_spec by exact Hp. cbn [rbind].
    rewrite IH by assumption. f_equal. apply map_ext. intros d.
    unfold memN. cbn [mem]. fold (memN d ps).
    replace (0 + N.of_nat (N.to_nat p)) with p by lia.
    destruct (N.eqb_spec d p) as [->|Hne]; cbn [orb]; [|reflexivity].
    destruct (memN p ps) eqn:Em; [|reflexivity].
    apply Sort_Proofs.memN_In in Em. contradiction.
Qed.

(* what writeDictsField has appended to docTermMap[d] after all terms *)
Definition contrib (terms : list (bytes * list N)) (d : N) : bytes :=
  flat_map' (fun tp : bytes * list N => if memN d (snd tp) then fst tp ++ [termSeparator] else []) terms.

Definition wf_terms (n : nat) (terms : list (bytes * list N)) : Prop :=
  Forall (fun tp : bytes * list N =>
            NoDup (snd tp) /\ Forall (fun p => (N.to_nat p < n)%nat) (snd tp)) terms.

Lemma dtm_terms_spec (n : nat) (terms : list (bytes * list N)) : forall F : N -> bytes,
  wf_terms n terms ->
  dtm_terms terms (map F (nseq 0 n)) = Ok (map (fun d => F d ++ contrib terms d) (nseq 0 n)).
Proof.
  induction terms as [|[t ps] terms IH]; intros F Hwf.
  - cbn [dtm_terms contrib flat_map']. f_equal. apply map_ext. intros d. rewrite app_nil_r. reflexivity.
  - inversion Hwf as [|? ? [Hnd Hlt] Hwf']; subst. cbn [fst snd] in *.
    cbn [dtm_terms]. rewrite dtm_term_spec by assumption. cbn [rbind].
    rewrite IH by assumption. f_equal. apply map_ext. intros d.
    unfold contrib. cbn [flat_map' fst snd].
    destruct (memN d ps); cbn [app]; rewrite <- ?app_assoc; reflexivity.
Qed.

Lemma dv_add_docs_spec (G : N -> bytes) (l : list N) : forall c,
  dv_add_docs c (map (fun d => (d, G d)) l) =
  cc_adds c (flat_map' (fun d => match G d with [] => [] | _ => [(d, G d)] end) l).
Proof.
  induction l as [|d l IH]; intros c; [reflexivity|].
  cbn [map dv_add_docs flat_map'].
  destruct (G d) as [|x r] eqn:E.
  - cbn [rbind app]. apply IH.
  - cbn [app cc_adds]. destruct (cc_add c d (x :: r)); cbn [rbind]; auto.
Qed.

(* the builder's doc-value pass is the coder run over the documents with a
   non-empty term string *)
Definition builder_entries (n : nat) (terms : list (bytes * list N)) : list (N * bytes) :=
  flat_map' (fun d => match contrib terms d with [] => [] | _ => [(d, contrib terms d)] end) (nseq 0 n).

Lemma build_dv_run (numDocs : N) (terms : list (bytes * list N)) :
  0 < numDocs -> wf_terms (N.to_nat numDocs) terms ->
  build_dv true numDocs terms =
  (do chunks <- cc_run dv_chunk_docs (numDocs - 1) (builder_entries (N.to_nat numDocs) terms);
   Ok (Some chunks))
  /\ build_dv false numDocs terms = Ok None.
Proof.
  intros Hpos Hwf. unfold build_dv.
  rewrite (repeat_nseq (@nil N) (N.to_nat numDocs) 0).
  rewrite dtm_terms_spec by exact Hwf. cbn [rbind app].
  destruct (N.eqb_spec numDocs 0) as [|_]; [lia|].
  unfold cc_run, cc_new. change (dv_chunk_docs =? 0) with false. cbn [rbind].
  split; [|reflexivity].
  rewrite number_from_nseq, dv_add_docs_spec. fold (builder_entries (N.to_nat numDocs) terms).
  destruct (cc_adds _ (builder_entries (N.to_nat numDocs) terms)) as [c1| | | |]; cbn [rbind]; try reflexivity.
  destruct (cc_close c1); reflexivity.
Qed.

(* ---- the term strings against the abstract segment ---- *)
Lemma contrib_map (P : bytes -> list N) (l : list bytes) (d : N) :
  contrib (map (fun t => (t, P t)) l) d = dv_bytes (filter (fun t => memN d (P t)) l).
Proof.
  unfold contrib, dv_bytes. induction l as [|t l IH]; [reflexivity|].
  cbn [map flat_map' filter fst snd]. rewrite IH.
  destruct (memN d (P t)); reflexivity.
Qed.

(* what the theorem needs of the segment for field f; abs_of_batch has it
   whenever dv_flag holds for the field *)
Record dv_wf (A : ASeg) (f : bytes) : Prop := mkDvWf {
  wf_sorted : forall d, In d (as_docs A) -> strict_sorted_bytes (map fst (doc_terms d f));
  wf_flag : forall d df, In d (as_docs A) -> doc_field d f = Some df ->
            adf_dv df = negb (match adf_terms df with [] => true | _ => false end);
  wf_known : known_field A f = true \/ forall d, In d (as_docs A) -> doc_terms d f = [] }.

Lemma doc_term_filter (A : ASeg) (f : bytes) (n : N) (d : ADoc) :
  dv_wf A f -> In (n, d) (number_from 0 (as_docs A)) ->
  filter (fun t => memN n (map fst (o_postings A f t))) (o_terms A f) = map fst (doc_terms d f).
Proof.
  intros [Hsorted _ Hknown] Hin.
  pose proof (proj1 (DocsMatching_Proofs.number_from_In _ _ _ _) Hin) as [k [Hn Hk]].
  assert (Hd : In d (as_docs A)) by (eapply nth_error_In; exact Hk).
  apply strict_sorted_bytes_ext.
  - apply sorted_filter. unfold o_terms. destruct (known_field A f); [|constructor].
    apply sort_dedup_bytes_sorted.
  - apply Hsorted. exact Hd.
  - intros t. rewrite filter_In, Sort_Proofs.memN_In, postings_docs_iff. split.
    + intros [_ [_ [doc [df [Hnth [_ [Hdf [v Hv]]]]]]]].
      rewrite DocsMatching_Proofs.nthN_nth_error in Hnth.
      replace (N.to_nat n) with k in Hnth by lia. rewrite Hk in Hnth. inversion Hnth; subst doc.
      unfold doc_terms. rewrite Hdf. apply (find_key_In fst). rewrite Hv. discriminate.
    + intros Ht.
      assert (Hne : doc_terms d f <> []) by (intros E; rewrite E in Ht; destruct Ht).
      assert (Hkn : known_field A f = true).
      { destruct Hknown as [Hkn|Hnone]; [exact Hkn|]. exfalso. apply Hne. apply Hnone. exact Hd. }
      split.
      * unfold o_terms. rewrite Hkn. apply sort_dedup_bytes_In.
        apply Build_Proofs.In_flat_map'. exists d. split; assumption.
      * split; [exact Hkn|]. unfold doc_terms in *.
        destruct (doc_field d f) as [df|] eqn:Hdf; [|destruct Ht].
        exists d, df. split; [|split; [|split]].
        -- rewrite DocsMatching_Proofs.nthN_nth_error. replace (N.to_nat n) with k by lia. exact Hk.
        -- assert (k < length (as_docs A))%nat by (apply nth_error_Some; rewrite Hk; discriminate).
           unfold o_count, lenN. lia.
        -- exact Hdf.
        -- apply (find_key_In fst) in Ht.
           destruct (find (fun at_ : ATerm => beq (fst at_) t) (adf_terms df)) as [v|] eqn:Ef.
           ++ exists v. exact Ef.
           ++ exfalso. apply Ht. exact Ef.
Qed.

Lemma builder_entries_spec (A : ASeg) (f : bytes) :
  dv_wf A f ->
  builder_entries (length (as_docs A)) (dv_field_terms A f) = dv_entries A f.
Proof.
  intros Hwf. unfold builder_entries. rewrite dv_entries_eq, nseq_number_from.
  rewrite Build_Proofs.flat_map'_map. apply Build_Proofs.flat_map'_ext_in. intros [n d] Hin.
  cbn [fst]. unfold dv_field_terms. rewrite contrib_map.
  rewrite (doc_term_filter A f n d Hwf Hin).
  assert (Hd : In d (as_docs A)).
  { apply Build_Proofs.number_from_In in Hin. tauto. }
  unfold entry_of_doc, doc_dv, doc_terms. cbn [fst snd].
  destruct (doc_field d f) as [df|] eqn:Hdf; [|reflexivity].
  rewrite (wf_flag A f Hwf d df Hd Hdf).
  destruct (adf_terms df) as [|a r] eqn:Et; [reflexivity|]. cbn [negb].
  pose proof (dv_bytes_nonempty (map fst (a :: r))) as Hne.
  destruct (dv_bytes (map fst (a :: r))); [exfalso; apply Hne; [discriminate | reflexivity] | reflexivity].
Qed.

Lemma field_terms_wf (A : ASeg) (f : bytes) :
  wf_terms (length (as_docs A)) (dv_field_terms A f).
Proof.
  unfold wf_terms, dv_field_terms. apply Forall_forall. intros tp Htp.
  apply in_map_iff in Htp. destruct Htp as [t [<- _]]. cbn [snd]. split.
  - apply strict_sorted_N_NoDup. unfold strict_sorted_N.
    apply (Build_Proofs.StronglySorted_map (fun a b : N => a < b) fst). apply o_postings_ascending.
  - apply Forall_forall. intros p Hp. apply postings_docs_iff in Hp.
    destruct Hp as [_ [doc [df [_ [Hlt _]]]]]. unfold o_count, lenN in Hlt. lia.
Qed.

(* (b) for any segment with the shape a batch produces *)
Theorem build_dv_correct_gen (A : ASeg) (f : bytes) :
  dv_wf A f -> 0 < o_count A ->
  build_dv true (o_count A) (dv_field_terms A f)
  = Ok (Some (dv_chunks (nch_of (o_count A)) (dv_entries A f)))
  /\ build_dv false (o_count A) (dv_field_terms A f) = Ok None.
Proof.
  intros Hwf Hpos.
  assert (Hn : N.to_nat (o_count A) = length (as_docs A)) by (unfold o_count, lenN; lia).
  destruct (build_dv_run (o_count A) (dv_field_terms A f) Hpos) as [Ht Hf].
  { rewrite Hn. apply field_terms_wf. }
  split; [|exact Hf].
  rewrite Ht, Hn, builder_entries_spec by exact Hwf.
  rewrite coder_chunks_1024.
  - reflexivity.
  - apply dv_entries_asc.
  - eapply Forall_impl; [|apply dv_entries_bound]. cbv beta. intros e He. lia.
Qed.

(* a batch produces that shape for every field whose doc values are requested *)
Lemma abs_of_batch_dv_wf norm (b : Batch) (f : bytes) :
  dv_flag b f = true -> dv_wf (abs_of_batch norm b) f.
Proof.
  intros Hflag.
  assert (Hdocs : forall d, In d (as_docs (abs_of_batch norm b)) ->
            exists doc, In doc b /\ d = abs_doc norm b (field_list (batch_field_names b)) doc).
  { unfold abs_of_batch. cbn [as_docs]. intros d Hd. apply in_map_iff in Hd.
    destruct Hd as [doc [<- Hdoc]]. exists doc. auto. }
  constructor.
  - intros d Hd. destruct (Hdocs d Hd) as [doc [Hdoc ->]].
    rewrite doc_terms_abs_doc by exact Hdoc. apply roll_up_keys_sorted.
  - intros d df Hd Hdf. destruct (Hdocs d Hd) as [doc [Hdoc ->]].
    rewrite doc_field_abs_doc in Hdf by exact Hdoc. unfold abs_doc_field in Hdf.
    destruct (instances f doc); [discriminate Hdf|].
    cbn [hd_error] in Hdf. inversion Hdf; subst df. cbn [adf_dv adf_terms].
    rewrite Hflag. reflexivity.
  - destruct (known_field (abs_of_batch norm b) f) eqn:Ek; [left; reflexivity|]. right.
    intros d Hd. destruct (Hdocs d Hd) as [doc [Hdoc ->]].
    rewrite doc_terms_abs_doc by exact Hdoc.
    rewrite (instances_nil_unknown b doc f); [reflexivity | exact Hdoc |].
    intros Hf. apply (proj2 (build_known_field norm b f)) in Hf. congruence.
Qed.

(* (b) the builder writes exactly the chunks the layout model predicts *)
Theorem build_dv_correct norm (b : Batch) (f : bytes) :
  dv_flag b f = true ->
  let A := abs_of_batch norm b in
  build_dv true (lenN b) (dv_field_terms A f)
  = Ok (Some (dv_chunks (nch_of (lenN b)) (dv_entries A f))).
Proof.
  intros Hflag A.
  assert (Hcount : o_count A = lenN b) by apply build_count.
  rewrite <- Hcount. apply build_dv_correct_gen.
  - apply abs_of_batch_dv_wf. exact Hflag.
  - rewrite Hcount. unfold dv_flag in Hflag. destruct b; [discriminate Hflag|].
    unfold lenN. cbn [length]. lia.
Qed.

(* a field whose doc values are not requested gets fieldNotUninverted *)
Theorem build_dv_not_requested norm (b : Batch) (f : bytes) :
  b <> [] ->
  build_dv false (lenN b) (dv_field_terms (abs_of_batch norm b) f) = Ok None.
Proof.
  intros Hne. unfold build_dv.
  assert (Hcount : o_count (abs_of_batch norm b) = lenN b) by apply build_count.
  assert (Hn : N.to_nat (lenN b) = length (as_docs (abs_of_batch norm b))).
  { rewrite <- Hcount. unfold o_count, lenN. lia. }
  rewrite (repeat_nseq (@nil N) (N.to_nat (lenN b)) 0), Hn.
  rewrite dtm_terms_spec by apply field_terms_wf. cbn [rbind].
  destruct (N.eqb_spec (lenN b) 0) as [E|_].
  - destruct b; [contradiction|]. unfold lenN in E. cbn [length] in E. lia.
  - reflexivity.
Qed.

(* ------------------------------------------------------------------ *)
(* the bytes of a flushed blob: delta coded header, round trip          *)
(* ------------------------------------------------------------------ *)
Lemma two64_pos : two64 <> 0.
Proof. unfold two64. discriminate. Qed.

Lemma sub64_lt (a b : N) : sub64 a b < two64.
Proof. unfold sub64. apply N.mod_lt. exact two64_pos. Qed.

Lemma add64_sub64 (d p : N) : d < two64 -> p < two64 -> add64 (sub64 d p) p = d.
Proof.
  intros Hd Hp. unfold add64, sub64, wrap64.
  rewrite (N.mod_small p two64) by exact Hp.
  rewrite N.add_mod_idemp_l by exact two64_pos.
  replace (d + two64 - p + p) with (d + 1 * two64) by lia.
  rewrite N.mod_add by exact two64_pos. apply N.mod_small. exact Hd.
Qed.

Definition meta_ok (meta : list (N * N)) : Prop :=
  Forall (fun e : N * N => fst e < two64 /\ snd e < two64) meta.

Lemma parse_pairs_round (meta : list (N * N)) : forall p q rest,
  p < two64 -> q < two64 -> meta_ok meta ->
  parse_pairs (length meta) p q (header_pairs p q meta ++ rest) = Some (meta, rest).
Proof.
  induction meta as [|[d o] meta IH]; intros p q rest Hp Hq Hok; [reflexivity|].
  inversion Hok as [|? ? [Hd Ho] Hok']; subst. cbn [fst snd] in *.
  cbn [length header_pairs parse_pairs]. rewrite <- !app_assoc.
  rewrite read_put_uvarint by apply sub64_lt.
  rewrite read_put_uvarint by apply sub64_lt.
  rewrite !add64_sub64 by assumption.
  rewrite IH by assumption. reflexivity.
Qed.

(* loadDvChunk reads back the header flushContents wrote, and finds the data
   right behind it (for any document numbers and offsets: the differences wrap) *)
Theorem parse_header_round (meta : list (N * N)) (rest : bytes) :
  lenN meta < two64 -> meta_ok meta ->
  parse_header (header_bytes meta ++ rest) = Some (meta, rest).
Proof.
  intros Hlen Hok. unfold parse_header, header_bytes. rewrite <- app_assoc.
  rewrite read_put_uvarint by exact Hlen.
  replace (N.to_nat (lenN meta)) with (length meta) by (unfold lenN; lia).
  apply parse_pairs_round; [unfold two64; lia.. | exact Hok].
Qed.

Theorem parse_blob_round (c : DvChunk) :
  lenN (dvc_header c) < two64 -> meta_ok (dvc_header c) ->
  parse_blob (blob_bytes c) = Some c.
Proof.
  intros Hlen Hok. unfold parse_blob, blob_bytes.
  rewrite parse_header_round by assumption. destruct c; reflexivity.
Qed.

(* a flushed blob is never empty: a flushed chunk always has start < end *)
Theorem blob_nonempty (c : DvChunk) : blob_bytes c <> [].
Proof.
  unfold blob_bytes, header_bytes. pose proof (put_uvarint_nonempty (lenN (dvc_header c))) as H.
  destruct (put_uvarint (lenN (dvc_header c))); [congruence | discriminate].
Qed.

(* ------------------------------------------------------------------ *)
(* (d) examples                                                         *)
(* ------------------------------------------------------------------ *)
(* builder: three documents, the middle one lacks the field *)
Definition exw_t : bytes := [116].                      (* field "t" *)
Definition exw_u : bytes := [117].                      (* field "u" *)
Definition exw_term (s : bytes) : Term := mkTerm s 1 [].
Definition exw_batch : Batch :=
  [ [mkField exw_t 2 false true [] [exw_term [98]; exw_term [97]]];      (* "b", "a" *)
    [mkField exw_u 1 false false [] [exw_term [97]]];
    [mkField exw_t 1 false true [] [exw_term [97]]] ].
Definition exw_norm (f : bytes) (n : N) : N := n.
Definition exw_A : ASeg := abs_of_batch exw_norm exw_batch.

Example build_dv_example :
  dv_field_terms exw_A exw_t = [([97], [0; 2]); ([98], [0])]
  /\ build_dv true 3 (dv_field_terms exw_A exw_t)
     = Ok (Some [mkDvChunk [(0, 4); (2, 6)] [97; 255; 98; 255; 97; 255]])
  /\ build_dv true 3 (dv_field_terms exw_A exw_t)
     = Ok (Some (dv_chunks 1 (dv_entries exw_A exw_t)))
  /\ build_dv false 3 (dv_field_terms exw_A exw_u) = Ok None
  /\ build_dv true 3 [([97], [0; 3])] = Panic.
Proof. vm_compute. repeat split; reflexivity. Qed.

(* the coder when the first document is not in chunk 0 and a chunk is skipped *)
Example coder_example_skips :
  cc_run 2 7 [(3, [1; 255]); (6, [2; 255]); (7, [3; 255])]
  = Ok [dv_empty_chunk; mkDvChunk [(3, 2)] [1; 255]; dv_empty_chunk;
        mkDvChunk [(6, 2); (7, 4)] [2; 255; 3; 255]]
  /\ cc_run 2 5 [(6, [2; 255])] = Panic.
Proof. vm_compute. split; reflexivity. Qed.

(* merger: an input with 2,050 documents of which 1024..2047 lack the field
   (its middle chunk is wholly empty), a small input, an input without a
   reader for the field; a few drops *)
Definition exm_bytes (d : N) : bytes := [d mod 200; 255].
Definition exm_es1 : list (N * bytes) :=
  flat_map' (fun d => if (1024 <=? d) && (d <? 2048) then [] else [(d, exm_bytes d)])
            (map N.of_nat (seq 0 2050)).
Definition exm_drops1 : list N := [0; 5; 1023; 2048].
Definition exm_in1 : dv_input := (Some 3%nat, renumber 2050 0 exm_drops1 0, exm_es1).
Definition exm_in2 : dv_input := (Some 1%nat, renumber 3 0 [1] 2046, [(0, [1; 255]); (1, [9; 255]); (2, [2; 255])]).
Definition exm_in3 : dv_input := (None, renumber 2 0 [] 2048, []).
Definition exm_ins : list dv_input := [exm_in1; exm_in2; exm_in3].

Example merge_dv_example :
  nth 1 (dv_chunks 3 exm_es1) dv_empty_chunk = dv_empty_chunk
  /\ merge_dv 2050 (map in_chunks exm_ins) = Ok (Some (dv_chunks 3 (merged_entries exm_ins)))
  /\ lenN (merged_entries exm_ins) = 1024
  /\ firstn 3 (merged_entries exm_ins) = [(0, [1; 255]); (1, [2; 255]); (2, [3; 255])]
  /\ skipn 1020 (merged_entries exm_ins)
     = [(1020, [22; 255]); (2045, [49; 255]); (2046, [1; 255]); (2047, [2; 255])]
  /\ merge_dv 2050 (map in_chunks [exm_in3]) = Ok None.
Proof. vm_compute. repeat split; reflexivity. Qed.

Example header_bytes_example :
  header_bytes [(1030, 4); (1031, 300)] = [2; 134; 8; 4; 1; 168; 2]
  /\ parse_blob (blob_bytes (mkDvChunk [(1030, 4); (1031, 300)] [7; 255]))
     = Some (mkDvChunk [(1030, 4); (1031, 300)] [7; 255]).
Proof. vm_compute. split; reflexivity. Qed.

(* the same merge on abstract segments: the hypotheses of merge_dv_correct
   hold and both sides compute to the same chunks *)
Definition exs_doc (d : N) : ADoc :=
  if (1024 <=? d) && (d <? 2048) then mkADoc [] []
  else mkADoc [mkADF exw_t 0 [([d mod 200], (1, []))] true] [].
Definition exs_A1 : ASeg := mkASeg [id_name; exw_t] (map (fun k => exs_doc (N.of_nat k)) (seq 0 2050)) [].
Definition exs_A2 : ASeg := mkASeg [id_name; exw_t] [mkADoc [mkADF exw_t 0 [([1], (1, []))] false] []] [].
Definition exs_A3 : ASeg := mkASeg [id_name] [mkADoc [] []; mkADoc [] []] [].
Definition exs_ins : list (ASeg * list N) := [(exs_A1, exm_drops1); (exs_A2, []); (exs_A3, [1])].
Definition exs_sel : list (option bool) := [Some true; Some false; None].

Example merge_dv_example_segments :
  let M := fst (merge_spec exs_ins) in
  o_count M = 2048
  /\ forallb (fun ps : (ASeg * list N) * option bool =>
                is_reader (snd ps) || match dv_entries (fst (fst ps)) exw_t with [] => true | _ => false end)
             (combine exs_ins exs_sel) = true
  /\ merge_dv (o_count M) (map in_chunks (sel_inputs exw_t (combine exs_ins (merge_docnums exs_ins 0)) exs_sel))
     = Ok (Some (dv_chunks (nch_of (o_count M)) (dv_entries M exw_t)))
  /\ lenN (dv_entries M exw_t) = 1022.
Proof. vm_compute. repeat split; reflexivity. Qed.

(* Builder_Proofs.v - the in-memory phase of the segment builder
   (theories/Builder.v, the model of new.go) computes exactly what the
   specification says.

   Main results, for an arbitrary norm function and an arbitrary order of Go's
   map iteration ([perm], any function returning a permutation of its input):
     define_fields_spec     (a) the field numbering is Spec.field_list
     dict_lookup_defined        "pid := dict[term]-1" always finds the term
     rollup_perm            (c1) the per-(document, field) roll-up is Spec.roll_up
                                 up to the order of the entries
     windows_disjoint       (b) every single append of processDocuments stays
                                inside the window prepareDicts carved for its
                                postings list: no overlap, no reallocation
                                (no validity of the batch needed)
     convert_ideal              the model proper = the ideal model whose slices
                                are private lists (relation Sim)
     build_windows          (c2)-(c4) contents of Postings[pid] and of the two
                                windows of pid (no validity needed)
     R_build_postings       (c) for a valid batch the model delivers, for all
                                fields in field-list order and all terms in
                                sorted order, map to_eposting (o_postings ...)
     build_perm_independent     hence the result does not depend on perm
     build_model_example    (d) a worked example, two iteration orders

   Structure of the argument: processDocuments is parametric in the
   implementation of the two slice families (Section Rel): the model proper
   (Arr, arr_append), the ideal model (list of lists) and a recording of the
   appends are related step by step.  The ideal model is characterised by an
   invariant over the documents (BInv); its log lengths are bounded by the
   counters of prepareDicts (invariant PI of the counting pass); Sim_run then
   shows that replaying the recorded appends on the carved backing array never
   leaves a window. *)
From Coq Require Import List NArith Bool Lia Arith Sorting Permutation.
From Ice Require Import Base Spec Postings Builder.
From IceProofs Require Import Sort_Proofs Build_Proofs.
Import ListNotations.
Open Scope N_scope.
From Coq Require Import ZifyBool ZifyN ZifyNat.

(* ------------------------------------------------------------------ *)
(* list utilities                                                      *)
(* ------------------------------------------------------------------ *)
Lemma set_nth_length {A} (n : nat) (x : A) (l : list A) :
  length (set_nth n x l) = length l.
Proof.
  revert n. induction l as [|y l IH]; intros [|n]; cbn [set_nth length]; auto.
Qed.

Lemma nth_set_nth_eq {A} (n : nat) (x d : A) (l : list A) :
  (n < length l)%nat -> nth n (set_nth n x l) d = x.
Proof.
  revert n. induction l as [|y l IH]; intros [|n] H; cbn [set_nth nth length] in *;
    try lia; auto. apply IH. lia.
Qed.

Lemma nth_set_nth_neq {A} (n m : nat) (x d : A) (l : list A) :
  n <> m -> nth m (set_nth n x l) d = nth m l d.
Proof.
  revert n m. induction l as [|y l IH]; intros [|n] [|m] H; cbn [set_nth nth]; auto.
  - congruence.
Qed.

Lemma set_nth_oob {A} (n : nat) (x : A) (l : list A) :
  (length l <= n)%nat -> set_nth n x l = l.
Proof.
  revert n. induction l as [|y l IH]; intros [|n] H; cbn [set_nth length] in *; auto.
  - lia.
  - f_equal. apply IH. lia.
Qed.

Lemma set_nth_set_nth {A} (n : nat) (x y : A) (l : list A) :
  set_nth n x (set_nth n y l) = set_nth n x l.
Proof.
  revert n. induction l as [|z l IH]; intros [|n]; cbn [set_nth]; auto.
  f_equal. apply IH.
Qed.

Lemma set_nth_same {A} (n : nat) (d : A) (l : list A) :
  set_nth n (nth n l d) l = l.
Proof.
  revert n. induction l as [|z l IH]; intros [|n]; cbn [set_nth nth]; auto.
  f_equal. apply IH.
Qed.

Lemma upd_nth_length {A} (n : nat) (f : A -> A) (d : A) (l : list A) :
  length (upd_nth n f d l) = length l.
Proof. apply set_nth_length. Qed.

Lemma nth_upd_nth_eq {A} (n : nat) (f : A -> A) (d : A) (l : list A) :
  (n < length l)%nat -> nth n (upd_nth n f d l) d = f (nth n l d).
Proof. intros H. unfold upd_nth. apply nth_set_nth_eq, H. Qed.

Lemma nth_upd_nth_neq {A} (n m : nat) (f : A -> A) (d : A) (l : list A) :
  n <> m -> nth m (upd_nth n f d l) d = nth m l d.
Proof. intros H. unfold upd_nth. apply nth_set_nth_neq, H. Qed.

Lemma fold_left_ind {A B} (P : A -> Prop) (f : A -> B -> A) (l : list B) (a : A) :
  P a -> (forall a x, In x l -> P a -> P (f a x)) -> P (fold_left f l a).
Proof.
  revert a. induction l as [|x l IH]; intros a Ha Hs; cbn [fold_left]; auto.
  apply IH.
  - apply Hs; [left; reflexivity | exact Ha].
  - intros a' x' Hx. apply Hs. right. exact Hx.
Qed.

(* assoc *)
Lemma assoc_app {V} (k : bytes) (l1 l2 : list (bytes * V)) :
  assoc k (l1 ++ l2) = match assoc k l1 with Some v => Some v | None => assoc k l2 end.
Proof.
  induction l1 as [|[k' v] l1 IH]; cbn [assoc app]; auto.
  destruct (beq k' k); auto.
Qed.

Lemma assoc_find {V} (k : bytes) (l : list (bytes * V)) :
  assoc k l = option_map snd (find (fun e => beq (fst e) k) l).
Proof.
  induction l as [|[k' v] l IH]; cbn [assoc find fst]; auto.
  destruct (beq k' k); auto.
Qed.

Lemma assoc_None {V} (k : bytes) (l : list (bytes * V)) :
  assoc k l = None <-> ~ In k (map fst l).
Proof.
  induction l as [|[k' v] l IH]; cbn [assoc map fst In].
  - tauto.
  - destruct (beq k' k) eqn:E.
    + apply beq_eq in E. split; [discriminate | tauto].
    + apply beq_neq in E. rewrite IH. tauto.
Qed.

Lemma assoc_Some_In {V} (k : bytes) (v : V) (l : list (bytes * V)) :
  assoc k l = Some v -> In (k, v) l.
Proof.
  induction l as [|[k' v'] l IH]; cbn [assoc In]; [discriminate|].
  destruct (beq k' k) eqn:E.
  - apply beq_eq in E. intros H. inversion H. subst. auto.
  - auto.
Qed.

Lemma assoc_In_key {V} (k : bytes) (l : list (bytes * V)) :
  In k (map fst l) -> exists v, assoc k l = Some v.
Proof.
  intros H. destruct (assoc k l) as [v|] eqn:E; [eauto|].
  apply assoc_None in E. contradiction.
Qed.

(* index_of *)
Lemma index_of_None (x : bytes) (l : list bytes) (i : N) :
  index_of x l i = None <-> ~ In x l.
Proof.
  revert i. induction l as [|y l IH]; intros i; cbn [index_of In].
  - tauto.
  - destruct (beq x y) eqn:E.
    + apply beq_eq in E. split; [discriminate | intros H; exfalso; apply H; auto].
    + apply beq_neq in E. rewrite IH. split; intros H; [intros [H1|H1]; [congruence | tauto] | tauto].
Qed.

Lemma index_of_Some (x : bytes) (l : list bytes) (i j : N) :
  index_of x l i = Some j ->
  i <= j /\ j < i + lenN l /\ nth (N.to_nat (j - i)) l [] = x.
Proof.
  revert i. induction l as [|y l IH]; intros i; cbn [index_of]; [discriminate|].
  destruct (beq x y) eqn:E.
  - apply beq_eq in E. intros H. inversion H. subst. unfold lenN. cbn [length].
    replace (N.to_nat (j - j)) with O by lia. cbn [nth]. repeat split; lia.
  - intros H. apply IH in H. destruct H as [H1 [H2 H3]]. unfold lenN in *. cbn [length].
    replace (N.to_nat (j - i)) with (S (N.to_nat (j - (i + 1)))) by lia.
    cbn [nth]. repeat split; try lia. exact H3.
Qed.

Lemma index_of_app_l (x : bytes) (l l' : list bytes) (i j : N) :
  index_of x l i = Some j -> index_of x (l ++ l') i = Some j.
Proof.
  revert i. induction l as [|y l IH]; intros i; cbn [index_of app]; [discriminate|].
  destruct (beq x y); auto.
Qed.

Lemma index_of_app_r (x : bytes) (l l' : list bytes) (i : N) :
  index_of x l i = None -> index_of x (l ++ l') i = index_of x l' (i + lenN l).
Proof.
  revert i. induction l as [|y l IH]; intros i; cbn [index_of app].
  - intros _. f_equal. unfold lenN. cbn [length]. lia.
  - destruct (beq x y); [discriminate|]. intros H. rewrite IH by exact H.
    f_equal. unfold lenN. cbn [length]. lia.
Qed.

Lemma index_of_nth (l : list bytes) (k : nat) (i : N) :
  NoDup l -> (k < length l)%nat -> index_of (nth k l []) l i = Some (i + N.of_nat k).
Proof.
  revert k i. induction l as [|y l IH]; intros k i Hnd Hk; cbn [length] in Hk; [lia|].
  inversion Hnd as [|? ? Hni Hnd']; subst.
  destruct k as [|k]; cbn [nth index_of].
  - rewrite beq_refl. f_equal. lia.
  - destruct (beq (nth k l []) y) eqn:E.
    + apply beq_eq in E. exfalso. apply Hni. rewrite <- E. apply nth_In. lia.
    + rewrite IH by (auto; lia). f_equal. lia.
Qed.

Lemma index_of_In (x : bytes) (l : list bytes) (i : N) :
  In x l -> exists j, index_of x l i = Some j.
Proof.
  intros H. destruct (index_of x l i) as [j|] eqn:E; [eauto|].
  apply index_of_None in E. contradiction.
Qed.

(* ------------------------------------------------------------------ *)
(* (a) field numbering                                                 *)
(* ------------------------------------------------------------------ *)
Lemma getOrDefineField_known (s : Flds) (name : bytes) :
  In name (FieldsInv s) ->
  exists i, index_of name (FieldsInv s) 0 = Some i /\ getOrDefineField s name = (s, i).
Proof.
  intros H. destruct (index_of_In name (FieldsInv s) 0 H) as [i E].
  exists i. split; [exact E|]. unfold getOrDefineField. rewrite E. reflexivity.
Qed.

(* what the definition loop of convert maintains *)
Definition fresh_flds (s : Flds) (seen : list bytes) : Prop :=
  (exists rest, FieldsInv s = id_name :: rest /\ NoDup rest /\
     forall x, In x rest <-> (x <> id_name /\ In x seen)) /\
  Dicts s = repeat [] (length (FieldsInv s)) /\
  DictKeys s = repeat [] (length (FieldsInv s)).

Lemma repeat_snoc {A} (x : A) (n : nat) : repeat x n ++ [x] = repeat x (S n).
Proof. cbn [repeat]. symmetry. apply repeat_cons. Qed.

Lemma fresh_flds_step (s : Flds) (seen : list bytes) (n : bytes) :
  fresh_flds s seen -> fresh_flds (fst (getOrDefineField s n)) (seen ++ [n]).
Proof.
  intros [[rest [E [Hnd Hin]]] [HD HK]].
  unfold getOrDefineField.
  destruct (index_of n (FieldsInv s) 0) as [i|] eqn:Ei; cbn [fst].
  - split; [|split; assumption].
    exists rest. split; [exact E|]. split; [exact Hnd|].
    intros x. rewrite Hin, in_app_iff. cbn [In]. split; [tauto|].
    intros [H1 [H2|[H2|[]]]]; [tauto|]. subst x. split; [exact H1|].
    apply index_of_Some in Ei. destruct Ei as [_ [Hlt Hn]].
    assert (Hi : In n (FieldsInv s)).
    { rewrite <- Hn. apply nth_In. unfold lenN in Hlt. lia. }
    rewrite E in Hi. destruct Hi as [Hi|Hi]; [congruence|].
    apply Hin in Hi. tauto.
  - apply index_of_None in Ei. unfold fresh_flds. cbn [FieldsInv Dicts DictKeys].
    split; [|rewrite app_length, HD, HK; cbn [length];
             replace (length (FieldsInv s) + 1)%nat with (S (length (FieldsInv s))) by lia;
             rewrite !repeat_snoc; split; reflexivity].
    exists (rest ++ [n]). rewrite E. split; [reflexivity|].
    rewrite E in Ei. cbn [In] in Ei.
    split.
    + eapply Permutation_NoDup; [apply Permutation_cons_append|].
      constructor; [tauto | exact Hnd].
    + intros x. rewrite !in_app_iff, Hin. cbn [In]. split.
      * intros [H|[H|[]]]; [tauto|]. subst x. split; [|auto]. intros H. apply Ei. auto.
      * intros [H1 [H2|[H2|[]]]]; auto.
Qed.

Lemma fresh_flds_fold (names : list bytes) : forall (s : Flds) (seen : list bytes),
  fresh_flds s seen ->
  fresh_flds (fold_left (fun s n => fst (getOrDefineField s n)) names s) (seen ++ names).
Proof.
  induction names as [|n names IH]; intros s seen H; cbn [fold_left].
  - rewrite app_nil_r. exact H.
  - replace (seen ++ n :: names) with ((seen ++ [n]) ++ names)
      by (rewrite <- app_assoc; reflexivity).
    apply IH, fresh_flds_step, H.
Qed.

Lemma fresh_flds_init : fresh_flds (fst (getOrDefineField (mkFlds [] [] []) id_name)) [].
Proof.
  unfold getOrDefineField. cbn [FieldsInv index_of fst Dicts DictKeys app length repeat].
  split; [|split; reflexivity].
  exists []. split; [reflexivity|]. split; [constructor|].
  intros x. cbn [In]. tauto.
Qed.

Lemma isort_ble_strict (l : list bytes) : NoDup l -> strict_sorted_bytes (isort ble l).
Proof.
  intros H. apply ble_sorted_NoDup_strict.
  - apply isort_sorted; [apply ble_total | apply ble_trans].
  - eapply Permutation_NoDup; [apply Permutation_sym, isort_perm | exact H].
Qed.

Lemma isort_ble_sort_dedup (l l' : list bytes) :
  NoDup l -> (forall x, In x l <-> In x l') -> isort ble l = sort_dedup_bytes l'.
Proof.
  intros Hnd Hin. apply strict_sorted_bytes_ext.
  - apply isort_ble_strict, Hnd.
  - apply sort_dedup_bytes_sorted.
  - intros x. rewrite isort_In, sort_dedup_bytes_In. apply Hin.
Qed.

Definition pre_sort_flds (b : Batch) : Flds :=
  fold_left (fun s n => fst (getOrDefineField s n)) (batch_field_names b)
            (fst (getOrDefineField (mkFlds [] [] []) id_name)).

Lemma pre_sort_fresh (b : Batch) : fresh_flds (pre_sort_flds b) (batch_field_names b).
Proof. apply (fresh_flds_fold (batch_field_names b) _ []), fresh_flds_init. Qed.

Theorem define_fields_spec (b : Batch) :
  define_fields b = field_list (batch_field_names b).
Proof.
  unfold define_fields, convert_fields. fold (pre_sort_flds b). cbn [FieldsInv].
  destruct (pre_sort_fresh b) as [[rest [E [Hnd Hin]]] _].
  rewrite E. unfold field_list. f_equal.
  apply isort_ble_sort_dedup; [exact Hnd|].
  intros x. rewrite Hin, filter_In, negb_true_iff, beq_neq. tauto.
Qed.


(* ------------------------------------------------------------------ *)
(* slices carved out of one backing array behave like private lists    *)
(* as long as no window receives more than it was carved for           *)
(* ------------------------------------------------------------------ *)
Definition off_of (cnts : list nat) (pid : nat) : nat := list_sum (firstn pid cnts).

Lemma list_sum_cons (a : nat) (l : list nat) : list_sum (a :: l) = (a + list_sum l)%nat.
Proof. reflexivity. Qed.
Lemma list_sum_nil : list_sum [] = O.
Proof. reflexivity. Qed.

Lemma off_of_S (cnts : list nat) (pid : nat) :
  off_of cnts (S pid) = (off_of cnts pid + nth pid cnts O)%nat.
Proof.
  unfold off_of. revert pid. induction cnts as [|c cnts IH]; intros pid.
  - destruct pid; cbn [firstn list_sum fold_right nth]; lia.
  - destruct pid as [|pid].
    + rewrite firstn_cons. rewrite !firstn_O. rewrite list_sum_cons, list_sum_nil. cbn [nth]. lia.
    + rewrite !firstn_cons, !list_sum_cons. cbn [nth]. rewrite IH. lia.
Qed.

Lemma off_of_mono (cnts : list nat) (p q : nat) :
  (p <= q)%nat -> (off_of cnts p <= off_of cnts q)%nat.
Proof.
  induction 1 as [|q H IH]; [lia|]. rewrite off_of_S. lia.
Qed.

(* the carved windows [off p, off p + cnts p) are pairwise disjoint *)
Lemma windows_ordered (cnts : list nat) (p q : nat) :
  (p < q)%nat -> (off_of cnts p + nth p cnts O <= off_of cnts q)%nat.
Proof. intros H. rewrite <- off_of_S. apply off_of_mono. lia. Qed.

Lemma off_of_total (cnts : list nat) (p : nat) : (off_of cnts p <= list_sum cnts)%nat.
Proof.
  unfold off_of. revert p. induction cnts as [|c cnts IH]; intros p.
  - destruct p; cbn [firstn list_sum fold_right]; lia.
  - destruct p as [|p].
    + rewrite firstn_O, list_sum_nil. lia.
    + rewrite firstn_cons, !list_sum_cons. specialize (IH p). lia.
Qed.

Lemma off_of_next_total (cnts : list nat) (p : nat) :
  (off_of cnts p + nth p cnts O <= list_sum cnts)%nat.
Proof. rewrite <- off_of_S. apply off_of_total. Qed.

Lemma firstn_set_nth_ge {A} (n w : nat) (x : A) (l : list A) :
  (n <= w)%nat -> firstn n (set_nth w x l) = firstn n l.
Proof.
  revert n w. induction l as [|y l IH]; intros [|n] [|w] H; cbn [set_nth firstn]; auto; try lia.
  f_equal. apply IH. lia.
Qed.

Lemma window_set_nth_out {A} (n o w : nat) (x : A) (l : list A) :
  (w < o \/ o + n <= w)%nat ->
  firstn n (skipn o (set_nth w x l)) = firstn n (skipn o l).
Proof.
  revert o w. induction l as [|y l IH]; intros o w H.
  - destruct w; reflexivity.
  - destruct o as [|o].
    + cbn [skipn]. apply firstn_set_nth_ge. lia.
    + destruct w as [|w]; cbn [set_nth skipn]; [reflexivity|]. apply IH. lia.
Qed.

Lemma firstn_set_nth_snoc {A} (n : nat) (x : A) (l : list A) :
  (n < length l)%nat -> firstn (S n) (set_nth n x l) = firstn n l ++ [x].
Proof.
  revert n. induction l as [|y l IH]; intros n H; cbn [length] in H; [lia|].
  destruct n as [|n].
  - reflexivity.
  - cbn [set_nth]. change (firstn (S (S n)) (y :: set_nth n x l)) with (y :: firstn (S n) (set_nth n x l)).
    rewrite IH by lia. reflexivity.
Qed.

Lemma window_set_nth_snoc {A} (n o : nat) (x : A) (l : list A) :
  (o + n < length l)%nat ->
  firstn (S n) (skipn o (set_nth (o + n) x l)) = firstn n (skipn o l) ++ [x].
Proof.
  revert o. induction l as [|y l IH]; intros o H; cbn [length] in H; [lia|].
  destruct o as [|o].
  - cbn [skipn plus]. apply firstn_set_nth_snoc. cbn [length]. lia.
  - cbn [plus set_nth skipn]. apply IH. lia.
Qed.

Lemma nth_carve {X} (cnts : list nat) : forall (off pid : nat),
  (pid < length cnts)%nat ->
  nth pid (@carve X off cnts) (Detached []) = Win (off + off_of cnts pid) 0.
Proof.
  induction cnts as [|c cnts IH]; intros off pid H; cbn [length] in H; [lia|].
  destruct pid as [|pid]; cbn [carve nth].
  - unfold off_of. rewrite firstn_O, list_sum_nil. f_equal. lia.
  - rewrite IH by lia. f_equal. unfold off_of. rewrite firstn_cons, list_sum_cons. lia.
Qed.

Lemma carve_length {X} (cnts : list nat) (off : nat) : length (@carve X off cnts) = length cnts.
Proof.
  revert off. induction cnts as [|c cnts IH]; intros off; cbn [carve length]; auto.
Qed.

Section Sim.
  Context {X : Type}.

  Definition arr_run (a : Arr X) (tr : list (nat * X)) : Arr X :=
    fold_left (fun a e => arr_append a (fst e) (snd e)) tr a.
  Definition log_app (logs : list (list X)) (p : nat) (x : X) : list (list X) :=
    upd_nth p (fun l => l ++ [x]) [] logs.
  Definition log_run (logs : list (list X)) (tr : list (nat * X)) : list (list X) :=
    fold_left (fun l e => log_app l (fst e) (snd e)) tr logs.

  Definition Sim (cnts : list nat) (a : Arr X) (logs : list (list X)) : Prop :=
    length (backing a) = list_sum cnts /\
    length (slices a) = length cnts /\
    length logs = length cnts /\
    forall pid, (pid < length cnts)%nat ->
      nth pid (slices a) (Detached []) = Win (off_of cnts pid) (length (nth pid logs [])) /\
      (length (nth pid logs []) <= nth pid cnts O)%nat /\
      firstn (length (nth pid logs [])) (skipn (off_of cnts pid) (backing a))
        = map Some (nth pid logs []).

  Lemma Sim_init (cnts : list nat) :
    Sim cnts (arr_make (list_sum cnts) cnts) (repeat [] (length cnts)).
  Proof.
    unfold arr_make. split; [|split; [|split]]; cbn [backing slices].
    - apply repeat_length.
    - apply carve_length.
    - apply repeat_length.
    - intros pid H.
      assert (E : nth pid (repeat (@nil X) (length cnts)) [] = []).
      { apply nth_repeat. }
      rewrite E. cbn [length firstn map]. rewrite nth_carve by exact H.
      split; [reflexivity | split; [lia | reflexivity]].
  Qed.

  Lemma log_app_length (logs : list (list X)) (p : nat) (x : X) :
    length (log_app logs p x) = length logs.
  Proof. apply upd_nth_length. Qed.

  Lemma log_run_length (tr : list (nat * X)) : forall logs,
    length (log_run logs tr) = length logs.
  Proof.
    induction tr as [|e tr IH]; intros logs; cbn [log_run fold_left]; auto.
    fold (log_run (log_app logs (fst e) (snd e)) tr). rewrite IH. apply log_app_length.
  Qed.

  Lemma nth_log_app (logs : list (list X)) (p q : nat) (x : X) :
    nth q (log_app logs p x) [] =
    if (Nat.eqb p q && Nat.ltb p (length logs))%bool then nth q logs [] ++ [x] else nth q logs [].
  Proof.
    unfold log_app. destruct (Nat.eqb p q) eqn:E; cbn [andb].
    - apply Nat.eqb_eq in E. subst q. destruct (Nat.ltb p (length logs)) eqn:L.
      + apply Nat.ltb_lt in L.
        exact (nth_upd_nth_eq p (fun l : list X => l ++ [x]) [] logs L).
      + apply Nat.ltb_ge in L. unfold upd_nth. rewrite set_nth_oob by exact L. reflexivity.
    - apply Nat.eqb_neq in E. apply nth_upd_nth_neq, E.
  Qed.

  Lemma log_run_mono (tr : list (nat * X)) : forall logs q,
    (length (nth q logs []) <= length (nth q (log_run logs tr) []))%nat.
  Proof.
    induction tr as [|e tr IH]; intros logs q; cbn [log_run fold_left]; [lia|].
    fold (log_run (log_app logs (fst e) (snd e)) tr).
    eapply Nat.le_trans; [|apply IH].
    rewrite nth_log_app. destruct (Nat.eqb (fst e) q && Nat.ltb (fst e) (length logs))%bool; [|lia].
    rewrite app_length. lia.
  Qed.

  Lemma Sim_append (cnts : list nat) (a : Arr X) (logs : list (list X)) (p : nat) (x : X) :
    Sim cnts a logs -> (p < length cnts)%nat ->
    (length (nth p logs []) < nth p cnts O)%nat ->
    Sim cnts (arr_append a p x) (log_app logs p x).
  Proof.
    intros [HB [HS [HL HW]]] Hp Hlt.
    destruct (HW p Hp) as [Hs [_ Hc]].
    pose proof (off_of_next_total cnts p) as Htot.
    unfold arr_append. rewrite Hs.
    assert (Hin : (off_of cnts p + length (nth p logs []) < length (backing a))%nat) by lia.
    apply Nat.ltb_lt in Hin. rewrite Hin. apply Nat.ltb_lt in Hin.
    split; [|split; [|split]]; cbn [backing slices].
    - rewrite set_nth_length. exact HB.
    - rewrite set_nth_length. exact HS.
    - rewrite log_app_length. exact HL.
    - intros q Hq. rewrite nth_log_app.
      assert (Hpl : Nat.ltb p (length logs) = true) by (apply Nat.ltb_lt; lia).
      rewrite Hpl, andb_true_r.
      destruct (Nat.eqb p q) eqn:E.
      + apply Nat.eqb_eq in E. subst q.
        rewrite nth_set_nth_eq by lia. rewrite app_length. cbn [length].
        replace (length (nth p logs []) + 1)%nat with (S (length (nth p logs []))) by lia.
        split; [reflexivity|]. split; [lia|].
        rewrite window_set_nth_snoc by exact Hin.
        rewrite Hc, map_app. reflexivity.
      + apply Nat.eqb_neq in E. rewrite nth_set_nth_neq by exact E.
        destruct (HW q Hq) as [Hsq [Hlq Hcq]].
        split; [exact Hsq|]. split; [exact Hlq|].
        rewrite window_set_nth_out; [exact Hcq|].
        destruct (Nat.lt_ge_cases q p) as [Hqp|Hqp].
        * right. pose proof (off_of_mono cnts (S q) p Hqp) as Hm. rewrite off_of_S in Hm. lia.
        * left. assert (Hpq : (S p <= q)%nat) by lia.
          pose proof (off_of_mono cnts (S p) q Hpq) as Hm. rewrite off_of_S in Hm. lia.
  Qed.

  Lemma arr_append_oob (a : Arr X) (p : nat) (x : X) :
    (length (slices a) <= p)%nat -> arr_append a p x = a.
  Proof.
    intros H. unfold arr_append. rewrite (nth_overflow _ _ H).
    rewrite set_nth_oob by exact H. destruct a; reflexivity.
  Qed.

  Lemma log_app_oob (logs : list (list X)) (p : nat) (x : X) :
    (length logs <= p)%nat -> log_app logs p x = logs.
  Proof. intros H. unfold log_app, upd_nth. apply set_nth_oob, H. Qed.

  Theorem Sim_run (cnts : list nat) (tr : list (nat * X)) : forall (a : Arr X) (logs : list (list X)),
    Sim cnts a logs ->
    (forall pid, (pid < length cnts)%nat ->
       (length (nth pid (log_run logs tr) []) <= nth pid cnts O)%nat) ->
    Sim cnts (arr_run a tr) (log_run logs tr).
  Proof.
    induction tr as [|e tr IH]; intros a logs HS Hb; cbn [arr_run log_run fold_left]; [exact HS|].
    fold (arr_run (arr_append a (fst e) (snd e)) tr).
    fold (log_run (log_app logs (fst e) (snd e)) tr).
    destruct (Nat.lt_ge_cases (fst e) (length cnts)) as [He|He].
    2:{ cbn [log_run fold_left] in Hb. fold (log_run (log_app logs (fst e) (snd e)) tr) in Hb.
        pose proof HS as [_ [HS1 [HS2 _]]].
        rewrite arr_append_oob in * by lia. rewrite log_app_oob in * by lia.
        apply IH; assumption. }
    apply IH.
    - apply Sim_append; [exact HS | exact He |].
      specialize (Hb (fst e) He). cbn [log_run fold_left] in Hb.
      fold (log_run (log_app logs (fst e) (snd e)) tr) in Hb.
      pose proof (log_run_mono tr (log_app logs (fst e) (snd e)) (fst e)) as Hm.
      rewrite nth_log_app in Hm.
      destruct HS as [_ [_ [HL _]]].
      assert (Hpl : Nat.ltb (fst e) (length logs) = true) by (apply Nat.ltb_lt; lia).
      rewrite Nat.eqb_refl, Hpl in Hm. cbn [andb] in Hm. rewrite app_length in Hm. cbn [length] in Hm. lia.
    - exact Hb.
  Qed.

  (* the relation holds after every single append of the run *)
  Theorem Sim_run_prefix (cnts : list nat) (tr1 tr2 : list (nat * X)) (a : Arr X) (logs : list (list X)) :
    Sim cnts a logs ->
    (forall pid, (pid < length cnts)%nat ->
       (length (nth pid (log_run logs (tr1 ++ tr2)) []) <= nth pid cnts O)%nat) ->
    Sim cnts (arr_run a tr1) (log_run logs tr1).
  Proof.
    intros HS Hb. apply Sim_run; [exact HS|]. intros pid Hp.
    eapply Nat.le_trans; [|apply (Hb pid Hp)].
    unfold log_run at 2. rewrite fold_left_app. apply log_run_mono.
  Qed.

  (* in the relation no slice is detached, every slice sits in its own window *)
  Lemma Sim_windows (cnts : list nat) (a : Arr X) (logs : list (list X)) (pid : nat) :
    Sim cnts a logs -> (pid < length cnts)%nat ->
    exists len, nth pid (slices a) (Detached []) = Win (off_of cnts pid) len /\
                (len <= nth pid cnts O)%nat /\
                (off_of cnts pid + nth pid cnts O <= length (backing a))%nat.
  Proof.
    intros [HB [_ [_ HW]]] Hp. destruct (HW pid Hp) as [Hs [Hl _]].
    exists (length (nth pid logs [])). split; [exact Hs|]. split; [exact Hl|].
    rewrite HB. apply off_of_next_total.
  Qed.

  (* what a state in the relation looks like from the reader's side *)
  Lemma Sim_elems (cnts : list nat) (a : Arr X) (logs : list (list X)) (pid : nat) :
    Sim cnts a logs -> (pid < length cnts)%nat ->
    slice_elems a pid = map Some (nth pid logs []).
  Proof.
    intros [_ [_ [_ HW]]] Hp. destruct (HW pid Hp) as [Hs [_ Hc]].
    unfold slice_elems. rewrite Hs. exact Hc.
  Qed.

  Lemma Sim_cap (cnts : list nat) (a : Arr X) (logs : list (list X)) (pid : nat) :
    Sim cnts a logs -> (pid < length cnts)%nat ->
    exists rest, slice_cap a pid = map Some (nth pid logs []) ++ rest.
  Proof.
    intros [_ [_ [_ HW]]] Hp. destruct (HW pid Hp) as [Hs [_ Hc]].
    unfold slice_cap. rewrite Hs.
    exists (skipn (length (nth pid logs [])) (skipn (off_of cnts pid) (backing a))).
    rewrite <- Hc. symmetry. apply firstn_skipn.
  Qed.
End Sim.


(* ------------------------------------------------------------------ *)
(* processDocuments does not look into the slices it appends to:       *)
(* two implementations of append related step by step stay related     *)
(* ------------------------------------------------------------------ *)
Lemma fold_left_rel {A1 A2 B} (R : A1 -> A2 -> Prop) (f1 : A1 -> B -> A1) (f2 : A2 -> B -> A2)
      (l : list B) :
  (forall a1 a2 x, R a1 a2 -> R (f1 a1 x) (f2 a2 x)) ->
  forall a1 a2, R a1 a2 -> R (fold_left f1 l a1) (fold_left f2 l a2).
Proof.
  intros Hs. induction l as [|x l IH]; intros a1 a2 H; cbn [fold_left]; auto.
Qed.

Section Rel.
  Variable norm : bytes -> N -> N.
  Variable perm : N -> nat -> TFs -> TFs.
  Context {AF1 AL1 AF2 AL2 : Type}.
  Variable appF1 : AF1 -> nat -> interimFreqNorm -> AF1.
  Variable appL1 : AL1 -> nat -> ELoc -> AL1.
  Variable appF2 : AF2 -> nat -> interimFreqNorm -> AF2.
  Variable appL2 : AL2 -> nat -> ELoc -> AL2.
  Variable RF : AF1 -> AF2 -> Prop.
  Variable RL : AL1 -> AL2 -> Prop.
  Hypothesis RF_app : forall a1 a2 p x, RF a1 a2 -> RF (appF1 a1 p x) (appF2 a2 p x).
  Hypothesis RL_app : forall a1 a2 p x, RL a1 a2 -> RL (appL1 a1 p x) (appL2 a2 p x).

  Definition IR (s1 : Interim AF1 AL1) (s2 : Interim AF2 AL2) : Prop :=
    i_flds s1 = i_flds s2 /\ i_postings s1 = i_postings s2 /\
    RF (i_fn s1) (i_fn s2) /\ RL (i_locs s1) (i_locs s2).
  Definition LR (s1 : Flds * AL1) (s2 : Flds * AL2) : Prop :=
    fst s1 = fst s2 /\ RL (snd s1) (snd s2).

  Lemma emit_loc_rel pid fid s1 s2 l :
    LR s1 s2 -> LR (emit_loc appL1 pid fid s1 l) (emit_loc appL2 pid fid s2 l).
  Proof.
    intros [H1 H2]. unfold emit_loc. rewrite H1.
    destruct (match l_field l with
              | [] => (fst s2, N.of_nat fid)
              | b :: l0 => getOrDefineField (fst s2) (b :: l0)
              end) as [fl' locf].
    split; cbn [fst snd]; [reflexivity | apply RL_app, H2].
  Qed.

  Lemma emit_term_rel docNum fid dict nrm s1 s2 e :
    IR s1 s2 -> IR (emit_term appF1 appL1 docNum fid dict nrm s1 e)
                   (emit_term appF2 appL2 docNum fid dict nrm s2 e).
  Proof.
    intros [H1 [H2 [H3 H4]]]. unfold emit_term.
    assert (L : LR (fold_left (emit_loc appL1 (opt_default 0%nat (assoc (fst e) dict)) fid)
                     (snd (snd e)) (i_flds s1, i_locs s1))
                   (fold_left (emit_loc appL2 (opt_default 0%nat (assoc (fst e) dict)) fid)
                     (snd (snd e)) (i_flds s2, i_locs s2))).
    { apply fold_left_rel.
      - intros a1 a2 x. apply emit_loc_rel.
      - split; cbn [fst snd]; assumption. }
    destruct L as [L1 L2].
    split; [|split; [|split]]; cbn [i_flds i_postings i_fn i_locs].
    - exact L1.
    - rewrite H2. reflexivity.
    - apply RF_app, H3.
    - exact L2.
  Qed.

  Lemma emit_field_rel docNum lens tfs s1 s2 fid :
    IR s1 s2 -> IR (emit_field norm perm appF1 appL1 docNum lens tfs s1 fid)
                   (emit_field norm perm appF2 appL2 docNum lens tfs s2 fid).
  Proof.
    intros H. unfold emit_field. destruct H as [H1 H]. rewrite H1.
    apply fold_left_rel.
    - intros a1 a2 x. apply emit_term_rel.
    - split; assumption.
  Qed.

  Lemma process_document_rel n s1 s2 nd :
    IR s1 s2 -> IR (process_document norm perm appF1 appL1 n s1 nd)
                   (process_document norm perm appF2 appL2 n s2 nd).
  Proof.
    intros [H1 [H2 [H3 H4]]]. unfold process_document. rewrite H1.
    apply fold_left_rel.
    - intros a1 a2 x. apply emit_field_rel.
    - split; [|split; [|split]]; cbn [i_flds i_postings i_fn i_locs]; auto.
  Qed.

  Lemma process_documents_rel s1 s2 b :
    IR s1 s2 -> IR (process_documents norm perm appF1 appL1 s1 b)
                   (process_documents norm perm appF2 appL2 s2 b).
  Proof.
    intros H. unfold process_documents. destruct H as [H1 H]. rewrite H1.
    apply fold_left_rel.
    - intros a1 a2 x. apply process_document_rel.
    - split; assumption.
  Qed.
End Rel.

(* the recording implementation: a slice family is the list of appends made *)
Definition tr_app {X} (tr : list (nat * X)) (p : nat) (x : X) : list (nat * X) := tr ++ [(p, x)].

Lemma arr_run_snoc {X} (a : Arr X) (tr : list (nat * X)) (p : nat) (x : X) :
  arr_run a (tr_app tr p x) = arr_append (arr_run a tr) p x.
Proof. unfold arr_run, tr_app. rewrite fold_left_app. reflexivity. Qed.

Lemma log_run_snoc {X} (l : list (list X)) (tr : list (nat * X)) (p : nat) (x : X) :
  log_run l (tr_app tr p x) = log_app (log_run l tr) p x.
Proof. unfold log_run, tr_app. rewrite fold_left_app. reflexivity. Qed.

Section Three.
  Variable norm : bytes -> N -> N.
  Variable perm : N -> nat -> TFs -> TFs.

  (* the model proper, the ideal model (every slice a private list) and the trace *)
  Definition run_phys := process_documents norm perm (@arr_append interimFreqNorm) (@arr_append ELoc).
  Definition run_ideal := process_documents norm perm (@log_app interimFreqNorm) (@log_app ELoc).
  Definition run_trace := process_documents norm perm (@tr_app interimFreqNorm) (@tr_app ELoc).

  Lemma phys_trace fl P aF aL b :
    let T := run_trace (mkInterim fl P [] []) b in
    let S := run_phys (mkInterim fl P aF aL) b in
    i_flds S = i_flds T /\ i_postings S = i_postings T /\
    i_fn S = arr_run aF (i_fn T) /\ i_locs S = arr_run aL (i_locs T).
  Proof.
    apply (process_documents_rel norm perm arr_append arr_append tr_app tr_app
             (fun a tr => a = arr_run aF tr) (fun a tr => a = arr_run aL tr)).
    - intros a1 a2 p x ->. symmetry. apply arr_run_snoc.
    - intros a1 a2 p x ->. symmetry. apply arr_run_snoc.
    - repeat split.
  Qed.

  Lemma ideal_trace fl P lF lL b :
    let T := run_trace (mkInterim fl P [] []) b in
    let S := run_ideal (mkInterim fl P lF lL) b in
    i_flds S = i_flds T /\ i_postings S = i_postings T /\
    i_fn S = log_run lF (i_fn T) /\ i_locs S = log_run lL (i_locs T).
  Proof.
    apply (process_documents_rel norm perm log_app log_app tr_app tr_app
             (fun a tr => a = log_run lF tr) (fun a tr => a = log_run lL tr)).
    - intros a1 a2 p x ->. symmetry. apply log_run_snoc.
    - intros a1 a2 p x ->. symmetry. apply log_run_snoc.
    - repeat split.
  Qed.

  (* if the ideal logs stay within the carved counts, the model proper holds
     exactly the ideal logs in its windows, and no slice ever detached *)
  Theorem phys_ideal fl P cF cL b :
    let I := run_ideal (mkInterim fl P (repeat [] (length cF)) (repeat [] (length cL))) b in
    let S := run_phys (mkInterim fl P (arr_make (list_sum cF) cF) (arr_make (list_sum cL) cL)) b in
    (forall pid, (pid < length cF)%nat -> (length (nth pid (i_fn I) []) <= nth pid cF O)%nat) ->
    (forall pid, (pid < length cL)%nat -> (length (nth pid (i_locs I) []) <= nth pid cL O)%nat) ->
    i_flds S = i_flds I /\ i_postings S = i_postings I /\
    Sim cF (i_fn S) (i_fn I) /\ Sim cL (i_locs S) (i_locs I).
  Proof.
    intros I S HF HL.
    destruct (phys_trace fl P (arr_make (list_sum cF) cF) (arr_make (list_sum cL) cL) b)
      as [A1 [A2 [A3 A4]]].
    destruct (ideal_trace fl P (repeat [] (length cF)) (repeat [] (length cL)) b)
      as [B1 [B2 [B3 B4]]].
    fold S in A1, A2, A3, A4. fold I in B1, B2, B3, B4.
    split; [congruence|]. split; [congruence|].
    rewrite A3, A4, B3, B4. rewrite B3 in HF. rewrite B4 in HL.
    split; apply Sim_run; auto using Sim_init.
  Qed.
End Three.


(* ------------------------------------------------------------------ *)
(* prepareDicts: the counting pass                                     *)
(* ------------------------------------------------------------------ *)
(* the (field id, term) occurrences met so far *)
Definition ev_matches (q : nat) (t : bytes) (e : nat * Term) : bool :=
  Nat.eqb (fst e) q && beq (t_bytes (snd e)) t.
Definition occ (q : nat) (t : bytes) (seen : list (nat * Term)) : nat :=
  length (filter (ev_matches q t) seen).
Definition locsum (q : nat) (t : bytes) (seen : list (nat * Term)) : nat :=
  list_sum (map (fun e : nat * Term => length (t_locs (snd e))) (filter (ev_matches q t) seen)).

Lemma occ_app q t s1 s2 : occ q t (s1 ++ s2) = (occ q t s1 + occ q t s2)%nat.
Proof. unfold occ. rewrite filter_app, app_length. reflexivity. Qed.
Lemma locsum_app q t s1 s2 : locsum q t (s1 ++ s2) = (locsum q t s1 + locsum q t s2)%nat.
Proof. unfold locsum. rewrite filter_app, map_app, list_sum_app. reflexivity. Qed.

Lemma occ_snoc q t seen e :
  occ q t (seen ++ [e]) = (occ q t seen + if ev_matches q t e then 1 else 0)%nat.
Proof. rewrite occ_app. unfold occ at 2. cbn [filter]. destruct (ev_matches q t e); reflexivity. Qed.
Lemma locsum_snoc q t seen e :
  locsum q t (seen ++ [e]) =
  (locsum q t seen + if ev_matches q t e then length (t_locs (snd e)) else 0)%nat.
Proof.
  rewrite locsum_app. unfold locsum at 2. cbn [filter].
  destruct (ev_matches q t e); cbn [map]; [rewrite list_sum_cons, list_sum_nil | rewrite list_sum_nil]; lia.
Qed.

Lemma occ_0_locsum q t seen : occ q t seen = O -> locsum q t seen = O.
Proof.
  unfold occ, locsum. intros H. apply length_zero_iff_nil in H. rewrite H. reflexivity.
Qed.

Lemma list_sum_set_nth (p v : nat) (l : list nat) :
  (p < length l)%nat -> (list_sum (set_nth p v l) + nth p l O = list_sum l + v)%nat.
Proof.
  revert p. induction l as [|x l IH]; intros p H; cbn [length] in H; [lia|].
  destruct p as [|p]; cbn [set_nth nth]; rewrite !list_sum_cons; [lia|].
  specialize (IH p). lia.
Qed.

Definition updf {V} (D : nat -> V) (i : nat) (v : V) : nat -> V :=
  fun q => if Nat.eqb q i then v else D q.

Definition PI (seen : list (nat * Term)) (D : nat -> list (bytes * nat)) (K : nat -> list bytes)
           (pidNext : nat) (nT nL : list nat) (totLocs tf : nat) : Prop :=
  length nT = pidNext /\ length nL = pidNext /\
  (forall q, K q = map fst (D q)) /\
  (forall q, NoDup (map fst (D q))) /\
  (forall q t, match assoc t (D q) with
               | Some pid => (pid < pidNext)%nat /\ nth pid nT O = occ q t seen /\
                             nth pid nL O = locsum q t seen /\ (0 < occ q t seen)%nat
               | None => occ q t seen = O
               end) /\
  (forall q q' t t' pid, assoc t (D q) = Some pid -> assoc t' (D q') = Some pid -> q = q' /\ t = t') /\
  list_sum nT = tf /\ list_sum nL = totLocs /\
  (forall pid, (pid < pidNext)%nat -> exists q t, assoc t (D q) = Some pid).

Lemma ev_matches_true q t fid tm :
  ev_matches q t (fid, tm) = true <-> fid = q /\ t_bytes tm = t.
Proof.
  unfold ev_matches. cbn [fst snd]. rewrite andb_true_iff, Nat.eqb_eq, beq_eq. tauto.
Qed.

Lemma prep_term_PI seen D K fid st tm tot :
  D fid = pt_dict st -> K fid = pt_keys st ->
  PI seen D K (pt_pidNext st) (pt_numTerms st) (pt_numLocs st) (pt_totLocs st) (tot + pt_n st)%nat ->
  let st' := prep_term st tm in
  PI (seen ++ [(fid, tm)]) (updf D fid (pt_dict st')) (updf K fid (pt_keys st'))
     (pt_pidNext st') (pt_numTerms st') (pt_numLocs st') (pt_totLocs st') (tot + pt_n st')%nat.
Proof.
  intros HD HK [L1 [L2 [HKD [HND [H5 [H6 [S1 [S2 S3]]]]]]]].
  unfold prep_term. destruct (assoc (t_bytes tm) (pt_dict st)) as [pid|] eqn:EA;
    cbn [pt_dict pt_keys pt_pidNext pt_numTerms pt_numLocs pt_totLocs pt_n].
  - (* the term is known *)
    assert (HsD : forall q, updf D fid (pt_dict st) q = D q).
    { intros q. unfold updf. destruct (Nat.eqb q fid) eqn:E; [|reflexivity].
      apply Nat.eqb_eq in E. subst q. auto. }
    assert (HsK : forall q, updf K fid (pt_keys st) q = K q).
    { intros q. unfold updf. destruct (Nat.eqb q fid) eqn:E; [|reflexivity].
      apply Nat.eqb_eq in E. subst q. auto. }
    pose proof (H5 fid (t_bytes tm)) as Hp. rewrite HD, EA in Hp. destruct Hp as [Hp _].
    split; [rewrite upd_nth_length; exact L1|].
    split; [rewrite upd_nth_length; exact L2|].
    split; [intros q; rewrite HsD, HsK; apply HKD|].
    split; [intros q; rewrite HsD; apply HND|].
    split; [|split; [|split; [|split]]].
    5:{ intros p Hp'. destruct (S3 p Hp') as [q [t X]]. exists q, t. rewrite HsD. exact X. }
    + intros q t. rewrite HsD. specialize (H5 q t).
      rewrite occ_snoc, locsum_snoc.
      destruct (assoc t (D q)) as [pid'|] eqn:E'.
      * destruct H5 as [A1 [A2 [A3 A4]]].
        destruct (ev_matches q t (fid, tm)) eqn:EM; cbn [snd].
        -- apply ev_matches_true in EM. destruct EM as [-> <-].
           rewrite HD, EA in E'. inversion E'. subst pid'.
           rewrite (nth_upd_nth_eq pid S O) by lia.
           rewrite (nth_upd_nth_eq pid (fun c => (c + length (t_locs tm))%nat) O) by lia.
           repeat split; lia.
        -- assert (Hne : pid <> pid').
           { intros ->. rewrite <- HD in EA. destruct (H6 _ _ _ _ _ E' EA) as [-> ->].
             assert (X : ev_matches fid (t_bytes tm) (fid, tm) = true) by (apply ev_matches_true; auto).
             congruence. }
           rewrite !nth_upd_nth_neq by exact Hne. repeat split; lia.
      * destruct (ev_matches q t (fid, tm)) eqn:EM; [|lia].
        apply ev_matches_true in EM. destruct EM as [-> <-]. rewrite HD in E'. congruence.
    + intros q q' t t' p. rewrite !HsD. apply H6.
    + unfold upd_nth. pose proof (list_sum_set_nth pid (S (nth pid (pt_numTerms st) O)) (pt_numTerms st)) as X.
      lia.
    + unfold upd_nth.
      pose proof (list_sum_set_nth pid (nth pid (pt_numLocs st) O + length (t_locs tm))%nat (pt_numLocs st)) as X.
      lia.
  - (* a new term: a new postings list *)
    set (tb := t_bytes tm) in *. set (pn := pt_pidNext st) in *.
    assert (HnT : forall p, (p < pn)%nat ->
               nth p (upd_nth pn S O (pt_numTerms st ++ [O])) O = nth p (pt_numTerms st) O).
    { intros p Hp. rewrite nth_upd_nth_neq by lia. apply app_nth1. lia. }
    assert (HnL : forall p, (p < pn)%nat ->
               nth p (upd_nth pn (fun c => (c + length (t_locs tm))%nat) O (pt_numLocs st ++ [O])) O
               = nth p (pt_numLocs st) O).
    { intros p Hp. rewrite nth_upd_nth_neq by lia. apply app_nth1. lia. }
    assert (HnT' : nth pn (upd_nth pn S O (pt_numTerms st ++ [O])) O = 1%nat).
    { rewrite (nth_upd_nth_eq pn S O) by (rewrite app_length; cbn [length]; lia).
      rewrite app_nth2 by lia. replace (pn - length (pt_numTerms st))%nat with O by lia. reflexivity. }
    assert (HnL' : nth pn (upd_nth pn (fun c => (c + length (t_locs tm))%nat) O (pt_numLocs st ++ [O])) O
                   = length (t_locs tm)).
    { rewrite (nth_upd_nth_eq pn (fun c => (c + length (t_locs tm))%nat) O)
        by (rewrite app_length; cbn [length]; lia).
      rewrite app_nth2 by lia. replace (pn - length (pt_numLocs st))%nat with O by lia. reflexivity. }
    (* lookups in the extended dictionaries *)
    assert (HL : forall q t p,
               assoc t (updf D fid (pt_dict st ++ [(tb, pn)]) q) = Some p ->
               (assoc t (D q) = Some p /\ (p < pn)%nat) \/ (q = fid /\ t = tb /\ p = pn /\ assoc t (D q) = None)).
    { intros q t p. unfold updf. destruct (Nat.eqb q fid) eqn:E.
      - apply Nat.eqb_eq in E. subst q. rewrite assoc_app, HD.
        pose proof (H5 fid t) as X. rewrite HD in X.
        destruct (assoc t (pt_dict st)) as [p'|] eqn:E'.
        + intros Y. inversion Y. subst p'. left. split; [reflexivity | tauto].
        + cbn [assoc]. destruct (beq tb t) eqn:Eb; [|discriminate].
          apply beq_eq in Eb. intros Y. inversion Y. right. auto.
      - intros Y. left. split; [exact Y|]. pose proof (H5 q t) as X. rewrite Y in X. tauto. }
    split; [rewrite upd_nth_length, app_length; cbn [length]; lia|].
    split; [rewrite upd_nth_length, app_length; cbn [length]; lia|].
    split; [|split; [|split; [|split; [|split; [|split]]]]].
    7:{ intros p Hp'. destruct (Nat.eq_dec p pn) as [->|Hne].
        - exists fid, tb. unfold updf. rewrite Nat.eqb_refl, assoc_app, EA. cbn [assoc].
          rewrite beq_refl. reflexivity.
        - destruct (S3 p ltac:(lia)) as [q [t X]]. exists q, t. unfold updf.
          destruct (Nat.eqb q fid) eqn:E; [|exact X].
          apply Nat.eqb_eq in E. subst q. rewrite assoc_app. rewrite HD in X. rewrite X. reflexivity. }
    + intros q. unfold updf. destruct (Nat.eqb q fid) eqn:E; [|apply HKD].
      rewrite map_app. cbn [map fst]. rewrite <- HK, <- HD, HKD. reflexivity.
    + intros q. unfold updf. destruct (Nat.eqb q fid) eqn:E; [|apply HND].
      rewrite map_app. cbn [map fst].
      eapply Permutation_NoDup; [apply Permutation_cons_append|].
      constructor; [apply assoc_None; exact EA | rewrite <- HD; apply HND].
    + intros q t. rewrite occ_snoc, locsum_snoc. cbn [snd].
      destruct (assoc t (updf D fid (pt_dict st ++ [(tb, pn)]) q)) as [p|] eqn:E'.
      * apply HL in E'. destruct E' as [[E' Hp]|[-> [-> [-> E']]]].
        -- pose proof (H5 q t) as X. rewrite E' in X. destruct X as [A1 [A2 [A3 A4]]].
           rewrite HnT, HnL by exact Hp.
           destruct (ev_matches q t (fid, tm)) eqn:EM.
           ++ apply ev_matches_true in EM. destruct EM as [-> <-]. rewrite HD in E'. fold tb in E'. congruence.
           ++ repeat split; lia.
        -- pose proof (H5 fid tb) as X. rewrite E' in X.
           assert (EM : ev_matches fid tb (fid, tm) = true) by (apply ev_matches_true; auto).
           pose proof (occ_0_locsum _ _ _ X) as X'.
           rewrite EM, HnT', HnL'. repeat split; lia.
      * unfold updf in E'. destruct (Nat.eqb q fid) eqn:E.
        -- apply Nat.eqb_eq in E. subst q. rewrite assoc_app in E'.
           pose proof (H5 fid t) as X. rewrite HD in X.
           destruct (assoc t (pt_dict st)); [discriminate|]. cbn [assoc] in E'.
           destruct (ev_matches fid t (fid, tm)) eqn:EM; [|lia].
           apply ev_matches_true in EM. destruct EM as [_ EM]. fold tb in EM. subst t.
           rewrite beq_refl in E'. discriminate.
        -- pose proof (H5 q t) as X. rewrite E' in X.
           destruct (ev_matches q t (fid, tm)) eqn:EM; [|lia].
           apply ev_matches_true in EM. destruct EM as [-> _]. rewrite Nat.eqb_refl in E. discriminate.
    + intros q q' t t' p E1 E2. apply HL in E1. apply HL in E2.
      destruct E1 as [[E1 P1]|[Q1 [Q2 [Q3 E1]]]], E2 as [[E2 P2]|[Q1' [Q2' [Q3' E2]]]]; try lia.
      * eapply H6; eauto.
      * subst. auto.
    + unfold upd_nth.
      pose proof (list_sum_set_nth pn (S (nth pn (pt_numTerms st ++ [O]) O)) (pt_numTerms st ++ [O])) as X.
      rewrite app_length in X. cbn [length] in X. rewrite list_sum_app in X.
      rewrite list_sum_cons, list_sum_nil in X. lia.
    + unfold upd_nth.
      pose proof (list_sum_set_nth pn (nth pn (pt_numLocs st ++ [O]) O + length (t_locs tm))%nat
                    (pt_numLocs st ++ [O])) as X.
      rewrite app_length in X. cbn [length] in X. rewrite list_sum_app in X.
      rewrite list_sum_cons, list_sum_nil in X.
      assert (Z : nth pn (pt_numLocs st ++ [O]) O = O).
      { rewrite app_nth2 by lia. replace (pn - length (pt_numLocs st))%nat with O by lia. reflexivity. }
      lia.
Qed.

Lemma PI_ext seen D K D' K' pn nT nL tl tf :
  (forall q, D q = D' q) -> (forall q, K q = K' q) ->
  PI seen D K pn nT nL tl tf -> PI seen D' K' pn nT nL tl tf.
Proof.
  intros HD HK [L1 [L2 [HKD [HND [H5 [H6 [S1 [S2 S3]]]]]]]].
  split; [exact L1|]. split; [exact L2|].
  split; [intros q; rewrite <- HD, <- HK; apply HKD|].
  split; [intros q; rewrite <- HD; apply HND|].
  split; [intros q t; rewrite <- HD; apply H5|].
  split; [intros q q' t t' p; rewrite <- !HD; apply H6|].
  split; [assumption|]. split; [assumption|].
  intros p Hp. destruct (S3 p Hp) as [q [t X]]. exists q, t. rewrite <- HD. exact X.
Qed.

Lemma updf_same {V} (D : nat -> V) i : forall q, updf D i (D i) q = D q.
Proof.
  intros q. unfold updf. destruct (Nat.eqb q i) eqn:E; [|reflexivity].
  apply Nat.eqb_eq in E. subst. reflexivity.
Qed.

Lemma updf_updf {V} (D : nat -> V) i a b : forall q, updf (updf D i a) i b q = updf D i b q.
Proof. intros q. unfold updf. destruct (Nat.eqb q i); reflexivity. Qed.

Lemma updf_at {V} (D : nat -> V) i a : updf D i a i = a.
Proof. unfold updf. rewrite Nat.eqb_refl. reflexivity. Qed.

Lemma prep_terms_PI ts : forall seen D K fid st tot,
  D fid = pt_dict st -> K fid = pt_keys st ->
  PI seen D K (pt_pidNext st) (pt_numTerms st) (pt_numLocs st) (pt_totLocs st) (tot + pt_n st)%nat ->
  let st' := fold_left prep_term ts st in
  PI (seen ++ map (pair fid) ts) (updf D fid (pt_dict st')) (updf K fid (pt_keys st'))
     (pt_pidNext st') (pt_numTerms st') (pt_numLocs st') (pt_totLocs st') (tot + pt_n st')%nat.
Proof.
  induction ts as [|tm ts IH]; intros seen D K fid st tot HD HK H; cbn [fold_left map].
  - rewrite app_nil_r. eapply PI_ext; [| |exact H].
    + intros q. rewrite <- HD. symmetry. apply updf_same.
    + intros q. rewrite <- HK. symmetry. apply updf_same.
  - replace (seen ++ (fid, tm) :: map (pair fid) ts) with ((seen ++ [(fid, tm)]) ++ map (pair fid) ts)
      by (rewrite <- app_assoc; reflexivity).
    pose proof (prep_term_PI seen D K fid st tm tot HD HK H) as H1. cbv zeta in H1.
    specialize (IH _ _ _ fid (prep_term st tm) tot (updf_at _ _ _) (updf_at _ _ _) H1).
    cbv zeta in IH. eapply PI_ext; [| |exact IH].
    + apply updf_updf.
    + apply updf_updf.
Qed.

Definition Dfun {V} (l : list (list V)) : nat -> list V := fun q => nth q l [].

Lemma Dfun_set_nth {V} (i : nat) (d : list V) (l : list (list V)) :
  (i < length l)%nat -> forall q, updf (Dfun l) i d q = Dfun (set_nth i d l) q.
Proof.
  intros H q. unfold updf, Dfun. destruct (Nat.eqb q i) eqn:E.
  - apply Nat.eqb_eq in E. subst q. symmetry. apply nth_set_nth_eq, H.
  - apply Nat.eqb_neq in E. symmetry. apply nth_set_nth_neq. auto.
Qed.

Definition PPI (F : list bytes) (seen : list (nat * Term)) (p : Prep) : Prop :=
  FieldsInv (p_flds p) = F /\
  length (Dicts (p_flds p)) = length F /\ length (DictKeys (p_flds p)) = length F /\
  PI seen (Dfun (Dicts (p_flds p))) (Dfun (DictKeys (p_flds p)))
     (p_pidNext p) (p_numTerms p) (p_numLocs p) (p_totLocs p) (p_totTFs p).

Definition fidx (F : list bytes) (name : bytes) : nat :=
  N.to_nat (opt_default 0 (index_of name F 0)).

Lemma fidx_lt F name : In name F -> (fidx F name < length F)%nat /\ nth (fidx F name) F [] = name.
Proof.
  intros H. unfold fidx. destruct (index_of_In name F 0 H) as [j E]. rewrite E. cbn [opt_default].
  apply index_of_Some in E. destruct E as [_ [E1 E2]]. unfold lenN in E1.
  replace (j - 0) with j in E2 by lia. split; [lia | exact E2].
Qed.

Lemma fidx_nth F k : NoDup F -> (k < length F)%nat -> fidx F (nth k F []) = k.
Proof.
  intros Hnd Hk. unfold fidx. rewrite (index_of_nth F k 0 Hnd Hk). cbn [opt_default]. lia.
Qed.

Lemma prep_field_PPI F seen p f :
  In (f_name f) F -> PPI F seen p ->
  PPI F (seen ++ map (pair (fidx F (f_name f))) (f_terms f)) (prep_field p f).
Proof.
  intros Hin [HF [HLD [HLK HPI]]].
  unfold prep_field.
  assert (Hin' : In (f_name f) (FieldsInv (p_flds p))) by (rewrite HF; exact Hin).
  destruct (getOrDefineField_known _ _ Hin') as [i [Ei Eg]]. rewrite Eg.
  assert (Efi : fidx F (f_name f) = N.to_nat i).
  { unfold fidx. rewrite <- HF, Ei. reflexivity. }
  pose proof (fidx_lt F _ Hin) as [Hlt _]. rewrite Efi in *.
  set (st0 := mkPT (nth (N.to_nat i) (Dicts (p_flds p)) []) (nth (N.to_nat i) (DictKeys (p_flds p)) [])
                   (p_pidNext p) (p_numTerms p) (p_numLocs p) (p_totLocs p) 0).
  pose proof (prep_terms_PI (f_terms f) seen (Dfun (Dicts (p_flds p))) (Dfun (DictKeys (p_flds p)))
                (N.to_nat i) st0 (p_totTFs p) eq_refl eq_refl) as X.
  cbn [st0 pt_pidNext pt_numTerms pt_numLocs pt_totLocs pt_n] in X.
  rewrite Nat.add_0_r in X. specialize (X HPI). cbv zeta in X.
  split; [exact HF|]. cbn [p_flds Dicts DictKeys FieldsInv].
  split; [rewrite set_nth_length; exact HLD|].
  split; [rewrite set_nth_length; exact HLK|].
  cbn [p_pidNext p_numTerms p_numLocs p_totLocs p_totTFs].
  eapply PI_ext; [| |exact X].
  - apply Dfun_set_nth. lia.
  - apply Dfun_set_nth. lia.
Qed.

Definition events_doc (F : list bytes) (d : Doc) : list (nat * Term) :=
  flat_map' (fun f => map (pair (fidx F (f_name f))) (f_terms f)) d.
Definition events (F : list bytes) (b : Batch) : list (nat * Term) :=
  flat_map' (events_doc F) b.

Lemma prep_doc_PPI F d : forall seen p,
  (forall f, In f d -> In (f_name f) F) -> PPI F seen p ->
  PPI F (seen ++ events_doc F d) (fold_left prep_field d p).
Proof.
  induction d as [|f d IH]; intros seen p Hn H; cbn [fold_left events_doc flat_map'].
  - rewrite app_nil_r. exact H.
  - rewrite app_assoc. apply IH.
    + intros f' Hf'. apply Hn. right. exact Hf'.
    + apply prep_field_PPI; [apply Hn; left; reflexivity | exact H].
Qed.

Lemma prep_batch_PPI F b : forall seen p,
  (forall d f, In d b -> In f d -> In (f_name f) F) -> PPI F seen p ->
  PPI F (seen ++ events F b) (fold_left (fun p d => fold_left prep_field d p) b p).
Proof.
  induction b as [|d b IH]; intros seen p Hn H; cbn [fold_left events flat_map'].
  - rewrite app_nil_r. exact H.
  - rewrite app_assoc. apply IH.
    + intros d' f Hd'. apply Hn. right. exact Hd'.
    + apply prep_doc_PPI; [intros f Hf; apply (Hn d f); [left; reflexivity | exact Hf] | exact H].
Qed.

(* the field table convert hands to prepareDicts *)
Lemma convert_fields_shape (b : Batch) :
  Dicts (convert_fields b) = repeat [] (length (define_fields b)) /\
  DictKeys (convert_fields b) = repeat [] (length (define_fields b)).
Proof.
  unfold define_fields, convert_fields. fold (pre_sort_flds b). cbn [FieldsInv Dicts DictKeys].
  destruct (pre_sort_fresh b) as [[rest [E _]] [HD HK]].
  rewrite HD, HK, E. cbn [length]. rewrite isort_length. split; reflexivity.
Qed.

Lemma define_fields_NoDup (b : Batch) : NoDup (define_fields b).
Proof.
  rewrite define_fields_spec. unfold field_list. constructor.
  - rewrite sort_dedup_bytes_In, filter_In, negb_true_iff, beq_neq. tauto.
  - apply strict_sorted_bytes_NoDup, sort_dedup_bytes_sorted.
Qed.

Lemma define_fields_names (b : Batch) d f : In d b -> In f d -> In (f_name f) (define_fields b).
Proof.
  intros Hd Hf. rewrite define_fields_spec. apply field_list_In. right.
  apply batch_field_names_In. exists d, f. auto.
Qed.

Lemma Dfun_repeat {V} n q : Dfun (repeat (@nil V) n) q = [].
Proof. unfold Dfun. apply nth_repeat. Qed.

Theorem prepared_PPI (b : Batch) :
  PPI (define_fields b) (events (define_fields b) b) (prepared b).
Proof.
  unfold prepared, prepare_dicts.
  apply (prep_batch_PPI (define_fields b) b []).
  - intros d f. apply define_fields_names.
  - destruct (convert_fields_shape b) as [HD HK].
    split; [reflexivity|]. cbn [p_flds]. rewrite HD, HK, !repeat_length.
    split; [reflexivity|]. split; [reflexivity|].
    cbn [p_pidNext p_numTerms p_numLocs p_totLocs p_totTFs].
    split; [reflexivity|]. split; [reflexivity|].
    split; [intros q; rewrite !Dfun_repeat; reflexivity|].
    split; [intros q; rewrite Dfun_repeat; constructor|].
    split; [intros q t; rewrite Dfun_repeat; reflexivity|].
    split; [intros q q' t t' p; rewrite Dfun_repeat; discriminate|].
    split; [reflexivity|]. split; [reflexivity|]. intros p Hp. lia.
Qed.


(* ------------------------------------------------------------------ *)
(* the counting pass in the words of the specification                 *)
(* ------------------------------------------------------------------ *)
Lemma filter_events_same q t ts :
  map snd (filter (ev_matches q t) (map (pair q) ts)) = filter (fun tm => beq (t_bytes tm) t) ts.
Proof.
  induction ts as [|tm ts IH]; cbn [map filter]; [reflexivity|].
  unfold ev_matches at 1. cbn [fst snd]. rewrite Nat.eqb_refl. cbn [andb].
  destruct (beq (t_bytes tm) t); cbn [map snd]; rewrite IH; reflexivity.
Qed.

Lemma filter_events_other q q' t (ts : list Term) :
  q' <> q -> filter (ev_matches q t) (map (pair q') ts) = [].
Proof.
  intros H. induction ts as [|tm ts IH]; cbn [map filter]; [reflexivity|].
  unfold ev_matches at 1. cbn [fst snd].
  apply Nat.eqb_neq in H. rewrite H. cbn [andb]. exact IH.
Qed.

Lemma events_doc_matching F d q t :
  NoDup F -> (q < length F)%nat -> (forall f, In f d -> In (f_name f) F) ->
  map snd (filter (ev_matches q t) (events_doc F d)) = matching_terms (nth q F []) t d.
Proof.
  intros Hnd Hq. unfold matching_terms, instances.
  induction d as [|fld d IH]; intros Hn; cbn [events_doc flat_map' filter]; [reflexivity|].
  fold (events_doc F d). rewrite filter_app, map_app.
  rewrite IH by (intros f Hf; apply Hn; right; exact Hf).
  destruct (beq (f_name fld) (nth q F [])) eqn:E.
  - apply beq_eq in E. rewrite E, (fidx_nth F q Hnd Hq).
    cbn [flat_map']. rewrite filter_app, filter_events_same. reflexivity.
  - rewrite filter_events_other; [reflexivity|].
    intros X. apply beq_neq in E. apply E.
    destruct (fidx_lt F (f_name fld)) as [_ Y]; [apply Hn; left; reflexivity|].
    rewrite X in Y. auto.
Qed.

Definition raw_locs (f t : bytes) (d : Doc) : list Loc := flat_map' t_locs (matching_terms f t d).

Definition occ_spec (f t : bytes) (b : Batch) : nat :=
  list_sum (map (fun d => length (matching_terms f t d)) b).
Definition locs_spec (f t : bytes) (b : Batch) : nat :=
  list_sum (map (fun d => length (raw_locs f t d)) b).

Lemma length_flat_map' {A B} (g : A -> list B) (l : list A) :
  length (flat_map' g l) = list_sum (map (fun x => length (g x)) l).
Proof.
  induction l as [|x l IH]; cbn [flat_map' map]; [reflexivity|].
  rewrite app_length, list_sum_cons, IH. reflexivity.
Qed.

Lemma events_occ F b q t :
  NoDup F -> (q < length F)%nat -> (forall d f, In d b -> In f d -> In (f_name f) F) ->
  occ q t (events F b) = occ_spec (nth q F []) t b /\
  locsum q t (events F b) = locs_spec (nth q F []) t b.
Proof.
  intros Hnd Hq. unfold occ_spec, locs_spec.
  induction b as [|d b IH]; intros Hn; cbn [events flat_map' map]; [split; reflexivity|].
  fold (events F b). rewrite occ_app, locsum_app, !list_sum_cons.
  destruct IH as [IH1 IH2]; [intros d' f Hd'; apply Hn; right; exact Hd'|].
  rewrite IH1, IH2.
  assert (Hd : forall f, In f d -> In (f_name f) F) by (intros f; apply Hn; left; reflexivity).
  pose proof (events_doc_matching F d q t Hnd Hq Hd) as M.
  split; f_equal.
  - unfold occ. rewrite <- M, map_length. reflexivity.
  - unfold locsum, raw_locs. rewrite <- M, length_flat_map', map_map. reflexivity.
Qed.

(* ------------------------------------------------------------------ *)
(* processDocument: the per-document roll-up                           *)
(* ------------------------------------------------------------------ *)
Definition raw_entry (t : bytes) (ms : list Term) : option (bytes * TokFreq) :=
  match ms with
  | [] => None
  | _ => Some (t, (sumN (map t_freq ms), flat_map' t_locs ms))
  end.

Lemma find_tf_add (tm : Term) (acc : TFs) (t : bytes) :
  find (fun e : bytes * TokFreq => beq (fst e) t) (tf_add acc tm) =
  if beq (t_bytes tm) t then
    match find (fun e : bytes * TokFreq => beq (fst e) t) acc with
    | None => Some (t_bytes tm, (t_freq tm, t_locs tm))
    | Some (k, (fr, ls)) => Some (k, (fr + t_freq tm, ls ++ t_locs tm))
    end
  else find (fun e : bytes * TokFreq => beq (fst e) t) acc.
Proof.
  induction acc as [|[k [fr ls]] acc IH]; cbn [tf_add].
  - cbn [find fst]. destruct (beq (t_bytes tm) t); reflexivity.
  - destruct (beq k (t_bytes tm)) eqn:E1.
    + apply beq_eq in E1. subst k. cbn [find fst].
      destruct (beq (t_bytes tm) t); reflexivity.
    + cbn [find fst]. destruct (beq k t) eqn:E2.
      * apply beq_eq in E2. subst k. rewrite beq_sym, E1. reflexivity.
      * exact IH.
Qed.

Lemma tf_add_keys (tm : Term) (acc : TFs) :
  map fst (tf_add acc tm) =
  if mem beq (t_bytes tm) (map fst acc) then map fst acc else map fst acc ++ [t_bytes tm].
Proof.
  induction acc as [|[k [fr ls]] acc IH]; cbn [tf_add map mem fst app].
  - reflexivity.
  - rewrite (beq_sym (t_bytes tm) k). destruct (beq k (t_bytes tm)); cbn [orb map fst].
    + reflexivity.
    + rewrite IH. destruct (mem beq (t_bytes tm) (map fst acc)); reflexivity.
Qed.

Lemma tf_add_NoDup (tm : Term) (acc : TFs) :
  NoDup (map fst acc) -> NoDup (map fst (tf_add acc tm)).
Proof.
  intros H. rewrite tf_add_keys.
  destruct (mem beq (t_bytes tm) (map fst acc)) eqn:E; [assumption|].
  eapply Permutation_NoDup; [apply Permutation_cons_append|].
  constructor; [|assumption].
  intros Hin. apply (mem_In beq beq_eq) in Hin. congruence.
Qed.

Lemma fold_tf_add_NoDup (ts : list Term) (acc : TFs) :
  NoDup (map fst acc) -> NoDup (map fst (fold_left tf_add ts acc)).
Proof.
  revert acc. induction ts as [|tm ts IH]; intros acc H; cbn [fold_left]; [assumption|].
  apply IH, tf_add_NoDup, H.
Qed.

Lemma raw_entry_snoc (t : bytes) (ms : list Term) (tm : Term) :
  match raw_entry t ms with
  | None => Some (t, (t_freq tm, t_locs tm))
  | Some (k, (fr, ls)) => Some (k, (fr + t_freq tm, ls ++ t_locs tm))
  end = raw_entry t (ms ++ [tm]).
Proof.
  destruct ms as [|m ms].
  - cbn [raw_entry app map sumN flat_map']. rewrite N.add_0_r, app_nil_r. reflexivity.
  - change ((m :: ms) ++ [tm]) with (m :: (ms ++ [tm])).
    unfold raw_entry.
    change (m :: (ms ++ [tm])) with ((m :: ms) ++ [tm]).
    rewrite map_app, sumN_app, flat_map'_app.
    cbn [map sumN flat_map']. rewrite N.add_0_r, app_nil_r. reflexivity.
Qed.

Lemma fold_tf_add_find (t : bytes) (ts : list Term) : forall (acc : TFs) (seen : list Term),
  find (fun e : bytes * TokFreq => beq (fst e) t) acc =
    raw_entry t (filter (fun tm => beq (t_bytes tm) t) seen) ->
  find (fun e : bytes * TokFreq => beq (fst e) t) (fold_left tf_add ts acc) =
    raw_entry t (filter (fun tm => beq (t_bytes tm) t) (seen ++ ts)).
Proof.
  induction ts as [|tm ts IH]; intros acc seen H; cbn [fold_left].
  - rewrite app_nil_r. exact H.
  - replace (seen ++ tm :: ts) with ((seen ++ [tm]) ++ ts)
      by (rewrite <- app_assoc; reflexivity).
    apply IH. rewrite find_tf_add, H, filter_app. cbn [filter].
    destruct (beq (t_bytes tm) t) eqn:E.
    + apply beq_eq in E. rewrite E. apply raw_entry_snoc.
    + rewrite app_nil_r. reflexivity.
Qed.

(* the raw roll-up of one (document, field) *)
Definition raw_roll (f : bytes) (d : Doc) : TFs :=
  fold_left tf_add (flat_map' f_terms (instances f d)) [].

Lemma raw_roll_find f t d :
  find (fun e : bytes * TokFreq => beq (fst e) t) (raw_roll f d) = raw_entry t (matching_terms f t d).
Proof. apply (fold_tf_add_find t _ [] []). reflexivity. Qed.

Lemma raw_roll_NoDup f d : NoDup (map fst (raw_roll f d)).
Proof. apply fold_tf_add_NoDup. constructor. Qed.

(* (c1) the roll-up of processDocument is Spec.roll_up up to the order of the
   entries, whatever order the map iteration picks *)
Definition resolve_entry (f : bytes) (e : bytes * TokFreq) : ATerm :=
  (fst e, (fst (snd e), map (resolve_loc f) (snd (snd e)))).

Lemma tf_add_add_term f tm acc :
  map (resolve_entry f) (tf_add acc tm) = add_term f tm (map (resolve_entry f) acc).
Proof.
  induction acc as [|[k [fr ls]] acc IH]; cbn [tf_add map add_term].
  - reflexivity.
  - unfold resolve_entry at 2. cbn [fst snd].
    destruct (beq k (t_bytes tm)); cbn [map].
    + unfold resolve_entry at 1. cbn [fst snd]. rewrite map_app. reflexivity.
    + rewrite IH. reflexivity.
Qed.

Lemma fold_tf_add_add_term f ts : forall acc,
  map (resolve_entry f) (fold_left tf_add ts acc) =
  fold_left (fun a t => add_term f t a) ts (map (resolve_entry f) acc).
Proof.
  induction ts as [|tm ts IH]; intros acc; cbn [fold_left]; [reflexivity|].
  rewrite IH, tf_add_add_term. reflexivity.
Qed.

Theorem rollup_perm (f : bytes) (d : Doc) (p : TFs -> TFs) :
  (forall l, Permutation (p l) l) ->
  Permutation (map (resolve_entry f) (p (raw_roll f d))) (roll_up f (instances f d)).
Proof.
  intros Hp. unfold roll_up.
  eapply perm_trans; [apply Permutation_map, Hp|].
  unfold raw_roll. rewrite fold_tf_add_add_term. cbn [map].
  apply Permutation_sym, isort_key_perm.
Qed.

(* visitField accumulates, per field id, the roll-up of the instances *)
Definition fl_ext (F0 : list bytes) (fl : Flds) : Prop := exists extra, FieldsInv fl = F0 ++ extra.

Lemma getOrDefineField_ext F0 fl name :
  fl_ext F0 fl -> In name F0 ->
  getOrDefineField fl name = (fl, N.of_nat (fidx F0 name)).
Proof.
  intros [extra E] Hin. unfold getOrDefineField, fidx.
  destruct (index_of_In name F0 0 Hin) as [j Ej].
  rewrite E, (index_of_app_l _ _ _ _ _ Ej), Ej. cbn [opt_default]. f_equal. lia.
Qed.

Lemma instances_cons f fld d :
  instances f (fld :: d) = if beq (f_name fld) f then fld :: instances f d else instances f d.
Proof. reflexivity. Qed.

Lemma visit_fields F0 (Hnd : NoDup F0) d : forall fl lens tfs,
  fl_ext F0 fl -> (forall f, In f d -> In (f_name f) F0) ->
  length lens = length F0 -> length tfs = length F0 ->
  let r := fold_left visit_field d (fl, lens, tfs) in
  fst (fst r) = fl /\ length (snd (fst r)) = length F0 /\ length (snd r) = length F0 /\
  forall q, (q < length F0)%nat ->
    nth q (snd (fst r)) 0 = nth q lens 0 + sumN (map f_len (instances (nth q F0 []) d)) /\
    nth q (snd r) [] = fold_left tf_add (flat_map' f_terms (instances (nth q F0 []) d)) (nth q tfs []).
Proof.
  induction d as [|fld d IH]; intros fl lens tfs Hext Hn HL HT; cbn [fold_left].
  - cbn [fst snd]. repeat split; auto. cbn [instances filter map sumN]. lia.
  - assert (Hin : In (f_name fld) F0) by (apply Hn; left; reflexivity).
    destruct (fidx_lt F0 _ Hin) as [Hlt Hnm].
    assert (EV : visit_field (fl, lens, tfs) fld =
                 (fl, set_nth (fidx F0 (f_name fld)) (nth (fidx F0 (f_name fld)) lens 0 + f_len fld) lens,
                  set_nth (fidx F0 (f_name fld))
                    (fold_left tf_add (f_terms fld) (nth (fidx F0 (f_name fld)) tfs [])) tfs)).
    { unfold visit_field. rewrite (getOrDefineField_ext F0 fl _ Hext Hin). rewrite Nat2N.id. reflexivity. }
    rewrite EV. clear EV.
    set (i := fidx F0 (f_name fld)) in *.
    edestruct (IH fl (set_nth i (nth i lens 0 + f_len fld) lens)
                  (set_nth i (fold_left tf_add (f_terms fld) (nth i tfs [])) tfs)) as [A1 [A2 [A3 A4]]];
      [exact Hext | intros f Hf; apply Hn; right; exact Hf
       | rewrite set_nth_length; exact HL | rewrite set_nth_length; exact HT |].
    split; [exact A1|]. split; [exact A2|]. split; [exact A3|].
    intros q Hq. destruct (A4 q Hq) as [B1 B2]. rewrite B1, B2, instances_cons.
    destruct (Nat.eq_dec i q) as [E|E].
    + subst q. rewrite Hnm, beq_refl. rewrite !nth_set_nth_eq by lia.
      cbn [map sumN flat_map']. rewrite fold_left_app. split; [lia | reflexivity].
    + rewrite !nth_set_nth_neq by exact E.
      assert (X : beq (f_name fld) (nth q F0 []) = false).
      { apply beq_neq. intros Y. apply E. rewrite <- (fidx_nth F0 q Hnd Hq), <- Y. reflexivity. }
      rewrite X. split; reflexivity.
Qed.


(* ------------------------------------------------------------------ *)
(* the field table can only grow at its end during processDocuments    *)
(* ------------------------------------------------------------------ *)
Definition ext (fl0 fl : Flds) : Prop :=
  exists extra,
    fl = mkFlds (FieldsInv fl0 ++ extra) (Dicts fl0 ++ repeat [] (length extra))
                (DictKeys fl0 ++ repeat [] (length extra)).

Lemma ext_refl fl0 : ext fl0 fl0.
Proof. exists []. cbn [length repeat]. rewrite !app_nil_r. destruct fl0; reflexivity. Qed.

Lemma ext_fl_ext fl0 fl : ext fl0 fl -> fl_ext (FieldsInv fl0) fl.
Proof. intros [extra ->]. exists extra. reflexivity. Qed.

Lemma ext_god fl0 fl name : ext fl0 fl -> ext fl0 (fst (getOrDefineField fl name)).
Proof.
  intros [extra ->]. unfold getOrDefineField. cbn [FieldsInv Dicts DictKeys].
  destruct (index_of name (FieldsInv fl0 ++ extra) 0); cbn [fst].
  - exists extra. reflexivity.
  - exists (extra ++ [name]). rewrite <- !app_assoc, app_length. cbn [length].
    replace (length extra + 1)%nat with (S (length extra)) by lia.
    rewrite <- !repeat_snoc. reflexivity.
Qed.

Lemma nth_app_repeat_nil {V} (l : list (list V)) k q : nth q (l ++ repeat [] k) [] = nth q l [].
Proof.
  destruct (Nat.lt_ge_cases q (length l)) as [H|H].
  - apply app_nth1, H.
  - rewrite app_nth2 by exact H. rewrite nth_repeat. symmetry. apply nth_overflow, H.
Qed.

Lemma ext_dict fl0 fl q : ext fl0 fl -> nth q (Dicts fl) [] = nth q (Dicts fl0) [].
Proof. intros [extra ->]. cbn [Dicts]. apply nth_app_repeat_nil. Qed.

Lemma ext_name fl0 fl q :
  ext fl0 fl -> (q < length (FieldsInv fl0))%nat -> nth q (FieldsInv fl) [] = nth q (FieldsInv fl0) [].
Proof. intros [extra ->] H. cbn [FieldsInv]. apply app_nth1, H. Qed.

(* ------------------------------------------------------------------ *)
(* the appending pass on the ideal model                               *)
(* ------------------------------------------------------------------ *)
Definition loc_rel (F0 : list bytes) (el : ELoc) (x : nat * Loc) : Prop :=
  snd el = (l_pos (snd x), (l_start (snd x), l_end (snd x))) /\
  match l_field (snd x) with
  | [] => fst el = N.of_nat (fst x)
  | nm => forall i, index_of nm F0 0 = Some i -> fst el = i
  end.

Definition loc_closed (F : list bytes) (l : Loc) : Prop := l_field l = [] \/ In (l_field l) F.

Lemma emit_loc_ideal fl0 pid fid (st : Flds * list (list ELoc)) l :
  ext fl0 (fst st) ->
  let st' := emit_loc (@log_app ELoc) pid fid st l in
  ext fl0 (fst st') /\
  (exists el, snd st' = log_app (snd st) pid el /\ loc_rel (FieldsInv fl0) el (fid, l)) /\
  (loc_closed (FieldsInv (fst st)) l -> fst st' = fst st).
Proof.
  intros Hext. unfold emit_loc. destruct (l_field l) as [|c nm] eqn:E.
  - cbn [fst snd]. split; [exact Hext|]. split; [|reflexivity].
    eexists. split; [reflexivity|]. split; [reflexivity|]. cbn [fst snd]. rewrite E. reflexivity.
  - destruct (getOrDefineField (fst st) (c :: nm)) as [fl' locf] eqn:G. cbn [fst snd].
    split; [|split].
    + pose proof (ext_god fl0 (fst st) (c :: nm) Hext) as X. rewrite G in X. exact X.
    + eexists. split; [reflexivity|]. split; [reflexivity|]. cbn [fst snd]. rewrite E.
      intros i Hi. destruct (ext_fl_ext _ _ Hext) as [extra Ex].
      unfold getOrDefineField in G. rewrite Ex, (index_of_app_l _ _ _ _ _ Hi) in G.
      inversion G. reflexivity.
    + intros [X|X]; [rewrite E in X; discriminate|]. rewrite E in X.
      destruct (getOrDefineField_known _ _ X) as [i [_ Y]]. rewrite Y in G. inversion G. reflexivity.
Qed.

Definition log_app_many {X} (pid : nat) (L : list (list X)) (els : list X) : list (list X) :=
  fold_left (fun L el => log_app L pid el) els L.

Lemma log_app_many_length {X} pid (els : list X) : forall L, length (log_app_many pid L els) = length L.
Proof.
  induction els as [|el els IH]; intros L; cbn [log_app_many fold_left]; [reflexivity|].
  fold (log_app_many pid (log_app L pid el) els). rewrite IH. apply log_app_length.
Qed.

Lemma nth_log_app_many {X} pid q (els : list X) : forall L,
  (q < length L)%nat ->
  nth q (log_app_many pid L els) [] = if Nat.eqb pid q then nth q L [] ++ els else nth q L [].
Proof.
  induction els as [|el els IH]; intros L Hq; cbn [log_app_many fold_left].
  - destruct (Nat.eqb pid q); [rewrite app_nil_r|]; reflexivity.
  - fold (log_app_many pid (log_app L pid el) els).
    rewrite IH by (rewrite log_app_length; exact Hq). rewrite nth_log_app.
    destruct (Nat.eqb pid q) eqn:E; cbn [andb]; [|reflexivity].
    apply Nat.eqb_eq in E. subst q. apply Nat.ltb_lt in Hq. rewrite Hq.
    rewrite <- app_assoc. reflexivity.
Qed.

Lemma emit_locs_ideal fl0 pid fid ls : forall (st : Flds * list (list ELoc)),
  ext fl0 (fst st) ->
  let st' := fold_left (emit_loc (@log_app ELoc) pid fid) ls st in
  ext fl0 (fst st') /\
  (exists els, snd st' = log_app_many pid (snd st) els /\
               Forall2 (loc_rel (FieldsInv fl0)) els (map (pair fid) ls)) /\
  ((forall l, In l ls -> loc_closed (FieldsInv (fst st)) l) -> fst st' = fst st).
Proof.
  induction ls as [|l ls IH]; intros st Hext; cbn [fold_left map].
  - split; [exact Hext|]. split; [|reflexivity]. exists []. split; [reflexivity | constructor].
  - destruct (emit_loc_ideal fl0 pid fid st l Hext) as [A1 [[el [A2 A3]] A4]].
    destruct (IH _ A1) as [B1 [[els [B2 B3]] B4]].
    split; [exact B1|]. split.
    + exists (el :: els). split; [|constructor; assumption].
      rewrite B2, A2. reflexivity.
    + intros Hc. assert (X : fst (emit_loc (@log_app ELoc) pid fid st l) = fst st).
      { apply A4, Hc. left. reflexivity. }
      rewrite B4; [exact X|]. intros l' Hl'. rewrite X. apply Hc. right. exact Hl'.
Qed.

Definition IdealSt := Interim (list (list interimFreqNorm)) (list (list ELoc)).
Definition WFI (np : nat) (st : IdealSt) : Prop :=
  length (i_postings st) = np /\ length (i_fn st) = np /\ length (i_locs st) = np.

Record Ev := mkEv { ev_fid : nat; ev_dict : list (bytes * nat); ev_nrm : N; ev_e : bytes * TokFreq }.
Definition ev_pid (ev : Ev) : nat := opt_default O (assoc (fst (ev_e ev)) (ev_dict ev)).
Definition ev_locs (ev : Ev) : list Loc := snd (snd (ev_e ev)).
Definition ev_fn (ev : Ev) : interimFreqNorm := (fst (snd (ev_e ev)), (ev_nrm ev, length (ev_locs ev))).
Definition step_ev (n : N) (st : IdealSt) (ev : Ev) : IdealSt :=
  emit_term (@log_app interimFreqNorm) (@log_app ELoc) n (ev_fid ev) (ev_dict ev) (ev_nrm ev) st (ev_e ev).

Lemma step_ev_ideal fl0 np n (st : IdealSt) ev :
  ext fl0 (i_flds st) -> WFI np st ->
  let st' := step_ev n st ev in
  ext fl0 (i_flds st') /\ WFI np st' /\
  ((forall l, In l (ev_locs ev) -> loc_closed (FieldsInv (i_flds st)) l) -> i_flds st' = i_flds st) /\
  exists els, Forall2 (loc_rel (FieldsInv fl0)) els (map (pair (ev_fid ev)) (ev_locs ev)) /\
    forall q, (q < np)%nat ->
      nth q (i_postings st') [] =
        (if Nat.eqb (ev_pid ev) q then bm_add n (nth q (i_postings st) []) else nth q (i_postings st) []) /\
      nth q (i_fn st') [] =
        (if Nat.eqb (ev_pid ev) q then nth q (i_fn st) [] ++ [ev_fn ev] else nth q (i_fn st) []) /\
      nth q (i_locs st') [] =
        (if Nat.eqb (ev_pid ev) q then nth q (i_locs st) [] ++ els else nth q (i_locs st) []).
Proof.
  intros Hext [W1 [W2 W3]]. unfold step_ev, emit_term. fold (ev_pid ev). fold (ev_locs ev).
  destruct (emit_locs_ideal fl0 (ev_pid ev) (ev_fid ev) (ev_locs ev) (i_flds st, i_locs st) Hext)
    as [A1 [[els [A2 A3]] A4]]. cbn [fst snd] in *.
  cbn [i_flds i_postings i_fn i_locs].
  split; [exact A1|]. split.
  { split; [|split]; cbn [i_postings i_fn i_locs].
    - rewrite upd_nth_length. exact W1.
    - rewrite log_app_length. exact W2.
    - rewrite A2, log_app_many_length. exact W3. }
  split; [exact A4|].
  exists els. split; [exact A3|]. intros q Hq.
  split; [|split].
  - destruct (Nat.eqb (ev_pid ev) q) eqn:E.
    + apply Nat.eqb_eq in E. rewrite <- E in *. apply nth_upd_nth_eq. lia.
    + apply Nat.eqb_neq in E. apply nth_upd_nth_neq. exact E.
  - rewrite nth_log_app. destruct (Nat.eqb (ev_pid ev) q) eqn:E; cbn [andb]; [|reflexivity].
    apply Nat.eqb_eq in E. rewrite <- E in Hq.
    assert (X : Nat.ltb (ev_pid ev) (length (i_fn st)) = true) by (apply Nat.ltb_lt; lia).
    rewrite X. reflexivity.
  - rewrite A2. apply nth_log_app_many. lia.
Qed.

Lemma Forall2_app' {A B} (R : A -> B -> Prop) l1 l2 m1 m2 :
  Forall2 R l1 m1 -> Forall2 R l2 m2 -> Forall2 R (l1 ++ l2) (m1 ++ m2).
Proof. intros H1 H2. induction H1; cbn [app]; auto. Qed.

(* a run of events, seen from one postings list *)
Lemma events_fold fl0 np n evs : forall (st : IdealSt),
  ext fl0 (i_flds st) -> WFI np st ->
  let st' := fold_left (step_ev n) evs st in
  ext fl0 (i_flds st') /\ WFI np st' /\
  ((forall ev l, In ev evs -> In l (ev_locs ev) -> loc_closed (FieldsInv (i_flds st)) l) ->
   i_flds st' = i_flds st) /\
  forall q, (q < np)%nat ->
    let sel := filter (fun ev => Nat.eqb (ev_pid ev) q) evs in
    nth q (i_postings st') [] = fold_left (fun l _ => bm_add n l) sel (nth q (i_postings st) []) /\
    nth q (i_fn st') [] = nth q (i_fn st) [] ++ map ev_fn sel /\
    exists els, nth q (i_locs st') [] = nth q (i_locs st) [] ++ els /\
      Forall2 (loc_rel (FieldsInv fl0)) els
              (flat_map' (fun ev => map (pair (ev_fid ev)) (ev_locs ev)) sel).
Proof.
  induction evs as [|ev evs IH]; intros st Hext HW; cbn [fold_left].
  - split; [exact Hext|]. split; [exact HW|]. split; [reflexivity|].
    intros q Hq. cbn [filter fold_left map flat_map']. rewrite app_nil_r.
    split; [reflexivity|]. split; [reflexivity|]. exists []. rewrite app_nil_r. split; [reflexivity | constructor].
  - destruct (step_ev_ideal fl0 np n st ev Hext HW) as [A1 [A2 [A3 [els [A4 A5]]]]].
    destruct (IH _ A1 A2) as [B1 [B2 [B3 B4]]].
    split; [exact B1|]. split; [exact B2|]. split.
    + intros Hc. assert (X : i_flds (step_ev n st ev) = i_flds st).
      { apply A3. intros l Hl. apply (Hc ev l); [left; reflexivity | exact Hl]. }
      rewrite B3; [exact X|]. intros ev' l Hev' Hl. rewrite X. apply (Hc ev' l); [right; exact Hev' | exact Hl].
    + intros q Hq. destruct (A5 q Hq) as [C1 [C2 C3]].
      destruct (B4 q Hq) as [D1 [D2 [els' [D3 D4]]]].
      cbn [filter]. destruct (Nat.eqb (ev_pid ev) q) eqn:E.
      * cbn [fold_left map flat_map']. rewrite D1, D2, D3, C1, C2, C3.
        split; [reflexivity|]. split; [rewrite <- app_assoc; reflexivity|].
        exists (els ++ els'). split; [rewrite <- app_assoc; reflexivity|].
        apply Forall2_app'; assumption.
      * rewrite D1, D2, D3, C1, C2, C3. split; [reflexivity|]. split; [reflexivity|].
        exists els'. split; [reflexivity | exact D4].
Qed.


(* ------------------------------------------------------------------ *)
(* what prepareDicts leaves behind, in the words of the specification  *)
(* ------------------------------------------------------------------ *)
Definition Dq (b : Batch) (q : nat) : list (bytes * nat) := nth q (Dicts (p_flds (prepared b))) [].

Lemma initial_flds (b : Batch) :
  FieldsInv (i_flds (initial b)) = define_fields b /\
  Dicts (i_flds (initial b)) = Dicts (p_flds (prepared b)).
Proof.
  unfold initial. cbn [i_flds FieldsInv Dicts]. split; [|reflexivity].
  destruct (prepared_PPI b) as [H _]. exact H.
Qed.

Lemma prep_lookup (b : Batch) (q : nat) (t : bytes) :
  (q < length (define_fields b))%nat ->
  match assoc t (Dq b q) with
  | Some pid => (pid < p_pidNext (prepared b))%nat /\
                nth pid (p_numTerms (prepared b)) O = occ_spec (nth q (define_fields b) []) t b /\
                nth pid (p_numLocs (prepared b)) O = locs_spec (nth q (define_fields b) []) t b /\
                (0 < occ_spec (nth q (define_fields b) []) t b)%nat
  | None => occ_spec (nth q (define_fields b) []) t b = O
  end.
Proof.
  intros Hq. destruct (prepared_PPI b) as [_ [_ [_ [_ [_ [_ [_ [H5 _]]]]]]]].
  specialize (H5 q t). unfold Dq. unfold Dfun in H5.
  destruct (events_occ (define_fields b) b q t (define_fields_NoDup b) Hq
              (fun d f => define_fields_names b d f)) as [E1 E2].
  rewrite E1, E2 in H5. exact H5.
Qed.

Lemma prep_inj (b : Batch) q q' t t' pid :
  assoc t (Dq b q) = Some pid -> assoc t' (Dq b q') = Some pid -> q = q' /\ t = t'.
Proof.
  destruct (prepared_PPI b) as [_ [_ [_ [_ [_ [_ [_ [_ [H6 _]]]]]]]]]. apply H6.
Qed.

Lemma prep_lengths (b : Batch) :
  length (p_numTerms (prepared b)) = p_pidNext (prepared b) /\
  length (p_numLocs (prepared b)) = p_pidNext (prepared b) /\
  list_sum (p_numTerms (prepared b)) = p_totTFs (prepared b) /\
  list_sum (p_numLocs (prepared b)) = p_totLocs (prepared b).
Proof.
  destruct (prepared_PPI b) as [_ [_ [_ [L1 [L2 [_ [_ [_ [_ [S1 [S2 _]]]]]]]]]]]. auto.
Qed.

Lemma prep_surj (b : Batch) pid :
  (pid < p_pidNext (prepared b))%nat ->
  exists q t, (q < length (define_fields b))%nat /\ assoc t (Dq b q) = Some pid.
Proof.
  destruct (prepared_PPI b) as [_ [LD [_ [_ [_ [_ [_ [_ [_ [_ [_ S3]]]]]]]]]]].
  intros H. destruct (S3 pid H) as [q [t X]]. exists q, t. split; [|exact X].
  destruct (Nat.lt_ge_cases q (length (define_fields b))) as [Y|Y]; [exact Y|].
  unfold Dfun in X. rewrite nth_overflow in X by lia. discriminate.
Qed.

Lemma prep_keys (b : Batch) q :
  nth q (DictKeys (p_flds (prepared b))) [] = map fst (Dq b q) /\ NoDup (map fst (Dq b q)) /\
  length (DictKeys (p_flds (prepared b))) = length (define_fields b).
Proof.
  destruct (prepared_PPI b) as [_ [_ [LK [_ [_ [HK [HN _]]]]]]].
  split; [apply HK|]. split; [apply HN | exact LK].
Qed.

Lemma occ_spec_pos f t b d : In d b -> matching_terms f t d <> [] -> (0 < occ_spec f t b)%nat.
Proof.
  unfold occ_spec. induction b as [|d' b IH]; intros Hin Hm; [destruct Hin|].
  cbn [map]. rewrite list_sum_cons. destruct Hin as [->|Hin].
  - destruct (matching_terms f t d); [congruence | cbn [length]; lia].
  - specialize (IH Hin Hm). lia.
Qed.

Lemma occ_spec_pos_inv f t b : (0 < occ_spec f t b)%nat -> exists d, In d b /\ matching_terms f t d <> [].
Proof.
  unfold occ_spec. induction b as [|d' b IH]; cbn [map]; [rewrite list_sum_nil; lia|].
  rewrite list_sum_cons. intros H.
  destruct (matching_terms f t d') eqn:E.
  - cbn [length] in H. destruct IH as [d [H1 H2]]; [lia|]. exists d. split; [right|]; assumption.
  - exists d'. split; [left; reflexivity | congruence].
Qed.

Lemma raw_roll_key f t d :
  In t (map fst (raw_roll f d)) <-> matching_terms f t d <> [].
Proof.
  rewrite (find_key_In (@fst bytes TokFreq)), raw_roll_find. unfold raw_entry.
  destruct (matching_terms f t d); split; congruence.
Qed.

(* the lookup "pid := dict[term] - 1" of processDocument always finds the term *)
Theorem dict_lookup_defined (b : Batch) (d : Doc) (q : nat) (e : bytes * TokFreq) :
  In d b -> (q < length (define_fields b))%nat ->
  In e (raw_roll (nth q (define_fields b) []) d) ->
  exists pid, assoc (fst e) (Dq b q) = Some pid /\ (pid < p_pidNext (prepared b))%nat.
Proof.
  intros Hd Hq He.
  assert (Hk : matching_terms (nth q (define_fields b) []) (fst e) d <> []).
  { apply raw_roll_key. apply in_map. exact He. }
  pose proof (occ_spec_pos _ _ _ _ Hd Hk) as Hp.
  pose proof (prep_lookup b q (fst e) Hq) as X.
  destruct (assoc (fst e) (Dq b q)) as [pid|]; [exists pid; tauto | lia].
Qed.

(* ------------------------------------------------------------------ *)
(* one document, on the ideal model                                    *)
(* ------------------------------------------------------------------ *)
Lemma fold_left_map {A B C} (f : A -> C -> A) (g : B -> C) (l : list B) (a : A) :
  fold_left f (map g l) a = fold_left (fun a x => f a (g x)) l a.
Proof. revert a. induction l as [|x l IH]; intros a; cbn [map fold_left]; auto. Qed.

Lemma filter_map_swap {A B} (p : B -> bool) (g : A -> B) (l : list A) :
  filter p (map g l) = map g (filter (fun x => p (g x)) l).
Proof.
  induction l as [|x l IH]; cbn [map filter]; [reflexivity|].
  destruct (p (g x)); cbn [map]; rewrite IH; reflexivity.
Qed.

Lemma filter_none {A} (p : A -> bool) (l : list A) :
  (forall x, In x l -> p x = false) -> filter p l = [].
Proof.
  induction l as [|x l IH]; intros H; cbn [filter]; [reflexivity|].
  rewrite H by (left; reflexivity). apply IH. intros y Hy. apply H. right. exact Hy.
Qed.

Lemma filter_key_NoDup {V} (t : bytes) (l : list (bytes * V)) :
  NoDup (map fst l) ->
  filter (fun e => beq (fst e) t) l =
  match find (fun e => beq (fst e) t) l with Some x => [x] | None => [] end.
Proof.
  induction l as [|[k v] l IH]; intros Hnd; cbn [filter find fst map] in *; [reflexivity|].
  inversion Hnd as [|? ? Hni Hnd']; subst.
  destruct (beq k t) eqn:E.
  - apply beq_eq in E. subst k. f_equal. apply filter_none.
    intros [k' v'] Hin. cbn [fst]. apply beq_neq. intros ->. apply Hni.
    apply (in_map fst) in Hin. exact Hin.
  - apply IH, Hnd'.
Qed.

Lemma flat_map'_single {B} (g : nat -> list B) (l : list nat) (q : nat) :
  NoDup l -> In q l -> (forall x, In x l -> x <> q -> g x = []) -> flat_map' g l = g q.
Proof.
  induction l as [|x l IH]; intros Hnd Hin Hz; [destruct Hin|].
  inversion Hnd as [|? ? Hni Hnd']; subst. cbn [flat_map'].
  destruct Hin as [->|Hin].
  - rewrite flat_map'_nil; [apply app_nil_r|].
    intros y Hy. apply Hz; [right; exact Hy | intros ->; contradiction].
  - rewrite Hz; [|left; reflexivity | intros ->; contradiction]. cbn [app].
    apply IH; auto. intros y Hy. apply Hz. right. exact Hy.
Qed.

Lemma bm_add_last (n : N) (l : list N) : Forall (fun x => x < n) l -> bm_add n l = l ++ [n].
Proof.
  induction 1 as [|x l Hx _ IH]; cbn [bm_add app]; [reflexivity|].
  assert (E1 : (n <? x) = false) by lia. assert (E2 : (n =? x) = false) by lia.
  rewrite E1, E2, IH. reflexivity.
Qed.

Section Batch.
  Variable norm : bytes -> N -> N.
  Variable perm : N -> nat -> TFs -> TFs.
  Hypothesis Hperm : forall n q l, Permutation (perm n q l) l.
  Variable b : Batch.

  Let F0 := define_fields b.
  Let FL0 := i_flds (initial b).
  Let np := p_pidNext (prepared b).

  Definition mk_ev (n : N) (lens : list N) (fid : nat) (e : bytes * TokFreq) : Ev :=
    mkEv fid (nth fid (Dicts FL0) []) (norm (nth fid (FieldsInv FL0) []) (nth fid lens 0)) e.
  Definition doc_evs (n : N) (lens : list N) (tfs : list TFs) (fids : list nat) : list Ev :=
    flat_map' (fun fid => map (mk_ev n lens fid) (perm n fid (nth fid tfs []))) fids.

  Lemma step_ev_ext n (st : IdealSt) ev : ext FL0 (i_flds st) -> ext FL0 (i_flds (step_ev n st ev)).
  Proof.
    intros H. unfold step_ev, emit_term. cbn [i_flds].
    apply (emit_locs_ideal FL0 _ _ _ (i_flds st, i_locs st)). exact H.
  Qed.

  Lemma emit_fields_flat n lens (tfs : list TFs) fids : forall (st : IdealSt),
    ext FL0 (i_flds st) -> (forall fid, In fid fids -> (fid < length (FieldsInv FL0))%nat) ->
    fold_left (emit_field norm perm (@log_app interimFreqNorm) (@log_app ELoc) n lens tfs) fids st
    = fold_left (step_ev n) (doc_evs n lens tfs fids) st.
  Proof.
    induction fids as [|fid fids IH]; intros st Hext Hf; cbn [fold_left doc_evs flat_map'].
    - reflexivity.
    - fold (doc_evs n lens tfs fids). rewrite fold_left_app.
      assert (E : emit_field norm perm (@log_app interimFreqNorm) (@log_app ELoc) n lens tfs st fid =
                  fold_left (step_ev n) (map (mk_ev n lens fid) (perm n fid (nth fid tfs []))) st).
      { unfold emit_field. rewrite (ext_dict FL0 _ fid Hext).
        rewrite (ext_name FL0 _ fid Hext) by (apply Hf; left; reflexivity).
        rewrite fold_left_map. reflexivity. }
      rewrite E. apply IH.
      + apply fold_left_ind; [exact Hext|]. intros a x _. apply step_ev_ext.
      + intros fid' H'. apply Hf. right. exact H'.
  Qed.

  (* the events of one document that go to the postings list of (field q, term t) *)
  Lemma sel_doc n d lens (tfs : list TFs) q t pid :
    In d b -> (q < length F0)%nat -> assoc t (Dq b q) = Some pid ->
    (forall q', (q' < length F0)%nat -> nth q' tfs [] = raw_roll (nth q' F0 []) d) ->
    filter (fun ev => Nat.eqb (ev_pid ev) pid) (doc_evs n lens tfs (seq 0 (length F0))) =
    match find (fun e : bytes * TokFreq => beq (fst e) t) (raw_roll (nth q F0 []) d) with
    | Some e => [mk_ev n lens q e]
    | None => []
    end.
  Proof.
    intros Hd Hq Hpid Htfs. unfold doc_evs. rewrite filter_flat_map'.
    assert (HD : forall q', nth q' (Dicts FL0) [] = Dq b q').
    { intros q'. unfold FL0, Dq. destruct (initial_flds b) as [_ ->]. reflexivity. }
    assert (Hpe : forall q' e, (q' < length F0)%nat -> In e (perm n q' (nth q' tfs [])) ->
               exists p, assoc (fst e) (Dq b q') = Some p).
    { intros q' e Hq' He. rewrite (Htfs q' Hq') in He.
      apply (Permutation_in _ (Hperm n q' _)) in He.
      destruct (dict_lookup_defined b d q' e Hd Hq' He) as [p [Hp _]]. eauto. }
    rewrite (flat_map'_single _ (seq 0 (length F0)) q).
    - cbv beta. rewrite filter_map_swap.
      rewrite (filter_ext_in _ (fun e : bytes * TokFreq => beq (fst e) t)).
      + rewrite filter_key_NoDup.
        * rewrite (Htfs q Hq).
          rewrite (find_key_perm (@fst bytes TokFreq) t (raw_roll (nth q F0 []) d)
                     (perm n q (raw_roll (nth q F0 []) d)) (raw_roll_NoDup _ _)
                     (Permutation_sym (Hperm n q _))).
          destruct (find _ (raw_roll (nth q F0 []) d)); reflexivity.
        * rewrite (Htfs q Hq). eapply Permutation_NoDup.
          -- apply Permutation_map, Permutation_sym, Hperm.
          -- apply raw_roll_NoDup.
      + intros e He. unfold ev_pid, mk_ev. cbn [ev_e ev_dict]. rewrite HD.
        destruct (Hpe q e Hq He) as [p Hp]. rewrite Hp. cbn [opt_default].
        destruct (beq (fst e) t) eqn:E.
        * apply beq_eq in E. rewrite E, Hpid in Hp. inversion Hp. apply Nat.eqb_refl.
        * apply Nat.eqb_neq. intros ->. destruct (prep_inj b _ _ _ _ _ Hp Hpid) as [_ X].
          apply beq_neq in E. contradiction.
    - apply seq_NoDup.
    - apply in_seq. lia.
    - intros q' Hq' Hne. apply in_seq in Hq'. rewrite filter_map_swap.
      rewrite filter_none; [reflexivity|].
      intros e He. unfold ev_pid, mk_ev. cbn [ev_e ev_dict]. rewrite HD.
      destruct (Hpe q' e ltac:(lia) He) as [p Hp]. rewrite Hp. cbn [opt_default].
      apply Nat.eqb_neq. intros ->. destruct (prep_inj b _ _ _ _ _ Hp Hpid) as [X _]. contradiction.
  Qed.
End Batch.


(* ------------------------------------------------------------------ *)
(* the whole appending pass on the ideal model                         *)
(* ------------------------------------------------------------------ *)
Definition has (f t : bytes) (d : Doc) : bool :=
  match matching_terms f t d with [] => false | _ => true end.
Definition docs_of (f t : bytes) (nb : list (N * Doc)) : list N :=
  flat_map' (fun nd => if has f t (snd nd) then [fst nd] else []) nb.
Definition rlocs_of (q : nat) (f t : bytes) (nb : list (N * Doc)) : list (nat * Loc) :=
  flat_map' (fun nd => map (pair q) (raw_locs f t (snd nd))) nb.
Definition doc_closed (F : list bytes) (d : Doc) : Prop :=
  forall fld tm l, In fld d -> In tm (f_terms fld) -> In l (t_locs tm) -> loc_closed F l.

Lemma has_false f t d : has f t d = false -> matching_terms f t d = [].
Proof. unfold has. destruct (matching_terms f t d); [reflexivity | discriminate]. Qed.

Lemma docs_of_bound f t nb n :
  Forall (fun nd : N * Doc => fst nd < n) nb -> Forall (fun x => x < n) (docs_of f t nb).
Proof.
  unfold docs_of. induction 1 as [|nd nb H _ IH]; cbn [flat_map']; [constructor|].
  destruct (has f t (snd nd)); cbn [app]; [constructor|]; assumption.
Qed.

Section Batch2.
  Variable norm : bytes -> N -> N.
  Variable perm : N -> nat -> TFs -> TFs.
  Hypothesis Hperm : forall n q l, Permutation (perm n q l) l.
  Variable b : Batch.

  Let F0 := define_fields b.
  Let FL0 := i_flds (initial b).
  Let np := p_pidNext (prepared b).

  Definition fn_of (f t : bytes) (d : Doc) : interimFreqNorm :=
    (implied_freq f t d, (implied_norm norm f d, length (raw_locs f t d))).
  Definition fns_of (f t : bytes) (nb : list (N * Doc)) : list interimFreqNorm :=
    flat_map' (fun nd => if has f t (snd nd) then [fn_of f t (snd nd)] else []) nb.

  Definition BInv (done : list (N * Doc)) (st : IdealSt) : Prop :=
    ext FL0 (i_flds st) /\ WFI np st /\
    forall q t pid, (q < length F0)%nat -> assoc t (Dq b q) = Some pid ->
      nth pid (i_postings st) [] = docs_of (nth q F0 []) t done /\
      nth pid (i_fn st) [] = fns_of (nth q F0 []) t done /\
      Forall2 (loc_rel F0) (nth pid (i_locs st) []) (rlocs_of q (nth q F0 []) t done).

  Lemma FL0_fields : FieldsInv FL0 = F0.
  Proof. apply initial_flds. Qed.

  Lemma doc_evs_closed n d lens (tfs : list TFs) :
    doc_closed F0 d ->
    (forall q', (q' < length F0)%nat -> nth q' tfs [] = raw_roll (nth q' F0 []) d) ->
    forall ev l, In ev (doc_evs norm perm b n lens tfs (seq 0 (length F0))) ->
                 In l (ev_locs ev) -> loc_closed F0 l.
  Proof.
    intros Hc Htfs ev l Hev Hl. unfold doc_evs in Hev. apply In_flat_map' in Hev.
    destruct Hev as [fid [Hfid Hev]]. apply in_seq in Hfid. apply in_map_iff in Hev.
    destruct Hev as [e [<- He]]. unfold ev_locs, mk_ev in Hl. cbn [ev_e] in Hl.
    rewrite Htfs in He by lia. apply (Permutation_in _ (Hperm n fid _)) in He.
    pose proof (find_key_unique (@fst bytes TokFreq) (fst e) _ e (raw_roll_NoDup _ _) He eq_refl) as X.
    rewrite raw_roll_find in X. unfold raw_entry in X.
    destruct (matching_terms (nth fid F0 []) (fst e) d) as [|m ms] eqn:Em; [discriminate|].
    inversion X as [Y]. rewrite <- Y in Hl. cbn [snd] in Hl.
    change (In l (flat_map' t_locs (m :: ms))) in Hl.
    apply In_flat_map' in Hl. destruct Hl as [tm [Htm Hl]].
    rewrite <- Em in Htm. unfold matching_terms in Htm. apply filter_In in Htm.
    destruct Htm as [Htm _]. apply In_flat_map' in Htm. destruct Htm as [fld [Hfld Htm]].
    apply instances_In in Hfld. destruct Hfld as [Hfld _].
    exact (Hc fld tm l Hfld Htm Hl).
  Qed.

  Lemma doc_step done (st : IdealSt) n d :
    In d b -> BInv done st -> Forall (fun nd : N * Doc => fst nd < n) done ->
    let st' := process_document norm perm (@log_app interimFreqNorm) (@log_app ELoc)
                 (length F0) st (n, d) in
    BInv (done ++ [(n, d)]) st' /\
    (doc_closed F0 d -> i_flds st = FL0 -> i_flds st' = FL0).
  Proof.
    intros Hd [Hext [HW HI]] Hlt. unfold process_document. cbn [fst snd].
    pose proof (visit_fields F0 (define_fields_NoDup b) d (i_flds st)
                  (repeat 0 (length F0)) (repeat [] (length F0))) as V.
    cbv zeta in V.
    destruct V as [A1 [A2 [A3 A4]]].
    { rewrite <- FL0_fields. apply ext_fl_ext, Hext. }
    { intros f Hf. apply (define_fields_names b d f Hd Hf). }
    { apply repeat_length. }
    { apply repeat_length. }
    set (r := fold_left visit_field d (i_flds st, repeat 0 (length F0), repeat [] (length F0))) in *.
    assert (Est : mkInterim (fst (fst r)) (i_postings st) (i_fn st) (i_locs st) = st).
    { rewrite A1. destruct st; reflexivity. }
    rewrite Est.
    assert (Htfs : forall q', (q' < length F0)%nat -> nth q' (snd r) [] = raw_roll (nth q' F0 []) d).
    { intros q' Hq'. destruct (A4 q' Hq') as [_ X]. rewrite X.
      replace (nth q' (repeat [] (length F0)) []) with (@nil (bytes * TokFreq)); [reflexivity|].
      symmetry. apply nth_repeat. }
    assert (Hlens : forall q', (q' < length F0)%nat ->
               nth q' (snd (fst r)) 0 = sumN (map f_len (instances (nth q' F0 []) d))).
    { intros q' Hq'. destruct (A4 q' Hq') as [X _]. rewrite X, nth_repeat. lia. }
    rewrite (emit_fields_flat norm perm b n (snd (fst r)) (snd r) (seq 0 (length F0)) st Hext).
    2:{ intros fid Hfid. apply in_seq in Hfid. fold FL0. rewrite FL0_fields. lia. }
    pose proof (events_fold FL0 np n (doc_evs norm perm b n (snd (fst r)) (snd r) (seq 0 (length F0)))
                  st Hext HW) as E.
    cbv zeta in E. destruct E as [B1 [B2 [B3 B4]]].
    split.
    - split; [exact B1|]. split; [exact B2|].
      intros q t pid Hq Hpid.
      pose proof (prep_lookup b q t Hq) as PL. rewrite Hpid in PL. destruct PL as [Hpn _].
      destruct (B4 pid Hpn) as [C1 [C2 [els [C3 C4]]]]. rewrite FL0_fields in C4.
      destruct (HI q t pid Hq Hpid) as [I1 [I2 I3]].
      pose proof (sel_doc norm perm Hperm b n d (snd (fst r)) (snd r) q t pid Hd Hq Hpid Htfs) as SD.
      fold F0 in SD. rewrite SD in C1, C2, C4. clear SD.
      rewrite raw_roll_find in C1, C2, C4.
      unfold docs_of, fns_of, rlocs_of. rewrite !flat_map'_app. cbn [flat_map' fst snd].
      fold (docs_of (nth q F0 []) t done). fold (fns_of (nth q F0 []) t done).
      fold (rlocs_of q (nth q F0 []) t done). rewrite !app_nil_r.
      unfold raw_entry in C1, C2, C4. unfold has, raw_locs.
      destruct (matching_terms (nth q F0 []) t d) as [|m ms] eqn:Em.
      + cbn [fold_left map flat_map'] in C1, C2, C4. inversion C4. subst els.
        rewrite C1, C2, C3, I1, I2. cbn [flat_map' map]. rewrite !app_nil_r.
        repeat split. exact I3.
      + cbn [fold_left map flat_map'] in C1, C2, C4. rewrite app_nil_r in C4.
        rewrite C1, C2, C3, I1, I2.
        split; [apply bm_add_last, docs_of_bound, Hlt|].
        split.
        * f_equal. unfold ev_fn, mk_ev, ev_locs, fn_of. cbn [ev_e ev_nrm fst snd].
          unfold implied_freq, implied_norm, raw_locs. rewrite Em.
          fold FL0. rewrite FL0_fields, (Hlens q Hq). reflexivity.
        * apply Forall2_app'; [exact I3|]. unfold mk_ev, ev_locs in C4. cbn [ev_fid ev_e snd] in C4.
          exact C4.
    - intros Hc Hfl. rewrite <- Hfl. apply B3. intros ev l Hev Hl. rewrite Hfl. fold FL0.
      rewrite FL0_fields. exact (doc_evs_closed n d _ _ Hc Htfs ev l Hev Hl).
  Qed.

  Lemma batch_steps rest : forall i done (st : IdealSt),
    (forall d, In d rest -> In d b) -> BInv done st ->
    Forall (fun nd : N * Doc => fst nd < i) done ->
    let st' := fold_left (process_document norm perm (@log_app interimFreqNorm) (@log_app ELoc)
                            (length F0)) (number_from i rest) st in
    BInv (done ++ number_from i rest) st' /\
    ((forall d, In d rest -> doc_closed F0 d) -> i_flds st = FL0 -> i_flds st' = FL0).
  Proof.
    induction rest as [|d rest IH]; intros i done st Hin HB Hlt; cbn [number_from fold_left].
    - rewrite app_nil_r. split; [exact HB | auto].
    - destruct (doc_step done st i d (Hin d (or_introl eq_refl)) HB Hlt) as [S1 S2].
      cbv zeta in S1, S2.
      destruct (IH (i + 1) (done ++ [(i, d)]) _ (fun d' H => Hin d' (or_intror H)) S1) as [T1 T2].
      { apply Forall_app. split.
        - eapply Forall_impl; [|exact Hlt]. cbv beta. intros a Ha. lia.
        - constructor; [cbn [fst]; lia | constructor]. }
      cbv zeta in T1, T2. rewrite <- app_assoc in T1. split; [exact T1|].
      intros Hc Hfl. apply T2; [intros d' H'; apply Hc; right; exact H'|].
      apply S2; [apply Hc; left; reflexivity | exact Hfl].
  Qed.

  Definition ideal_initial : IdealSt :=
    mkInterim FL0 (repeat [] np) (repeat [] (length (p_numTerms (prepared b))))
              (repeat [] (length (p_numLocs (prepared b)))).

  Lemma BInv_initial : BInv [] ideal_initial.
  Proof.
    destruct (prep_lengths b) as [L1 [L2 _]].
    split; [apply ext_refl|]. split.
    - unfold WFI, ideal_initial. cbn [i_postings i_fn i_locs]. rewrite !repeat_length. auto.
    - intros q t pid _ _. unfold ideal_initial. cbn [i_postings i_fn i_locs].
      rewrite !nth_repeat. repeat split. constructor.
  Qed.

  Definition ideal_final : IdealSt := run_ideal norm perm ideal_initial b.

  Theorem ideal_final_inv :
    BInv (number_from 0 b) ideal_final /\
    ((forall d, In d b -> doc_closed F0 d) -> i_flds ideal_final = FL0).
  Proof.
    unfold ideal_final, run_ideal, process_documents.
    assert (E : length (FieldsInv (i_flds ideal_initial)) = length F0).
    { unfold ideal_initial. cbn [i_flds]. rewrite FL0_fields. reflexivity. }
    rewrite E.
    destruct (batch_steps b 0 [] ideal_initial (fun d H => H) BInv_initial (Forall_nil _)) as [T1 T2].
    cbv zeta in T1, T2. cbn [app] in T1. split; [exact T1|].
    intros Hc. apply T2; [exact Hc | reflexivity].
  Qed.
End Batch2.


(* ------------------------------------------------------------------ *)
(* (b) the counting pass bounds the appending pass                     *)
(* ------------------------------------------------------------------ *)
Lemma fns_of_length norm f t b : forall i,
  (length (fns_of norm f t (number_from i b)) <= occ_spec f t b)%nat.
Proof.
  unfold fns_of, occ_spec. induction b as [|d b IH]; intros i; cbn [number_from flat_map' map snd].
  - rewrite list_sum_nil. cbn [length]. lia.
  - rewrite app_length, list_sum_cons. specialize (IH (i + 1)).
    destruct (has f t d) eqn:Eh; cbn [length]; [|lia].
    unfold has in Eh. destruct (matching_terms f t d); [discriminate | cbn [length]; lia].
Qed.

Lemma rlocs_of_length q f t b : forall i,
  length (rlocs_of q f t (number_from i b)) = locs_spec f t b.
Proof.
  unfold rlocs_of, locs_spec. induction b as [|d b IH]; intros i; cbn [number_from flat_map' map snd].
  - reflexivity.
  - rewrite app_length, list_sum_cons, map_length, IH. reflexivity.
Qed.

Lemma Forall2_len {A B} (R : A -> B -> Prop) l m : Forall2 R l m -> length l = length m.
Proof. induction 1; cbn [length]; auto. Qed.

Lemma initial_eq (b : Batch) :
  initial b = mkInterim (i_flds (initial b)) (repeat [] (p_pidNext (prepared b)))
                (arr_make (list_sum (p_numTerms (prepared b))) (p_numTerms (prepared b)))
                (arr_make (list_sum (p_numLocs (prepared b))) (p_numLocs (prepared b))).
Proof.
  destruct (prep_lengths b) as [_ [_ [S1 S2]]]. unfold initial. cbn [i_flds]. rewrite S1, S2. reflexivity.
Qed.

Section Final.
  Variable norm : bytes -> N -> N.
  Variable perm : N -> nat -> TFs -> TFs.
  Hypothesis Hperm : forall n q l, Permutation (perm n q l) l.
  Variable b : Batch.

  Let F0 := define_fields b.
  Let FL0 := i_flds (initial b).
  Let np := p_pidNext (prepared b).
  Let nT := p_numTerms (prepared b).
  Let nL := p_numLocs (prepared b).

  Lemma ideal_bounds :
    (forall pid, (pid < length nT)%nat ->
       (length (nth pid (i_fn (ideal_final norm perm b)) []) <= nth pid nT O)%nat) /\
    (forall pid, (pid < length nL)%nat ->
       (length (nth pid (i_locs (ideal_final norm perm b)) []) <= nth pid nL O)%nat).
  Proof.
    destruct (prep_lengths b) as [L1 [L2 _]].
    destruct (ideal_final_inv norm perm Hperm b) as [[_ [_ HI]] _].
    split; intros pid Hp.
    - destruct (prep_surj b pid ltac:(fold nT in L1; lia)) as [q [t [Hq Hl]]].
      destruct (HI q t pid Hq Hl) as [_ [I2 _]]. rewrite I2.
      pose proof (prep_lookup b q t Hq) as PL. rewrite Hl in PL. destruct PL as [_ [E _]].
      fold nT in E. rewrite E. apply fns_of_length.
    - destruct (prep_surj b pid ltac:(fold nL in L2; lia)) as [q [t [Hq Hl]]].
      destruct (HI q t pid Hq Hl) as [_ [_ I3]]. rewrite (Forall2_len _ _ _ I3).
      pose proof (prep_lookup b q t Hq) as PL. rewrite Hl in PL. destruct PL as [_ [_ [E _]]].
      fold nL in E. rewrite E, rlocs_of_length. lia.
  Qed.

  (* the model proper holds exactly the ideal logs *)
  Theorem convert_ideal :
    let S := convert_inmem norm perm b in
    let I := ideal_final norm perm b in
    i_flds S = i_flds I /\ i_postings S = i_postings I /\
    Sim nT (i_fn S) (i_fn I) /\ Sim nL (i_locs S) (i_locs I).
  Proof.
    destruct (prep_lengths b) as [L1 [L2 _]]. destruct ideal_bounds as [B1 B2].
    unfold convert_inmem. rewrite initial_eq.
    pose proof (phys_ideal norm perm FL0 (repeat [] np) nT nL b) as X. cbv zeta in X.
    unfold ideal_final, ideal_initial in B1, B2. fold FL0 np nT nL in B1, B2.
    fold nT in L1. fold nL in L2.
    assert (E : np = length nT) by (unfold np; lia).
    assert (E' : length nL = length nT) by lia.
    unfold ideal_final, ideal_initial. fold FL0 np nT nL.
    apply X; assumption.
  Qed.

  (* every single append of processDocuments lands inside the window that
     prepareDicts carved for its postings list: replaying the recorded sequence
     of appends, after any number of them every slice is still
     [Win (start of its window) len] with len within the counted size (Sim),
     so no append ever reallocated (no Detached) or touched another window *)
  Theorem windows_disjoint :
    let T := run_trace norm perm (mkInterim FL0 (repeat [] np) [] []) b in
    let aF := arr_make (p_totTFs (prepared b)) nT in
    let aL := arr_make (p_totLocs (prepared b)) nL in
    i_fn (convert_inmem norm perm b) = arr_run aF (i_fn T) /\
    i_locs (convert_inmem norm perm b) = arr_run aL (i_locs T) /\
    (forall tr1 tr2, i_fn T = tr1 ++ tr2 ->
       Sim nT (arr_run aF tr1) (log_run (repeat [] (length nT)) tr1)) /\
    (forall tr1 tr2, i_locs T = tr1 ++ tr2 ->
       Sim nL (arr_run aL tr1) (log_run (repeat [] (length nL)) tr1)).
  Proof.
    intros T aF aL.
    destruct (prep_lengths b) as [L1 [L2 [S1 S2]]]. destruct ideal_bounds as [B1 B2].
    fold nT in L1, S1. fold nL in L2, S2.
    destruct (phys_trace norm perm FL0 (repeat [] np) aF aL b) as [_ [_ [A3 A4]]].
    destruct (ideal_trace norm perm FL0 (repeat [] np) (repeat [] (length nT)) (repeat [] (length nL)) b)
      as [_ [_ [C3 C4]]].
    fold T in A3, A4, C3, C4.
    assert (EI : initial b = mkInterim FL0 (repeat [] np) aF aL).
    { unfold aF, aL. rewrite <- S1, <- S2. apply initial_eq. }
    unfold convert_inmem. rewrite EI. split; [exact A3|]. split; [exact A4|].
    unfold ideal_final, ideal_initial in B1, B2. fold FL0 np nT nL in B1, B2.
    unfold run_ideal in B1, B2. unfold run_ideal in C3, C4.
    replace (length nT) with np in B1, C3 by (unfold np; lia).
    replace (length nL) with np in B1, B2, C3, C4 by (unfold np; lia).
    replace (length nT) with np by (unfold np; lia).
    replace (length nL) with np by (unfold np; lia).
    rewrite C3 in B1. rewrite C4 in B2.
    split; intros tr1 tr2 E.
    - unfold aF. rewrite <- S1. apply (Sim_run_prefix nT tr1 tr2).
      + replace np with (length nT) by (unfold np; lia). apply Sim_init.
      + rewrite <- E. intros pid Hp. apply B1. lia.
    - unfold aL. rewrite <- S2. apply (Sim_run_prefix nL tr1 tr2).
      + replace np with (length nL) by (unfold np; lia). apply Sim_init.
      + rewrite <- E. intros pid Hp. apply B2. lia.
  Qed.
End Final.


(* the same in plain words: after any number of appends every FreqNorms[pid]
   and every Locs[pid] is still a slice of the shared backing array, starting
   at the start of its own window, no longer than the window; the windows
   [off_of c pid, off_of c pid + c[pid]) are pairwise disjoint (windows_ordered)
   and lie inside the backing array *)
Corollary no_detach norm (perm : N -> nat -> TFs -> TFs) (b : Batch) :
  (forall n q l, Permutation (perm n q l) l) ->
  let T := run_trace norm perm
             (mkInterim (i_flds (initial b)) (repeat [] (p_pidNext (prepared b))) [] []) b in
  let nT := p_numTerms (prepared b) in
  let nL := p_numLocs (prepared b) in
  (forall tr1 tr2 pid, i_fn T = tr1 ++ tr2 -> (pid < length nT)%nat ->
     exists len,
       nth pid (slices (arr_run (arr_make (p_totTFs (prepared b)) nT) tr1)) (Detached [])
         = Win (off_of nT pid) len /\
       (len <= nth pid nT O)%nat /\
       (off_of nT pid + nth pid nT O
          <= length (backing (arr_run (arr_make (p_totTFs (prepared b)) nT) tr1)))%nat) /\
  (forall tr1 tr2 pid, i_locs T = tr1 ++ tr2 -> (pid < length nL)%nat ->
     exists len,
       nth pid (slices (arr_run (arr_make (p_totLocs (prepared b)) nL) tr1)) (Detached [])
         = Win (off_of nL pid) len /\
       (len <= nth pid nL O)%nat /\
       (off_of nL pid + nth pid nL O
          <= length (backing (arr_run (arr_make (p_totLocs (prepared b)) nL) tr1)))%nat).
Proof.
  intros Hperm T nT nL.
  destruct (windows_disjoint norm perm Hperm b) as [_ [_ [W1 W2]]].
  split; intros tr1 tr2 pid E Hp.
  - exact (Sim_windows _ _ _ pid (W1 tr1 tr2 E) Hp).
  - exact (Sim_windows _ _ _ pid (W2 tr1 tr2 E) Hp).
Qed.

(* ------------------------------------------------------------------ *)
(* (c) R-build for postings                                            *)
(* ------------------------------------------------------------------ *)
Lemma valid_batch_closed (b : Batch) :
  valid_batch b = true -> forall d, In d b -> doc_closed (define_fields b) d.
Proof.
  unfold valid_batch. intros H d Hd fld tm l Hfld Htm Hl.
  apply andb_true_iff in H. destruct H as [_ H].
  rewrite forallb_forall in H. specialize (H d Hd).
  rewrite forallb_forall in H. specialize (H fld Hfld).
  apply andb_true_iff in H. destruct H as [_ H].
  rewrite forallb_forall in H. specialize (H tm Htm).
  unfold valid_term in H. rewrite !andb_true_iff in H. destruct H as [[[_ _] H] _].
  rewrite forallb_forall in H. specialize (H l Hl).
  unfold valid_loc in H. rewrite !andb_true_iff in H. destruct H as [[[H _] _] _].
  unfold loc_closed. destruct (l_field l) as [|c nm] eqn:E; [left; reflexivity|].
  right. apply (mem_In beq beq_eq) in H. rewrite define_fields_spec. apply field_list_In. right. exact H.
Qed.

Lemma raw_locs_closed F f t d l : doc_closed F d -> In l (raw_locs f t d) -> loc_closed F l.
Proof.
  intros Hc Hl. unfold raw_locs in Hl. apply In_flat_map' in Hl. destruct Hl as [tm [Htm Hl]].
  unfold matching_terms in Htm. apply filter_In in Htm. destruct Htm as [Htm _].
  apply In_flat_map' in Htm. destruct Htm as [fld [Hfld Htm]].
  apply instances_In in Hfld. destruct Hfld as [Hfld _]. exact (Hc fld tm l Hfld Htm Hl).
Qed.

Definition exact_loc (F0 : list bytes) (q : nat) (l : Loc) : ELoc :=
  (opt_default 0 (index_of (fst (resolve_loc (nth q F0 []) l)) F0 0), snd (resolve_loc (nth q F0 []) l)).

Lemma loc_rel_exact F0 q el l :
  NoDup F0 -> (q < length F0)%nat -> loc_closed F0 l -> loc_rel F0 el (q, l) -> el = exact_loc F0 q l.
Proof.
  intros Hnd Hq Hc [H1 H2]. cbn [fst snd] in *. unfold exact_loc, resolve_loc. cbn [fst snd].
  destruct el as [fe se]. cbn [fst snd] in *. subst se. f_equal.
  unfold loc_closed in Hc.
  destruct (l_field l) as [|c nm] eqn:E.
  - rewrite (index_of_nth F0 q 0 Hnd Hq). cbn [opt_default]. lia.
  - destruct Hc as [Hc|Hc]; [discriminate|].
    destruct (index_of_In _ F0 0 Hc) as [i Hi]. rewrite Hi. cbn [opt_default]. apply H2, Hi.
Qed.

Lemma loc_rel_exact_all F0 q els ls :
  NoDup F0 -> (q < length F0)%nat -> (forall l, In l ls -> loc_closed F0 l) ->
  Forall2 (loc_rel F0) els (map (pair q) ls) -> els = map (exact_loc F0 q) ls.
Proof.
  intros Hnd Hq. revert els. induction ls as [|l ls IH]; intros els Hc H; cbn [map] in *.
  - inversion H. reflexivity.
  - inversion H as [|el ? els' ? R1 R2]; subst. f_equal.
    + apply loc_rel_exact; auto. apply Hc. left. reflexivity.
    + apply IH; auto. intros l' Hl'. apply Hc. right. exact Hl'.
Qed.

Lemma firstn_map_app {A} (l1 l2 : list A) (r : list (option A)) :
  firstn (length l1) (map Some (l1 ++ l2) ++ r) = map Some l1.
Proof.
  rewrite map_app, <- app_assoc. rewrite <- (map_length Some l1) at 1.
  rewrite firstn_app, firstn_all, Nat.sub_diag. cbn [firstn]. apply app_nil_r.
Qed.

Lemma skipn_map_app {A} (l1 l2 : list A) (r : list (option A)) :
  skipn (length l1) (map Some (l1 ++ l2) ++ r) = map Some l2 ++ r.
Proof.
  rewrite map_app, <- app_assoc. rewrite <- (map_length Some l1) at 1.
  rewrite skipn_app, skipn_all, Nat.sub_diag. reflexivity.
Qed.

Lemma map_opt_default_Some {A} (d : A) (l : list A) : map (opt_default d) (map Some l) = l.
Proof. rewrite map_map. cbn [opt_default]. apply map_id. Qed.

Lemma implied_locs_raw f t d : implied_locs f t d = map (resolve_loc f) (raw_locs f t d).
Proof. unfold implied_locs, raw_locs. rewrite map_flat_map'. reflexivity. Qed.

Lemma walk_spec norm F0 q f t (nb : list (N * Doc)) :
  NoDup F0 -> (q < length F0)%nat -> f = nth q F0 [] ->
  (forall nd, In nd nb -> doc_closed F0 (snd nd)) ->
  forall els rest, Forall2 (loc_rel F0) els (rlocs_of q f t nb) ->
  walk (docs_of f t nb) (map Some (fns_of norm f t nb)) (map Some els ++ rest) =
  map (to_eposting F0)
      (flat_map' (fun nd : N * Doc =>
                    let '(n, doc) := nd in
                    match matching_terms f t doc with
                    | [] => []
                    | _ => [(n, (implied_freq f t doc, (implied_norm norm f doc, implied_locs f t doc)))]
                    end) nb).
Proof.
  intros Hnd Hq Hf. induction nb as [|[n d] nb IH]; intros Hc els rest HF.
  - reflexivity.
  - unfold docs_of, fns_of, rlocs_of in *. cbn [flat_map' fst snd] in *.
    fold (docs_of f t nb). fold (fns_of norm f t nb). fold (rlocs_of q f t nb) in *.
    assert (Hc' : forall nd, In nd nb -> doc_closed F0 (snd nd)) by (intros nd H; apply Hc; right; exact H).
    apply Forall2_app_inv_r in HF. destruct HF as [els1 [els2 [HF1 [HF2 ->]]]].
    assert (E1 : els1 = map (exact_loc F0 q) (raw_locs f t d)).
    { apply loc_rel_exact_all; auto. intros l Hl.
      apply (raw_locs_closed F0 f t d l); [|exact Hl]. apply (Hc (n, d)). left. reflexivity. }
    unfold has. destruct (matching_terms f t d) as [|m ms] eqn:Em.
    + assert (R : raw_locs f t d = []) by (unfold raw_locs; rewrite Em; reflexivity).
      rewrite R in E1. cbn [map] in E1. subst els1. cbn [app]. apply IH; assumption.
    + cbn [app map walk opt_default]. unfold fn_of at 1.
      rewrite map_app. cbn [map]. f_equal.
      * unfold to_eposting. f_equal. f_equal. f_equal.
        rewrite implied_locs_raw, map_map.
        replace (length (raw_locs f t d)) with (length els1) by (rewrite E1, map_length; reflexivity).
        rewrite <- map_app. rewrite firstn_map_app, map_opt_default_Some. rewrite E1. subst f. reflexivity.
      * replace (length (raw_locs f t d)) with (length els1) by (rewrite E1, map_length; reflexivity).
        rewrite <- map_app. rewrite skipn_map_app. apply IH; assumption.
Qed.

Lemma map_nth_seq {A B} (g : A -> B) (d : A) (l : list A) :
  map g l = map (fun i => g (nth i l d)) (seq 0 (length l)).
Proof.
  induction l as [|x l IH]; cbn [map length seq]; [reflexivity|].
  cbn [nth]. f_equal. rewrite IH, <- seq_shift, map_map. reflexivity.
Qed.

Section RBuild.
  Variable norm : bytes -> N -> N.
  Variable perm : N -> nat -> TFs -> TFs.
  Hypothesis Hperm : forall n q l, Permutation (perm n q l) l.
  Variable b : Batch.

  Let F0 := define_fields b.
  Let A := abs_of_batch norm b.

  (* the sorted DictKeys of a field are the terms of the field *)
  Lemma dict_keys_terms q :
    (q < length F0)%nat -> isort ble (map fst (Dq b q)) = o_terms A (nth q F0 []).
  Proof.
    intros Hq. destruct (prep_keys b q) as [_ [Hnd _]].
    apply strict_sorted_bytes_ext.
    - apply isort_ble_strict, Hnd.
    - apply build_terms_sorted.
    - intros t. rewrite isort_In. unfold A. rewrite build_terms.
      pose proof (prep_lookup b q t Hq) as PL. fold F0 in PL. split.
      + intros Hin. apply assoc_In_key in Hin. destruct Hin as [pid Hp]. rewrite Hp in PL.
        apply occ_spec_pos_inv. tauto.
      + intros [d [Hd Hm]]. pose proof (occ_spec_pos _ _ _ _ Hd Hm) as Hp.
        destruct (assoc t (Dq b q)) as [pid|] eqn:E; [|lia].
        apply assoc_Some_In in E. apply (in_map fst) in E. exact E.
  Qed.

  (* the walk of writeDictsTermField delivers the postings the batch implies *)
  Lemma term_postings_spec q t pid :
    valid_batch b = true -> (q < length F0)%nat -> assoc t (Dq b q) = Some pid ->
    term_postings (convert_inmem norm perm b) (Dq b q) t =
    map (to_eposting F0) (o_postings A (nth q F0 []) t).
  Proof.
    intros Hv Hq Hp.
    destruct (convert_ideal norm perm Hperm b) as [_ [C2 [C3 C4]]].
    destruct (ideal_final_inv norm perm Hperm b) as [[_ [_ HI]] _].
    destruct (HI q t pid Hq Hp) as [I1 [I2 I3]]. fold F0 in I1, I2, I3.
    destruct (prep_lengths b) as [L1 [L2 _]].
    pose proof (prep_lookup b q t Hq) as PL. rewrite Hp in PL. destruct PL as [Hpn _].
    unfold term_postings. rewrite Hp. cbn [opt_default]. rewrite C2, I1.
    rewrite (Sim_elems _ _ _ pid C3) by lia. rewrite I2.
    destruct (Sim_cap _ _ _ pid C4 ltac:(lia)) as [rest ->].
    unfold A. rewrite build_postings.
    apply (walk_spec norm F0 q); auto.
    - apply define_fields_NoDup.
    - intros nd Hnd. destruct nd as [n d]. apply number_from_In in Hnd. destruct Hnd as [Hd _].
      apply valid_batch_closed; assumption.
  Qed.

  Theorem R_build_postings :
    valid_batch b = true ->
    build_postings_model norm perm b =
    map (fun f => (f, map (fun t => (t, map (to_eposting F0) (o_postings A f t))) (o_terms A f))) F0.
  Proof.
    intros Hv. unfold build_postings_model.
    destruct (convert_ideal norm perm Hperm b) as [C1 _].
    destruct (ideal_final_inv norm perm Hperm b) as [_ HC].
    rewrite C1, HC by (apply valid_batch_closed; exact Hv).
    destruct (initial_flds b) as [EF ED].
    assert (EK : DictKeys (i_flds (initial b)) = map (isort ble) (DictKeys (p_flds (prepared b))))
      by reflexivity.
    rewrite EF, ED, EK, map_length.
    destruct (prep_keys b 0) as [_ [_ LK]]. rewrite LK. fold F0.
    rewrite (map_nth_seq _ [] F0).
    apply map_ext_in. intros q Hq. apply in_seq in Hq. destruct Hq as [_ Hq]. cbn [plus] in Hq.
    f_equal.
    replace (nth q (map (isort ble) (DictKeys (p_flds (prepared b)))) [])
      with (isort ble (nth q (DictKeys (p_flds (prepared b))) []))
      by (symmetry; exact (map_nth (isort ble) (DictKeys (p_flds (prepared b))) [] q)).
    destruct (prep_keys b q) as [KQ _]. rewrite KQ. fold (Dq b q).
    rewrite (dict_keys_terms q Hq).
    apply map_ext_in. intros t Ht. f_equal.
    assert (Ht' : In t (isort ble (map fst (Dq b q)))) by (rewrite (dict_keys_terms q Hq); exact Ht).
    apply isort_In in Ht'.
    apply assoc_In_key in Ht'. destruct Ht' as [pid Hp].
    exact (term_postings_spec q t pid Hv Hq Hp).
  Qed.
End RBuild.

(* the same, read field by field: the entry of field f lists the terms of f in
   order, each with the postings the batch implies *)
Corollary R_build_postings_field norm (perm : N -> nat -> TFs -> TFs) (b : Batch) (f : bytes) :
  (forall n q l, Permutation (perm n q l) l) ->
  valid_batch b = true -> In f (define_fields b) ->
  find (fun e => beq (fst e) f) (build_postings_model norm perm b) =
  Some (f, map (fun t => (t, map (to_eposting (define_fields b))
                                 (o_postings (abs_of_batch norm b) f t)))
               (o_terms (abs_of_batch norm b) f)).
Proof.
  intros Hperm Hv Hin. rewrite (R_build_postings norm perm Hperm b Hv).
  rewrite (find_map_pair
             (fun f => map (fun t => (t, map (to_eposting (define_fields b))
                                             (o_postings (abs_of_batch norm b) f t)))
                           (o_terms (abs_of_batch norm b) f))).
  apply (mem_In beq beq_eq) in Hin. rewrite Hin. reflexivity.
Qed.

(* the result does not depend on the order in which Go iterates over the
   per-document term maps *)
Corollary build_perm_independent norm (perm1 perm2 : N -> nat -> TFs -> TFs) (b : Batch) :
  (forall n q l, Permutation (perm1 n q l) l) ->
  (forall n q l, Permutation (perm2 n q l) l) ->
  valid_batch b = true ->
  build_postings_model norm perm1 b = build_postings_model norm perm2 b.
Proof.
  intros H1 H2 Hv. rewrite (R_build_postings norm perm1 H1 b Hv), (R_build_postings norm perm2 H2 b Hv).
  reflexivity.
Qed.


(* ------------------------------------------------------------------ *)
(* the layers (c2)-(c4) on the model proper, without the input contract *)
(* ------------------------------------------------------------------ *)
(* For the postings list pid of (field q, term t):
   (c2) Postings[pid] is the ascending list of the documents having the term;
   (c3) the freq/norm window holds one entry per such document, in document
        order: summed frequency, norm of the summed lengths, number of
        rolled-up locations;
   (c4) the location window is the concatenation of the rolled-up locations,
        each with the position data of the input location and the field id
        required by loc_rel (own field id for "", index in the field list for
        a known name). *)
Theorem build_windows norm (perm : N -> nat -> TFs -> TFs) (b : Batch) q t pid :
  (forall n q l, Permutation (perm n q l) l) ->
  (q < length (define_fields b))%nat -> assoc t (Dq b q) = Some pid ->
  let S := convert_inmem norm perm b in
  let f := nth q (define_fields b) [] in
  nth pid (i_postings S) [] = docs_of f t (number_from 0 b) /\
  slice_elems (i_fn S) pid = map Some (fns_of norm f t (number_from 0 b)) /\
  exists els, slice_elems (i_locs S) pid = map Some els /\
              Forall2 (loc_rel (define_fields b)) els (rlocs_of q f t (number_from 0 b)).
Proof.
  intros Hperm Hq Hp S f.
  destruct (convert_ideal norm perm Hperm b) as [_ [C2 [C3 C4]]].
  destruct (ideal_final_inv norm perm Hperm b) as [[_ [_ HI]] _].
  destruct (HI q t pid Hq Hp) as [I1 [I2 I3]].
  destruct (prep_lengths b) as [L1 [L2 _]].
  pose proof (prep_lookup b q t Hq) as PL. rewrite Hp in PL. destruct PL as [Hpn _].
  unfold S. rewrite C2, I1. split; [reflexivity|].
  rewrite (Sim_elems _ _ _ pid C3) by lia. rewrite I2. split; [reflexivity|].
  rewrite (Sim_elems _ _ _ pid C4) by lia. eexists. split; [reflexivity | exact I3].
Qed.

(* ------------------------------------------------------------------ *)
(* (d) a worked example                                                *)
(* ------------------------------------------------------------------ *)
(* three documents; the second carries field "b" twice, both instances have
   the term "cat" (frequencies 2 and 3) and "dog" occurs in one instance only;
   locations name the other field "a", the field "_id", or nothing.  The
   over-counted window of ("b","cat") (3 occurrences, 2 documents) keeps one
   unused cell. *)
Definition exb_a : bytes := [97].
Definition exb_b : bytes := [98].
Definition exb_cat : bytes := [99; 97; 116].
Definition exb_dog : bytes := [100; 111; 103].
Definition exb_emu : bytes := [101].
Definition exb_d0 : Doc :=
  [ mkField id_name 1 true false [48] [mkTerm [48] 1 []];
    mkField exb_b 2 false false []
      [ mkTerm exb_dog 1 [mkLoc [] 1 0 3]; mkTerm exb_cat 1 [mkLoc exb_a 2 4 7] ] ].
Definition exb_d1 : Doc :=
  [ mkField id_name 1 true false [49] [mkTerm [49] 1 []];
    mkField exb_b 2 false false []
      [ mkTerm exb_cat 2 [mkLoc [] 1 0 3; mkLoc exb_a 2 4 7]; mkTerm exb_emu 1 [] ];
    mkField exb_a 1 false false [] [ mkTerm exb_dog 1 [mkLoc [] 1 0 3] ];
    mkField exb_b 4 false false []
      [ mkTerm exb_dog 1 []; mkTerm exb_cat 3 [mkLoc [] 5 10 13; mkLoc id_name 7 20 23] ] ].
Definition exb_d2 : Doc :=
  [ mkField id_name 1 true false [50] [mkTerm [50] 1 []];
    mkField exb_a 3 false false [] [ mkTerm exb_cat 1 [mkLoc exb_b 9 9 9] ] ].
Definition exb_batch : Batch := [exb_d0; exb_d1; exb_d2].
Definition exb_norm (f : bytes) (n : N) : N := 100 + n.
Definition perm_id (n : N) (q : nat) (l : TFs) : TFs := l.
Definition perm_rev (n : N) (q : nat) (l : TFs) : TFs := rev l.

Definition exb_result : list (bytes * list (bytes * list EPosting)) :=
  [ (id_name,
     [ ([48], [(0, (1, (101, [])))]);
       ([49], [(1, (1, (101, [])))]);
       ([50], [(2, (1, (101, [])))]) ]);
    (exb_a,
     [ (exb_cat, [(2, (1, (103, [(2, (9, (9, 9)))])))]);
       (exb_dog, [(1, (1, (101, [(1, (1, (0, 3)))])))]) ]);
    (exb_b,
     [ (exb_cat, [ (0, (1, (102, [(1, (2, (4, 7)))])));
                   (1, (5, (106, [(2, (1, (0, 3))); (1, (2, (4, 7)));
                                  (2, (5, (10, 13))); (0, (7, (20, 23)))]))) ]);
       (exb_dog, [ (0, (1, (102, [(2, (1, (0, 3)))]))); (1, (1, (106, []))) ]);
       (exb_emu, [ (1, (1, (106, []))) ]) ]) ].

Example build_model_example :
  valid_batch exb_batch = true /\
  build_postings_model exb_norm perm_id exb_batch = exb_result /\
  build_postings_model exb_norm perm_rev exb_batch = exb_result /\
  map (fun f => (f, map (fun t => (t, map (to_eposting (define_fields exb_batch))
                                           (o_postings (abs_of_batch exb_norm exb_batch) f t)))
                        (o_terms (abs_of_batch exb_norm exb_batch) f)))
      (define_fields exb_batch) = exb_result /\
  (* the freq/norm backing array after the run: the cell at index 5 was counted
     (third occurrence of ("b","cat")) but never written *)
  map (fun o => match o with Some _ => true | None => false end)
      (backing (i_fn (convert_inmem exb_norm perm_rev exb_batch)))
  = [true; true; true; true; true; false; true; true; true; true; true] /\
  slices (i_fn (convert_inmem exb_norm perm_rev exb_batch))
  = [Win 0 1; Win 1 2; Win 3 2; Win 6 1; Win 7 1; Win 8 1; Win 9 1; Win 10 1].
Proof. vm_compute. repeat split; reflexivity. Qed.

Lemma perm_rev_ok : forall n q l, Permutation (perm_rev n q l) l.
Proof. intros n q l. apply Permutation_sym, Permutation_rev. Qed.
Lemma perm_id_ok : forall n q l, Permutation (perm_id n q l) l.
Proof. intros n q l. apply Permutation_refl. Qed.

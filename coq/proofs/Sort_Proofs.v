From Coq Require Import List NArith Bool Lia Sorting Permutation.
From Ice Require Import Base.
Import ListNotations.
Open Scope N_scope.

(* ------------------------------------------------------------------ *)
(* byte-string equality and order                                      *)
(* ------------------------------------------------------------------ *)

Lemma beq_eq (a b : bytes) : beq a b = true <-> a = b.
Proof.
  revert b; induction a as [|x a IH]; intros [|y b]; cbn [beq].
  - split; reflexivity.
  - split; discriminate.
  - split; discriminate.
  - rewrite andb_true_iff, N.eqb_eq, IH. split.
    + intros [-> ->]; reflexivity.
    + intros H; inversion H; auto.
Qed.

Lemma beq_refl (a : bytes) : beq a a = true.
Proof. apply beq_eq; reflexivity. Qed.

Lemma bcmp_eq (a b : bytes) : bcmp a b = Eq <-> a = b.
Proof.
  revert b; induction a as [|x a IH]; intros [|y b]; cbn [bcmp].
  - split; reflexivity.
  - split; discriminate.
  - split; discriminate.
  - destruct (N.compare_spec x y) as [E|L|G].
    + subst. rewrite IH. split.
      * intros ->; reflexivity.
      * intros H; inversion H; reflexivity.
    + split; [discriminate|]. intros H; inversion H; subst; lia.
    + split; [discriminate|]. intros H; inversion H; subst; lia.
Qed.

Lemma bcmp_refl (a : bytes) : bcmp a a = Eq.
Proof. apply bcmp_eq; reflexivity. Qed.

Lemma bcmp_antisym (a b : bytes) : bcmp b a = CompOpp (bcmp a b).
Proof.
  revert b; induction a as [|x a IH]; intros [|y b]; cbn [bcmp]; try reflexivity.
  rewrite (N.compare_antisym x y).
  destruct (x ?= y); cbn [CompOpp]; auto.
Qed.

Lemma bcmp_lt_trans (a b c : bytes) :
  bcmp a b = Lt -> bcmp b c = Lt -> bcmp a c = Lt.
Proof.
  revert b c; induction a as [|x a IH]; intros [|y b] [|z c]; cbn [bcmp];
    try discriminate; try reflexivity.
  intros H1 H2.
  destruct (N.compare_spec x y), (N.compare_spec y z), (N.compare_spec x z);
    try discriminate; try reflexivity; try lia.
  eapply IH; eauto.
Qed.

Lemma blt_trans (a b c : bytes) : blt a b = true -> blt b c = true -> blt a c = true.
Proof.
  unfold blt.
  destruct (bcmp a b) eqn:E1; try discriminate.
  destruct (bcmp b c) eqn:E2; try discriminate.
  rewrite (bcmp_lt_trans a b c E1 E2). reflexivity.
Qed.

Lemma blt_irrefl (a : bytes) : blt a a = false.
Proof. unfold blt. rewrite bcmp_refl. reflexivity. Qed.

Lemma ble_total (a b : bytes) : ble a b = true \/ ble b a = true.
Proof.
  unfold ble. rewrite (bcmp_antisym a b).
  destruct (bcmp a b); cbn [CompOpp]; auto.
Qed.

Lemma ble_lt_or_eq (a b : bytes) : ble a b = true <-> (blt a b = true \/ a = b).
Proof.
  unfold ble, blt. destruct (bcmp a b) eqn:E.
  - apply bcmp_eq in E. split; auto.
  - split; auto.
  - split; [discriminate|]. intros [H|H]; [discriminate|].
    apply bcmp_eq in H. congruence.
Qed.

Lemma ble_refl (a : bytes) : ble a a = true.
Proof. apply ble_lt_or_eq; auto. Qed.

Lemma ble_trans (a b c : bytes) : ble a b = true -> ble b c = true -> ble a c = true.
Proof.
  rewrite !ble_lt_or_eq. intros [H1|H1] [H2|H2]; subst; auto.
  left. eapply blt_trans; eauto.
Qed.

Lemma ble_antisym (a b : bytes) : ble a b = true -> ble b a = true -> a = b.
Proof.
  unfold ble. rewrite (bcmp_antisym a b).
  destruct (bcmp a b) eqn:E; cbn [CompOpp]; try discriminate.
  intros _ _. apply bcmp_eq; assumption.
Qed.

Lemma blt_ble_neq (a b : bytes) : blt a b = true <-> (ble a b = true /\ a <> b).
Proof.
  split.
  - intros H. split.
    + apply ble_lt_or_eq; auto.
    + intros ->. rewrite blt_irrefl in H. discriminate.
  - intros [H1 H2]. apply ble_lt_or_eq in H1. destruct H1; [assumption|contradiction].
Qed.

(* ------------------------------------------------------------------ *)
(* generic insertion sort                                              *)
(* ------------------------------------------------------------------ *)

Section IsortGeneric.
  Context {A : Type} (le : A -> A -> bool).
  Hypothesis le_total : forall a b, le a b = true \/ le b a = true.
  Hypothesis le_trans : forall a b c, le a b = true -> le b c = true -> le a c = true.

  Lemma insert_sorted_perm (x : A) (l : list A) :
    Permutation (insert_sorted le x l) (x :: l).
  Proof.
    induction l as [|y l IH]; cbn [insert_sorted].
    - reflexivity.
    - destruct (le x y).
      + reflexivity.
      + eapply perm_trans; [apply perm_skip, IH | apply perm_swap].
  Qed.

  Lemma isort_perm (l : list A) : Permutation (isort le l) l.
  Proof.
    induction l as [|x l IH]; cbn [isort].
    - constructor.
    - eapply perm_trans; [apply insert_sorted_perm | apply perm_skip, IH].
  Qed.

  Lemma isort_In (l : list A) (x : A) : In x (isort le l) <-> In x l.
  Proof.
    split; apply Permutation_in.
    - apply isort_perm.
    - apply Permutation_sym, isort_perm.
  Qed.

  Lemma isort_length (l : list A) : length (isort le l) = length l.
  Proof. apply Permutation_length, isort_perm. Qed.

  Lemma insert_sorted_sorted (x : A) (l : list A) :
    StronglySorted (fun a b => le a b = true) l ->
    StronglySorted (fun a b => le a b = true) (insert_sorted le x l).
  Proof.
    induction 1 as [|y l Hs IH Hf]; cbn [insert_sorted].
    - constructor; constructor.
    - destruct (le x y) eqn:E.
      + constructor.
        * constructor; auto.
        * constructor; auto.
          eapply Forall_impl; [|exact Hf]. intros z Hz. cbv beta in *.
          eapply le_trans; eauto.
      + constructor; auto.
        apply Forall_forall. intros z Hz.
        apply (Permutation_in _ (insert_sorted_perm x l)) in Hz.
        destruct Hz as [<-|Hz].
        * destruct (le_total x y); congruence.
        * rewrite Forall_forall in Hf; auto.
  Qed.

  Lemma isort_sorted (l : list A) :
    StronglySorted (fun a b => le a b = true) (isort le l).
  Proof.
    induction l as [|x l IH]; cbn [isort].
    - constructor.
    - apply insert_sorted_sorted, IH.
  Qed.
End IsortGeneric.

(* ------------------------------------------------------------------ *)
(* mem / dedup_adj                                                     *)
(* ------------------------------------------------------------------ *)

Lemma mem_In {A} (eqb : A -> A -> bool)
      (eqb_eq : forall a b, eqb a b = true <-> a = b) (x : A) (l : list A) :
  mem eqb x l = true <-> In x l.
Proof.
  induction l as [|y l IH]; cbn [mem In].
  - split; [discriminate|tauto].
  - rewrite orb_true_iff, eqb_eq, IH. split; intros [H|H]; auto.
Qed.

Lemma dedup_adj_cons2 {A} (eqb : A -> A -> bool) (x y : A) (l : list A) :
  dedup_adj eqb (x :: y :: l) =
  if eqb x y then dedup_adj eqb (y :: l) else x :: dedup_adj eqb (y :: l).
Proof. reflexivity. Qed.

Lemma dedup_adj_In {A} (eqb : A -> A -> bool)
      (eqb_eq : forall a b, eqb a b = true <-> a = b) (l : list A) (x : A) :
  In x (dedup_adj eqb l) <-> In x l.
Proof.
  induction l as [|a l IH].
  - cbn. tauto.
  - destruct l as [|y l].
    + cbn. tauto.
    + rewrite dedup_adj_cons2. destruct (eqb a y) eqn:E.
      * apply eqb_eq in E. subst a. rewrite IH. cbn [In]. tauto.
      * change (In x (a :: dedup_adj eqb (y :: l))) with
            (a = x \/ In x (dedup_adj eqb (y :: l))).
        rewrite IH. cbn [In]. tauto.
Qed.

Section DedupSorted.
  Context {A : Type} (eqb : A -> A -> bool).
  Hypothesis eqb_eq : forall a b, eqb a b = true <-> a = b.
  Variables R S : A -> A -> Prop.
  Hypothesis R_antisym : forall a b, R a b -> R b a -> a = b.
  Hypothesis S_intro : forall a b, R a b -> a <> b -> S a b.

  Lemma dedup_adj_sorted (l : list A) :
    StronglySorted R l -> StronglySorted S (dedup_adj eqb l).
  Proof.
    induction l as [|x l IH]; intros Hs.
    - constructor.
    - inversion Hs as [|? ? Hs' Hf]; subst.
      destruct l as [|y l].
      + cbn. constructor; constructor.
      + rewrite dedup_adj_cons2. destruct (eqb x y) eqn:E.
        * apply IH; assumption.
        * constructor; [apply IH; assumption|].
          apply Forall_forall. intros z Hz.
          apply (proj1 (dedup_adj_In eqb eqb_eq _ _)) in Hz.
          rewrite Forall_forall in Hf.
          apply S_intro; [apply Hf; assumption|].
          intros Hxz. subst z.
          assert (Hxy : R x y) by (apply Hf; left; reflexivity).
          assert (x = y) as Heq.
          { destruct Hz as [Hz|Hz]; [auto|].
            inversion Hs' as [|? ? _ Hf']; subst.
            rewrite Forall_forall in Hf'.
            apply R_antisym; auto. }
          apply eqb_eq in Heq. congruence.
  Qed.
End DedupSorted.

(* ------------------------------------------------------------------ *)
(* strictly sorted lists are canonical                                 *)
(* ------------------------------------------------------------------ *)

Section StrictExt.
  Context {A : Type} (S : A -> A -> Prop).
  Hypothesis S_irrefl : forall a, ~ S a a.
  Hypothesis S_trans : forall a b c, S a b -> S b c -> S a c.

  Lemma strict_sorted_ext (l1 l2 : list A) :
    StronglySorted S l1 -> StronglySorted S l2 ->
    (forall x, In x l1 <-> In x l2) -> l1 = l2.
  Proof.
    revert l2; induction l1 as [|a l1 IH]; intros [|b l2] H1 H2 Hin.
    - reflexivity.
    - exfalso. apply (Hin b). left; reflexivity.
    - exfalso. apply (Hin a). left; reflexivity.
    - inversion H1 as [|? ? Hs1 Hf1]; subst.
      inversion H2 as [|? ? Hs2 Hf2]; subst.
      rewrite Forall_forall in Hf1, Hf2.
      assert (a = b) as ->.
      { destruct (proj1 (Hin a) (or_introl eq_refl)) as [E|Ha]; [auto|].
        destruct (proj2 (Hin b) (or_introl eq_refl)) as [E|Hb]; [auto|].
        exfalso. apply (S_irrefl a). eapply S_trans; [apply Hf1|apply Hf2]; eauto. }
      f_equal. apply IH; auto.
      intros x; split; intros Hx.
      + destruct (proj1 (Hin x) (or_intror Hx)) as [E|Hx']; [|assumption].
        subst x. exfalso. apply (S_irrefl b). auto.
      + destruct (proj2 (Hin x) (or_intror Hx)) as [E|Hx']; [|assumption].
        subst x. exfalso. apply (S_irrefl b). auto.
  Qed.

  Lemma strict_sorted_NoDup (l : list A) : StronglySorted S l -> NoDup l.
  Proof.
    induction 1 as [|a l Hs IH Hf].
    - constructor.
    - constructor; [|assumption].
      intros Hin. rewrite Forall_forall in Hf. apply (S_irrefl a). auto.
  Qed.
End StrictExt.

Definition strict_sorted_bytes (l : list bytes) : Prop :=
  StronglySorted (fun a b => blt a b = true) l.
Definition strict_sorted_N (l : list N) : Prop :=
  StronglySorted (fun a b => a < b) l.

Lemma strict_sorted_bytes_ext (l1 l2 : list bytes) :
  strict_sorted_bytes l1 -> strict_sorted_bytes l2 ->
  (forall x, In x l1 <-> In x l2) -> l1 = l2.
Proof.
  apply strict_sorted_ext.
  - intros a. rewrite blt_irrefl. discriminate.
  - intros a b c. apply blt_trans.
Qed.

Lemma strict_sorted_N_ext (l1 l2 : list N) :
  strict_sorted_N l1 -> strict_sorted_N l2 ->
  (forall x, In x l1 <-> In x l2) -> l1 = l2.
Proof.
  apply strict_sorted_ext.
  - intros a. apply N.lt_irrefl.
  - intros a b c. apply N.lt_trans.
Qed.

Theorem sort_dedup_bytes_In (l : list bytes) (x : bytes) :
  In x (sort_dedup_bytes l) <-> In x l.
Proof.
  unfold sort_dedup_bytes, sort_bytes.
  rewrite (dedup_adj_In beq beq_eq). apply isort_In.
Qed.

Theorem sort_dedup_bytes_sorted (l : list bytes) :
  strict_sorted_bytes (sort_dedup_bytes l).
Proof.
  unfold strict_sorted_bytes, sort_dedup_bytes, sort_bytes.
  apply (dedup_adj_sorted beq beq_eq (fun a b => ble a b = true)).
  - intros a b. apply ble_antisym.
  - intros a b H1 H2. apply blt_ble_neq. auto.
  - apply isort_sorted.
    + apply ble_total.
    + apply ble_trans.
Qed.

Theorem sort_dedup_bytes_ext (l1 l2 : list bytes) :
  (forall x, In x l1 <-> In x l2) -> sort_dedup_bytes l1 = sort_dedup_bytes l2.
Proof.
  intros H. apply strict_sorted_bytes_ext; try apply sort_dedup_bytes_sorted.
  intros x. rewrite !sort_dedup_bytes_In. apply H.
Qed.

Theorem sort_dedup_bytes_fix (l : list bytes) :
  strict_sorted_bytes l -> sort_dedup_bytes l = l.
Proof.
  intros H. apply strict_sorted_bytes_ext; auto.
  - apply sort_dedup_bytes_sorted.
  - intros x. apply sort_dedup_bytes_In.
Qed.

Theorem sort_dedup_bytes_idem (l : list bytes) :
  sort_dedup_bytes (sort_dedup_bytes l) = sort_dedup_bytes l.
Proof. apply sort_dedup_bytes_fix, sort_dedup_bytes_sorted. Qed.

Theorem sort_bytes_perm (l : list bytes) : Permutation (sort_bytes l) l.
Proof. apply isort_perm. Qed.

Theorem sort_dedup_N_In (l : list N) (x : N) : In x (sort_dedup_N l) <-> In x l.
Proof.
  unfold sort_dedup_N.
  rewrite (dedup_adj_In N.eqb N.eqb_eq). apply isort_In.
Qed.

Theorem sort_dedup_N_sorted (l : list N) : strict_sorted_N (sort_dedup_N l).
Proof.
  unfold strict_sorted_N, sort_dedup_N.
  apply (dedup_adj_sorted N.eqb N.eqb_eq (fun a b => N.leb a b = true)).
  - intros a b H1 H2. apply N.leb_le in H1, H2. lia.
  - intros a b H1 H2. apply N.leb_le in H1. lia.
  - apply isort_sorted.
    + intros a b. rewrite !N.leb_le. lia.
    + intros a b c. rewrite !N.leb_le. lia.
Qed.

Theorem sort_dedup_N_ext (l1 l2 : list N) :
  (forall x, In x l1 <-> In x l2) -> sort_dedup_N l1 = sort_dedup_N l2.
Proof.
  intros H. apply strict_sorted_N_ext; try apply sort_dedup_N_sorted.
  intros x. rewrite !sort_dedup_N_In. apply H.
Qed.

Theorem strict_sorted_N_NoDup (l : list N) : strict_sorted_N l -> NoDup l.
Proof. apply strict_sorted_NoDup. intros a. apply N.lt_irrefl. Qed.

Theorem strict_sorted_bytes_NoDup (l : list bytes) : strict_sorted_bytes l -> NoDup l.
Proof.
  apply strict_sorted_NoDup. intros a. rewrite blt_irrefl. discriminate.
Qed.

Lemma memN_In (x : N) (l : list N) : memN x l = true <-> In x l.
Proof. apply mem_In, N.eqb_eq. Qed.

(* ------------------------------------------------------------------ *)
(* sorting key/value pairs by key                                      *)
(* ------------------------------------------------------------------ *)

Lemma isort_key_perm {B} (l : list (bytes * B)) :
  Permutation (isort (fun a b => ble (fst a) (fst b)) l) l.
Proof. apply isort_perm. Qed.

Lemma isort_key_sorted {B} (l : list (bytes * B)) :
  StronglySorted (fun a b => ble (fst a) (fst b) = true)
                 (isort (fun a b => ble (fst a) (fst b)) l).
Proof.
  apply (isort_sorted (fun a b : bytes * B => ble (fst a) (fst b))).
  - intros a b. apply ble_total.
  - intros a b c. apply ble_trans.
Qed.
